#!/usr/bin/env python3
"""Driver for the /verif model-checking harnesses.

usage: run.py <ID> [quick|thorough] [--replay FILE] [--keep-going]
       run.py --setup            warm the build cache for every registered check
       run.py --list

A check is described by /verif/checks/<ID>.json:
  { "id": "C10", "level": "exploration",
    "steps": [ { "name": "...", "pkg": "./trie", "run": "^TestVerif_C10",
                 "harness": ["trie/zz_verif_C10_test.go"],      (default: harness/<pkg>/zz_verif_<ID>*_test.go + zz_verif_common*_test.go)
                 "budget": {"quick": 40, "thorough": 600},       seconds, internal deadline of the harness
                 "instrument": [ {"file": "event/feed.go", "mode": "sched", ...} ],   see tools/vinstr
                 "env": {"CGO_ENABLED": "0"}, "tiers": ["quick","thorough"], "race": false } ] }

Every step is `go test -tags verif -overlay <ov.json> -vet=off -count=1 -run <re> <pkg>` executed in /repo:
the harness file is overlaid *into* the package under test, the support packages under /verif/shim are overlaid as
virtual packages github.com/ethereum/go-ethereum/internal/verif/<name>, and instrumented files are regenerated from the
file's *current* content. Nothing in /repo is modified.

exit 0: property held on everything explored (evidence written)
exit 1: at least one VIOLATION line printed (not listed in known_findings.json)
exit 2: infrastructure error (build failure, harness crashed without a verdict)
"""
import glob
import json
import os
import re
import shutil
import subprocess
import sys
import time

VERIF = os.path.dirname(os.path.abspath(__file__))
REPO = os.environ.get("VERIF_REPO", "/repo")
# VERIF_OUTDIR redirects build scratch, evidence and replay files (used when running against a scratch worktree
# with a seeded change, so that /verif/evidence is only ever written by runs against /repo itself).
OUTDIR = os.environ.get("VERIF_OUTDIR", VERIF)
BUILD = os.path.join(OUTDIR, ".build")
GOROOT_BIN = "/root/go/pkg/mod/golang.org/toolchain@v0.0.1-go1.24.0.linux-amd64/bin"
MODPATH = "github.com/ethereum/go-ethereum"


def goenv(extra=None):
    env = dict(os.environ)
    env["PATH"] = GOROOT_BIN + ":" + env.get("PATH", "")
    env["GOTOOLCHAIN"] = "local"
    env["GOFLAGS"] = "-mod=mod"
    env["GOPROXY"] = "off"
    env["GOSUMDB"] = "off"
    env["GOCACHE"] = os.path.join(VERIF, ".cache", "go-build")
    env.pop("GOROOT", None)
    if extra:
        env.update({k: str(v) for k, v in extra.items()})
    return env


def load_check(cid):
    p = os.path.join(VERIF, "checks", cid + ".json")
    with open(p) as f:
        return json.load(f)


def all_checks():
    """Checks that are claimed in MANIFEST.json (claimed.txt); others are work in progress."""
    claimed = None
    cp = os.path.join(VERIF, "claimed.txt")
    if os.path.exists(cp):
        claimed = set(open(cp).read().split())
    out = []
    for p in sorted(glob.glob(os.path.join(VERIF, "checks", "C*.json"))):
        cid = os.path.basename(p)[:-5]
        if claimed is None or cid in claimed:
            out.append(cid)
    return out


def ensure_vinstr():
    exe = os.path.join(BUILD, "bin", "vinstr")
    src = os.path.join(VERIF, "tools", "vinstr")
    if not os.path.isdir(src):
        return None
    newest = max(os.path.getmtime(p) for p in glob.glob(os.path.join(src, "*")))
    if os.path.exists(exe) and os.path.getmtime(exe) >= newest:
        return exe
    os.makedirs(os.path.dirname(exe), exist_ok=True)
    env = goenv({"GOFLAGS": ""})
    r = subprocess.run(["go", "build", "-o", exe, "."], cwd=src, env=env, capture_output=True, text=True)
    if r.returncode != 0:
        print("run.py: cannot build vinstr:\n" + r.stdout + r.stderr)
        sys.exit(2)
    return exe


def build_overlay(cid, step, workdir):
    """Returns path of ov.json for one step."""
    rep = {}
    # shim packages -> virtual packages
    for d in sorted(glob.glob(os.path.join(VERIF, "shim", "*"))):
        if not os.path.isdir(d):
            continue
        name = os.path.basename(d)
        for f in sorted(glob.glob(os.path.join(d, "*.go"))):
            rep[os.path.join(REPO, "internal", "verif", name, os.path.basename(f))] = f
    pkg = step["pkg"].lstrip("./")
    harness = step.get("harness")
    if harness is None:
        harness = []
        hd = os.path.join(VERIF, "harness", pkg)
        for f in sorted(glob.glob(os.path.join(hd, "zz_verif_%s*_test.go" % cid))) + \
                sorted(glob.glob(os.path.join(hd, "zz_verif_common*_test.go"))):
            harness.append(os.path.relpath(f, os.path.join(VERIF, "harness")))
    if not harness:
        print("run.py: no harness files for %s step %s" % (cid, step.get("name")))
        sys.exit(2)
    for h in harness:
        src = os.path.join(VERIF, "harness", h)
        if not os.path.exists(src):
            print("run.py: missing harness file " + src)
            sys.exit(2)
        rep[os.path.join(REPO, h)] = src
    # instrumented files, regenerated from the current tree
    instr = step.get("instrument") or []
    if instr:
        exe = ensure_vinstr()
        gen = os.path.join(workdir, "gen")
        shutil.rmtree(gen, ignore_errors=True)
        os.makedirs(gen)
        for spec in instr:
            files = spec["files"] if "files" in spec else [spec["file"]]
            consts_found = set()
            for rel in files:
                srcs = sorted(glob.glob(os.path.join(REPO, rel))) if any(c in rel for c in "*?[") else [os.path.join(REPO, rel)]
                for src in srcs:
                    relp = os.path.relpath(src, REPO)
                    if relp.endswith("_test.go") and not spec.get("tests"):
                        continue
                    dst = os.path.join(gen, relp.replace("/", "__"))
                    cfg = dict(spec)
                    cfg.pop("files", None)
                    cfg.pop("file", None)
                    cfgp = dst + ".cfg.json"
                    with open(cfgp, "w") as f:
                        json.dump(cfg, f)
                    r = subprocess.run([exe, "-in", src, "-out", dst, "-cfg", cfgp], capture_output=True, text=True)
                    if r.returncode != 0:
                        print("run.py: vinstr failed on %s:\n%s%s" % (relp, r.stdout, r.stderr))
                        sys.exit(2)
                    rep[src] = dst
                    try:
                        with open(dst + ".report.json") as f:
                            consts_found.update(json.load(f).get("consts_found") or [])
                    except Exception:
                        pass
            missing = [c for c in (spec.get("consts") or {}) if c not in consts_found]
            if missing:
                print("run.py: scaled constants %s not found in %s (renamed upstream?)" % (missing, files))
                sys.exit(2)
    ov = os.path.join(workdir, "ov.json")
    with open(ov, "w") as f:
        json.dump({"Replace": rep}, f, indent=1)
    return ov


def run_step(cid, step, tier, replay=None, budget_override=None, compile_only=False):
    name = step.get("name") or step["pkg"].strip("./").replace("/", "_")
    workdir = os.path.join(BUILD, cid, name)
    os.makedirs(workdir, exist_ok=True)
    ov = build_overlay(cid, step, workdir)
    out = os.path.join(workdir, "result.json")
    if os.path.exists(out):
        os.remove(out)
    budget = step.get("budget", {}).get(tier, 60 if tier == "quick" else 900)
    if budget_override:
        budget = budget_override
    outer = int(budget * 2.5 + 600)
    env = goenv(step.get("env"))
    env["VERIF_TIER"] = tier
    env["VERIF_OUT"] = out
    env["VERIF_BUDGET_S"] = str(budget)
    env["VERIF_SCRATCH"] = os.path.join(workdir, "scratch")
    shutil.rmtree(env["VERIF_SCRATCH"], ignore_errors=True)
    os.makedirs(env["VERIF_SCRATCH"], exist_ok=True)
    env.setdefault("VERIF_SEED", "0")
    if replay:
        env["VERIF_REPLAY"] = replay
    else:
        env.pop("VERIF_REPLAY", None)
    tags = "verif"
    if step.get("tags"):
        tags += "," + step["tags"]
    cmd = ["go", "test", "-tags", tags, "-overlay", ov, "-vet=off", "-count=1"]
    if step.get("race"):
        cmd.append("-race")
    if compile_only:
        cmd += ["-run", "^$", step["pkg"]]
    else:
        cmd += ["-run", step["run"], "-timeout", "%ds" % outer, "-v", step["pkg"]]
    log = os.path.join(workdir, "log.txt")
    t0 = time.time()
    with open(log, "w") as lf:
        try:
            p = subprocess.run(cmd, cwd=REPO, env=env, stdout=lf, stderr=subprocess.STDOUT, timeout=outer + 120)
            rc = p.returncode
        except subprocess.TimeoutExpired:
            rc = -9
    shutil.rmtree(env["VERIF_SCRATCH"], ignore_errors=True)
    wall = time.time() - t0
    res = None
    if os.path.exists(out):
        try:
            with open(out) as f:
                res = json.load(f)
        except Exception:
            res = None
    race = False
    if step.get("race") and not compile_only:
        try:
            race = "WARNING: DATA RACE" in open(log, errors="replace").read()
        except Exception:
            race = False
    return {"name": name, "rc": rc, "res": res, "log": log, "wall": wall, "step": step, "race": race}


def tail(path, n=40):
    try:
        with open(path, errors="replace") as f:
            return "".join(f.readlines()[-n:])
    except Exception:
        return ""


def classify_failure(log):
    """Distinguish build failures (infrastructure) from run-time crashes."""
    txt = open(log, errors="replace").read()
    if "[build failed]" in txt or "[setup failed]" in txt or re.search(r"^# ", txt, re.M) and "=== RUN" not in txt:
        return "build"
    if "=== RUN" in txt:
        return "crash"
    return "build"


def load_known():
    p = os.path.join(VERIF, "known_findings.json")
    if not os.path.exists(p):
        return []
    with open(p) as f:
        return json.load(f).get("findings", [])


def main():
    args = sys.argv[1:]
    if not args or args[0] in ("-h", "--help"):
        print(__doc__)
        sys.exit(2)
    if args[0] == "--list":
        print("\n".join(all_checks()))
        return
    if args[0] == "--setup":
        return setup(args[1:])
    cid = args[0]
    tier = os.environ.get("VERIF_TIER_FORCE") or (args[1] if len(args) > 1 and not args[1].startswith("--") else "quick")
    replay = None
    budget_override = None
    only = None
    if "--replay" in args:
        replay = os.path.abspath(args[args.index("--replay") + 1])
    if "--budget" in args:
        budget_override = float(args[args.index("--budget") + 1])
    if "--step" in args:
        only = args[args.index("--step") + 1]
    check = load_check(cid)
    t0 = time.time()
    seed = int(os.environ.get("VERIF_SEED", "0") or 0)
    steps = [s for s in check["steps"] if tier in s.get("tiers", ["quick", "thorough"])]
    if only:
        steps = [s for s in steps if (s.get("name") or "") == only]
    if replay:
        with open(replay) as f:
            rp = json.load(f)
        if rp.get("step"):
            steps = [s for s in check["steps"] if (s.get("name") or s["pkg"].strip("./").replace("/", "_")) == rp["step"]]
    results = []
    infra = []
    for s in steps:
        r = run_step(cid, s, tier, replay=replay, budget_override=budget_override)
        results.append(r)
        if r["res"] is None:
            kind = classify_failure(r["log"])
            infra.append((r, kind))
    # ---- merge
    cov = {"evaluations": 0, "distinct_nontrivial": 0, "states": 0, "transitions": 0,
           "traces_validated_against_impl": 0, "rule": "", "samples": [], "exhaustive": True,
           "bounds": {}, "outcomes": {}, "steps": []}
    assumptions = []
    violations = []
    harness_errors = []
    rules = []
    for r in results:
        res = r["res"]
        if res is None:
            cov["exhaustive"] = False
            cov["steps"].append({"step": r["name"], "status": "no-result", "wall_s": round(r["wall"], 1)})
            continue
        for k in ("evaluations", "distinct_nontrivial", "states", "transitions", "traces_validated_against_impl"):
            cov[k] += int(res.get(k, 0) or 0)
        if res.get("rule"):
            rules.append("[%s] %s" % (r["name"], res["rule"]))
        for smp in res.get("samples", [])[:8]:
            cov["samples"].append({"step": r["name"], "case": smp})
        cov["exhaustive"] = cov["exhaustive"] and bool(res.get("exhaustive"))
        for k, v in (res.get("bounds") or {}).items():
            cov["bounds"]["%s/%s" % (r["name"], k)] = v
        for k, v in (res.get("outcomes") or {}).items():
            cov["outcomes"]["%s/%s" % (r["name"], k)] = v
        for a in res.get("assumptions") or []:
            if a not in assumptions:
                assumptions.append(a)
        cov["steps"].append({"step": r["name"], "test": res.get("test"), "evaluations": res.get("evaluations"),
                             "distinct_nontrivial": res.get("distinct_nontrivial"), "states": res.get("states", 0),
                             "transitions": res.get("transitions", 0), "exhaustive": res.get("exhaustive"),
                             "violations": res.get("n_violations"), "wall_s": round(res.get("wall_s", 0), 1)})
        for v in res.get("violations") or []:
            violations.append((r, v))
        for h in res.get("harness_errors") or []:
            harness_errors.append((r, h))
    cov["rule"] = " ;; ".join(rules)
    if not cov["samples"]:
        cov["samples"] = []
    if cov["states"] == 0:
        for k in ("states", "transitions", "traces_validated_against_impl"):
            cov.pop(k)
    # ---- violations vs known findings
    known = [k for k in load_known() if k.get("property") == cid]
    new_viol = []
    known_hit = []
    for r, v in violations:
        hit = None
        for k in known:
            if k.get("key") == v["key"] or (k.get("key_contains") and k["key_contains"] in v["key"]):
                hit = k
        if hit:
            known_hit.append((hit, v))
        else:
            new_viol.append((r, v))
    # crashes of the test binary without a verdict are reported as violations (the code under test brought the
    # process down: fatal error, deadlock, os.Exit); build failures are infrastructure errors.
    crash_viol = []
    for r, kind in infra:
        if kind == "crash":
            crash_viol.append(r)
    rdir = os.path.join(OUTDIR, "replay", cid)
    lines = []
    if (new_viol or crash_viol) and not replay:
        shutil.rmtree(rdir, ignore_errors=True)
        os.makedirs(rdir, exist_ok=True)
    n = 0
    confirmed_viol = []
    for r, v in new_viol:
        n += 1
        path = os.path.join(rdir, "%d.json" % n)
        if not replay:
            with open(path, "w") as f:
                json.dump({"property": cid, "step": r["name"], "test": r["res"].get("test"), "key": v["key"],
                           "desc": v["desc"], "replay": v.get("replay"), "tier": tier}, f, indent=1)
        else:
            path = replay
        confirmed_viol.append((r, v, path))
    # confirmation: re-execute the first few violations from their replay files; a violation that does not
    # reproduce is an infrastructure error (non-determinism), not a verdict.
    unconfirmed = 0
    if not replay and check.get("confirm", True):
        for r, v, path in confirmed_viol[:3]:
            if v.get("replay") is None:
                continue
            ok_all = True
            for _ in range(int(check.get("confirm_runs", 2))):
                rr = run_step(cid, r["step"], tier, replay=path)
                res2 = rr["res"]
                if res2 is None or not res2.get("replay_hit"):
                    ok_all = None  # cannot replay this kind of case: keep the verdict
                    break
                if not any(x["key"] == v["key"] for x in res2.get("violations") or []):
                    ok_all = False
                    break
            if ok_all is False:
                unconfirmed += 1
                v["unconfirmed"] = True
    for r, v, path in confirmed_viol:
        if v.get("unconfirmed"):
            continue
        lines.append("VIOLATION property=%s replay=%s" % (cid, path))
        print("  [%s] %s\n  %s" % (r["name"], v["key"][:300], v["desc"][:1500].replace("\n", "\n  ")))
    # auxiliary free-running -race steps: a race report of the Go race detector is a violation (the detector has no
    # false positives; the harness bodies themselves are race-free by construction)
    for r in results:
        if r.get("race"):
            n += 1
            path = os.path.join(rdir, "%d.race.log" % n)
            if not replay:
                os.makedirs(rdir, exist_ok=True)
                shutil.copy(r["log"], path)
            lines.append("VIOLATION property=%s replay=%s" % (cid, path))
            txt = open(r["log"], errors="replace").read()
            i = txt.find("WARNING: DATA RACE")
            print("  [%s] data race reported by the race detector:\n%s" % (r["name"], txt[i:i + 2500]))
    for r in crash_viol:
        n += 1
        path = os.path.join(rdir, "%d.crash.log" % n)
        if not replay:
            shutil.copy(r["log"], path)
        lines.append("VIOLATION property=%s replay=%s" % (cid, path))
        print("  [%s] test binary died without a verdict (rc=%s); log tail:\n%s" % (r["name"], r["rc"], tail(r["log"], 60)))
    for k, v in known_hit:
        print("KNOWN-FINDING: property=%s %s" % (cid, k.get("what", v["key"])))
    wall = time.time() - t0
    ev = {"property_id": cid, "tier": tier, "seed": seed, "level": check["level"], "coverage": cov,
          "assumptions": assumptions, "wall_s": round(wall, 2), "violations": len(lines)}
    if not replay:
        os.makedirs(os.path.join(OUTDIR, "evidence"), exist_ok=True)
        with open(os.path.join(OUTDIR, "evidence", cid + ".json"), "w") as f:
            json.dump(ev, f, indent=1)
    summary = "%s %s: evaluations=%d distinct=%d states=%s transitions=%s exhaustive=%s wall=%.1fs" % (
        cid, tier, cov["evaluations"], cov["distinct_nontrivial"], cov.get("states", "-"), cov.get("transitions", "-"),
        cov["exhaustive"], wall)
    print(summary)
    for l in lines:
        print(l)
    if lines:
        sys.exit(1)
    build_fail = [r for r, kind in infra if kind == "build"]
    if build_fail:
        for r in build_fail:
            print("run.py: INFRASTRUCTURE ERROR in step %s (rc=%s), log tail:\n%s" % (r["name"], r["rc"], tail(r["log"], 60)))
        sys.exit(2)
    if harness_errors:
        for r, h in harness_errors:
            print("run.py: HARNESS ERROR in step %s: %s" % (r["name"], h[:2000]))
        sys.exit(2)
    if unconfirmed:
        print("run.py: %d violation(s) did not reproduce from their replay file: treated as harness non-determinism" % unconfirmed)
        sys.exit(2)
    sys.exit(0)


def setup(args):
    """Warm the go build cache: compile every step's test binary once."""
    ids = args or all_checks()
    seen = set()
    bad = 0
    ensure_vinstr()
    for cid in ids:
        check = load_check(cid)
        for s in check["steps"]:
            key = json.dumps([s["pkg"], s.get("instrument"), s.get("env"), s.get("race"), s.get("tags")], sort_keys=True)
            if key in seen:
                continue
            seen.add(key)
            t0 = time.time()
            r = run_step(cid, s, "quick", compile_only=True)
            ok = r["rc"] == 0
            print("setup: %s %-28s %s %.0fs" % (cid, r["name"], "ok" if ok else "FAILED", time.time() - t0), flush=True)
            if not ok:
                bad += 1
                print(tail(r["log"], 30))
    sys.exit(1 if bad else 0)


if __name__ == "__main__":
    main()
