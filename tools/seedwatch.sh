#!/bin/bash
# watches /tmp/seed-C*/SEED/meta.json and verifies each new seed once (2 at a time)
while true; do
  for d in /tmp/seed-C*; do
    [ -d "$d" ] || continue
    id=${d#/tmp/seed-}
    [ -f "$d/SEED/meta.json" ] && [ -f "$d/SEED/patch.diff" ] || continue
    [ -e "$d/SEED/.done" ] && continue
    [ -e "$d/SEED/verify.json" ] && continue
    [ -e "$d/SEED/.verifying" ] && continue
    # wait until the agent has finished writing (meta older than 3 min)
    if [ $(( $(date +%s) - $(stat -c %Y "$d/SEED/meta.json") )) -lt 180 ]; then continue; fi
    while [ $(pgrep -fc "tools/[v]erifyseed.py") -ge 3 ]; do sleep 20; done
    touch "$d/SEED/.verifying"
    ( echo "=== $id $(date +%H:%M)" >> /verif/.build/seedbatch.log; python3 /verif/tools/verifyseed.py $id >> /verif/.build/seedbatch.log 2>&1; rm -f "$d/SEED/.verifying"; touch "$d/SEED/.done" ) &
  done
  sleep 60
done
