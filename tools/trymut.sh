#!/bin/bash
# usage: trymut.sh <patch.diff> <ID> [tier] [extra run.py args]
# Applies a seeded change to a scratch worktree of /repo (never to /repo), runs the check against it with all
# outputs redirected to a scratch dir, prints the verdict and cleans up.
set -u
PATCH=$(realpath "$1"); ID=$2; TIER=${3:-quick}; shift; shift; shift || true
WT=$(mktemp -d /tmp/vmut-XXXXXX)
git -C /repo worktree add --detach -f "$WT" HEAD >/dev/null 2>&1 || { echo "worktree failed"; exit 3; }
# carry over uncommitted state of /repo (normally none)
if ! git -C "$WT" apply "$PATCH"; then echo "patch does not apply"; git -C /repo worktree remove --force "$WT"; exit 3; fi
OUT=$(mktemp -d /tmp/vmut-out-XXXXXX)
VERIF_REPO="$WT" VERIF_OUTDIR="$OUT" python3 /verif/run.py "$ID" "$TIER" "$@" > "$OUT/stdout.txt" 2>&1
RC=$?
grep -E "^(VIOLATION|KNOWN-FINDING|C[0-9]+ (quick|thorough):|run.py:)" "$OUT/stdout.txt" | head -20
if [ "${VERBOSE:-0}" = 1 ]; then head -60 "$OUT/stdout.txt"; fi
echo "trymut: rc=$RC (1 = detected)"
git -C /repo worktree remove --force "$WT"
rm -rf "$OUT"
exit $RC
