#!/bin/bash
# usage: trymut.sh <patch.diff> <ID> [tier] [extra run.py args]
# Applies a seeded change to a scratch worktree of /repo (never to /repo), runs the check against it with all
# outputs redirected to a scratch dir, prints the verdict and cleans up. Worktrees live in reusable slots
# /tmp/vmut-slot-N (same path => warm build cache); `trymut.sh --clean` removes them.
set -u
if [ "${1:-}" = "--clean" ]; then
  for d in /tmp/vmut-slot-*; do [ -d "$d" ] && git -C /repo worktree remove --force "$d" 2>/dev/null; rm -rf "$d" "$d.lock"; done
  git -C /repo worktree prune; exit 0
fi
PATCH=$(realpath "$1"); ID=$2; TIER=${3:-quick}; shift; shift; shift || true
SLOT=""
for i in 0 1 2 3 4 5 6 7 8 9 10 11; do
  exec {fd}>"/tmp/vmut-slot-$i.lock"
  if flock -n "$fd"; then SLOT=$i; break; fi
  exec {fd}>&-
done
[ -z "$SLOT" ] && { echo "no free slot"; exit 3; }
WT=/tmp/vmut-slot-$SLOT
HEADREV=$(git -C /repo rev-parse HEAD)
if [ ! -d "$WT/.git" ] && [ ! -f "$WT/.git" ]; then
  rm -rf "$WT"; git -C /repo worktree prune
  git -C /repo worktree add --detach -f "$WT" "$HEADREV" >/dev/null 2>&1 || { echo "worktree failed"; exit 3; }
else
  git -C "$WT" checkout -q -- . ; git -C "$WT" clean -fdq; git -C "$WT" checkout -q --detach "$HEADREV" || { echo "worktree refresh failed"; exit 3; }
fi
if ! git -C "$WT" apply "$PATCH"; then echo "patch does not apply"; exit 3; fi
OUT=$(mktemp -d /tmp/vmut-out-XXXXXX)
VERIF_REPO="$WT" VERIF_OUTDIR="$OUT" python3 /verif/run.py "$ID" "$TIER" "$@" > "$OUT/stdout.txt" 2>&1
RC=$?
grep -E "^(VIOLATION|KNOWN-FINDING|C[0-9]+ (quick|thorough):|run.py:)" "$OUT/stdout.txt" | head -8
if [ "${VERBOSE:-0}" = 1 ]; then head -80 "$OUT/stdout.txt"; fi
echo "trymut: rc=$RC (1 = detected)"
git -C "$WT" checkout -q -- . ; git -C "$WT" clean -fdq
rm -rf "$OUT"
exit $RC
