#!/usr/bin/env python3
"""savereport.py <agent-id> <name>: stores the last long assistant text of a sub-agent transcript under /verif/reports/<name>.md"""
import json, sys
aid, name = sys.argv[1], sys.argv[2]
p = '/tmp/claude-0/-verif/c6774184-8fd2-48f1-a494-041a78dec119/tasks/%s.output' % aid
last = None
for line in open(p):
    try:
        d = json.loads(line)
    except Exception:
        continue
    m = d.get('message') or {}
    if d.get('type') == 'assistant' and isinstance(m.get('content'), list):
        for c in m['content']:
            if c.get('type') == 'text' and len(c.get('text', '')) > 1500:
                last = c['text']
open('/verif/reports/%s.md' % name, 'w').write(last or 'n/a')
print(len(last or ''))
