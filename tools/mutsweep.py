#!/usr/bin/env python3
"""Runs every mutants/<ID>-*.patch (for claimed ids, or ids given on the command line) through trymut.sh and
writes mutants/RESULTS.md. usage: mutsweep.py [-j N] [ID ...]"""
import glob, os, re, subprocess, sys, concurrent.futures, time
V = os.path.dirname(os.path.dirname(os.path.abspath(__file__)))
args = sys.argv[1:]
jobs = 3
if args and args[0] == "-j":
    jobs = int(args[1]); args = args[2:]
ids = args or open(os.path.join(V, "claimed.txt")).read().split()
patches = []
for p in sorted(glob.glob(os.path.join(V, "mutants", "C*-*.patch"))):
    cid = os.path.basename(p).split("-")[0]
    if cid in ids:
        patches.append((cid, p))
def run(item):
    cid, p = item
    t0 = time.time()
    r = subprocess.run([os.path.join(V, "tools", "trymut.sh"), p, cid], capture_output=True, text=True)
    return cid, os.path.basename(p), r.returncode, time.time() - t0
rows = []
with concurrent.futures.ThreadPoolExecutor(jobs) as ex:
    for cid, name, rc, dt in ex.map(run, patches):
        verdict = {1: "DETECTED", 0: "missed", 2: "infra-error", 3: "patch-does-not-apply"}.get(rc, "rc=%d" % rc)
        print("%-6s %-50s %s (%.0fs)" % (cid, name, verdict, dt), flush=True)
        rows.append((cid, name, verdict))
# merge with previous results for ids not swept this time
path = os.path.join(V, "mutants", "RESULTS.md")
old = {}
if os.path.exists(path):
    for l in open(path):
        m = re.match(r"\| (C\d+) \| (\S+) \| (.*) \|", l)
        if m:
            old[(m.group(1), m.group(2))] = m.group(3)
for cid, name, verdict in rows:
    old[(cid, name)] = verdict
with open(path, "w") as f:
    f.write("# Seeded changes (own mutants) vs quick checks\n\nEach patch is applied in a scratch worktree and the property's quick check is run (tools/trymut.sh).\n\n| property | patch | quick check |\n|---|---|---|\n")
    for (cid, name), verdict in sorted(old.items()):
        f.write("| %s | %s | %s |\n" % (cid, name, verdict))
