#!/bin/bash
# runs thorough tier of the given IDs sequentially with outputs under .build/thorough-out
export VERIF_OUTDIR=/verif/.build/thorough-out
mkdir -p $VERIF_OUTDIR
for id in "$@"; do
  t0=$(date +%s)
  out=$(python3 /verif/run.py $id thorough 2>&1); rc=$?
  t1=$(date +%s)
  echo "$id rc=$rc wall=$((t1-t0))s $(echo "$out" | grep -E "^$id thorough:" | tail -1)" >> /verif/.build/thorough.log
  if [ $rc -ne 0 ]; then echo "$out" | tail -30 > /verif/.build/thorough-$id.fail.txt; fi
done
