#!/bin/bash
for id in "$@"; do
  echo "=== $id $(date +%H:%M)" >> /verif/.build/seedbatch.log
  python3 /verif/tools/verifyseed.py $id >> /verif/.build/seedbatch.log 2>&1
done
