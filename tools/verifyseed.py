#!/usr/bin/env python3
"""verifyseed.py <ID> [--tests "pkg1 pkg2"] : confirms an independently produced seeded change kept in /tmp/seed-<ID>/SEED
(patch.diff, demonstration files, meta.json written by the seeding agent) and, if confirmed, stores it as
/verif/seeded/<ID>/ and runs the property's quick check against it (tools/trymut.sh).

Confirmation = (1) patch applies to a clean worktree, (2) the demonstration FAILS with the patch,
(3) the demonstration PASSES without it, (4) the existing tests of the touched packages still pass with the patch."""
import json, os, shutil, subprocess, sys, glob, re
ID = sys.argv[1]
WT = "/tmp/seed-" + ID
SEED = os.path.join(WT, "SEED")
V = "/verif"
GOBIN = "/root/go/pkg/mod/golang.org/toolchain@v0.0.1-go1.24.0.linux-amd64/bin"
env = dict(os.environ, PATH=GOBIN + ":" + os.environ["PATH"], GOTOOLCHAIN="local", GOFLAGS="-mod=mod", GOPROXY="off", GOSUMDB="off",
           GOCACHE="/verif/.cache/go-build")
def sh(cmd, timeout=3000):
    r = subprocess.run(cmd, shell=True, cwd=WT, env=env, capture_output=True, text=True, timeout=timeout)
    return r.returncode, (r.stdout + r.stderr)
meta = json.load(open(os.path.join(SEED, "meta.json")))
patch = os.path.join(SEED, "patch.diff")
res = {"property": ID, "agent_meta": meta}
# clean tree (keep SEED)
sh("git checkout -q -- . ; git clean -fdq -e SEED")
# place demonstration files: every SEED file that ends in _test.go or .go except patch/meta, at the path given in meta['demo_files'] or guessed
placed = []
alltext = open(os.path.join(SEED, "meta.json")).read()
for extra in glob.glob(os.path.join(SEED, "*.txt")) + glob.glob(os.path.join(SEED, "*.md")):
    alltext += "\n" + open(extra, errors="replace").read()
for f in glob.glob(os.path.join(SEED, "**", "*.go"), recursive=True):
    rel = os.path.relpath(f, SEED)
    base = os.path.basename(f)
    d = None
    if os.path.dirname(rel) and os.path.isdir(os.path.join(WT, os.path.dirname(rel))):
        d = os.path.join(WT, rel)
    if d is None:
        for m in re.finditer(r"([\w./-]+/)" + re.escape(base), alltext):
            cand = m.group(1).lstrip("./")
            cand = re.sub(r"^(/tmp/seed-%s/)" % ID, "", m.group(1)).lstrip("./")
            if cand.startswith("SEED") or cand.startswith("tmp/"):
                continue
            if os.path.isdir(os.path.join(WT, cand)):
                d = os.path.join(WT, cand, base); break
    if d is None:
        head = open(f, errors="replace").read()[:800]
        m = re.search(r"([\w./-]+/)\s*$", head, re.M)
        pk = meta.get("packages_tested") or []
        mm = re.search(r"\./([\w/.-]+?)(?:/\.\.\.)?(?:\s|$)", meta.get("demo_cmd", "") + " ")
        if mm and os.path.isdir(os.path.join(WT, mm.group(1))):
            d = os.path.join(WT, mm.group(1), base)
    if d:
        os.makedirs(os.path.dirname(d), exist_ok=True)
        shutil.copy(f, d); placed.append(os.path.relpath(d, WT))
res["demo_placed"] = placed
demo_cmd = meta["demo_cmd"]
demo_cmd = re.sub(r"^\s*cd\s+\S+\s*&&\s*", "", demo_cmd)
import shlex
demo_run = "timeout 1500 bash -c " + shlex.quote(demo_cmd)
rc0, out0 = sh(demo_run)
res["demo_without_change_rc"] = rc0
rc, out = sh("git apply " + patch)
res["patch_applies"] = rc == 0
rc1, out1 = sh(demo_run)
res["demo_with_change_rc"] = rc1
res["demo_with_change_tail"] = out1[-1500:]
pkgs = " ".join(sorted({t for item in (meta.get("packages_tested") or []) for t in re.findall(r"\./[\w./-]+", str(item))}))
if "--tests" in sys.argv:
    pkgs = sys.argv[sys.argv.index("--tests") + 1]
# run existing tests without the demonstration files
for p in placed:
    try: os.remove(os.path.join(WT, p))
    except OSError: pass
rc2, out2 = sh("timeout 2700 go test -vet=off -count=1 -timeout 40m " + pkgs) if pkgs else (None, "")
retries = 0
while pkgs and rc2 != 0 and retries < 2:
    # timing-sensitive tests of the repository flake when the machine is oversubscribed: retry serially
    retries += 1
    rc2, out2 = sh("timeout 2700 go test -vet=off -count=1 -p 1 -parallel 2 -timeout 40m " + pkgs)
res["existing_tests_retries"] = retries
res["existing_tests_rc"] = rc2
res["existing_tests_tail"] = out2[-800:]
sh("git checkout -q -- . ; git clean -fdq -e SEED")
ok = res["patch_applies"] and rc0 == 0 and rc1 not in (0, None) and rc2 == 0
res["confirmed"] = bool(ok)
print(json.dumps({k: v for k, v in res.items() if k not in ("agent_meta", "demo_with_change_tail", "existing_tests_tail")}, indent=1))
if not ok:
    print(res["demo_with_change_tail"][-600:]); print(res["existing_tests_tail"][-600:])
    json.dump(res, open(os.path.join(SEED, "verify.json"), "w"), indent=1)
    sys.exit(1)
dst = os.path.join(V, "seeded", ID)
if os.path.exists(dst):
    n = 2
    while os.path.exists(dst + "-%d" % n): n += 1
    dst = dst + "-%d" % n
os.makedirs(dst)
for f in os.listdir(SEED):
    s = os.path.join(SEED, f)
    if os.path.isdir(s): shutil.copytree(s, os.path.join(dst, f))
    else: shutil.copy(s, dst)
# run the check
r = subprocess.run([os.path.join(V, "tools", "trymut.sh"), os.path.join(dst, "patch.diff"), ID], capture_output=True, text=True)
res["check_quick_rc"] = r.returncode
res["check_quick_output"] = r.stdout[-1200:]
res["detected_by_quick"] = r.returncode == 1
out_meta = {"property": ID, "summary": meta.get("summary"), "needs": meta.get("needs"), "files": meta.get("files"),
            "demo_cmd": meta.get("demo_cmd"), "demo_files_placed_at": placed,
            "coordinator_verification": {"demo_without_change_rc": rc0, "demo_with_change_rc": rc1, "existing_tests": pkgs, "existing_tests_rc": rc2,
                                         "check": "tools/trymut.sh seeded/%s/patch.diff %s quick" % (os.path.basename(dst), ID),
                                         "check_rc": r.returncode, "detected_by_quick": r.returncode == 1}}
json.dump(out_meta, open(os.path.join(dst, "meta.json"), "w"), indent=1)
print("stored", dst, "detected_by_quick =", r.returncode == 1)
print(r.stdout[-600:])
