#!/usr/bin/env python3-vt
import json, jsonschema, glob, sys
m = json.load(open('/verif/MANIFEST.json'))
jsonschema.validate(m, json.load(open('/root/.vp/MANIFEST.schema.json')))
es = json.load(open('/root/.vp/EVIDENCE.schema.json'))
bad = 0
for c in m['checks']:
    p = c['evidence_file']
    try:
        jsonschema.validate(json.load(open(p)), es)
    except Exception as e:
        bad += 1
        print('BAD', p, str(e)[:200])
print('manifest ok; evidence bad =', bad)
sys.exit(1 if bad else 0)
