#!/usr/bin/env python3
"""reseed.py <seeded-dir-name> [note]: re-runs the property's quick check against a stored seeded change and records the new verdict
(the previous verdict is kept under 'history')."""
import json, os, subprocess, sys
V = os.path.dirname(os.path.dirname(os.path.abspath(__file__)))
d = os.path.join(V, "seeded", sys.argv[1])
m = json.load(open(os.path.join(d, "meta.json")))
r = subprocess.run([os.path.join(V, "tools", "trymut.sh"), os.path.join(d, "patch.diff"), m["property"]], capture_output=True, text=True)
cv = m.setdefault("coordinator_verification", {})
m.setdefault("history", []).append({"detected_by_quick": cv.get("detected_by_quick"), "check_rc": cv.get("check_rc")})
cv["check_rc"] = r.returncode
cv["detected_by_quick"] = r.returncode == 1
if len(sys.argv) > 2:
    m["strengthening"] = sys.argv[2]
json.dump(m, open(os.path.join(d, "meta.json"), "w"), indent=1)
print(sys.argv[1], "rc", r.returncode, r.stdout[-300:])
