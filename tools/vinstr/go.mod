module verif/vinstr

go 1.23
