package main

import (
	"bytes"
	"fmt"
	"go/ast"
	"go/printer"
	"go/token"
	"reflect"
	"strconv"
)

// sched-mode rewriting: goroutine / channel constructs -> vsched calls.
//
//	go f(a, b)            -> { _vgN_0, _vgN_1 := a, b; vsched.Go(func() { f(_vgN_0, _vgN_1) }) }
//	ch <- v               -> vsched.SendOp(ch)(v)
//	<-ch                  -> vsched.Recv(ch)          (v, ok := <-ch -> vsched.Recv2(ch))
//	close(ch)             -> vsched.CloseAny(ch)
//	select { ... }        -> _vselN := vsched.NewSelect(hasDefault); ... ; switch _vselN.Do() { case i: ... }
//	for v := range ch     -> for { v, ok := vsched.Recv2(ch); if !ok { break }; ... }   (ch listed in range_chan)
//	reflect.Select(c)     -> vsched.ReflectSelect(c);  x.TrySend(v) -> vsched.ReflectTrySend(x, v); x.TryRecv() -> vsched.ReflectTryRecv(x)
//	log.Crit(...)         -> vsched.Crit(...)         (crit_panic)
type rewriter struct {
	fset       *token.FileSet
	cfg        *config
	n          int
	used       bool
	err        error
	rangeSet   map[string]bool
	hasReflect bool
}

const schedPkg = "vsched"

func schedRewrite(fset *token.FileSet, f *ast.File, cfg *config) error {
	rw := &rewriter{fset: fset, cfg: cfg, rangeSet: map[string]bool{}}
	for _, r := range cfg.RangeChan {
		rw.rangeSet[r] = true
	}
	for _, is := range f.Imports {
		p, _ := strconv.Unquote(is.Path.Value)
		if p == "reflect" {
			rw.hasReflect = true
		}
		if is.Name != nil && is.Name.Name == schedPkg {
			return fmt.Errorf("file already imports a package named %s", schedPkg)
		}
	}
	for _, d := range f.Decls {
		rw.node(reflect.ValueOf(d))
	}
	if rw.err != nil {
		return rw.err
	}
	if rw.used {
		addImport(f, schedPkg, shimBase+schedPkg)
	}
	return nil
}

func addImport(f *ast.File, name, path string) {
	spec := &ast.ImportSpec{Name: ast.NewIdent(name), Path: &ast.BasicLit{Kind: token.STRING, Value: strconv.Quote(path)}}
	for _, d := range f.Decls {
		if gd, ok := d.(*ast.GenDecl); ok && gd.Tok == token.IMPORT {
			if !gd.Lparen.IsValid() {
				gd.Lparen = gd.Pos()
				gd.Rparen = gd.End()
			}
			gd.Specs = append(gd.Specs, spec)
			f.Imports = append(f.Imports, spec)
			return
		}
	}
	gd := &ast.GenDecl{Tok: token.IMPORT, Specs: []ast.Spec{spec}}
	f.Decls = append([]ast.Decl{gd}, f.Decls...)
	f.Imports = append(f.Imports, spec)
}

func (rw *rewriter) src(n ast.Node) string {
	var b bytes.Buffer
	printer.Fprint(&b, rw.fset, n)
	return b.String()
}

func (rw *rewriter) fail(n ast.Node, format string, a ...any) {
	if rw.err == nil {
		rw.err = fmt.Errorf("%s: %s", rw.fset.Position(n.Pos()), fmt.Sprintf(format, a...))
	}
}

func sel(pkg, name string) ast.Expr {
	return &ast.SelectorExpr{X: ast.NewIdent(pkg), Sel: ast.NewIdent(name)}
}

func call(fun ast.Expr, args ...ast.Expr) *ast.CallExpr {
	return &ast.CallExpr{Fun: fun, Args: args}
}

var (
	exprType  = reflect.TypeOf((*ast.Expr)(nil)).Elem()
	stmtType  = reflect.TypeOf((*ast.Stmt)(nil)).Elem()
	exprSlice = reflect.TypeOf([]ast.Expr(nil))
	stmtSlice = reflect.TypeOf([]ast.Stmt(nil))
)

// node walks an AST node generically (post-order) replacing expressions and statements.
func (rw *rewriter) node(v reflect.Value) {
	if !v.IsValid() {
		return
	}
	switch v.Kind() {
	case reflect.Interface:
		if v.IsNil() {
			return
		}
		rw.node(v.Elem())
	case reflect.Ptr:
		if v.IsNil() {
			return
		}
		if _, ok := v.Interface().(*ast.Object); ok {
			return
		}
		if _, ok := v.Interface().(*ast.Scope); ok {
			return
		}
		if ss, ok := v.Interface().(*ast.SelectStmt); ok {
			// handled by stmt(); only recurse into clause bodies/operands there
			_ = ss
		}
		rw.node(v.Elem())
	case reflect.Struct:
		for i := 0; i < v.NumField(); i++ {
			f := v.Field(i)
			if !f.CanSet() {
				continue
			}
			switch {
			case f.Type() == exprType:
				if !f.IsNil() {
					f.Set(reflect.ValueOf(rw.expr(f.Interface().(ast.Expr))))
				}
			case f.Type() == exprSlice:
				for j := 0; j < f.Len(); j++ {
					e := f.Index(j)
					if !e.IsNil() {
						e.Set(reflect.ValueOf(rw.expr(e.Interface().(ast.Expr))))
					}
				}
			case f.Type() == stmtType:
				if !f.IsNil() {
					out := rw.stmt(f.Interface().(ast.Stmt))
					if len(out) == 1 {
						f.Set(reflect.ValueOf(out[0]))
					} else {
						f.Set(reflect.ValueOf(ast.Stmt(&ast.BlockStmt{List: out})))
					}
				}
			case f.Type() == stmtSlice:
				var out []ast.Stmt
				for j := 0; j < f.Len(); j++ {
					out = append(out, rw.stmt(f.Index(j).Interface().(ast.Stmt))...)
				}
				f.Set(reflect.ValueOf(out))
			default:
				switch f.Kind() {
				case reflect.Ptr, reflect.Interface, reflect.Struct:
					rw.node(f)
				case reflect.Slice:
					for j := 0; j < f.Len(); j++ {
						rw.node(f.Index(j))
					}
				}
			}
		}
	}
}

// expr rewrites an expression (children first).
func (rw *rewriter) expr(e ast.Expr) ast.Expr {
	if e == nil {
		return nil
	}
	rw.node(reflect.ValueOf(e))
	switch x := e.(type) {
	case *ast.UnaryExpr:
		if x.Op == token.ARROW && rw.cfg.Sched {
			rw.used = true
			return call(sel(schedPkg, "Recv"), x.X)
		}
	case *ast.CallExpr:
		if id, ok := x.Fun.(*ast.Ident); ok && id.Name == "close" && len(x.Args) == 1 && rw.cfg.Sched {
			rw.used = true
			return call(sel(schedPkg, "CloseAny"), x.Args[0])
		}
		if se, ok := x.Fun.(*ast.SelectorExpr); ok {
			if pid, ok := se.X.(*ast.Ident); ok {
				if rw.cfg.Sched && pid.Name == "reflect" && se.Sel.Name == "Select" && rw.hasReflect {
					rw.used = true
					return call(sel(schedPkg, "ReflectSelect"), x.Args...)
				}
				if rw.cfg.CritPanic && pid.Name == "log" && se.Sel.Name == "Crit" {
					rw.used = true
					c := call(sel(schedPkg, "Crit"), x.Args...)
					c.Ellipsis = x.Ellipsis
					return c
				}
			}
			if rw.cfg.Sched && rw.hasReflect && se.Sel.Name == "TrySend" && len(x.Args) == 1 {
				rw.used = true
				return call(sel(schedPkg, "ReflectTrySend"), se.X, x.Args[0])
			}
			if rw.cfg.Sched && rw.hasReflect && se.Sel.Name == "TryRecv" && len(x.Args) == 0 {
				rw.used = true
				return call(sel(schedPkg, "ReflectTryRecv"), se.X)
			}
		}
	}
	return e
}

func (rw *rewriter) fresh(prefix string) string {
	rw.n++
	return fmt.Sprintf("_v%s%d", prefix, rw.n)
}

// stmt rewrites one statement into one or more statements.
func (rw *rewriter) stmt(s ast.Stmt) []ast.Stmt {
	if s == nil {
		return nil
	}
	if !rw.cfg.Sched {
		rw.node(reflect.ValueOf(s))
		return []ast.Stmt{s}
	}
	switch x := s.(type) {
	case *ast.LabeledStmt:
		if ss, ok := x.Stmt.(*ast.SelectStmt); ok {
			out := rw.selectStmt(ss)
			last := out[len(out)-1]
			out[len(out)-1] = &ast.LabeledStmt{Label: x.Label, Stmt: last}
			return out
		}
		inner := rw.stmt(x.Stmt)
		if len(inner) == 1 {
			x.Stmt = inner[0]
			return []ast.Stmt{x}
		}
		// label goes to the last statement (the loop / switch)
		last := inner[len(inner)-1]
		inner[len(inner)-1] = &ast.LabeledStmt{Label: x.Label, Stmt: last}
		return inner
	case *ast.SelectStmt:
		return rw.selectStmt(x)
	case *ast.GoStmt:
		return rw.goStmt(x)
	case *ast.SendStmt:
		x.Chan = rw.expr(x.Chan)
		x.Value = rw.expr(x.Value)
		rw.used = true
		return []ast.Stmt{&ast.ExprStmt{X: call(call(sel(schedPkg, "SendOp"), x.Chan), x.Value)}}
	case *ast.AssignStmt:
		if len(x.Lhs) == 2 && len(x.Rhs) == 1 {
			if u, ok := x.Rhs[0].(*ast.UnaryExpr); ok && u.Op == token.ARROW {
				u.X = rw.expr(u.X)
				for i := range x.Lhs {
					x.Lhs[i] = rw.expr(x.Lhs[i])
				}
				rw.used = true
				x.Rhs[0] = call(sel(schedPkg, "Recv2"), u.X)
				return []ast.Stmt{x}
			}
		}
	case *ast.DeclStmt:
		if gd, ok := x.Decl.(*ast.GenDecl); ok && gd.Tok == token.VAR {
			for _, sp := range gd.Specs {
				vs := sp.(*ast.ValueSpec)
				if len(vs.Names) == 2 && len(vs.Values) == 1 {
					if u, ok := vs.Values[0].(*ast.UnaryExpr); ok && u.Op == token.ARROW {
						u.X = rw.expr(u.X)
						rw.used = true
						vs.Values[0] = call(sel(schedPkg, "Recv2"), u.X)
						return []ast.Stmt{x}
					}
				}
			}
		}
	case *ast.RangeStmt:
		if rw.rangeSet[rw.src(x.X)] {
			return rw.rangeChan(x)
		}
	}
	rw.node(reflect.ValueOf(s))
	return []ast.Stmt{s}
}

func (rw *rewriter) goStmt(g *ast.GoStmt) []ast.Stmt {
	c := g.Call
	rw.used = true
	// rewrite inside the call first (function literal bodies, argument expressions)
	c.Fun = rw.expr(c.Fun)
	for i := range c.Args {
		c.Args[i] = rw.expr(c.Args[i])
	}
	if fl, ok := c.Fun.(*ast.FuncLit); ok && len(c.Args) == 0 {
		return []ast.Stmt{&ast.ExprStmt{X: call(sel(schedPkg, "Go"), fl)}}
	}
	var pre []ast.Stmt
	var args []ast.Expr
	if len(c.Args) > 0 {
		var lhs []ast.Expr
		base := rw.fresh("g")
		for i := range c.Args {
			id := ast.NewIdent(fmt.Sprintf("%s_%d", base, i))
			lhs = append(lhs, id)
			args = append(args, ast.NewIdent(id.Name))
		}
		pre = append(pre, &ast.AssignStmt{Lhs: lhs, Tok: token.DEFINE, Rhs: c.Args})
	}
	fun := c.Fun
	// evaluate a method receiver / function value at the go statement, like Go does
	if _, isLit := fun.(*ast.FuncLit); !isLit {
		if se, ok := fun.(*ast.SelectorExpr); ok {
			if _, isIdent := se.X.(*ast.Ident); !isIdent {
				// complex receiver expression: bind the method value
				id := ast.NewIdent(rw.fresh("gf"))
				pre = append(pre, &ast.AssignStmt{Lhs: []ast.Expr{id}, Tok: token.DEFINE, Rhs: []ast.Expr{fun}})
				fun = ast.NewIdent(id.Name)
			}
		}
	}
	inner := &ast.CallExpr{Fun: fun, Args: args, Ellipsis: c.Ellipsis}
	if c.Ellipsis.IsValid() {
		inner.Ellipsis = 1
	}
	lit := &ast.FuncLit{Type: &ast.FuncType{Params: &ast.FieldList{}}, Body: &ast.BlockStmt{List: []ast.Stmt{&ast.ExprStmt{X: inner}}}}
	out := append(pre, &ast.ExprStmt{X: call(sel(schedPkg, "Go"), lit)})
	if len(out) == 1 {
		return out
	}
	return []ast.Stmt{&ast.BlockStmt{List: out}}
}

func (rw *rewriter) rangeChan(r *ast.RangeStmt) []ast.Stmt {
	rw.used = true
	r.X = rw.expr(r.X)
	rw.node(reflect.ValueOf(r.Body))
	okName := rw.fresh("ok")
	var lhs ast.Expr = ast.NewIdent("_")
	tok := token.DEFINE
	if r.Key != nil {
		lhs = r.Key
		if r.Tok == token.ASSIGN {
			// v = range ch : declare ok separately
			decl := &ast.DeclStmt{Decl: &ast.GenDecl{Tok: token.VAR, Specs: []ast.Spec{&ast.ValueSpec{Names: []*ast.Ident{ast.NewIdent(okName)}, Type: ast.NewIdent("bool")}}}}
			recv := &ast.AssignStmt{Lhs: []ast.Expr{lhs, ast.NewIdent(okName)}, Tok: token.ASSIGN, Rhs: []ast.Expr{call(sel(schedPkg, "Recv2"), r.X)}}
			brk := &ast.IfStmt{Cond: &ast.UnaryExpr{Op: token.NOT, X: ast.NewIdent(okName)}, Body: &ast.BlockStmt{List: []ast.Stmt{&ast.BranchStmt{Tok: token.BREAK}}}}
			body := append([]ast.Stmt{decl, recv, brk}, r.Body.List...)
			return []ast.Stmt{&ast.ForStmt{Body: &ast.BlockStmt{List: body}}}
		}
	}
	recv := &ast.AssignStmt{Lhs: []ast.Expr{lhs, ast.NewIdent(okName)}, Tok: tok, Rhs: []ast.Expr{call(sel(schedPkg, "Recv2"), r.X)}}
	brk := &ast.IfStmt{Cond: &ast.UnaryExpr{Op: token.NOT, X: ast.NewIdent(okName)}, Body: &ast.BlockStmt{List: []ast.Stmt{&ast.BranchStmt{Tok: token.BREAK}}}}
	body := append([]ast.Stmt{recv, brk}, r.Body.List...)
	return []ast.Stmt{&ast.ForStmt{Body: &ast.BlockStmt{List: body}}}
}

func intLit(i int) ast.Expr {
	if i < 0 {
		return &ast.UnaryExpr{Op: token.SUB, X: &ast.BasicLit{Kind: token.INT, Value: strconv.Itoa(-i)}}
	}
	return &ast.BasicLit{Kind: token.INT, Value: strconv.Itoa(i)}
}

func (rw *rewriter) selectStmt(ss *ast.SelectStmt) []ast.Stmt {
	rw.used = true
	selName := rw.fresh("sel")
	hasDefault := false
	for _, c := range ss.Body.List {
		if c.(*ast.CommClause).Comm == nil {
			hasDefault = true
		}
	}
	var pre []ast.Stmt
	hd := "false"
	if hasDefault {
		hd = "true"
	}
	pre = append(pre, &ast.AssignStmt{Lhs: []ast.Expr{ast.NewIdent(selName)}, Tok: token.DEFINE,
		Rhs: []ast.Expr{call(sel(schedPkg, "NewSelect"), ast.NewIdent(hd))}})
	var clauses []ast.Stmt
	idx := 0
	for _, c := range ss.Body.List {
		cc := c.(*ast.CommClause)
		// body
		var body []ast.Stmt
		for _, b := range cc.Body {
			body = append(body, rw.stmt(b)...)
		}
		if cc.Comm == nil {
			clauses = append(clauses, &ast.CaseClause{List: nil, Body: body})
			continue
		}
		switch cm := cc.Comm.(type) {
		case *ast.SendStmt:
			ch := rw.expr(cm.Chan)
			val := rw.expr(cm.Value)
			pre = append(pre, &ast.ExprStmt{X: call(call(sel(schedPkg, "AddSendOp"), ast.NewIdent(selName), ch), val)})
		case *ast.ExprStmt:
			u, ok := cm.X.(*ast.UnaryExpr)
			if !ok || u.Op != token.ARROW {
				// could be parenthesised
				rw.fail(cm, "unsupported select comm clause: %s", rw.src(cm))
				return []ast.Stmt{ss}
			}
			ch := rw.expr(u.X)
			pre = append(pre, &ast.ExprStmt{X: call(sel(schedPkg, "AddRecv"), ast.NewIdent(selName), ch)})
		case *ast.AssignStmt:
			if len(cm.Rhs) != 1 {
				rw.fail(cm, "unsupported select comm clause: %s", rw.src(cm))
				return []ast.Stmt{ss}
			}
			u, ok := cm.Rhs[0].(*ast.UnaryExpr)
			if !ok || u.Op != token.ARROW {
				rw.fail(cm, "unsupported select comm clause: %s", rw.src(cm))
				return []ast.Stmt{ss}
			}
			ch := rw.expr(u.X)
			rx := rw.fresh("rx")
			pre = append(pre, &ast.AssignStmt{Lhs: []ast.Expr{ast.NewIdent(rx)}, Tok: token.DEFINE,
				Rhs: []ast.Expr{call(sel(schedPkg, "AddRecv"), ast.NewIdent(selName), ch)}})
			allBlank := true
			for _, l := range cm.Lhs {
				if id, ok := l.(*ast.Ident); !ok || id.Name != "_" {
					allBlank = false
				}
			}
			var get ast.Stmt
			if allBlank {
				get = &ast.AssignStmt{Lhs: []ast.Expr{ast.NewIdent("_")}, Tok: token.ASSIGN, Rhs: []ast.Expr{ast.NewIdent(rx)}}
			} else if len(cm.Lhs) == 1 {
				get = &ast.AssignStmt{Lhs: cm.Lhs, Tok: cm.Tok, Rhs: []ast.Expr{call(&ast.SelectorExpr{X: ast.NewIdent(rx), Sel: ast.NewIdent("Val")})}}
			} else {
				get = &ast.AssignStmt{Lhs: cm.Lhs, Tok: cm.Tok, Rhs: []ast.Expr{call(&ast.SelectorExpr{X: ast.NewIdent(rx), Sel: ast.NewIdent("Get")})}}
			}
			body = append([]ast.Stmt{get}, body...)
		default:
			rw.fail(cc, "unsupported select comm clause")
			return []ast.Stmt{ss}
		}
		clauses = append(clauses, &ast.CaseClause{List: []ast.Expr{intLit(idx)}, Body: body})
		idx++
	}
	if !hasDefault {
		// keep the statement terminating when every case returns (a select without default is)
		clauses = append(clauses, &ast.CaseClause{List: nil, Body: []ast.Stmt{&ast.ExprStmt{X: call(ast.NewIdent("panic"), &ast.BasicLit{Kind: token.STRING, Value: strconv.Quote("vsched: select returned no case")})}}})
	}
	sw := &ast.SwitchStmt{Tag: call(&ast.SelectorExpr{X: ast.NewIdent(selName), Sel: ast.NewIdent("Do")}), Body: &ast.BlockStmt{List: clauses}}
	return append(pre, sw)
}
