package main

import (
	"fmt"
	"go/ast"
	"go/token"
)

func schedRewrite(fset *token.FileSet, f *ast.File, cfg *config) error {
	return fmt.Errorf("sched mode not implemented yet")
}
