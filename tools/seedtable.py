#!/usr/bin/env python3
"""Writes /verif/seeded/RESULTS.md from seeded/*/meta.json (independently produced changes and what the checks said)."""
import glob, json, os
V = os.path.dirname(os.path.dirname(os.path.abspath(__file__)))
rows = []
for d in sorted(glob.glob(os.path.join(V, "seeded", "C*"))):
    m = os.path.join(d, "meta.json")
    if not os.path.exists(m):
        continue
    j = json.load(open(m))
    cv = j.get("coordinator_verification", {})
    hist = j.get("history", [])
    first = hist[0]["detected_by_quick"] if hist else cv.get("detected_by_quick")
    now = cv.get("detected_by_quick")
    rows.append((os.path.basename(d), j.get("property"), (j.get("summary") or "").replace("\n", " ")[:260],
                 (j.get("needs") or "").replace("\n", " ")[:200], first, now, j.get("strengthening", "")))
with open(os.path.join(V, "seeded", "RESULTS.md"), "w") as f:
    f.write("# Independently seeded changes\n\nEach change was produced by a fresh sub-agent that saw only the property text and its own scratch worktree of the repository "
            "(nothing from /verif). It was kept only after the coordinator confirmed in a scratch worktree (tools/verifyseed.py) that the patch applies, the demonstration fails with it and passes without it, "
            "and the existing tests of the touched packages still pass with it. `first run` = verdict of the property's quick check the first time it met the change; "
            "`now` = verdict after any strengthening (tools/trymut.sh seeded/<id>/patch.diff <ID>).\n\n"
            "| dir | property | change | needs | first run | now | strengthening |\n|---|---|---|---|---|---|---|\n")
    for r in rows:
        f.write("| %s | %s | %s | %s | %s | %s | %s |\n" % (r[0], r[1], r[2], r[3], "DETECTED" if r[4] else "missed", "DETECTED" if r[5] else "missed", r[6]))
    n = len(rows)
    f.write("\n%d changes; detected at first run: %d; detected now: %d.\n" % (n, sum(1 for r in rows if r[4]), sum(1 for r in rows if r[5])))
print(len(rows))
