#!/usr/bin/env python3
"""Regenerates /verif/MANIFEST.json from checks/*.json and not_applicable.json."""
import glob, json, os
V = os.path.dirname(os.path.dirname(os.path.abspath(__file__)))
props = [json.loads(l)["id"] for l in open(os.path.join(V, "properties.jsonl"))]
checks = []
claimed = set()
ready = set(open(os.path.join(V, "claimed.txt")).read().split())
for p in sorted(glob.glob(os.path.join(V, "checks", "C*.json"))):
    c = json.load(open(p))
    if c.get("disabled") or c["id"] not in ready:
        continue
    cid = c["id"]
    claimed.add(cid)
    e = {"property_id": cid,
         "quick_cmd": "python3 run.py %s quick" % cid,
         "thorough_cmd": "python3 run.py %s thorough" % cid,
         "evidence_file": "/verif/evidence/%s.json" % cid,
         "replay_cmd_template": "python3 run.py %s quick --replay {path}" % cid,
         "engine": c.get("engine", "mc"),
         "level_claimed": {"category": c["level"], "text": c.get("level_text", ""), "design_ref": c.get("design_ref", "DESIGN.md §3 " + cid)},
         "level_note": c.get("level_note", ""),
         "technique": c.get("technique", "bounded exhaustive enumeration on the real code")}
    checks.append(e)
na = []
nap = os.path.join(V, "not_applicable.json")
reasons = json.load(open(nap)) if os.path.exists(nap) else {}
for pid in props:
    if pid not in claimed:
        na.append({"property_id": pid, "reason": reasons.get(pid, "check not built yet in this session (planned, see DESIGN.md §3 %s); not claimed until its harness passes on the unchanged tree and detects a seeded change" % pid)})
m = {"version": 1,
     "setup_cmd": "python3 run.py --setup",
     "hooks": {"guard": "verif (Go build tag) — no hook is committed to /repo: harnesses are //go:build verif _test.go files and instrumented copies of repository files are generated at check time and injected with `go test -overlay`",
               "enable": "go test -tags verif -overlay /verif/.build/<ID>/<step>/ov.json -vet=off (built by /verif/run.py from /repo's current working tree)",
               "baseline_off_cmd": "cd /repo && PATH=/root/go/pkg/mod/golang.org/toolchain@v0.0.1-go1.24.0.linux-amd64/bin:$PATH GOTOOLCHAIN=local GOFLAGS=-mod=mod GOPROXY=off GOSUMDB=off go test -vet=off -count=1 -timeout 25m ./...",
               "source_commits": [], "add_only": True},
     "engines": json.load(open(os.path.join(V, "engines.json"))),
     "checks": checks,
     "notes": "All checks are bounded-exhaustive explorations executed on the real code of /repo's working tree (see DESIGN.md). exit 2 of run.py = infrastructure error (build failure), distinct from a verdict.",
     "not_applicable": na}
json.dump(m, open(os.path.join(V, "MANIFEST.json"), "w"), indent=1)
print("claimed", len(checks), "not_applicable", len(na))
