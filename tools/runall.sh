#!/bin/bash
# usage: runall.sh <tier> ID...   -> appends "ID rc wall summary" lines to .build/runall.log
TIER=$1; shift
for id in "$@"; do
  t0=$(date +%s)
  out=$(python3 /verif/run.py $id $TIER 2>&1)
  rc=$?
  t1=$(date +%s)
  echo "$id rc=$rc wall=$((t1-t0))s $(echo "$out" | grep -E "^$id (quick|thorough):" | tail -1)" | tee -a /verif/.build/runall.log
  if [ $rc -ne 0 ]; then echo "$out" | tail -25 > /verif/.build/runall-$id.fail.txt; fi
done
