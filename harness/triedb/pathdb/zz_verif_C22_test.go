//go:build verif

package pathdb

// C22 (path database part) - flat-state iterators enumerate exactly the live entries.
//
// Explicit-state exploration (mc.Explore) of layer stacks of the real pathdb.Database:
// operations are single-purpose state transitions on the head (create / modify / destruct /
// destruct-and-recreate an account, set / delete a storage slot) and the structural
// operations "merge the bottom-most diff layer into the disk layer" and "Commit(head)", on top
// of several prepared bases (fresh, populated persistent store, populated store + non-empty
// write buffer). After every operation, for EVERY live root of the stack, the merged (fast)
// and the binary account iterator and the storage iterators of every account are started at
// every seek position (zero, every possible key, its predecessor and successor, the maximal
// hash) and their complete output is compared with the reference world of that root.

import (
	"bytes"
	"crypto/sha256"
	"errors"
	"fmt"
	"math/big"
	"os"
	"path/filepath"
	"runtime"
	"sort"
	"strconv"
	"strings"
	"sync"
	"sync/atomic"
	"testing"
	"time"

	"github.com/ethereum/go-ethereum/common"
	"github.com/ethereum/go-ethereum/core/rawdb"
	"github.com/ethereum/go-ethereum/core/types"
	"github.com/ethereum/go-ethereum/crypto"
	"github.com/ethereum/go-ethereum/ethdb"
	"github.com/ethereum/go-ethereum/ethdb/memorydb"
	"github.com/ethereum/go-ethereum/internal/verif/mc"
	"github.com/ethereum/go-ethereum/rlp"
	"github.com/ethereum/go-ethereum/trie"
	"github.com/ethereum/go-ethereum/trie/trienode"
	"github.com/holiman/uint256"
)

// ---------------------------------------------------------------------------
// Reference worlds.

const (
	c22NAcct = 3 // mutable accounts A, B, C
	c22Salt  = 3 // index of the salt account Z
	c22NAll  = 4
	c22NSlot = 2
)

type c22Acct struct {
	N uint8           // 0 absent, else nonce 1|2 (salt account: number of transitions applied so far)
	S [c22NSlot]uint8 // slot values, 0 absent
}

// c22World is the state of the three mutable accounts plus the salt account Z,
// whose nonce is bumped by every transition (like a sender account): all roots
// of one chain are therefore distinct although the roots are the real state roots.
type c22World [c22NAll]c22Acct

func (w c22World) String() string {
	var sb strings.Builder
	for i, a := range w {
		fmt.Fprintf(&sb, "%c%d", "ABCZ"[i], a.N)
		if i < 2 {
			fmt.Fprintf(&sb, "[%d%d]", a.S[0], a.S[1])
		}
	}
	return sb.String()
}

// Key sets. "edge": synthetic account hashes (the flat state never checks pre-images) at the
// edge positions: the smallest non-zero hash, hashes with trailing zero bytes (seek positions are
// right-trimmed for the key-value iterator) and the maximal hash. "keccak": hashes of real
// addresses, required where state histories are replayed (rollback), because the history is keyed
// by address. The explorations run one after the other, the current key set is a package variable.
var (
	c22KeyKind  int
	c22AcctHash [c22NAll]common.Hash
	c22AcctAddr = [c22NAll]common.Address{common.HexToAddress("0xa1"), common.HexToAddress("0xb2"), common.HexToAddress("0xc3"), common.HexToAddress("0x5a17")}
	c22SlotHash = [c22NSlot]common.Hash{
		common.HexToHash("0x1000000000000000000000000000000000000000000000000000000000000000"),
		common.HexToHash("0xfffffffffffffffffffffffffffffffffffffffffffffffffffffffffffffffe"),
	}
	c22AcctSeeks []common.Hash
	c22SlotSeeks = c22Seeks(c22SlotHash[:])
)

func c22UseKeys(kind int) {
	c22KeyKind = kind
	if kind == 0 {
		c22AcctHash = [c22NAll]common.Hash{
			common.HexToHash("0x0000000000000000000000000000000000000000000000000000000000000001"),
			common.HexToHash("0x8000000000000000000000000000000000000000000000000000000000000000"),
			common.HexToHash("0xffffffffffffffffffffffffffffffffffffffffffffffffffffffffffffffff"),
			common.HexToHash("0x4000000000000000000000000000000000000000000000000000000000000000"),
		}
	} else {
		for i, a := range c22AcctAddr {
			c22AcctHash[i] = crypto.Keccak256Hash(a.Bytes())
		}
	}
	c22AcctSeeks = c22Seeks(c22AcctHash[:c22NAcct])
}

func init() { c22UseKeys(0) }

// c22Storage returns the real storage trie root and the complete node set of a
// storage content (memoised; built with a fresh in-memory trie).
type c22Trie struct {
	root  common.Hash
	nodes map[string][]byte
}

var c22StorageMemo sync.Map

func c22BuildTrie(kv []c22Entry, owner common.Hash) c22Trie {
	tr, err := trie.New(trie.StorageTrieID(types.EmptyRootHash, owner, types.EmptyRootHash), nil)
	if err != nil {
		panic(err)
	}
	for _, e := range kv {
		tr.MustUpdate(e.h[:], e.v)
	}
	root, set := tr.Commit(false)
	out := c22Trie{root: root, nodes: map[string][]byte{}}
	if set != nil {
		for path, n := range set.Nodes {
			out.nodes[path] = common.CopyBytes(n.Blob)
		}
	}
	return out
}

func c22Storage(s [c22NSlot]uint8) c22Trie {
	if v, ok := c22StorageMemo.Load(s); ok {
		return v.(c22Trie)
	}
	var kv []c22Entry
	for j, v := range s {
		if v != 0 {
			kv = append(kv, c22Entry{c22SlotHash[j], c22SlotBlob(v)})
		}
	}
	t := c22BuildTrie(kv, common.Hash{1})
	c22StorageMemo.Store(s, t)
	return t
}

func c22Account(a c22Acct) types.StateAccount {
	return types.StateAccount{Nonce: uint64(a.N), Balance: uint256.NewInt(7), Root: c22Storage(a.S).root, CodeHash: types.EmptyCodeHash[:]}
}

func c22AccountBlob(a c22Acct) []byte {
	if a.N == 0 {
		return nil
	}
	return types.SlimAccountRLP(c22Account(a))
}

func c22SlotBlob(v uint8) []byte {
	if v == 0 {
		return nil
	}
	return []byte{v}
}

type c22Entry struct {
	h common.Hash
	v []byte
}

func (w c22World) accounts() []c22Entry {
	var out []c22Entry
	for i, a := range w {
		if a.N != 0 {
			out = append(out, c22Entry{c22AcctHash[i], c22AccountBlob(a)})
		}
	}
	sort.Slice(out, func(i, j int) bool { return bytes.Compare(out[i].h[:], out[j].h[:]) < 0 })
	return out
}

func (w c22World) slots(acct int) []c22Entry {
	var out []c22Entry
	for j, v := range w[acct].S {
		if w[acct].N != 0 && v != 0 {
			out = append(out, c22Entry{c22SlotHash[j], c22SlotBlob(v)})
		}
	}
	sort.Slice(out, func(i, j int) bool { return bytes.Compare(out[i].h[:], out[j].h[:]) < 0 })
	return out
}

// c22Data is the real state root and the complete trie node set (account trie
// and storage tries) of a world under the current key set, built from scratch
// in memory - never read through the database under test.
type c22Node struct {
	owner common.Hash
	path  string
}

type c22WD struct {
	root  common.Hash
	nodes map[c22Node][]byte
}

type c22WDKey struct {
	kind int
	w    c22World
}

var c22DataMemo sync.Map

func c22Data(w c22World) *c22WD {
	key := c22WDKey{c22KeyKind, w}
	if v, ok := c22DataMemo.Load(key); ok {
		return v.(*c22WD)
	}
	d := &c22WD{nodes: map[c22Node][]byte{}}
	var kv []c22Entry
	for i, a := range w {
		if a.N == 0 {
			continue
		}
		full, err := rlp.EncodeToBytes(func() *types.StateAccount { x := c22Account(a); return &x }())
		if err != nil {
			panic(err)
		}
		kv = append(kv, c22Entry{c22AcctHash[i], full})
		for path, blob := range c22Storage(a.S).nodes {
			d.nodes[c22Node{c22AcctHash[i], path}] = blob
		}
	}
	t := c22BuildTrie(kv, common.Hash{})
	d.root = t.root
	for path, blob := range t.nodes {
		d.nodes[c22Node{common.Hash{}, path}] = blob
	}
	c22DataMemo.Store(key, d)
	return d
}

func c22Root(w c22World) common.Hash { return c22Data(w).root }

// ---------------------------------------------------------------------------
// Deltas (one per layer).

type c22Delta struct {
	name string
	acct int
	kind int // 0 set, 1 del, 2 recreate, 3 slot set, 4 slot del
	slot int
}

func c22Deltas() []c22Delta {
	var ds []c22Delta
	for i := 0; i < c22NAcct; i++ {
		n := string(rune('A' + i))
		ds = append(ds, c22Delta{n + ".set", i, 0, 0}, c22Delta{n + ".destruct", i, 1, 0})
		if i < 2 {
			ds = append(ds, c22Delta{n + ".destruct+recreate", i, 2, 0})
		}
	}
	for i := 0; i < 2; i++ {
		n := string(rune('A' + i))
		for j := 0; j < c22NSlot; j++ {
			ds = append(ds, c22Delta{fmt.Sprintf("%s.s%d.set", n, j+1), i, 3, j}, c22Delta{fmt.Sprintf("%s.s%d.del", n, j+1), i, 4, j})
		}
	}
	return ds
}

// apply returns the successor world and whether the delta is enabled in w.
func (d c22Delta) apply(w c22World) (c22World, bool) {
	a := &w[d.acct]
	switch d.kind {
	case 0: // create, or modify the nonce
		if a.N == 0 {
			a.N = 1
		} else {
			a.N = 3 - a.N
		}
	case 1:
		if a.N == 0 {
			return w, false
		}
		*a = c22Acct{}
	case 2: // destructed and recreated in the same transition with a fresh storage {s2}
		if a.N == 0 {
			return w, false
		}
		nv := uint8(2)
		if a.S[1] == 2 {
			nv = 1
		}
		*a = c22Acct{N: 3 - a.N, S: [c22NSlot]uint8{0, nv}}
	case 3:
		if a.N == 0 {
			return w, false
		}
		if a.S[d.slot] == 1 {
			a.S[d.slot] = 2
		} else {
			a.S[d.slot] = 1
		}
	case 4:
		if a.N == 0 || a.S[d.slot] == 0 {
			return w, false
		}
		a.S[d.slot] = 0
	}
	w[c22Salt].N++
	return w, true
}

// c22Transition builds the arguments of Database.Update for the transition
// from world p to world c: the trie node diff (changed/new nodes, vanished nodes
// as deletions) and the flat-state diff in the form the state database hands it
// over: changed accounts (nil = deleted) and changed slots (nil = deleted; a
// destructed account lists all its former slots), with the original values.
func c22Transition(p, c c22World) (*trienode.MergedNodeSet, *StateSetWithOrigin) {
	accounts := map[common.Hash][]byte{}
	storages := map[common.Hash]map[common.Hash][]byte{}
	accountOrigin := map[common.Address][]byte{}
	storageOrigin := map[common.Address]map[common.Hash][]byte{}
	for i := 0; i < c22NAll; i++ {
		pb, cb := c22AccountBlob(p[i]), c22AccountBlob(c[i])
		if !bytes.Equal(pb, cb) {
			accounts[c22AcctHash[i]] = cb
			accountOrigin[c22AcctAddr[i]] = pb
		}
		for j := 0; j < c22NSlot; j++ {
			var pv, cv uint8
			if p[i].N != 0 {
				pv = p[i].S[j]
			}
			if c[i].N != 0 {
				cv = c[i].S[j]
			}
			if pv != cv {
				if storages[c22AcctHash[i]] == nil {
					storages[c22AcctHash[i]] = map[common.Hash][]byte{}
					storageOrigin[c22AcctAddr[i]] = map[common.Hash][]byte{}
				}
				storages[c22AcctHash[i]][c22SlotHash[j]] = c22SlotBlob(cv)
				storageOrigin[c22AcctAddr[i]][c22SlotHash[j]] = c22SlotBlob(pv)
			}
		}
	}
	pd, cd := c22Data(p), c22Data(c)
	keys := make([]c22Node, 0, len(pd.nodes)+len(cd.nodes))
	for k := range pd.nodes {
		keys = append(keys, k)
	}
	for k := range cd.nodes {
		if _, dup := pd.nodes[k]; !dup {
			keys = append(keys, k)
		}
	}
	sort.Slice(keys, func(i, j int) bool {
		if x := bytes.Compare(keys[i].owner[:], keys[j].owner[:]); x != 0 {
			return x < 0
		}
		return keys[i].path < keys[j].path
	})
	merged := trienode.NewMergedNodeSet()
	var cur *trienode.NodeSet
	flush := func() {
		if cur != nil {
			if err := merged.Merge(cur); err != nil {
				panic(err)
			}
		}
	}
	for _, k := range keys {
		pb, cb := pd.nodes[k], cd.nodes[k]
		if bytes.Equal(pb, cb) {
			continue
		}
		if cur == nil || cur.Owner != k.owner {
			flush()
			cur = trienode.NewNodeSet(k.owner)
		}
		if len(cb) == 0 {
			cur.AddNode([]byte(k.path), trienode.NewDeletedWithPrev(common.CopyBytes(pb)))
		} else {
			cur.AddNode([]byte(k.path), trienode.NewNodeWithPrev(crypto.Keccak256Hash(cb), common.CopyBytes(cb), common.CopyBytes(pb)))
		}
	}
	flush()
	return merged, NewStateSetWithOrigin(accounts, storages, accountOrigin, storageOrigin, false)
}

// ---------------------------------------------------------------------------
// Seek positions.

func c22Seeks(keys []common.Hash) []common.Hash {
	seen := map[common.Hash]bool{}
	var out []common.Hash
	add := func(h common.Hash) {
		if !seen[h] {
			seen[h] = true
			out = append(out, h)
		}
	}
	max := new(big.Int).Sub(new(big.Int).Lsh(big.NewInt(1), 256), big.NewInt(1))
	add(common.Hash{})
	for _, k := range keys {
		x := new(big.Int).SetBytes(k[:])
		if x.Sign() > 0 {
			add(common.BigToHash(new(big.Int).Sub(x, big.NewInt(1))))
		}
		add(k)
		if x.Cmp(max) < 0 {
			add(common.BigToHash(new(big.Int).Add(x, big.NewInt(1))))
		}
	}
	add(common.BigToHash(max))
	sort.Slice(out, func(i, j int) bool { return bytes.Compare(out[i][:], out[j][:]) < 0 })
	return out
}

func c22From(all []c22Entry, seek common.Hash) []c22Entry {
	for i, e := range all {
		if bytes.Compare(e.h[:], seek[:]) >= 0 {
			return all[i:]
		}
	}
	return nil
}

// ---------------------------------------------------------------------------
// Trie agreement of the reference (once per world): the leaves of the state /
// storage trie of a world, in iteration order, are the reference entries.

var c22TrieChecked sync.Map

func c22CheckTrieOrder(w c22World) error {
	if _, done := c22TrieChecked.LoadOrStore(c22WDKey{c22KeyKind, w}, true); done {
		return nil
	}
	cmp := func(what string, want []c22Entry, conv func([]byte) []byte) error {
		tr, err := trie.New(trie.TrieID(types.EmptyRootHash), nil)
		if err != nil {
			return err
		}
		for i := len(want) - 1; i >= 0; i-- {
			tr.MustUpdate(want[i].h[:], conv(want[i].v))
		}
		it := trie.NewIterator(tr.MustNodeIterator(nil))
		n := 0
		for it.Next() {
			if n >= len(want) || !bytes.Equal(it.Key, want[n].h[:]) || !bytes.Equal(it.Value, conv(want[n].v)) {
				return fmt.Errorf("world %v: %s trie leaf #%d = %x, reference order has %v", w, what, n, it.Key, want)
			}
			n++
		}
		if n != len(want) {
			return fmt.Errorf("world %v: %s trie has %d leaves, reference %d", w, what, n, len(want))
		}
		return nil
	}
	if err := cmp("account", w.accounts(), func(slim []byte) []byte {
		full, err := types.FullAccountRLP(slim)
		if err != nil {
			panic(err)
		}
		return full
	}); err != nil {
		return err
	}
	for i := 0; i < c22NAcct; i++ {
		if err := cmp(fmt.Sprintf("storage(%c)", 'A'+i), w.slots(i), func(b []byte) []byte { return b }); err != nil {
			return err
		}
	}
	return nil
}

// ---------------------------------------------------------------------------
// Configuration, model stack and live instance.

type c22Cfg struct {
	Name    string
	Buffer  int        // WriteBufferSize (0: every merged layer goes straight to the key-value store)
	Disk    c22World   // world committed to the persistent store before the exploration
	Preload []c22Delta // deltas then merged into the write buffer (the last one stays a diff layer unless Buffer==0)
	Gated   bool       // asynchronous flush; the flush started by the explored operation is parked in front of its batch write while all iterators are created
	Hist    bool       // state histories enabled (in-memory freezer), keccak key set, "rollback" in the alphabet instead of "journal+reopen"
	JFile   bool       // the journal is written to a file (Config.JournalDirectory) instead of the key-value store
}

type c22Layer struct {
	root  common.Hash
	world c22World
}

type c22Stack struct {
	layers   []c22Layer // [0] = disk layer, then the diff layers up to the head
	dead     []c22Layer // roots that were flattened away or rolled back
	diskHist []c22Layer // successive states of the disk layer, the last one is the current disk layer
}

func (s *c22Stack) clone() *c22Stack {
	return &c22Stack{layers: append([]c22Layer{}, s.layers...), diskHist: append([]c22Layer{}, s.diskHist...)}
}

func (s *c22Stack) head() c22Layer { return s.layers[len(s.layers)-1] }

// c22Gate parks the background flush of the frozen write buffer right before
// its batch reaches the key-value store (same construction as in the C16 harness).
type c22Gate struct {
	armed     atomic.Bool
	pass      atomic.Int64 // batch writes to let through before parking one
	arrived   chan struct{}
	mu        sync.Mutex
	hold      chan struct{} // closed to release the parked write
	timedOut  atomic.Bool
	snapIters atomic.Int64 // flat-state iterators opened on the store
}

func (g *c22Gate) holdCh() chan struct{} {
	g.mu.Lock()
	defer g.mu.Unlock()
	return g.hold
}

func (g *c22Gate) open() {
	g.mu.Lock()
	close(g.hold)
	g.hold = make(chan struct{})
	g.mu.Unlock()
}

type c22GateDB struct {
	ethdb.Database
	g *c22Gate
}

func (d *c22GateDB) NewBatch() ethdb.Batch { return &c22GateBatch{d.Database.NewBatch(), d.g} }
func (d *c22GateDB) NewBatchWithSize(n int) ethdb.Batch {
	return &c22GateBatch{d.Database.NewBatchWithSize(n), d.g}
}
func (d *c22GateDB) NewIterator(prefix []byte, start []byte) ethdb.Iterator {
	if bytes.HasPrefix(prefix, rawdb.SnapshotAccountPrefix) || bytes.HasPrefix(prefix, rawdb.SnapshotStoragePrefix) {
		d.g.snapIters.Add(1)
	}
	return d.Database.NewIterator(prefix, start)
}

type c22GateBatch struct {
	ethdb.Batch
	g *c22Gate
}

func (b *c22GateBatch) Write() error {
	if b.g.armed.Load() && b.g.pass.Add(-1) < 0 {
		hold := b.g.holdCh()
		b.g.arrived <- struct{}{}
		select {
		case <-hold:
		case <-time.After(60 * time.Second): // watchdog against a hang only; reported as harness error, never a verdict
			b.g.timedOut.Store(true)
		}
	}
	return b.Batch.Write()
}

type c22Inst struct {
	db       *Database
	disk     ethdb.Database
	conf     *Config
	jdir     string
	gate     *c22Gate
	inflight bool // a flush is parked at the gate
}

var c22DirSeq atomic.Int64

func c22NewInst(cfg c22Cfg) *c22Inst {
	in := &c22Inst{}
	if cfg.Hist {
		d, err := rawdb.Open(memorydb.New(), rawdb.OpenOptions{}) // empty ancient dir => in-memory freezers
		if err != nil {
			panic(err)
		}
		in.disk = d
	} else {
		in.disk = rawdb.NewMemoryDatabase() // no ancient store: no histories, can be re-opened
	}
	if cfg.Gated {
		in.gate = &c22Gate{arrived: make(chan struct{}, 16), hold: make(chan struct{})}
		in.disk = &c22GateDB{in.disk, in.gate}
	}
	in.conf = &Config{
		WriteBufferSize:   cfg.Buffer,
		TrienodeHistory:   -1,
		NoAsyncFlush:      !cfg.Gated,
		NoAsyncGeneration: true,
	}
	if cfg.JFile {
		base := os.Getenv("VERIF_SCRATCH")
		if base == "" {
			base = os.TempDir()
		}
		in.jdir = filepath.Join(base, fmt.Sprintf("c22-journal-%d-%d", os.Getpid(), c22DirSeq.Add(1)))
		in.conf.JournalDirectory = in.jdir
	}
	in.db = New(in.disk, in.conf, false)
	return in
}

// reopen journals the layers from head, closes the database and opens it
// again on the same key-value store, the way a node restart does.
func (in *c22Inst) reopen(head common.Hash, wantLayers int) error {
	in.settle()
	if err := in.db.Journal(head); err != nil {
		return fmt.Errorf("Journal: %v", err)
	}
	if err := in.db.Close(); err != nil {
		return fmt.Errorf("Close: %v", err)
	}
	in.db = New(in.disk, in.conf, false)
	if n := in.db.tree.len(); n != wantLayers {
		return fmt.Errorf("re-opened database has %d layers, journalled %d", n, wantLayers)
	}
	return nil
}

// settle releases a parked flush and waits for the completion of any flush
// through the package's own notification (diskLayer.waitFlush -> buffer.done).
func (in *c22Inst) settle() {
	if in.gate == nil {
		return
	}
	in.gate.armed.Store(false)
	in.gate.open()
	in.inflight = false
	in.db.tree.bottom().waitFlush()
	for len(in.gate.arrived) > 0 {
		<-in.gate.arrived
	}
}

func (in *c22Inst) close() {
	in.settle()
	in.db.Close()
	in.disk.Close()
	if in.jdir != "" {
		os.RemoveAll(in.jdir)
	}
}

// ---------------------------------------------------------------------------
// Iterator runs.

type c22Stats struct{ iterators, entries, tombstoneStacks int }

func c22Drain(it Iterator, value func() []byte) ([]c22Entry, error) {
	defer it.Release()
	var out []c22Entry
	for it.Next() {
		out = append(out, c22Entry{it.Hash(), common.CopyBytes(value())})
		if len(out) > 16 {
			return out, fmt.Errorf("iterator does not terminate: %d entries so far", len(out))
		}
	}
	return out, it.Error()
}

func c22Equal(a, b []c22Entry) bool {
	if len(a) != len(b) {
		return false
	}
	for i := range a {
		if a[i].h != b[i].h || !bytes.Equal(a[i].v, b[i].v) {
			return false
		}
	}
	return true
}

func c22Fmt(es []c22Entry) string {
	var parts []string
	for _, e := range es {
		parts = append(parts, fmt.Sprintf("%x..=%x", e.h[:2], e.v))
	}
	return "[" + strings.Join(parts, " ") + "]"
}

// c22Job is one iterator to create and consume completely.
type c22Job struct {
	layer c22Layer
	kind  string // "fast" (Database.AccountIterator/StorageIterator) or "binary"
	acct  int    // -1: account iterator, else storage iterator of that account
	seek  common.Hash
}

func (j c22Job) String() string {
	if j.acct < 0 {
		return fmt.Sprintf("%s account iterator at %v seek=%x", j.kind, j.layer.world, j.seek)
	}
	return fmt.Sprintf("%s storage iterator of %c at %v seek=%x", j.kind, 'A'+j.acct, j.layer.world, j.seek)
}

func (j c22Job) want() []c22Entry {
	if j.acct < 0 {
		return c22From(j.layer.world.accounts(), j.seek)
	}
	return c22From(j.layer.world.slots(j.acct), j.seek)
}

// jobs lists every iterator kind at every seek position on one live root.
// quickTouch restricts it to the zero seek (used while replaying a prefix: it
// only has to populate the same sorted-list caches a continuous run would have).
func c22Jobs(l c22Layer, quickTouch bool) []c22Job {
	aseeks, sseeks := c22AcctSeeks, c22SlotSeeks
	if quickTouch {
		aseeks, sseeks = aseeks[:1], sseeks[:1]
	}
	var out []c22Job
	for _, kind := range []string{"fast", "binary"} {
		for _, seek := range aseeks {
			out = append(out, c22Job{l, kind, -1, seek})
		}
		for a := 0; a < c22NAcct; a++ {
			for si, seek := range sseeks {
				if a == c22NAcct-1 && si > 0 {
					break // account C never has storage: one (empty) iteration suffices
				}
				out = append(out, c22Job{l, kind, a, seek})
			}
		}
	}
	return out
}

// create builds the iterator of a job (it blocks while a flush of the disk
// layer's frozen buffer is pending); panics are turned into errors.
func (in *c22Inst) create(j c22Job) (it Iterator, value func() []byte, err error) {
	defer func() {
		if p := recover(); p != nil {
			err = fmt.Errorf("panic: %v", p)
		}
	}()
	db := in.db
	lay := db.tree.get(j.layer.root)
	if lay == nil {
		return nil, nil, fmt.Errorf("live root %x.. (%v) is not in the layer tree", j.layer.root[:4], j.layer.world)
	}
	if j.acct < 0 {
		var ai AccountIterator
		if j.kind == "fast" {
			if ai, err = db.AccountIterator(j.layer.root, j.seek); err != nil {
				return nil, nil, err
			}
		} else {
			switch x := lay.(type) {
			case *diffLayer:
				ai = x.newBinaryAccountIterator(j.seek)
			case *diskLayer:
				ai = x.newBinaryAccountIterator(j.seek)
			}
		}
		return ai, ai.Account, nil
	}
	var si StorageIterator
	if j.kind == "fast" {
		if si, err = db.StorageIterator(j.layer.root, c22AcctHash[j.acct], j.seek); err != nil {
			return nil, nil, err
		}
	} else {
		switch x := lay.(type) {
		case *diffLayer:
			si = x.newBinaryStorageIterator(c22AcctHash[j.acct], j.seek)
		case *diskLayer:
			si = x.newBinaryStorageIterator(c22AcctHash[j.acct], j.seek)
		}
	}
	return si, si.Slot, nil
}

// c22EmptyExtra is the mismatch "the fast (merged) iterator yields exactly the
// reference entries plus entries with an EMPTY value": a deletion marker that is
// an empty non-nil slice passed the iterator's `!= nil` liveness test.
type c22EmptyExtra struct{ msg string }

func (e *c22EmptyExtra) Error() string { return e.msg }

func c22OnlyEmptyExtra(got, want []c22Entry) bool {
	var live []c22Entry
	for _, e := range got {
		if len(e.v) != 0 {
			live = append(live, e)
		}
	}
	return len(live) != len(got) && c22Equal(live, want)
}

// consume drains the iterator of a job and compares it with the reference.
func c22Consume(j c22Job, it Iterator, value func() []byte, when string, st *c22Stats) error {
	got, err := c22Drain(it, value)
	st.iterators++
	st.entries += len(got)
	if err != nil {
		return fmt.Errorf("%s%v: error %v after %s", when, j, err, c22Fmt(got))
	}
	if want := j.want(); !c22Equal(got, want) {
		msg := fmt.Sprintf("%s%v yields %s, the state has %s", when, j, c22Fmt(got), c22Fmt(want))
		if j.kind == "fast" && c22OnlyEmptyExtra(got, want) {
			return &c22EmptyExtra{msg}
		}
		return errors.New(msg)
	}
	return nil
}

// checkRoot returns the first hard mismatch; a c22EmptyExtra mismatch is only
// returned if nothing else is wrong on this root (the caller classifies it).
func (in *c22Inst) checkRoot(l c22Layer, quickTouch bool, st *c22Stats) error {
	var soft error
	for _, j := range c22Jobs(l, quickTouch) {
		it, value, err := in.create(j)
		if err != nil {
			return fmt.Errorf("%v: creation failed: %v", j, err)
		}
		if err := c22Consume(j, it, value, "", st); err != nil {
			var ee *c22EmptyExtra
			if !errors.As(err, &ee) {
				return err
			}
			if soft == nil {
				soft = err
			}
		}
	}
	return soft
}

// ---------------------------------------------------------------------------
// Iterators created while a flush is parked.

func c22GoID() uint64 {
	var b [64]byte
	f := strings.Fields(string(b[:runtime.Stack(b[:], false)]))
	id, _ := strconv.ParseUint(f[1], 10, 64)
	return id
}

// c22Parked reports whether every goroutine of ids is durably blocked in a
// channel operation (that is where diskLayer.waitFlush waits for buffer.done),
// judged from the runtime's own goroutine dump - no timing involved.
func c22Parked(ids map[uint64]bool, buf *[]byte) bool {
	for {
		n := runtime.Stack(*buf, true)
		if n < len(*buf) {
			*buf = (*buf)[:n]
			break
		}
		*buf = make([]byte, 2*len(*buf))
	}
	defer func() { *buf = (*buf)[:cap(*buf)] }()
	seen := 0
	for _, block := range strings.Split(string(*buf), "\n\n") {
		if !strings.HasPrefix(block, "goroutine ") {
			continue
		}
		rest := block[len("goroutine "):]
		sp := strings.IndexByte(rest, ' ')
		if sp < 0 {
			continue
		}
		id, err := strconv.ParseUint(rest[:sp], 10, 64)
		if err != nil || !ids[id] {
			continue
		}
		seen++
		state := rest[sp+1:]
		if !(strings.HasPrefix(state, "[chan receive") || strings.HasPrefix(state, "[select")) {
			return false
		}
	}
	return seen == len(ids) // a goroutine missing from the dump has just finished: look again
}

type c22ParkStats struct{ created, waiting, storeIterators int64 }

// parkedCheck is called while the flush started by the last operation is
// parked in front of its batch write: the frozen buffer's entries are neither
// in the live write buffer nor in the key-value store. Every iterator of every
// live root is requested now, each on its own goroutine (the real code waits
// for the flush inside the constructor). As soon as every creator has either
// returned or is durably parked, the flush is released; then all iterators are
// consumed and must enumerate exactly the reference entries.
func (in *c22Inst) parkedCheck(s *c22Stack, r *mc.R, st *c22Stats, ps *c22ParkStats) error {
	var jobs []c22Job
	for _, l := range s.layers {
		jobs = append(jobs, c22Jobs(l, false)...)
	}
	type result struct {
		it    Iterator
		value func() []byte
		err   error
	}
	var (
		results = make([]result, len(jobs))
		idCh    = make(chan [2]uint64, len(jobs))
		doneCh  = make(chan int, len(jobs))
		before  = in.gate.snapIters.Load()
	)
	for i := range jobs {
		go func(i int) {
			idCh <- [2]uint64{uint64(i), c22GoID()}
			it, value, err := in.create(jobs[i])
			results[i] = result{it, value, err}
			doneCh <- i
		}(i)
	}
	goid := make(map[int]uint64, len(jobs))
	for range jobs {
		x := <-idCh
		goid[int(x[0])] = x[1]
	}
	pending := make(map[int]bool, len(jobs))
	for i := range jobs {
		pending[i] = true
	}
	buf := make([]byte, 1<<20)
	deadline := time.Now().Add(60 * time.Second)
	for len(pending) > 0 {
		drained := false
		for {
			select {
			case i := <-doneCh:
				delete(pending, i)
				drained = true
				continue
			default:
			}
			break
		}
		if len(pending) == 0 {
			break
		}
		if !drained {
			ids := make(map[uint64]bool, len(pending))
			for i := range pending {
				ids[goid[i]] = true
			}
			if c22Parked(ids, &buf) {
				break
			}
		}
		if time.Now().After(deadline) { // watchdog against a hang only
			r.HarnessError("c22: iterator creators neither returned nor parked while the flush was held")
			break
		}
		runtime.Gosched()
	}
	ps.created += int64(len(jobs))
	ps.waiting += int64(len(pending))
	ps.storeIterators += in.gate.snapIters.Load() - before
	// release the flush; the waiting constructors return once buffer.done is closed
	in.gate.armed.Store(false)
	in.gate.open()
	in.inflight = false
	for len(pending) > 0 {
		delete(pending, <-doneCh)
	}
	var first error
	for i, j := range jobs {
		res := results[i]
		switch {
		case res.err != nil:
			if first == nil {
				first = fmt.Errorf("requested while the flush of the frozen buffer was pending: %v: creation failed: %v", j, res.err)
			}
		case first != nil:
			res.it.Release()
		default:
			first = c22Consume(j, res.it, res.value, "requested while the flush of the frozen buffer was pending: ", st)
		}
	}
	return first
}

// tolerated: the known defect class "after Recover with a non-empty write buffer the
// entries whose original value is 'absent' sit in the buffer as empty non-nil slices and
// the fast iterator yields them" - only in the history configurations, only for traces
// that contain a rollback, only for the exact symptom c22EmptyExtra.
func (s *c22Sys) tolerated(err error, trace []int) bool {
	var ee *c22EmptyExtra
	if err == nil || !s.sh.cfg.Hist || !errors.As(err, &ee) {
		return false
	}
	for _, i := range trace {
		if s.opOf(i) == c22OpRollback {
			return true
		}
	}
	return false
}

// check runs the iterators on every live root. After a structural operation (or
// when allRoots is set) every root gets every seek position; after a new layer
// was stacked on top only the new head does, the roots below (whose stacks are
// unchanged and were checked completely when they were the head) are iterated
// from the zero position only.
func (in *c22Inst) check(s *c22Stack, quickTouch, allRoots bool, st *c22Stats) error {
	var soft error
	for i, l := range s.layers {
		if err := c22CheckTrieOrder(l.world); err != nil {
			return err
		}
		touch := quickTouch || (!allRoots && i != len(s.layers)-1)
		if err := in.checkRoot(l, touch, st); err != nil {
			var ee *c22EmptyExtra
			if !errors.As(err, &ee) {
				return err
			}
			if soft == nil {
				soft = err
			}
		}
	}
	if quickTouch {
		return soft
	}
	// roots that were flattened away must not be iterable as anything but themselves
	for _, l := range s.dead {
		it, err := in.db.AccountIterator(l.root, common.Hash{})
		if err != nil {
			continue
		}
		got, err := c22Drain(it, it.Account)
		if err == nil && !c22Equal(got, l.world.accounts()) {
			return fmt.Errorf("account iterator at the flattened root of %v yields %s without error", l.world, c22Fmt(got))
		}
	}
	return soft
}

// fingerprint: content and sorted-list caches of every layer, write buffer and
// the flat state in the key-value store.
func (in *c22Inst) fingerprint() string {
	var sb strings.Builder
	set := func(s *stateSet) {
		for i, h := range c22AcctHash {
			if v, ok := s.accountData[h]; ok {
				fmt.Fprintf(&sb, "a%d=%x/%v;", i, v, v == nil) // nil-ness is part of the state: deletions are nil
			}
			if m, ok := s.storageData[h]; ok {
				sb.WriteString("{")
				for j, sh := range c22SlotHash {
					if v, ok := m[sh]; ok {
						fmt.Fprintf(&sb, "s%d=%x/%v;", j, v, v == nil)
					}
				}
				sb.WriteString("}")
			}
			_, cached := s.storageListSorted[h]
			fmt.Fprintf(&sb, "c%v;", cached)
		}
		fmt.Fprintf(&sb, "al=%v|", s.accountListSorted != nil)
	}
	// the tree is a chain here: order the registered layers by state id
	roots := make([]common.Hash, 0, len(in.db.tree.layers))
	for r := range in.db.tree.layers {
		roots = append(roots, r)
	}
	sort.Slice(roots, func(i, j int) bool {
		return in.db.tree.layers[roots[i]].stateID() < in.db.tree.layers[roots[j]].stateID()
	})
	for _, r := range roots {
		switch l := in.db.tree.layers[r].(type) {
		case *diskLayer:
			fmt.Fprintf(&sb, "disk(buf.layers=%d,frozen=%v):", l.buffer.layers, l.frozen != nil)
			set(l.buffer.states)
		case *diffLayer:
			sb.WriteString("diff:")
			set(l.states.stateSet)
		}
	}
	kv := in.db.diskdb
	for _, p := range [][]byte{rawdb.SnapshotAccountPrefix, rawdb.SnapshotStoragePrefix} {
		it := kv.NewIterator(p, nil)
		for it.Next() {
			fmt.Fprintf(&sb, "%x=%x;", it.Key(), it.Value())
		}
		it.Release()
	}
	sum := sha256.Sum256([]byte(sb.String()))
	return string(sum[:16])
}

// ---------------------------------------------------------------------------
// The explored system.

type c22Known struct {
	ops []string
	msg string
}

type c22Shared struct {
	known  []c22Known
	r      *mc.R
	park   c22ParkStats
	cfg    c22Cfg
	deltas []c22Delta
	names  []string
	mu     sync.Mutex
	counts map[string]int64
	st     c22Stats
	shapes map[string]bool
}

const (
	c22OpMerge    = -1
	c22OpCommit   = -2
	c22OpReopen   = -3
	c22OpRollback = -4
)

func c22NewShared(r *mc.R, cfg c22Cfg) *c22Shared {
	sh := &c22Shared{r: r, cfg: cfg, deltas: c22Deltas(), counts: map[string]int64{}, shapes: map[string]bool{}}
	for _, d := range sh.deltas {
		sh.names = append(sh.names, d.name)
	}
	sh.names = append(sh.names, "merge-bottom-diff", "commit-head", "journal+reopen", "rollback-disk-layer")
	return sh
}

type c22Sys struct {
	sh    *c22Shared
	stack *c22Stack
	trace []int
	in    *c22Inst
	err   error
}

func (sh *c22Shared) initialStack() *c22Stack {
	l := c22Layer{root: types.EmptyRootHash}
	return &c22Stack{layers: []c22Layer{l}, diskHist: []c22Layer{l}}
}

func (sh *c22Shared) newSys() mc.Sys {
	s := &c22Sys{sh: sh, stack: sh.initialStack()}
	s.preloadModel(s.stack)
	return s
}

// preload operations, expressed with the same primitives as the explored ones
func (sh *c22Shared) preloadOps() []int {
	var ops []int
	w := c22World{}
	if sh.cfg.Disk != w {
		// build the persistent world account by account, slot by slot
		for i := 0; i < c22NAcct; i++ {
			for w[i].N != sh.cfg.Disk[i].N {
				ops = append(ops, sh.find(i, 0, 0))
				w, _ = sh.deltas[ops[len(ops)-1]].apply(w)
			}
			for j := 0; j < c22NSlot; j++ {
				for w[i].S[j] != sh.cfg.Disk[i].S[j] {
					ops = append(ops, sh.find(i, 3, j))
					w, _ = sh.deltas[ops[len(ops)-1]].apply(w)
				}
			}
		}
		ops = append(ops, c22OpCommit)
	}
	for _, d := range sh.cfg.Preload {
		ops = append(ops, sh.find(d.acct, d.kind, d.slot))
	}
	if len(sh.cfg.Preload) > 1 {
		for i := 0; i < len(sh.cfg.Preload)-1; i++ {
			ops = append(ops, c22OpMerge)
		}
	}
	return ops
}

func (sh *c22Shared) find(acct, kind, slot int) int {
	for i, d := range sh.deltas {
		if d.acct == acct && d.kind == kind && d.slot == slot {
			return i
		}
	}
	panic("c22: no such delta")
}

func (s *c22Sys) preloadModel(st *c22Stack) {
	for _, op := range s.sh.preloadOps() {
		if !s.modelStep(st, op, false) {
			panic("c22: preload op not enabled")
		}
	}
	st.dead = nil
}

func (s *c22Sys) opOf(i int) int {
	switch {
	case i < len(s.sh.deltas):
		return i
	case i == len(s.sh.deltas):
		return c22OpMerge
	case i == len(s.sh.deltas)+1:
		return c22OpCommit
	case i == len(s.sh.deltas)+2:
		return c22OpReopen
	default:
		return c22OpRollback
	}
}

// modelStep applies op to the reference stack; false if not enabled.
func (s *c22Sys) modelStep(st *c22Stack, op int, limit bool) bool {
	switch op {
	case c22OpMerge:
		if len(st.layers) < 3 {
			return false // cap can only merge a diff layer that has a diff layer on top of it
		}
		st.dead = append(st.dead, st.layers[0])
		st.layers = st.layers[1:]
		st.diskHist = append(st.diskHist, st.layers[0])
		return true
	case c22OpCommit:
		if len(st.layers) < 2 {
			return false
		}
		st.diskHist = append(st.diskHist, st.layers[1:]...)
		st.dead = append(st.dead, st.layers[:len(st.layers)-1]...)
		st.layers = st.layers[len(st.layers)-1:]
		return true
	case c22OpReopen:
		return !s.sh.cfg.Hist // Journal(head) + Close + New: the stack and its worlds do not change
	case c22OpRollback:
		// Recover(previous state of the disk layer): all diff layers are dropped, the disk layer steps back
		if !s.sh.cfg.Hist || len(st.diskHist) < 2 {
			return false
		}
		st.dead = append(st.dead, st.layers...)
		st.diskHist = st.diskHist[:len(st.diskHist)-1]
		st.layers = []c22Layer{st.diskHist[len(st.diskHist)-1]}
		return true
	}
	if limit && len(st.layers) > 4 {
		return false // at most 4 diff layers on top of the disk layer
	}
	d := s.sh.deltas[op]
	head := st.head()
	nw, ok := d.apply(head.world)
	if !ok {
		return false
	}
	st.layers = append(st.layers, c22Layer{root: c22Root(nw), world: nw})
	return true
}

// realStep executes op on the real database. park: the flush started by this
// operation is to be parked at the gate (gated configuration, explored
// transition only); otherwise every flush is awaited before returning.
func (s *c22Sys) realStep(st *c22Stack, op int, park bool) error {
	in := s.in
	in.settle()
	flushes := 0
	if in.gate != nil && park {
		switch op {
		case c22OpCommit:
			flushes = len(st.layers) - 1 // forced: every merged layer is flushed, each waits for the previous one
		case c22OpMerge:
			if s.sh.cfg.Buffer == 0 {
				flushes = 1
			}
		}
		if flushes > 0 {
			in.gate.pass.Store(int64(flushes - 1))
			in.gate.armed.Store(true)
		}
	}
	err := s.realOp(st, op)
	if flushes > 0 {
		if fr := in.db.tree.bottom().frozen; fr != nil && fr.done != nil {
			select {
			case <-in.gate.arrived:
				in.inflight = true
			case <-fr.done:
			}
		}
		if !in.inflight {
			in.gate.armed.Store(false)
		}
	} else if in.gate != nil {
		in.db.tree.bottom().waitFlush()
	}
	if in.gate != nil && in.gate.timedOut.Load() {
		s.sh.r.HarnessError("c22: flush gate watchdog fired")
	}
	return err
}

func (s *c22Sys) realOp(st *c22Stack, op int) error {
	db := s.in.db
	switch op {
	case c22OpMerge:
		head := st.head()
		db.lock.Lock()
		defer db.lock.Unlock()
		return db.tree.cap(head.root, len(st.layers)-2)
	case c22OpCommit:
		return db.Commit(st.head().root, false)
	case c22OpReopen:
		return s.in.reopen(st.head().root, len(st.layers))
	case c22OpRollback:
		return db.Recover(st.diskHist[len(st.diskHist)-2].root)
	}
	head := st.head()
	d := s.sh.deltas[op]
	nw, _ := d.apply(head.world)
	nodes, states := c22Transition(head.world, nw)
	return db.Update(c22Root(nw), head.root, uint64(nw[c22Salt].N), nodes, states)
}

func (s *c22Sys) Enabled(i int) bool {
	probe := s.stack.clone()
	if !s.modelStep(probe, s.opOf(i), true) {
		return false
	}
	s.materialise()
	return true
}

func (s *c22Sys) materialise() {
	if s.in != nil {
		return
	}
	s.in = c22NewInst(s.sh.cfg)
	st := s.sh.initialStack()
	var stats c22Stats
	for _, op := range s.sh.preloadOps() {
		if err := s.realStep(st, op, false); err != nil {
			panic(fmt.Sprintf("c22: preload %d: %v", op, err))
		}
		s.modelStep(st, op, false)
	}
	st.dead = nil
	if err := s.in.check(st, true, false, &stats); err != nil {
		s.err = fmt.Errorf("prepared base: %v", err)
		return
	}
	for k, i := range s.trace {
		op := s.opOf(i)
		if err := s.realStep(st, op, false); err != nil {
			s.err = fmt.Errorf("replay divergence at prefix op %s: %v", s.sh.names[i], err)
			return
		}
		s.modelStep(st, op, true)
		if err := s.in.check(st, true, false, &stats); err != nil && !s.tolerated(err, s.trace[:k+1]) {
			s.err = fmt.Errorf("replay divergence at prefix op %s: %v", s.sh.names[i], err)
			return
		}
	}
}

func (s *c22Sys) Apply(i int) error {
	op := s.opOf(i)
	if s.in == nil {
		if !s.modelStep(s.stack, op, true) {
			return fmt.Errorf("c22: op %s applied while disabled", s.sh.names[i])
		}
		s.trace = append(s.trace, i)
		return nil
	}
	if s.err != nil {
		return s.err
	}
	if err := s.realStep(s.stack, op, true); err != nil {
		return fmt.Errorf("%s failed: %v", s.sh.names[i], err)
	}
	s.modelStep(s.stack, op, true)
	s.trace = append(s.trace, i)
	var st c22Stats
	var ps c22ParkStats
	var err error
	if s.in.inflight {
		err = s.in.parkedCheck(s.stack, s.sh.r, &st, &ps)
	}
	s.in.settle()
	if err == nil { // and once more right after the release
		err = s.in.check(s.stack, false, op < 0 || len(s.trace) == 1, &st)
	}
	sh := s.sh
	known := s.tolerated(err, s.trace)
	sh.mu.Lock()
	if known {
		names := make([]string, len(s.trace))
		for k, o := range s.trace {
			names[k] = sh.names[o]
		}
		sh.known = append(sh.known, c22Known{ops: names, msg: err.Error()})
		sh.counts["fast iterator yields empty-valued entries after a rollback (known defect class)"]++
		err = nil
	}
	sh.park.created += ps.created
	sh.park.waiting += ps.waiting
	sh.park.storeIterators += ps.storeIterators
	if ps.created > 0 {
		sh.counts["flush parked while all iterators were requested"]++
	}
	switch op {
	case c22OpMerge:
		sh.counts["merge"]++
	case c22OpCommit:
		sh.counts["commit"]++
	case c22OpReopen:
		sh.counts["journal+reopen"]++
	case c22OpRollback:
		sh.counts["rollback"]++
	default:
		sh.counts[[]string{"account set", "account destruct", "account destruct+recreate", "slot set", "slot delete"}[sh.deltas[op].kind]]++
	}
	sh.st.iterators += st.iterators
	sh.st.entries += st.entries
	disk := s.in.db.tree.base
	shape := fmt.Sprintf("store=%v buffer=%v diffs=%d", s.storeNonEmpty(), disk.buffer.layers > 0, len(s.stack.layers)-1)
	sh.shapes[shape] = true
	sh.mu.Unlock()
	return err
}

func (s *c22Sys) storeNonEmpty() bool {
	it := s.in.db.diskdb.NewIterator(rawdb.SnapshotAccountPrefix, nil)
	defer it.Release()
	return it.Next()
}

func (s *c22Sys) Key() string {
	s.materialise()
	if s.err != nil {
		return ""
	}
	var sb strings.Builder
	for _, l := range s.stack.layers {
		sb.WriteString(l.world.String() + "/")
	}
	return sb.String() + "#" + s.in.fingerprint()
}

func c22Close(s mc.Sys) {
	if in := s.(*c22Sys).in; in != nil {
		in.close()
	}
}

func TestVerif_C22(t *testing.T) {
	mc.Run(t, "C22", func(r *mc.R) {
		old := maxDiffLayers
		defer func() { maxDiffLayers = old }()
		maxDiffLayers = 64 // never flatten implicitly: the structural operations do it
		r.Rule("explicit-state BFS over layer stacks of the real pathdb.Database: one delta per layer out of {account create/modify, destruct, destruct+recreate with fresh storage, slot set, slot delete} " +
			"over 3 accounts x 2 slots (plus a salt account changed by every transition; real state roots and trie node sets), plus merge-bottom-diff-into-disk-layer, Commit(head), journal+reopen (Database.Journal(head), Close, New on the same store) " +
			"and - with state histories on - rollback-disk-layer (Recover to the previous disk state), on prepared bases; after every operation every live root is iterated with the fast and the binary " +
			"account iterator and all storage iterators from every seek position; in the async-parked configurations the flush started by the explored operation is parked in front of its key-value batch write, " +
			"all iterators of all live roots are requested in that window (each on its own goroutine), the flush is released once every creator has returned or is durably blocked, and all of them are consumed; " +
			"state key = worlds of the stack + content/list caches of all layers, write buffer and flat store")
		r.Bound("accounts", c22NAcct)
		r.Bound("slots_per_account", c22NSlot)
		r.Bound("account_seek_positions", len(c22AcctSeeks))
		r.Bound("slot_seek_positions", len(c22SlotSeeks))
		r.Assume("async-parked: the only concurrency is iterator construction vs. one pending flush, forced deterministically (gate in a wrapper of the key-value store; 'creator blocked' is read from the runtime's goroutine dump, wall-clock only as a hang watchdog that yields a harness error); flushes in prefix replays are awaited through diskLayer.waitFlush")
		r.Assume("reference = per-root world (sorted existing entries >= seek); its order is cross-checked once per world against the leaf order of a trie built from it; synthetic account/slot hashes at edge positions (flat state and iterators never check pre-images); keccak account hashes in the history configurations; roots and trie nodes are the real ones of the reference world, built from fresh in-memory tries")
		rich := c22World{{N: 1, S: [2]uint8{1, 1}}, {N: 1, S: [2]uint8{0, 1}}, {N: 1}}
		ds := c22Deltas()
		pick := func(acct, kind, slot int) c22Delta {
			for _, d := range ds {
				if d.acct == acct && d.kind == kind && d.slot == slot {
					return d
				}
			}
			panic("c22: delta")
		}
		// write buffer content on top of the rich store: A destructed and recreated, slot of B deleted, C destructed;
		// one more delta (B.s1 set) stays as the bottom diff layer.
		buffered := []c22Delta{pick(0, 2, 0), pick(1, 4, 1), pick(2, 1, 0), pick(1, 3, 0)}
		// history configuration: the write buffer holds a slot creation (B.s1), the destruction of C and its re-creation
		// (entries whose original value is "absent"), A destructed stays as the bottom diff layer.
		histBuffered := []c22Delta{pick(1, 3, 0), pick(2, 1, 0), pick(2, 0, 0), pick(0, 1, 0)}
		type plan struct {
			cfg   c22Cfg
			depth int
		}
		dq := mc.Pick(r, 3, 4)
		ds2 := mc.Pick(r, 2, 3)
		plans := []plan{
			{c22Cfg{Name: "fresh/buf1M", Buffer: 1 << 20}, mc.Pick(r, 3, 5)},
			// asynchronous flush: the last flush started by the explored operation (a Commit; with write buffer 0 also a
			// merge) is parked in front of its batch write while all iterators of all live roots are requested
			{c22Cfg{Name: "store/buf1M/async-parked", Buffer: 1 << 20, Disk: rich, Gated: true}, dq},
			{c22Cfg{Name: "store+buffer/buf1M", Buffer: 1 << 20, Disk: rich, Preload: buffered}, dq},
			{c22Cfg{Name: "store/buf0", Buffer: 0, Disk: rich}, ds2},
			{c22Cfg{Name: "store+diff/buf0/async-parked", Buffer: 0, Disk: rich, Preload: buffered[3:], Gated: true}, ds2},
			// journal written to a file instead of the key-value store
			{c22Cfg{Name: "store+buffer/buf1M/journal-file", Buffer: 1 << 20, Disk: rich, Preload: buffered, JFile: true}, ds2},
			// state histories on (keccak key set): "rollback-disk-layer" = Recover(previous disk state) replaces "journal+reopen"
			{c22Cfg{Name: "store+buffer/buf1M/history", Buffer: 1 << 20, Disk: rich, Preload: histBuffered, Hist: true}, dq},
			{c22Cfg{Name: "store+diff/buf0/history", Buffer: 0, Disk: rich, Preload: buffered[3:], Hist: true}, ds2},
		}
		for _, p := range plans {
			if r.Expired() {
				break
			}
			if p.cfg.Hist {
				c22UseKeys(1)
			} else {
				c22UseKeys(0)
			}
			sh := c22NewShared(r, p.cfg)
			r.Bound(p.cfg.Name+".depth", p.depth)
			r.Explore(mc.Config{Name: "C22/pathdb/" + p.cfg.Name, Ops: sh.names, Depth: p.depth, New: sh.newSys, Close: c22Close})
			for k, v := range sh.counts {
				r.OutcomeN(p.cfg.Name+"/"+k, v)
			}
			var tr int64
			for k, v := range sh.counts {
				if !strings.HasPrefix(k, "flush parked") && !strings.HasPrefix(k, "fast iterator yields") {
					tr += v
				}
			}
			if p.cfg.Gated {
				r.OutcomeN(p.cfg.Name+"/iterators requested while the flush was parked", sh.park.created)
				r.OutcomeN(p.cfg.Name+"/of which waiting for the flush at release", sh.park.waiting)
				r.OutcomeN(p.cfg.Name+"/store iterators opened while the flush was parked", sh.park.storeIterators)
			}
			r.OutcomeN(p.cfg.Name+"/transitions", tr)
			r.OutcomeN(p.cfg.Name+"/iterator runs", int64(sh.st.iterators))
			r.OutcomeN(p.cfg.Name+"/entries yielded", int64(sh.st.entries))
			if len(sh.known) > 0 {
				sort.Slice(sh.known, func(i, j int) bool {
					a, b := sh.known[i].ops, sh.known[j].ops
					if len(a) != len(b) {
						return len(a) < len(b)
					}
					return strings.Join(a, ";") < strings.Join(b, ";")
				})
				k := sh.known[0]
				r.Violation("C22/fast-iterator-empty-entry-after-rollback/"+p.cfg.Name+":"+strings.Join(k.ops, ";"),
					fmt.Sprintf("%s (Recover with a non-empty write buffer stored the history's empty non-nil original values of entries that did not exist; %d traces of this class in this exploration)", k.msg, len(sh.known)),
					map[string]any{"explore": "C22/pathdb/" + p.cfg.Name, "ops": k.ops})
			}
			var shapes []string
			for s := range sh.shapes {
				shapes = append(shapes, s)
			}
			sort.Strings(shapes)
			r.Bound(p.cfg.Name+".stack_shapes", shapes)
		}
	})
}
