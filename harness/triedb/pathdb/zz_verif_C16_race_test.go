//go:build verif

package pathdb

// C16, concurrency part: a flat-state read that reaches the key-value store vs. a
// flatten (cap / Commit / Update-triggered cap) that merges newer layers into the same
// disk layer and flushes them.
//
// The interleaving is forced deterministically from the outside: the key-value store
// handed to pathdb.New is wrapped and the one targeted Get parks either before or after
// it has read the value. While the read is parked the flatten is started on a second
// goroutine. The verdict follows from the lock semantics of the disk layer: a read holds
// the layer's read lock until it returns and diskLayer.commit needs the write lock, so
// the flatten MUST be blocked on a lock as long as the read is parked (its goroutine
// state is taken from the runtime's goroutine dump - no timing). "The flatten completed
// while a disk read of the same layer was in flight" is the violation. Independently of
// that the read must return the value of ITS root or a stale-layer error, and after
// quiescence every root is read again through fresh readers (poisoned clean cache).

import (
	"bytes"
	"errors"
	"fmt"
	"runtime"
	"strconv"
	"strings"
	"sync/atomic"
	"testing"
	"time"

	"github.com/ethereum/go-ethereum/core/rawdb"
	"github.com/ethereum/go-ethereum/ethdb"
	"github.com/ethereum/go-ethereum/internal/verif/mc"
	"github.com/ethereum/go-ethereum/triedb/database"
)

// c16HookDB parks one targeted Get.
type c16HookDB struct {
	ethdb.Database
	key       []byte
	armed     atomic.Bool
	readFirst bool          // true: read the value, then park; false: park, then read the value
	reached   chan struct{} // closed once the targeted Get is parked
	resume    chan struct{} // closed by the harness
	timedOut  atomic.Bool
}

func (h *c16HookDB) Get(key []byte) ([]byte, error) {
	if bytes.Equal(key, h.key) && h.armed.CompareAndSwap(true, false) {
		park := func() {
			close(h.reached)
			select {
			case <-h.resume:
			case <-time.After(60 * time.Second): // watchdog against a hang only; reported as harness error
				h.timedOut.Store(true)
			}
		}
		if h.readFirst {
			val, err := h.Database.Get(key)
			park()
			return val, err
		}
		park()
	}
	return h.Database.Get(key)
}

func c16GoID() uint64 {
	var b [64]byte
	f := strings.Fields(string(b[:runtime.Stack(b[:], false)]))
	id, _ := strconv.ParseUint(f[1], 10, 64)
	return id
}

// c16GoState returns the wait state of goroutine id from the runtime's goroutine dump ("" if it is gone).
func c16GoState(id uint64, buf *[]byte) string {
	for {
		n := runtime.Stack(*buf, true)
		if n < len(*buf) {
			dump := string((*buf)[:n])
			marker := fmt.Sprintf("goroutine %d [", id)
			i := strings.Index(dump, "\n"+marker)
			if strings.HasPrefix(dump, marker) {
				i = -1
			} else if i < 0 {
				return ""
			}
			rest := dump[i+1+len(marker):]
			if j := strings.IndexAny(rest, "],"); j >= 0 {
				return rest[:j]
			}
			return rest
		}
		*buf = make([]byte, 2*len(*buf))
	}
}

type c16RaceCase struct {
	Part   string `json:"part"`
	Reader string `json:"reader"` // root the read is issued at: old disk root, first or second diff layer
	Key    string `json:"key"`    // account | slot
	Flush  string `json:"flush"`  // cap | commit | update
	Delta  string `json:"delta"`  // what the flattened layer does to the key: rewritten | deleted | untouched
	Park   string `json:"park"`   // before-read | after-read
}

func c16RunRace(r *mc.R, u *c16Universe, c c16RaceCase) (outcome string, err error) {
	// ---- build: disk = {A nonce 1, slot 1, B}; C1 = disk + delta1; C2 = C1 + delta2
	start := c16World{A: 1, AS: 1, B: 1}
	var d1 int
	switch c.Key + "/" + c.Delta {
	case "account/rewritten":
		d1 = 1 // A=2
	case "account/deleted", "slot/deleted":
		d1 = 2 // A=del (account and slot vanish)
		if c.Key == "slot" {
			d1 = 5 // As=del
		}
	case "slot/rewritten":
		d1 = 4 // As=2
	default:
		d1 = 7 // B=del: account A and its slot untouched
	}
	d2 := 7 // C2 = C1 + B=del
	if d1 == 7 {
		// the only other way to get a third world is to touch A: C2 = C1 + A=2 (the slot stays untouched; the account
		// key stays untouched by the flattened layer as long as only C1 is flattened)
		d2 = 1
		if c.Key == "account" && c.Flush == "commit" {
			return "not realisable in the 14-world alphabet (Commit would flatten a layer that rewrites the account)", nil
		}
	}
	w0 := u.byWorld[start]
	cw1, ok1 := c16ApplyDelta(start, d1)
	cw2, ok2 := c16ApplyDelta(cw1, d2)
	if !ok1 || !ok2 {
		return "", fmt.Errorf("harness: scenario deltas not enabled")
	}
	w1, w2 := u.byWorld[cw1], u.byWorld[cw2]

	hook := &c16HookDB{Database: rawdb.NewMemoryDatabase(), readFirst: c.Park == "after-read", reached: make(chan struct{}), resume: make(chan struct{})}
	if c.Key == "account" {
		hook.key = append(append([]byte{}, rawdb.SnapshotAccountPrefix...), u.ahash[0].Bytes()...)
	} else {
		hook.key = append(append(append([]byte{}, rawdb.SnapshotStoragePrefix...), u.ahash[0].Bytes()...), u.shash.Bytes()...)
	}
	in := &c16Inst{cfg: c16Cfg{Name: "race", Buffer: 0, Cache: 64 * 1024, MaxDL: 2, Start: start}, u: u,
		heldS: make([]database.StateReader, len(u.worlds)), heldN: make([]database.NodeReader, len(u.worlds))}
	in.db = New(hook, &Config{TrieCleanSize: 64 * 1024, StateCleanSize: 64 * 1024, WriteBufferSize: 0, TrienodeHistory: -1, NoAsyncFlush: true, NoAsyncGeneration: true}, false)
	broken := false
	defer func() {
		if !broken {
			in.db.Close()
			in.db.diskdb.Close()
		}
	}()
	m := c16NewModel(len(u.worlds), w0)
	update := func(p, ch int) error {
		nodes, states := c16Transition(u, p, ch)
		return in.db.Update(u.worlds[ch].root, u.worlds[p].root, uint64(ch), nodes, states)
	}
	if err := update(0, w0); err != nil {
		return "", fmt.Errorf("harness: preload: %v", err)
	}
	if err := in.db.Commit(u.worlds[w0].root, false); err != nil {
		return "", fmt.Errorf("harness: preload commit: %v", err)
	}
	if err := update(w0, w1); err != nil {
		return "", fmt.Errorf("harness: update C1: %v", err)
	}
	m.parent[w1] = w0
	if err := update(w1, w2); err != nil {
		return "", fmt.Errorf("harness: update C2: %v", err)
	}
	m.parent[w2] = w1
	in.db.tree.bottom().resetCache() // cold clean caches: the read has to go to the key-value store

	// ---- the read
	rw := map[string]int{"disk": w0, "diff1": w1, "diff2": w2}[c.Reader]
	sr, err := in.db.StateReader(u.worlds[rw].root)
	if err != nil {
		return "", fmt.Errorf("harness: reader at %v: %v", u.worlds[rw].w, err)
	}
	type result struct {
		blob []byte
		err  error
	}
	rdone := make(chan result, 1)
	hook.armed.Store(true)
	go func() {
		var res result
		if e := mc.Safely(func() error {
			if c.Key == "account" {
				res.blob, res.err = sr.(*reader).AccountRLP(u.ahash[0])
			} else {
				res.blob, res.err = sr.Storage(u.ahash[0], u.shash)
			}
			return nil
		}); e != nil {
			res.err = e
		}
		rdone <- res
	}()
	var (
		res    result
		parked bool
		got    bool
	)
	select {
	case <-hook.reached:
		parked = true
	case res = <-rdone:
		got = true // served above the key-value store (diff layer holds the key)
	}
	hook.armed.Store(false)

	// ---- the flatten, on its own goroutine
	var extra int
	fdone := make(chan error, 1)
	fid := make(chan uint64, 1)
	switch c.Flush {
	case "update":
		// C3 = C2 + the first delta that leads to a world not yet in the tree
		var cw3 c16World
		found := false
		for _, d := range []int{0, 1, 3, 4, 5, 6, 7, 2} {
			if x, ok := c16ApplyDelta(cw2, d); ok && x != cw2 && x != cw1 && x != start {
				cw3, found = x, true
				break
			}
		}
		if !found {
			return "", fmt.Errorf("harness: no third layer available")
		}
		extra = u.byWorld[cw3]
	}
	go func() {
		fid <- c16GoID()
		fdone <- mc.Safely(func() error {
			switch c.Flush {
			case "cap":
				in.db.lock.Lock()
				defer in.db.lock.Unlock()
				return in.db.tree.cap(u.worlds[w2].root, 1)
			case "commit":
				return in.db.Commit(u.worlds[w2].root, false)
			default:
				return update(w2, extra)
			}
		})
	}()
	id := <-fid
	var (
		ferr      error
		fFinished bool
		lockViol  error
	)
	if parked {
		// wait until the flatten has finished or is blocked on a lock
		buf := make([]byte, 1<<20)
		deadline := time.Now().Add(60 * time.Second)
	poll:
		for {
			select {
			case ferr = <-fdone:
				fFinished = true
				break poll
			default:
			}
			st := c16GoState(id, &buf)
			if strings.HasPrefix(st, "sync.") || strings.HasPrefix(st, "semacquire") {
				break poll // blocked on a mutex: the parked read holds the disk layer's read lock
			}
			if time.Now().After(deadline) {
				r.HarnessError("c16 race: the flatten neither finished nor blocked on a lock")
				break poll
			}
			runtime.Gosched()
		}
		if fFinished {
			lockViol = fmt.Errorf("the flatten (%s) completed while a disk-layer read of %s at root %v was in flight (parked %s inside the key-value store): the read does not hold the disk layer lock until it returns",
				c.Flush, c.Key, u.worlds[rw].w, c.Park)
		}
		close(hook.resume)
		res = <-rdone
		got = true
	}
	if !fFinished {
		select {
		case ferr = <-fdone:
		case <-time.After(60 * time.Second):
			broken = true
			r.HarnessError("c16 race: the flatten did not finish after the read was released")
			return "hang", nil
		}
	}
	if hook.timedOut.Load() {
		r.HarnessError("c16 race: parked read watchdog fired")
	}
	_ = got
	if ferr != nil {
		broken = strings.HasPrefix(ferr.Error(), "panic")
		return "", fmt.Errorf("flatten %s failed: %v", c.Flush, ferr)
	}
	// reference model of the flatten
	switch c.Flush {
	case "cap":
		m.cap(w2, 1)
	case "commit":
		m.cap(w2, 0)
	default:
		m.parent[extra] = w2
		m.cap(extra, 2)
	}
	if lockViol != nil {
		return "", lockViol
	}
	// ---- the read's own result: value of its root or a stale-layer error
	want := u.worlds[rw].slim[u.ahash[0]]
	if c.Key == "slot" {
		want = u.worlds[rw].slots[u.ahash[0]][u.shash]
	}
	switch {
	case res.err != nil:
		if !errors.Is(res.err, errSnapshotStale) {
			return "", fmt.Errorf("read of %s at root %v racing with %s: unexpected error %v", c.Key, u.worlds[rw].w, c.Flush, res.err)
		}
		outcome = "read: stale error"
	case !c16Same(res.blob, want):
		return "", fmt.Errorf("read of %s at root %v racing with %s returned %x, that state has %x", c.Key, u.worlds[rw].w, c.Flush, res.blob, want)
	default:
		outcome = "read: own value"
	}
	if parked {
		outcome += ", flatten blocked until the read returned"
	} else {
		outcome += ", served above the key-value store"
	}
	// ---- after quiescence: every root through fresh readers
	var st c16Stats
	var issues []string
	if err := in.check(m, &st, &issues); err != nil {
		return "", fmt.Errorf("after the race (%s): %v", outcome, err)
	}
	if len(issues) > 0 {
		return "", fmt.Errorf("after the race: %s", issues[0])
	}
	return outcome, nil
}

func TestVerif_C16_race(t *testing.T) {
	mc.Run(t, "C16", func(r *mc.R) {
		u := c16GetUniverse()
		old := maxDiffLayers
		defer func() { maxDiffLayers = old }()
		maxDiffLayers = 2
		r.Rule("complete product of {reader root: old disk root, first diff layer, second diff layer} x {key: account, storage slot} x {flatten: cap(head,1), Commit(head), Update-triggered cap} x " +
			"{the flattened layer rewrites / deletes / does not touch the key} x {read parked before / after the key-value Get}; one flat read racing with one flatten, interleaving forced by parking the targeted Get; " +
			"distinct = scenario")
		r.Assume("the verdict on the interleaving follows lock semantics: while the read is parked inside the key-value store the flatten goroutine must be blocked on a mutex (state taken from the runtime goroutine dump); wall clock only as a hang watchdog that yields a harness error")
		r.Assume("write buffer 0, NoAsyncFlush (the flush runs inside diskLayer.commit under the layer's write lock), clean caches 64 KiB reset before the read so that it reaches the key-value store")
		var cases []c16RaceCase
		for _, reader := range []string{"disk", "diff1", "diff2"} {
			for _, key := range []string{"account", "slot"} {
				for _, flush := range []string{"cap", "commit", "update"} {
					for _, delta := range []string{"rewritten", "deleted", "untouched"} {
						for _, park := range []string{"before-read", "after-read"} {
							cases = append(cases, c16RaceCase{"disk-read-vs-flatten", reader, key, flush, delta, park})
						}
					}
				}
			}
		}
		r.Bound("scenarios", len(cases))
		r.Parallel(len(cases), func(i int) {
			c := cases[i]
			var outcome string
			r.Case(c, func() error {
				o, err := c16RunRace(r, u, c)
				outcome = o
				return err
			})
			if outcome != "" {
				r.Outcome(outcome)
			}
			r.Distinct(fmt.Sprint(c))
			if i%17 == 0 {
				r.Sample(c)
			}
		})
	})
}
