//go:build verif

package pathdb

// C18 — historical state reads return the value at that state.
//
// Uses the history generator / reference world of the C17 harness (zz_verif_C17_test.go is part of this step).
// Every history: <= L transitions with Commit at every position, optionally followed by a rollback to a recoverable
// root and a different two-transition fork; configurations: history limit {0,2} (2 forces tail pruning), write buffer
// {0,1MB}, trienode history {off,on}; indexing enabled. After the history, for EVERY root ever created (canonical,
// abandoned by the rollback, unknown) HistoricReader / HistoricNodeReader are opened and every account, slot (including
// never-used keys) and the complete tries are read and compared with the reference world of that root:
//   safety   - a reader that opens never returns a value different from that root's world;
//   refusal  - abandoned (non-canonical), pruned and unknown roots are refused;
//   liveness - retained canonical roots below the disk layer must be readable.
// The checks are repeated after the index pruner ran at the current tail, and at every index-progress value obtained
// by un-indexing the newest histories one by one (reads are then refused or right) and indexing them again.

import (
	"bytes"
	"encoding/binary"
	"errors"
	"fmt"
	"runtime"
	"strings"
	"sync/atomic"
	"testing"
	"time"

	"github.com/ethereum/go-ethereum/common"
	"github.com/ethereum/go-ethereum/core/rawdb"
	"github.com/ethereum/go-ethereum/ethdb"
	"github.com/ethereum/go-ethereum/ethdb/memorydb"
	"github.com/ethereum/go-ethereum/internal/verif/mc"
	"github.com/ethereum/go-ethereum/log"
	"github.com/ethereum/go-ethereum/trie"
	"github.com/ethereum/go-ethereum/triedb/database"
)

type c18Case struct {
	Cfg      c17Cfg   `json:"cfg"`
	Ops      []string `json:"ops"`
	Rollback int      `json:"rollback"` // -1: none; otherwise the id of the state rolled back to, followed by a fork
	// Index-pruner interleaving: after Ops a pruning scan (indexPruner.process at the history tail) is started in
	// its own goroutine and held at its PrunerAt-th visited index entry (1-based; 0 = no scan) until the pause request of
	// the next operation is pending; then Suffix (deltas, COMMIT, "RECOVER:<id>") is executed, the scan drained, and the
	// usual oracle applied.
	PrunerAt int      `json:"pruner_at,omitempty"`
	Suffix   []string `json:"suffix,omitempty"`
	// Check selects a dedicated scenario ("shorten-during-initial-indexing").
	Check string `json:"check,omitempty"`
	// IniterPark: the history is built without indexing, then a genuine indexIniter is started on it and its background
	// index routine is held at its final flush ("before-final-flush": in front of the batch write that carries the index
	// metadata, "after-final-flush": right after it, before the routine returns) while Recover(Rollback) arrives.
	IniterPark string `json:"initer_park,omitempty"`
}

// c18NodeDB serves trie nodes of historical states through HistoricNodeReader.
type c18NodeDB struct{ db *Database }

func (d c18NodeDB) NodeReader(root common.Hash) (database.NodeReader, error) {
	return d.db.HistoricNodeReader(root)
}

func c18WaitInited(in *c17Inst) error {
	for _, ix := range []*historyIndexer{in.db.stateIndexer, in.db.trienodeIndexer} {
		if ix == nil {
			continue
		}
		select {
		case <-ix.initer.done:
		case <-time.After(2 * time.Minute):
			return errors.New("history indexer did not finish its initial run on an empty database within 2 minutes")
		}
	}
	return nil
}

type c18Root struct {
	root      common.Hash
	world     *c17World // nil for unknown roots
	id        int
	canonical bool
}

// c18Old is a historical state reader object that is kept alive while the chain moves on. Its stateHistoryReader
// caches one index reader per key that was looked up (also for keys without any index entry yet).
type c18Old struct {
	hr       *HistoricalStateReader
	root     *c18Root
	openedAt string
	epoch    int // number of rollbacks that had happened when it was opened
}

// c18Run is the state of one checked case.
type c18Run struct {
	r     *mc.R
	in    *c17Inst
	all   []*c18Root
	known map[common.Hash]*c18Root
	olds  []*c18Old
	epoch int
	// wrong values served by a long-lived reader that survived a rollback are collected separately (they are reported
	// under their own case key "check":"old-reader-across-rollback")
	abandoned error
}

func (run *c18Run) record() {
	in := run.in
	for i := range in.roots {
		if run.known[in.roots[i]] == nil {
			w := in.worlds[i]
			t := &c18Root{root: in.roots[i], world: &w, id: i}
			run.known[in.roots[i]] = t
			run.all = append(run.all, t)
		}
	}
	canonical := map[common.Hash]bool{}
	for _, root := range in.roots {
		canonical[root] = true
	}
	for _, t := range run.all {
		t.canonical = t.world != nil && canonical[t.root]
	}
}

// verifyOld re-reads every key through every reader object opened at an earlier stage.
func (run *c18Run) verifyOld(indexed bool, stage string) error {
	db := run.in.db
	diskID := db.tree.bottom().stateID()
	tail, err := db.stateFreezer.Tail(rawdb.DefaultHistoryGroup)
	if err != nil {
		return err
	}
	for _, o := range run.olds {
		t := o.root
		what := fmt.Sprintf("%s: long-lived state reader of state %d opened %s (canonical=%v, disk layer %d, history tail %d, rollbacks since opened %d)",
			stage, t.id, o.openedAt, t.canonical, diskID, tail, run.epoch-o.epoch)
		// a held reader whose state has dropped out of the retained window (id < history tail) must refuse EVERY read
		if uint64(t.id) < tail {
			if served := c18ServedReads(o.hr); served != "" {
				return fmt.Errorf("%s: its state is no longer retained, yet the reader still serves %s", what, served)
			}
			run.r.Outcome(fmt.Sprintf("old-reader:refuses-all-reads-%d-below-tail", tail-uint64(t.id)))
			continue
		}
		refused, wrong := c18ReadState(o.hr, t.world)
		if wrong != nil {
			if o.epoch != run.epoch {
				// the reader object survived a rollback below the disk layer (its root may or may not still be canonical)
				if run.abandoned == nil {
					run.abandoned = fmt.Errorf("%s: %v", what, wrong)
				}
				run.r.Outcome("old-reader:wrong-value-after-rollback")
				continue
			}
			return fmt.Errorf("%s: %v", what, wrong)
		}
		retained := t.canonical && uint64(t.id) < diskID && uint64(t.id) >= tail
		switch {
		case refused == nil:
			run.r.Outcome("old-reader:read-ok")
		case retained && indexed && o.epoch == run.epoch:
			// (after a rollback the per-key index readers are deliberately marked stale, a refusal is accepted then)
			return fmt.Errorf("%s: refuses although its state is still retained, canonical and indexed: %v", what, refused)
		default:
			run.r.Outcome("old-reader:refused")
		}
	}
	return nil
}

// verify re-reads through all long-lived readers, then opens a fresh historical reader for every root and compares
// every read with the reference. indexed: the index is complete (liveness is only demanded then). nodes: also walk
// the tries through HistoricNodeReader. keep: retain the freshly opened state readers as long-lived readers.
func (run *c18Run) verify(indexed, nodes, keep bool, stage string) error {
	if err := run.verifyOld(indexed, stage); err != nil {
		return err
	}
	r, in := run.r, run.in
	db := in.db
	diskID := db.tree.bottom().stateID()
	for _, typ := range []string{"state", "trienode"} {
		var freezer ethdb.AncientStore = db.stateFreezer
		if typ == "trienode" {
			if db.trienodeFreezer == nil || !nodes {
				continue
			}
			freezer = db.trienodeFreezer
		}
		tail, err := freezer.Tail(rawdb.DefaultHistoryGroup)
		if err != nil {
			return err
		}
		for _, t := range run.all {
			retained := t.canonical && uint64(t.id) < diskID && uint64(t.id) >= tail
			mustRefuse := t.world == nil || !t.canonical || (uint64(t.id) < tail)
			what := fmt.Sprintf("%s: %s reader of state %d (canonical=%v, disk layer %d, history tail %d)", stage, typ, t.id, t.canonical, diskID, tail)
			var readErr error
			if typ == "state" {
				hr, err := db.HistoricReader(t.root)
				if err != nil {
					readErr = err
				} else {
					if mustRefuse {
						return fmt.Errorf("%s: opened although the root must be refused", what)
					}
					readErr, err = c18ReadState(hr, t.world)
					if err != nil {
						return fmt.Errorf("%s: %v", what, err)
					}
					if keep {
						run.olds = append(run.olds, &c18Old{hr: hr, root: t, openedAt: stage, epoch: run.epoch})
					}
				}
			} else {
				_, err := db.HistoricNodeReader(t.root)
				if err != nil {
					readErr = err
				} else {
					if mustRefuse {
						return fmt.Errorf("%s: opened although the root must be refused", what)
					}
					readErr, err = c18ReadTries(db, t.root, t.world)
					if err != nil {
						return fmt.Errorf("%s: %v", what, err)
					}
				}
			}
			switch {
			case readErr == nil:
				r.Outcome(typ + ":read-ok")
			case retained && indexed:
				return fmt.Errorf("%s: refused although the state is retained and indexed: %v", what, readErr)
			default:
				r.Outcome(typ + ":refused")
			}
		}
	}
	return nil
}

// c18ReadState reads everything through a historical state reader. The first result is a refusal (an error returned
// by a read), the second a wrong value.
func c18ReadState(hr *HistoricalStateReader, w *c17World) (error, error) {
	var refused error
	for i := 0; i <= c17NAcc; i++ {
		var acc c17Acc
		if i < c17NAcc {
			acc = w.Acc[i]
		}
		got, err := hr.AccountRLP(c17Addrs[i])
		if err != nil {
			refused = err
		} else if !bytes.Equal(got, acc.slim()) {
			return nil, fmt.Errorf("account %d reads %x, its value in that state is %x", i, got, acc.slim())
		}
		for j := 0; j <= c17NSlot; j++ {
			var want []byte
			if j < c17NSlot {
				want = c17SlotRLP(acc.Slots[j])
			}
			got, err := hr.Storage(c17Addrs[i], c17SlotKeys[j])
			if err != nil {
				refused = err
			} else if !bytes.Equal(got, want) {
				return nil, fmt.Errorf("slot %d of account %d reads %x, its value in that state is %x", j, i, got, want)
			}
		}
	}
	return refused, nil
}

// c18ServedReads performs every read of the alphabet and names the first one that is answered without an error.
func c18ServedReads(hr *HistoricalStateReader) string {
	for i := 0; i <= c17NAcc; i++ {
		if got, err := hr.AccountRLP(c17Addrs[i]); err == nil {
			return fmt.Sprintf("account %d (= %x)", i, got)
		}
		for j := 0; j <= c17NSlot; j++ {
			if got, err := hr.Storage(c17Addrs[i], c17SlotKeys[j]); err == nil {
				return fmt.Sprintf("slot %d of account %d (= %x)", j, i, got)
			}
		}
	}
	return ""
}

// c18ReadTries walks the account trie and every storage trie of a historical state through HistoricNodeReader.
func c18ReadTries(db *Database, root common.Hash, w *c17World) (error, error) {
	ndb := c18NodeDB{db}
	leaves, _, err := c17WalkTrie(trie.StateTrieID(root), ndb)
	if err != nil {
		return err, nil // a node could not be served: refusal (wrong blobs are rejected by hash inside the reader)
	}
	n := 0
	for i := 0; i < c17NAcc; i++ {
		acc := w.Acc[i]
		if !acc.Exists {
			continue
		}
		n++
		if !bytes.Equal(leaves[c17AddrHashes[i]], acc.full()) {
			return nil, fmt.Errorf("account trie: account %d = %x, its value in that state is %x", i, leaves[c17AddrHashes[i]], acc.full())
		}
		sl, _, err := c17WalkTrie(trie.StorageTrieID(root, c17AddrHashes[i], acc.Root), ndb)
		if err != nil {
			return err, nil
		}
		m := 0
		for j := 0; j < c17NSlot; j++ {
			if acc.Slots[j] == 0 {
				continue
			}
			m++
			if !bytes.Equal(sl[c17SlotHashes[j]], c17SlotRLP(acc.Slots[j])) {
				return nil, fmt.Errorf("storage trie of account %d: slot %d = %x, its value in that state is %x", i, j, sl[c17SlotHashes[j]], c17SlotRLP(acc.Slots[j]))
			}
		}
		if len(sl) != m {
			return nil, fmt.Errorf("storage trie of account %d holds %d slots, %d in that state", i, len(sl), m)
		}
	}
	if len(leaves) != n {
		return nil, fmt.Errorf("account trie holds %d accounts, %d in that state", len(leaves), n)
	}
	return nil, nil
}

// ---------------------------------------------------------------------------------------------------------------
// the index pruner as an explored background participant

// c18HookStore is handed to an indexPruner whose scan runs in its own goroutine. Its iterators park the scan at the
// at-th visited index entry (and at every later one): the scan only proceeds when a pause request of the indexer is
// pending (the pause is then received at exactly that entry by the scan's select) or when the harness drains it.
// Waiting is a spin on the channel length with Gosched (no sleeps; time is only read by a watchdog that turns a hang
// of the harness into a harness error).
type c18HookStore struct {
	ethdb.KeyValueStore
	at       int
	visited  int
	pruner   *indexPruner
	parked   chan struct{} // closed when the scan reached the position for the first time
	reached  bool
	drain    atomic.Bool
	timedOut atomic.Bool
}

func (s *c18HookStore) NewIterator(prefix []byte, start []byte) ethdb.Iterator {
	return &c18HookIter{Iterator: s.KeyValueStore.NewIterator(prefix, start), s: s}
}

type c18HookIter struct {
	ethdb.Iterator
	s *c18HookStore
}

func (it *c18HookIter) Next() bool {
	if !it.Iterator.Next() {
		return false
	}
	s := it.s
	s.visited++
	if s.visited >= s.at {
		if !s.reached {
			s.reached = true
			close(s.parked)
		}
		begin := time.Now()
		for n := 0; len(s.pruner.pauseReq) == 0 && !s.drain.Load(); n++ {
			runtime.Gosched()
			if n%4096 == 4095 && time.Since(begin) > time.Minute {
				s.timedOut.Store(true)
				break
			}
		}
	}
	return true
}

// c18ScanPositions lists the entry positions (1-based, in scan order: account entries, then slot entries) at which a
// pause of the pruning scan is explored: position 1 (nothing queued yet) and every position that follows, within the
// same key prefix, an entry the scan queues for removal (all ids of the entry are below the new first history id).
// Positions with an empty pending batch behave like position 1. Input selection only.
func c18ScanPositions(in *c17Inst) (positions []int, stale int) {
	tail, _ := in.db.stateFreezer.Tail(rawdb.DefaultHistoryGroup)
	if tail == 0 {
		return nil, 0
	}
	n := 0
	for _, prefix := range [][]byte{rawdb.StateHistoryAccountMetadataPrefix, rawdb.StateHistoryStorageMetadataPrefix} {
		it := in.kv.NewIterator(prefix, nil)
		queued := false
		for it.Next() {
			n++
			if n == 1 || queued {
				positions = append(positions, n)
			}
			// single-block indexes: the first 8 bytes of the metadata are the maximum id of the entry
			if v := it.Value(); len(v) >= 8 && binary.BigEndian.Uint64(v[:8]) < tail+1 {
				queued = true
				stale++
			}
		}
		it.Release()
	}
	return positions, stale
}

// interleavePruner starts a pruning scan at the current history tail, holds it at entry c.PrunerAt, executes the suffix
// operations on this goroutine (their pause requests are served by the parked scan) and drains the scan.
func (run *c18Run) interleavePruner(c c18Case) error {
	in := run.in
	ix := in.db.stateIndexer
	tail, err := ix.freezer.Tail(rawdb.DefaultHistoryGroup)
	if err != nil {
		return err
	}
	store := &c18HookStore{KeyValueStore: in.disk, at: c.PrunerAt, parked: make(chan struct{})}
	pruner := &indexPruner{
		disk:     store,
		typ:      typeStateHistory,
		trigger:  make(chan struct{}, 1),
		closed:   make(chan struct{}),
		log:      log.New("type", "state-pruner-under-test"),
		pauseReq: make(chan chan struct{}, 1), // capacity 1: a pending pause request is observable by the hook
		resumeCh: make(chan struct{}),
	}
	store.pruner = pruner
	ix.pruner.close()
	ix.pruner = pruner
	errCh := make(chan error, 1)
	stopServe := make(chan struct{})
	served := make(chan struct{})
	go func() {
		defer close(served)
		errCh <- pruner.process(tail + 1)
		// the scan is over: behave like the idle loop of indexPruner.run (acknowledge pauses immediately)
		for {
			select {
			case ack := <-pruner.pauseReq:
				close(ack)
				select {
				case <-pruner.resumeCh:
				case <-stopServe:
					return
				}
			case <-stopServe:
				return
			}
		}
	}()
	defer func() {
		close(stopServe)
		<-served
	}()
	select {
	case <-store.parked:
	case err := <-errCh:
		store.drain.Store(true)
		if err != nil {
			return fmt.Errorf("index pruner: %v", err)
		}
		run.r.Outcome("pruner:position-beyond-scan")
		return nil
	}
	run.r.Outcome("pruner:scan-parked")
	var opErr error
	for k, op := range c.Suffix {
		if strings.HasPrefix(op, "RECOVER:") {
			var id int
			fmt.Sscanf(op, "RECOVER:%d", &id)
			if !in.db.Recoverable(in.roots[id]) {
				opErr = fmt.Errorf("harness: suffix rollback target %d is not recoverable", id)
				break
			}
			if err := in.db.Recover(in.roots[id]); err != nil {
				opErr = fmt.Errorf("Recover(state %d) while the index pruner scan is in progress: %v", id, err)
				break
			}
			run.epoch++
			in.roots, in.worlds = in.roots[:id+1], in.worlds[:id+1]
			continue
		}
		if ok, err := in.run([]string{op}); err != nil || !ok {
			if !ok {
				opErr = errors.New("harness: suffix contains a disabled delta")
			} else {
				opErr = fmt.Errorf("suffix op %d (%s) while the index pruner scan is in progress: %v", k, op, err)
			}
			break
		}
	}
	store.drain.Store(true)
	scanErr := <-errCh
	if store.timedOut.Load() {
		return errors.New("harness: parked pruner scan was neither paused nor drained within a minute")
	}
	if opErr != nil {
		return opErr
	}
	if scanErr != nil {
		return fmt.Errorf("index pruner scan: %v", scanErr)
	}
	run.record()
	return run.verify(true, true, true, fmt.Sprintf("after suffix %v executed while the index pruner scan was held at entry %d", c.Suffix, c.PrunerAt))
}

// ---------------------------------------------------------------------------------------------------------------
// the background index routine of indexIniter as an explored participant

var c18MetaKey = func() []byte {
	tmp := memorydb.New()
	rawdb.WriteStateHistoryIndexMetadata(tmp, []byte{1})
	it := tmp.NewIterator(nil, nil)
	defer it.Release()
	it.Next()
	return common.CopyBytes(it.Key())
}()

// c18IniterDisk is the database handed to the indexIniter: the first batch that carries the index metadata (the
// final flush of the background index routine) is held before or after its write.
type c18IniterDisk struct {
	ethdb.Database
	after    bool
	armed    atomic.Bool
	timedOut atomic.Bool
	arrived  chan struct{}
	release  chan struct{}
}

func (d *c18IniterDisk) NewBatch() ethdb.Batch { return &c18IniterBatch{Batch: d.Database.NewBatch(), d: d} }
func (d *c18IniterDisk) NewBatchWithSize(n int) ethdb.Batch {
	return &c18IniterBatch{Batch: d.Database.NewBatchWithSize(n), d: d}
}

type c18IniterBatch struct {
	ethdb.Batch
	d   *c18IniterDisk
	hit bool
}

func (b *c18IniterBatch) Put(key, value []byte) error {
	if bytes.Equal(key, c18MetaKey) {
		b.hit = true
	}
	return b.Batch.Put(key, value)
}

func (b *c18IniterBatch) park() {
	close(b.d.arrived)
	select {
	case <-b.d.release:
	case <-time.After(2 * time.Minute): // watchdog: a harness hang becomes a harness error
		b.d.timedOut.Store(true)
	}
}

func (b *c18IniterBatch) Write() error {
	gate := b.hit && b.d.armed.CompareAndSwap(true, false)
	if gate && !b.d.after {
		b.park()
	}
	err := b.Batch.Write()
	if gate && b.d.after {
		b.park()
	}
	return err
}

// c18BlockedOnDone reports whether the run goroutine of the given initer is blocked in a plain channel receive
// inside indexIniter.run (the only one is `<-done`, the wait for the interrupted index routine). The goroutine states
// are read from runtime.Stack: this is the synchronisation point "the shorten signal has been taken and the initer
// now waits for the background routine" (no sleeps; polled with Gosched).
func c18BlockedOnDone(i *indexIniter, buf []byte) bool {
	n := runtime.Stack(buf, true)
	needle := fmt.Sprintf("pathdb.(*indexIniter).run(%p", i)
	for _, g := range strings.Split(string(buf[:n]), "\n\n") {
		lines := strings.SplitN(g, "\n", 3)
		if len(lines) < 2 || !strings.Contains(lines[0], "[chan receive") {
			continue
		}
		if strings.Contains(lines[1], needle) {
			return true
		}
	}
	return false
}

// c18IniterRace runs one scenario of the family "rollback while the initial indexing is still running".
func c18IniterRace(r *mc.R, c c18Case) (error, error) {
	in := c17NewInst(c.Cfg) // c.Cfg.Index is false: the history is written without any indexer
	defer in.close()
	if ok, err := in.run(c.Ops); err != nil || !ok {
		if !ok {
			return errors.New("harness: history contains a disabled delta"), nil
		}
		return err, nil
	}
	run := &c18Run{r: r, in: in, known: map[common.Hash]*c18Root{}}
	run.all = append(run.all, &c18Root{root: common.HexToHash("0xdeadbeef"), id: -1}, &c18Root{root: common.Hash{}, id: -1})
	run.record()
	// indexing is switched on: a genuine initer (sync state "synced", as with NoHistoryIndexDelay) starts indexing the
	// existing histories in its background routine
	hd := &c18IniterDisk{Database: in.disk, after: c.IniterPark == "after-final-flush", arrived: make(chan struct{}), release: make(chan struct{})}
	hd.armed.Store(true)
	head := in.db.tree.bottom().stateID()
	initer := &indexIniter{
		state:     &initerState{state: stateSynced, disk: in.disk, term: make(chan struct{})},
		disk:      hd,
		freezer:   in.db.stateFreezer,
		interrupt: make(chan *interruptSignal),
		done:      make(chan struct{}),
		closed:    make(chan struct{}),
		typ:       typeStateHistory,
		log:       log.New("type", "initer-under-test"),
	}
	initer.last.Store(head)
	initer.wg.Add(1)
	go initer.run(false)
	in.db.stateIndexer = &historyIndexer{initer: initer, pruner: newIndexPruner(in.disk, typeStateHistory), typ: typeStateHistory, disk: in.disk, freezer: in.db.stateFreezer}
	released := false
	releaseGate := func() {
		if !released {
			released = true
			close(hd.release)
		}
	}
	defer releaseGate()
	select {
	case <-hd.arrived:
		r.Outcome("initer:index-routine-parked-" + c.IniterPark)
	case <-initer.done:
		return errors.New("harness: the initer finished without a final flush carrying the index metadata"), nil
	case <-time.After(2 * time.Minute):
		return errors.New("harness: the background index routine did not reach its final flush"), nil
	}
	// the rollback arrives now; its shorten signal is taken by the initer, which then waits for the parked routine
	result := make(chan error, 1)
	go func() { result <- in.db.Recover(in.roots[c.Rollback]) }()
	var (
		recErr  error
		recDone bool
		buf     = make([]byte, 4<<20)
		begin   = time.Now()
	)
	for n := 0; !recDone; n++ {
		select {
		case recErr = <-result:
			recDone = true
			continue
		default:
		}
		if c18BlockedOnDone(initer, buf) {
			break
		}
		for k := 0; k < 64; k++ {
			runtime.Gosched()
		}
		if n%64 == 63 && time.Since(begin) > 2*time.Minute {
			return errors.New("harness: the initer neither answered the shorten signal nor waited for its index routine"), nil
		}
	}
	releaseGate()
	if !recDone {
		recErr = <-result
	}
	if hd.timedOut.Load() {
		return errors.New("harness: the parked index routine was not released in time"), nil
	}
	if recErr != nil {
		return fmt.Errorf("Recover(state %d) while the background index routine is at its final flush (%s): %v", c.Rollback, c.IniterPark, recErr), nil
	}
	run.epoch++
	// re-extension on a different fork up to and past the old head id
	var origNext string
	n := 0
	for _, op := range c.Ops {
		if op != c17Commit {
			if n == c.Rollback {
				origNext = op
			}
			n++
		}
	}
	in.roots, in.worlds = in.roots[:c.Rollback+1], in.worlds[:c.Rollback+1]
	forkOps := []string{"B+", c17Commit, "A+", c17Commit}
	if origNext == "B+" {
		forkOps = []string{"A+", c17Commit, "B+", c17Commit}
	}
	if _, err := in.run(forkOps); err != nil {
		return fmt.Errorf("fork after the rollback: %v", err), nil
	}
	run.record()
	// drain: if the initer is still running, perform the step of its next heart-beat directly (index the remaining
	// histories up to the target; no routine is active, the shorten handling has waited for it), then it would declare
	// the index complete (canExit) without touching the data: stop it and continue with an indexer in the "done" state.
	if !initer.inited() {
		r.Outcome("initer:still-running-after-rollback")
		initer.index(make(chan struct{}), nil, initer.last.Load())
		meta := loadIndexMetadata(in.disk, typeStateHistory)
		if meta == nil || meta.Last != initer.last.Load() {
			return fmt.Errorf("after its heart-beat step the initer cannot complete: index metadata %v, target %d", meta, initer.last.Load()), nil
		}
		in.db.stateIndexer.close()
		done := make(chan struct{})
		close(done)
		in.db.stateIndexer = &historyIndexer{
			initer: &indexIniter{state: &initerState{state: stateSynced, disk: in.disk, term: make(chan struct{})}, disk: in.disk, freezer: in.db.stateFreezer,
				interrupt: make(chan *interruptSignal), done: done, closed: make(chan struct{}), typ: typeStateHistory, log: log.New("type", "initer-done")},
			pruner: newIndexPruner(in.disk, typeStateHistory), typ: typeStateHistory, disk: in.disk, freezer: in.db.stateFreezer,
		}
	} else {
		r.Outcome("initer:finished-by-the-shorten")
	}
	if err := run.verify(true, true, true, fmt.Sprintf("after Recover(state %d) with the index routine held %s, a different fork and the drained initer", c.Rollback, c.IniterPark)); err != nil {
		return err, run.abandoned
	}
	return nil, run.abandoned
}

// c18Sub is the case key under which wrong values served by a long-lived reader that survived a rollback are reported.
type c18Sub struct {
	Cfg      c17Cfg   `json:"cfg"`
	Ops      []string `json:"ops"`
	Rollback int      `json:"rollback"`
	Check    string   `json:"check"`
}

// c18Both runs one case and reports its two classes of violations under their own keys.
//
// Only the dedicated cases (reportStale) assert the second class: on the unchanged tree a reader object that survives
// a rollback below the disk layer followed by re-extension serves wrong values in most rollback cases (the staleness
// mark `limit > lastID` of indexReaderWithLimitTag only holds until the chain has grown back to the old index
// position), and the result file keeps 20 violations only: thousands of instances of that one defect would hide
// every other violation. In the grid the class is counted in the outcome histogram
// ("old-reader:wrong-value-after-rollback") and everything else stays asserted.
func c18Both(r *mc.R, c c18Case, reportStale bool) {
	var (
		done           bool
		mainErr, abErr error
	)
	run := func() {
		if !done {
			if c.IniterPark != "" {
				mainErr, abErr = c18IniterRace(r, c)
			} else {
				mainErr, abErr = c18Check(r, c)
			}
			done = true
		}
	}
	r.Case(c, func() error { run(); return mainErr })
	if c.Rollback >= 0 && reportStale {
		r.Case(c18Sub{Cfg: c.Cfg, Ops: c.Ops, Rollback: c.Rollback, Check: "old-reader-across-rollback"}, func() error { run(); return abErr })
	}
}

// c18Check executes one case step by step. Readers opened after every step stay alive and are re-read after every
// later step. It returns the first violation and, separately, the first wrong value served by a long-lived reader
// that was opened before the rollback.
func c18Check(r *mc.R, c c18Case) (error, error) {
	progressAll := r.Thorough() // quick tier: the index-progress sweep only for histories without rollback
	in := c17NewInst(c.Cfg)
	defer in.close()
	if err := c18WaitInited(in); err != nil {
		return err, nil
	}
	run := &c18Run{r: r, in: in, known: map[common.Hash]*c18Root{}}
	run.all = append(run.all, &c18Root{root: common.HexToHash("0xdeadbeef"), id: -1}, &c18Root{root: common.Hash{}, id: -1})
	// step executes operations one by one; after each of them all old readers are re-read and fresh readers are
	// opened for every root (trie walks only at the end of a phase).
	step := func(ops []string, phase string) error {
		for k, op := range ops {
			if ok, err := in.run([]string{op}); err != nil || !ok {
				if !ok {
					return errors.New("harness: history contains a disabled delta")
				}
				return fmt.Errorf("%s, op %d (%s): %v", phase, k, op, err)
			}
			run.record()
			last := k == len(ops)-1
			if err := run.verify(true, last, true, fmt.Sprintf("%s after op %d (%s)", phase, k, op)); err != nil {
				return err
			}
		}
		return nil
	}
	if err := step(c.Ops, "history"); err != nil {
		return err, run.abandoned
	}
	if c.PrunerAt > 0 {
		if err := run.interleavePruner(c); err != nil {
			return err, run.abandoned
		}
	}
	if c.Rollback >= 0 {
		if !in.db.Recoverable(in.roots[c.Rollback]) {
			return errors.New("harness: rollback target is not recoverable"), nil
		}
		if err := in.db.Recover(in.roots[c.Rollback]); err != nil {
			return fmt.Errorf("Recover(state %d): %v", c.Rollback, err), nil
		}
		run.epoch++
		var origNext string
		n := 0
		for _, op := range c.Ops {
			if op != c17Commit {
				if n == c.Rollback {
					origNext = op
				}
				n++
			}
		}
		in.roots, in.worlds = in.roots[:c.Rollback+1], in.worlds[:c.Rollback+1]
		run.record()
		if err := run.verify(true, false, true, fmt.Sprintf("after the rollback to state %d", c.Rollback)); err != nil {
			return err, run.abandoned
		}
		forkOps := []string{"B+", c17Commit, "A+", c17Commit}
		if origNext == "B+" {
			forkOps = []string{"A+", c17Commit, "B+", c17Commit}
		}
		if err := step(forkOps, "fork after rollback"); err != nil {
			return err, run.abandoned
		}
	}
	// index pruner at the current history tail (the background pruner only acts after 90000 pruned histories)
	pruned := false
	for _, ix := range []*historyIndexer{in.db.stateIndexer, in.db.trienodeIndexer} {
		if ix == nil {
			continue
		}
		tail, err := ix.freezer.Tail(rawdb.DefaultHistoryGroup)
		if err != nil {
			return err, run.abandoned
		}
		if tail == 0 {
			continue
		}
		r.Outcome("index-pruner-run")
		pruned = true
		if err := ix.pruner.process(tail + 1); err != nil {
			return fmt.Errorf("index pruner: %v", err), run.abandoned
		}
	}
	if pruned {
		if err := run.verify(true, true, true, "after index pruning"); err != nil {
			return err, run.abandoned
		}
	}
	// every index progress value: un-index the newest histories one by one, then index them again
	for _, ix := range []*historyIndexer{in.db.stateIndexer, in.db.trienodeIndexer} {
		if ix == nil || (c.Rollback >= 0 && !progressAll) {
			continue
		}
		head, _ := ix.freezer.Ancients()
		tail, _ := ix.freezer.Tail(rawdb.DefaultHistoryGroup)
		// (history 1 stays indexed: un-indexing it deletes the index metadata instead of resetting it to 0, after which
		// nothing can be indexed again - reported separately through the public API by the "rollback":0 cases)
		low := tail
		if low == 0 {
			low = 1
		}
		for p := head; p > low; p-- {
			if err := unindexSingle(p, ix.disk, ix.freezer, ix.typ); err != nil {
				return fmt.Errorf("unindexSingle(%d): %v", p, err), run.abandoned
			}
			if err := run.verify(false, true, false, fmt.Sprintf("with the %s index shortened to %d", ix.typ, p-1)); err != nil {
				return err, run.abandoned
			}
		}
		for p := low + 1; p <= head; p++ {
			if err := indexSingle(p, ix.disk, ix.freezer, ix.typ); err != nil {
				return fmt.Errorf("indexSingle(%d): %v", p, err), run.abandoned
			}
		}
		if err := run.verify(true, true, false, fmt.Sprintf("after re-indexing %s histories", ix.typ)); err != nil {
			return err, run.abandoned
		}
	}
	return nil, run.abandoned
}

// c18IniterWitness: a rollback arriving while the background initer has not finished (node still syncing, so the
// newest history is not indexed yet). The indexer is re-created exactly as Database.setHistoryIndexer does on a
// restart (newHistoryIndexer with noWait=false and no chain head => the initer stays in the syncing state and idles).
func c18IniterWitness(r *mc.R, cfg c17Cfg) error {
	in := c17NewInst(cfg)
	defer in.close()
	if _, err := in.run([]string{"A+", "A+", c17Commit}); err != nil {
		return err
	}
	// "restart": histories 1..2 exist and are indexed (metadata.Last=2), the indexers start again during sync
	in.db.stateIndexer.close()
	in.db.stateIndexer = newHistoryIndexer(in.disk, in.db.stateFreezer, in.db.tree.bottom().stateID(), typeStateHistory, false)
	if in.db.trienodeIndexer != nil {
		in.db.trienodeIndexer.close()
		in.db.trienodeIndexer = newHistoryIndexer(in.disk, in.db.trienodeFreezer, in.db.tree.bottom().stateID(), typeTrienodeHistory, false)
	}
	// one more block is imported (history 3 is written, the syncing initer only extends its target) ...
	if _, err := in.run([]string{"B+", c17Commit}); err != nil {
		return fmt.Errorf("extension while the initer is syncing: %v", err)
	}
	// ... and reverted again
	if !in.db.Recoverable(in.roots[2]) {
		return errors.New("state 2 is not recoverable")
	}
	if err := in.db.Recover(in.roots[2]); err != nil {
		dl := in.db.tree.bottom()
		return fmt.Errorf("Recover(state 2) of a history that was written but not yet indexed (initer syncing, index metadata last=2, histories 1..3) fails: %v; "+
			"disk layer afterwards: id=%d stale=%v", err, dl.stateID(), dl.stale)
	}
	in.roots, in.worlds = in.roots[:3], in.worlds[:3]
	if err := c17VerifyWorld(in, in.roots[2], in.worlds[2], in.db.tree.bottom().buffer.empty()); err != nil {
		return fmt.Errorf("state after the rollback: %v", err)
	}
	if _, err := in.run([]string{"A+", c17Commit}); err != nil {
		return fmt.Errorf("re-extension after the rollback: %v", err)
	}
	r.Outcome("initer:shorten-while-syncing-ok")
	return nil
}

// c18PrunerCases enumerates the index-pruner interleavings for one configuration: every base history of exactly
// limit+1 transitions followed by Commit whose history tail has moved and which leaves at least one stale index entry
// (a key only touched by pruned histories), every suffix {enabled delta + Commit, rollback to every recoverable state}
// and every scan position after a queued removal (plus position 1).
func c18PrunerCases(r *mc.R, cfg c17Cfg, hists [][]string) []c18Case {
	var out []c18Case
	n := int(cfg.Hist) + 1
	for _, h := range hists {
		if len(h) != n+1 || h[n] != c17Commit {
			continue
		}
		w := c17World{}
		ok := true
		for k, op := range h[:n] {
			if op == c17Commit {
				ok = false
				break
			}
			w, _ = c17Step(w, op, uint64(k+1))
		}
		if !ok {
			continue
		}
		// scan positions worth exploring (input selection only)
		in := c17NewInst(cfg)
		_, err := in.run(h)
		positions, stale := c18ScanPositions(in)
		in.close()
		if err != nil || stale == 0 {
			continue // errors are reported by the main grid; without a stale entry the scan queues nothing
		}
		var suffixes [][]string
		for _, d := range c17Deltas {
			if _, ok := c17Step(w, d, uint64(n+1)); ok {
				suffixes = append(suffixes, []string{d, c17Commit})
			}
		}
		for id := 1; id <= int(cfg.Hist); id++ {
			suffixes = append(suffixes, []string{fmt.Sprintf("RECOVER:%d", id)})
		}
		for _, sfx := range suffixes {
			for _, at := range positions {
				out = append(out, c18Case{Cfg: cfg, Ops: h, Rollback: -1, PrunerAt: at, Suffix: sfx})
			}
		}
	}
	return out
}

func TestVerif_C18(t *testing.T) {
	mc.Run(t, "C18", func(r *mc.R) {
		old := maxDiffLayers
		maxDiffLayers = 1
		defer func() { maxDiffLayers = old }()

		maxLen := mc.Pick(r, 3, 4)
		maxCommits := mc.Pick(r, 1, 1)
		r.Rule("all canonical histories of 1..L transitions over the C17 delta alphabet with Commit at every position, each alone and followed by a rollback to every " +
			"state below the disk layer plus a different 2-transition fork; x {history limit 0|2} x {write buffer 0|1MB} x {trienode history off|on}, indexing enabled; " +
			"then for every root ever created (canonical, abandoned, 2 unknown) HistoricReader reads of 4 accounts x 3 slots (incl. never-used keys) and complete " +
			"HistoricNodeReader trie walks are compared with the reference world of that root; repeated after the index pruner ran at the history tail and at every " +
			"index progress value (newest histories un-indexed one by one, then re-indexed)")
		r.Bound("max_transitions", maxLen)
		r.Bound("max_commits", maxCommits)
		r.Assume("reference = generator-side world structs per root (C17 harness); trie package and rawdb key schema trusted; in-memory freezers; the initial " +
			"indexer run is awaited by channel, afterwards indexing/un-indexing is synchronous; the index pruner is driven synchronously (process(tail+1))")
		r.Assume("oracle: an opened historical reader never returns a value different from the root's world; abandoned/pruned/unknown roots are refused; " +
			"canonical roots with tail <= id < disk layer id must be readable when the index is complete")
		hists := c17Histories(maxLen, maxCommits)
		if r.Quick() {
			// quick tier: Commit only as the last operation of the base history (the fork after a rollback adds two more)
			var keep [][]string
			for _, h := range hists {
				mid := false
				for _, op := range h[:len(h)-1] {
					mid = mid || op == c17Commit
				}
				if !mid {
					keep = append(keep, h)
				}
			}
			hists = keep
		}
		r.Bound("histories", len(hists))
		var cfgs []c17Cfg
		for _, hist := range []uint64{0, 2} {
			for _, buf := range []int{0, 1 << 20} {
				for _, tn := range []int64{-1, 0} {
					if r.Quick() && (hist == 2) != ((buf == 0) != (tn == 0)) {
						continue
					}
					// the trienode history limit follows the state history limit so that both tails move
					lim := tn
					if tn == 0 {
						lim = int64(hist)
					}
					cfgs = append(cfgs, c17Cfg{Hist: hist, Buffer: buf, Trie: lim, Index: true})
				}
			}
		}
		r.Bound("configurations", len(cfgs))
		// rollback to the initial state (id 0) followed by re-extension, the shortest history per configuration
		// (these few cases also start the indexers through the genuine background initer)
		// (run concurrently: a genuine initer that loses its start-up race needs 15 s)
		var special []c18Case
		for _, cfg := range cfgs {
			cfg.RealIniter = true
			special = append(special, c18Case{Cfg: cfg, Ops: []string{"A+", c17Commit}, Rollback: 0}, c18Case{Cfg: cfg, Ops: []string{"A.k0=1", "A.k0=2", "A!", c17Commit}, Rollback: -1})
			// long-lived readers across a rollback + different fork: asserted on the shortest history per configuration
			cfg.RealIniter = false
			special = append(special, c18Case{Cfg: cfg, Ops: []string{"A+", "A+", c17Commit}, Rollback: 1})
		}
		r.Parallel(len(special), func(i int) {
			c := special[i]
			c18Both(r, c, true)
		})
		// long linear extensions under finite history limits: readers opened after every operation stay alive while the
		// history tail passes their ids by 1, 2, ... (Commit after every transition)
		var linear []c18Case
		pattern := []string{"A+", "B+", "A.k0=1", "A.k0=2", "A.k1=1", "A+", "B.k0=1", "A.k0=0", "B+", "A!", "A-", "B-"}
		for _, lim := range []uint64{2, 3} {
			for _, buf := range []int{0, 1 << 20} {
				for rot := 0; rot < len(pattern); rot += mc.Pick(r, 3, 1) {
					var ops []string
					w := c17World{}
					for k := 0; len(ops) < 2*mc.Pick(r, 6, 7); k++ {
						d := pattern[(rot+k)%len(pattern)]
						nw, ok := c17Step(w, d, uint64(len(ops)/2+1))
						if !ok {
							continue
						}
						w = nw
						ops = append(ops, d, c17Commit)
					}
					linear = append(linear, c18Case{Cfg: c17Cfg{Hist: lim, Buffer: buf, Trie: -1, Index: true}, Ops: ops, Rollback: -1})
				}
			}
		}
		r.Bound("long_linear_cases", len(linear))
		r.Parallel(len(linear), func(i int) {
			c18Both(r, linear[i], false)
			r.DistinctHash(mc.Hash64(fmt.Sprint(linear[i])))
		})
		// a rollback while the background initer is still syncing (one dedicated scenario per configuration)
		r.Parallel(len(cfgs), func(i int) {
			c := c18Case{Cfg: cfgs[i], Ops: []string{"A+", "A+", c17Commit, "B+", c17Commit}, Rollback: 2, Check: "shorten-during-initial-indexing"}
			r.Case(c, func() error { return c18IniterWitness(r, c.Cfg) })
		})
		// the index pruner as a background participant: history limit 2, scan started at the tail and
		// held at every entry while the next operation lands
		var pcfgs []c17Cfg
		// (limit 2 is the smallest limit with which tail truncation happens: with limit 1 the first retained id would
		// always exceed the persistent state id and writeHistory skips the truncation)
		pcfgs = append(pcfgs, c17Cfg{Hist: 2, Buffer: 0, Trie: -1, Index: true})
		if r.Thorough() {
			pcfgs = append(pcfgs, c17Cfg{Hist: 2, Buffer: 1 << 20, Trie: 2, Index: true}, c17Cfg{Hist: 2, Buffer: 0, Trie: 2, Index: true})
		}
		allHists := c17Histories(3, 1)
		var pcases []c18Case
		for _, cfg := range pcfgs {
			pcases = append(pcases, c18PrunerCases(r, cfg, allHists)...)
		}
		// the background index routine of the initer as a participant: histories written without indexing, indexing
		// switched on, the routine held before / after its final flush while Recover arrives, then a different fork
		var icases []c18Case
		for _, h := range allHists {
			n := len(h) - 1
			if h[n] != c17Commit || n < 2 {
				continue
			}
			mid := false
			for _, op := range h[:n] {
				mid = mid || op == c17Commit
			}
			if mid {
				continue
			}
			icfgs := []c17Cfg{{Hist: 0, Buffer: 0, Trie: -1}}
			if n == 2 || r.Thorough() {
				icfgs = append(icfgs, c17Cfg{Hist: 0, Buffer: 1 << 20, Trie: -1})
			}
			if r.Thorough() {
				icfgs = append(icfgs, c17Cfg{Hist: 2, Buffer: 0, Trie: -1})
			}
			for _, cfg := range icfgs {
				for target := n - 1; target >= 1 && target >= n-2; target-- {
					if cfg.Hist != 0 && uint64(target)+cfg.Hist < uint64(n) {
						continue
					}
					for _, park := range []string{"before-final-flush", "after-final-flush"} {
						icases = append(icases, c18Case{Cfg: cfg, Ops: h, Rollback: target, IniterPark: park})
					}
				}
			}
		}
		r.Bound("initer_interleaving_cases", len(icases))
		r.Parallel(len(icases), func(i int) {
			c18Both(r, icases[i], false)
			r.DistinctHash(mc.Hash64(fmt.Sprint(icases[i])))
			if i%211 == 0 {
				r.Sample(icases[i])
			}
		})
		r.Bound("pruner_interleaving_cases", len(pcases))
		r.Parallel(len(pcases), func(i int) {
			c18Both(r, pcases[i], false)
			r.DistinctHash(mc.Hash64(fmt.Sprint(pcases[i])))
			if i%211 == 0 {
				r.Sample(pcases[i])
			}
		})
		r.Parallel(len(hists), func(i int) {
			// number of transitions and position of the disk layer (maxDiffLayers=1)
			n := 0
			for _, op := range hists[i] {
				if op != c17Commit {
					n++
				}
			}
			disk := n - 1
			if hists[i][len(hists[i])-1] == c17Commit {
				disk = n
			}
			for _, cfg := range cfgs {
				for rb := -1; rb < disk; rb++ {
					if r.Expired() {
						return
					}
					// rolling back to state 0 and extending again is checked once per configuration below
					if rb == 0 {
						continue
					}
					// rollback targets must lie inside the retained window
					if rb >= 0 && cfg.Hist != 0 && uint64(rb)+cfg.Hist < uint64(disk) {
						continue
					}
					c := c18Case{Cfg: cfg, Ops: hists[i], Rollback: rb}
					c18Both(r, c, false)
					r.DistinctHash(mc.Hash64(fmt.Sprint(c)))
				}
			}
			if i%97 == 0 {
				r.Sample(c18Case{Cfg: cfgs[i%len(cfgs)], Ops: hists[i], Rollback: -1})
			}
		})
	})
}
