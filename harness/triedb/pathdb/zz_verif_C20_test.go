//go:build verif

package pathdb

// C20 — Path database recovers consistently from crashes.
//
// Engine E3 "crashx" (+ bounded histories): the real pathdb.Database runs on
// rawdb.Open(crashkv, Ancient: <vos dir>): the key-value store records its write log
// (internal/verif/crashkv), the state-history freezer and the journal file live on the
// recording file system (internal/verif/vos; core/rawdb/freezer*.go, pathdb/journal.go,
// fileutils_unix.go and common/path.go are re-generated with os -> vos; log.Crit is made
// observable by routing the log package's os.Exit through vos.Exit).
//
// Every enabled history over {Update, Commit(head), Recover(parent of disk root),
// Journal+clean restart} up to a depth bound is executed once; for every crash point of
// the merged KV / FS event order inside the last operation, every admissible durable KV
// prefix and FS loss pattern is materialised, the stack is reopened with the real
// rawdb.Open + pathdb.New and the recovery oracle is evaluated against a reference model
// (root -> account set, root -> parent root).

import (
	"bytes"
	stdctx "context"
	"encoding/binary"
	"encoding/json"
	"fmt"
	"log/slog"
	"os"
	"regexp"
	"runtime"
	"sort"
	"strconv"
	"strings"
	"sync"
	"testing"

	"github.com/ethereum/go-ethereum/common"
	"github.com/ethereum/go-ethereum/core/rawdb"
	"github.com/ethereum/go-ethereum/core/types"
	"github.com/ethereum/go-ethereum/crypto"
	"github.com/ethereum/go-ethereum/ethdb"
	"github.com/ethereum/go-ethereum/ethdb/memorydb"
	"github.com/ethereum/go-ethereum/internal/verif/crashkv"
	"github.com/ethereum/go-ethereum/internal/verif/mc"
	"github.com/ethereum/go-ethereum/internal/verif/vos"
	"github.com/ethereum/go-ethereum/log"
	"github.com/ethereum/go-ethereum/rlp"
	"github.com/ethereum/go-ethereum/trie"
	"github.com/ethereum/go-ethereum/trie/trienode"
	"github.com/holiman/uint256"
)

// ---- reference model ------------------------------------------------------------

const c20NumAccts = 3

type c20Acct struct {
	addr common.Address
	hash common.Hash
}

var c20Accts = func() [c20NumAccts]c20Acct {
	var out [c20NumAccts]c20Acct
	for i := range out {
		out[i].addr = common.Address{0xc2, 0x20, byte(i + 1)}
		out[i].hash = crypto.Keccak256Hash(out[i].addr.Bytes())
	}
	return out
}()

// c20State maps account index -> value (0 = account does not exist).
type c20State [c20NumAccts]uint64

func c20Account(v uint64) types.StateAccount {
	return types.StateAccount{Nonce: v, Balance: uint256.NewInt(v*1000 + 7), Root: types.EmptyRootHash, CodeHash: types.EmptyCodeHash.Bytes()}
}

func c20Full(v uint64) []byte {
	if v == 0 {
		return nil
	}
	acc := c20Account(v)
	b, _ := rlp.EncodeToBytes(&acc)
	return b
}

func c20Slim(v uint64) []byte {
	if v == 0 {
		return nil
	}
	return types.SlimAccountRLP(c20Account(v))
}

type c20Model struct {
	states map[common.Hash]c20State
	parent map[common.Hash]common.Hash
	head   common.Hash // top-most layer
	step   uint64
}

func c20NewModel() *c20Model {
	return &c20Model{states: map[common.Hash]c20State{types.EmptyRootHash: {}}, parent: map[common.Hash]common.Hash{}, head: types.EmptyRootHash}
}

func (m *c20Model) clone() *c20Model {
	c := &c20Model{states: map[common.Hash]c20State{}, parent: map[common.Hash]common.Hash{}, head: m.head, step: m.step}
	for k, v := range m.states {
		c.states[k] = v
	}
	for k, v := range m.parent {
		c.parent[k] = v
	}
	return c
}

// next is the deterministic transition applied by the k-th Update of a history.
func c20Next(s c20State, k uint64) c20State {
	i := int(k % c20NumAccts)
	if k%4 == 0 && s[i] != 0 {
		s[i] = 0 // delete
	} else {
		s[i] = k + 1 // create / modify
	}
	j := int((k + 1) % c20NumAccts)
	if k%3 == 2 {
		s[j] = k + 100 // touch a second account now and then
	}
	return s
}

// ---- the live system ------------------------------------------------------------

type c20Config struct {
	name       string
	buffer     int    // WriteBufferSize: 0 = every merge into the disk layer is flushed
	journalFS  bool   // journal in a file (on vos) instead of the key-value store
	diffLayers int    // maxDiffLayers
	history    uint64 // StateHistory limit (0: keep everything)
}

const (
	c20OpUpdate = iota
	c20OpCommit
	c20OpRecover
	c20OpJournal
	c20NumOps
)

var c20OpNames = [...]string{"update", "commit", "recover", "journal+restart"}

type c20Sys struct {
	cfg  c20Config
	fs   *vos.FS
	kv   *crashkv.DB
	disk ethdb.Database
	db   *Database
	m    *c20Model
}

func c20IsMeta(rel string) bool { return strings.HasSuffix(rel, ".meta") }

func (c c20Config) pathdbConfig(fs *vos.FS) *Config {
	cfg := &Config{
		StateHistory:      c.history, // 0: keep all state histories
		TrienodeHistory:   -1,
		TrieCleanSize:     0,
		StateCleanSize:    0,
		WriteBufferSize:   c.buffer,
		NoAsyncFlush:      true,
		NoAsyncGeneration: true,
	}
	if c.journalFS {
		cfg.JournalDirectory = fs.Root() + "/journal"
	}
	return cfg
}

// c20CritLog is a log handler that remembers, per goroutine, the last log.Crit record
// (the message says which recovery step gave up).
type c20CritLog struct {
	mu   *sync.Mutex
	last map[uint64]string
}

func c20Gid() uint64 {
	var buf [64]byte
	n := runtime.Stack(buf[:], false)
	f := strings.Fields(string(buf[:n]))
	if len(f) < 2 {
		return 0
	}
	id, _ := strconv.ParseUint(f[1], 10, 64)
	return id
}

func (h *c20CritLog) Enabled(_ stdctx.Context, level slog.Level) bool { return level >= log.LevelCrit }
func (h *c20CritLog) WithGroup(string) slog.Handler                   { return h }
func (h *c20CritLog) WithAttrs([]slog.Attr) slog.Handler              { return h }
func (h *c20CritLog) Handle(_ stdctx.Context, r slog.Record) error {
	msg := r.Message
	r.Attrs(func(a slog.Attr) bool {
		msg += fmt.Sprintf(" %s=%v", a.Key, a.Value)
		return true
	})
	h.mu.Lock()
	h.last[c20Gid()] = msg
	h.mu.Unlock()
	return nil
}

func (h *c20CritLog) take() string {
	h.mu.Lock()
	defer h.mu.Unlock()
	g := c20Gid()
	m := h.last[g]
	delete(h.last, g)
	return m
}

var c20Crit = &c20CritLog{mu: new(sync.Mutex), last: map[uint64]string{}}

// c20Open opens the database stack on (kv, fs) with the real constructors.
func c20Open(kv ethdb.KeyValueStore, fs *vos.FS, cfg c20Config) (ethdb.Database, *Database, error) {
	disk, err := rawdb.Open(kv, rawdb.OpenOptions{Ancient: fs.Root() + "/anc"})
	if err != nil {
		return nil, nil, fmt.Errorf("rawdb.Open: %v", err)
	}
	var db *Database
	err = mc.Safely(func() error {
		db = New(disk, cfg.pathdbConfig(fs), false)
		return nil
	})
	if err != nil {
		disk.Close()
		if msg := c20Crit.take(); msg != "" {
			return nil, nil, fmt.Errorf("pathdb.New gives up with log.Crit: %s\n%v", msg, err)
		}
		return nil, nil, fmt.Errorf("pathdb.New: %v", err)
	}
	return disk, db, nil
}

func c20NewSys(cfg c20Config) (*c20Sys, error) {
	fs := vos.New()
	fs.SetAtomic(c20IsMeta, true)
	kv := crashkv.New(fs.NumEvents)
	disk, db, err := c20Open(kv, fs, cfg)
	if err != nil {
		fs.Release()
		return nil, err
	}
	return &c20Sys{cfg: cfg, fs: fs, kv: kv, disk: disk, db: db, m: c20NewModel()}, nil
}

func (s *c20Sys) close() {
	if s.db != nil {
		s.db.Close()
	}
	if s.disk != nil {
		s.disk.Close()
	}
	s.fs.Release()
}

func (s *c20Sys) enabled(op int) bool {
	switch op {
	case c20OpRecover:
		r := s.db.tree.bottom().rootHash()
		return r != types.EmptyRootHash
	case c20OpCommit:
		return s.m.head != s.db.tree.bottom().rootHash()
	}
	return true
}

func (s *c20Sys) apply(op int) error {
	m := s.m
	switch op {
	case c20OpUpdate:
		cur := m.states[m.head]
		nxt := c20Next(cur, m.step)
		m.step++
		tr, err := trie.New(trie.StateTrieID(m.head), s.db)
		if err != nil {
			return fmt.Errorf("open trie at head: %v", err)
		}
		accounts := map[common.Hash][]byte{}
		origin := map[common.Address][]byte{}
		for i := range nxt {
			if nxt[i] == cur[i] {
				continue
			}
			a := c20Accts[i]
			if nxt[i] == 0 {
				if err := tr.Delete(a.hash.Bytes()); err != nil {
					return err
				}
			} else if err := tr.Update(a.hash.Bytes(), c20Full(nxt[i])); err != nil {
				return err
			}
			accounts[a.hash] = c20Slim(nxt[i])
			origin[a.addr] = c20Slim(cur[i])
		}
		root, set := tr.Commit(false)
		merged := trienode.NewMergedNodeSet()
		if set != nil {
			if err := merged.Merge(set); err != nil {
				return err
			}
		}
		states := NewStateSetWithOrigin(accounts, map[common.Hash]map[common.Hash][]byte{}, origin, map[common.Address]map[common.Hash][]byte{}, false)
		if err := s.db.Update(root, m.head, m.step, merged, states); err != nil {
			return fmt.Errorf("Update: %v", err)
		}
		m.states[root] = nxt
		m.parent[root] = m.head
		m.head = root
	case c20OpCommit:
		if err := s.db.Commit(m.head, false); err != nil {
			return fmt.Errorf("Commit: %v", err)
		}
	case c20OpRecover:
		target := m.parent[s.db.tree.bottom().rootHash()]
		if !s.db.Recoverable(target) {
			return fmt.Errorf("parent of the disk root is not recoverable without any crash")
		}
		if err := s.db.Recover(target); err != nil {
			return fmt.Errorf("Recover: %v", err)
		}
		m.head = target
	case c20OpJournal:
		if err := s.db.Journal(m.head); err != nil {
			return fmt.Errorf("Journal: %v", err)
		}
		if err := s.db.Close(); err != nil {
			return fmt.Errorf("Close: %v", err)
		}
		s.db = nil
		if err := s.disk.Close(); err != nil {
			return fmt.Errorf("disk close: %v", err)
		}
		s.disk = nil
		s.kv.SyncKeyValue() // closing a pebble/leveldb store makes its content durable
		disk, db, err := c20Open(s.kv, s.fs, s.cfg)
		if err != nil {
			return fmt.Errorf("clean restart: %v", err)
		}
		s.disk, s.db = disk, db
		if s.db.tree.get(m.head) == nil {
			return fmt.Errorf("clean restart lost the head layer %x", m.head[:4])
		}
	}
	return nil
}

// ---- oracle -----------------------------------------------------------------------

// c20VerifyState checks that the state at root, read through the trie and through the
// flat-state reader of db, is exactly the model state.
func c20VerifyState(db *Database, root common.Hash, want c20State) error {
	tr, err := trie.New(trie.StateTrieID(root), db)
	if err != nil {
		return fmt.Errorf("trie at %x cannot be opened: %v", root[:4], err)
	}
	it := trie.NewIterator(tr.MustNodeIterator(nil))
	got := map[common.Hash][]byte{}
	for it.Next() {
		got[common.BytesToHash(it.Key)] = append([]byte{}, it.Value...)
	}
	if it.Err != nil {
		return fmt.Errorf("trie at %x is incomplete: %v", root[:4], it.Err)
	}
	n := 0
	for i, a := range c20Accts {
		if want[i] == 0 {
			if _, ok := got[a.hash]; ok {
				return fmt.Errorf("trie at %x holds account %d which the state does not contain", root[:4], i)
			}
			continue
		}
		n++
		if !bytes.Equal(got[a.hash], c20Full(want[i])) {
			return fmt.Errorf("trie at %x: account %d differs from the state (want value %d)", root[:4], i, want[i])
		}
	}
	if len(got) != n {
		return fmt.Errorf("trie at %x holds %d leaves, the state has %d accounts", root[:4], len(got), n)
	}
	sr, err := db.StateReader(root)
	if err != nil {
		return fmt.Errorf("state reader at %x: %v", root[:4], err)
	}
	for i, a := range c20Accts {
		acc, err := sr.Account(a.hash)
		if err != nil {
			return fmt.Errorf("flat state at %x: account %d: %v", root[:4], i, err)
		}
		switch {
		case want[i] == 0 && acc != nil:
			return fmt.Errorf("flat state at %x holds account %d which the state does not contain", root[:4], i)
		case want[i] != 0 && (acc == nil || acc.Nonce != want[i]):
			return fmt.Errorf("flat state at %x: account %d differs from the trie/state (want value %d, got %v)", root[:4], i, want[i], acc)
		}
	}
	return nil
}

type c20Ctx struct {
	m *c20Model
	// acknowledgements that hold for this image (zero hash: none)
	mustDiskRoot common.Hash // a Commit completed and every KV write survived: the disk layer must be this root
	mustLayer    common.Hash // a Journal completed and every KV write survived: this layer must be restored
}

// c20Recover reopens a crash image with the real code and evaluates the oracle.
func c20Recover(kvImg *memorydb.Database, fsImg *vos.FS, cfg c20Config, ctx *c20Ctx) (string, error) {
	disk, db, err := c20Open(kvImg, fsImg, cfg)
	if err != nil {
		return "", fmt.Errorf("reopen after crash failed: %v", err)
	}
	closed := false
	defer func() {
		if !closed {
			db.Close()
			disk.Close()
		}
	}()
	m := ctx.m
	bottom := db.tree.bottom()
	R := bottom.rootHash()
	if _, ok := m.states[R]; !ok {
		return "", fmt.Errorf("recovered disk layer root %x is not a state of the history", R[:4])
	}
	// persisted state: trie root node in the KV, flat state in the KV
	P := types.EmptyRootHash
	if blob := rawdb.ReadAccountTrieNode(kvImg, nil); len(blob) > 0 {
		P = crypto.Keccak256Hash(blob)
	}
	ps, ok := m.states[P]
	if !ok {
		return "", fmt.Errorf("persisted trie root %x is not a state of the history", P[:4])
	}
	for i, a := range c20Accts {
		if got := rawdb.ReadAccountSnapshot(kvImg, a.hash); !bytes.Equal(got, c20Slim(ps[i])) {
			return "", fmt.Errorf("persisted flat state differs from the persisted trie %x at account %d", P[:4], i)
		}
	}
	// every layer of the tree is a state of the history, linked to its model parent, and fully readable
	var lerr error
	layers := 0
	db.tree.forEach(func(l layer) {
		layers++
		root := l.rootHash()
		st, ok := m.states[root]
		if !ok {
			lerr = fmt.Errorf("restored layer %x is not a state of the history", root[:4])
			return
		}
		if dl, ok := l.(*diffLayer); ok {
			if p, mp := dl.parentLayer().rootHash(), m.parent[root]; p != mp {
				lerr = fmt.Errorf("restored layer %x sits on %x, its parent state is %x", root[:4], p[:4], mp[:4])
				return
			}
		}
		if err := c20VerifyState(db, root, st); err != nil && lerr == nil {
			lerr = err
		}
	})
	if lerr != nil {
		return "", lerr
	}
	// state history aligned with the disk layer
	if db.stateFreezer == nil {
		return "", fmt.Errorf("state freezer missing after reopen")
	}
	sh, _ := db.stateFreezer.Ancients()
	if sh != bottom.stateID() {
		return "", fmt.Errorf("state history head %d is not aligned with the disk layer state id %d", sh, bottom.stateID())
	}
	pid := rawdb.ReadPersistentStateID(kvImg)
	if pid > bottom.stateID() {
		return "", fmt.Errorf("persistent state id %d above the disk layer state id %d", pid, bottom.stateID())
	}
	stail, err := db.stateFreezer.Tail(rawdb.DefaultHistoryGroup)
	if err != nil {
		return "", fmt.Errorf("state freezer tail: %v", err)
	}
	if !(stail <= pid && pid <= sh) {
		return "", fmt.Errorf("state history window (tail %d, head %d] does not enclose the persisted state id %d", stail, sh, pid)
	}
	// acknowledgements
	if ctx.mustDiskRoot != (common.Hash{}) && R != ctx.mustDiskRoot {
		return "", fmt.Errorf("Commit(%x) had returned and no key-value write was lost, but the disk layer is %x", ctx.mustDiskRoot[:4], R[:4])
	}
	if ctx.mustLayer != (common.Hash{}) && db.tree.get(ctx.mustLayer) == nil {
		return "", fmt.Errorf("Journal(%x) had returned and no key-value write was lost, but the layer was not restored", ctx.mustLayer[:4])
	}
	outcome := fmt.Sprintf("disk_id=%d,layers=%d", bottom.stateID(), layers)
	// rollback from the recovered disk state still works
	if R != types.EmptyRootHash && bottom.stateID() <= stail {
		outcome += ",rollback_outside_retained_window"
	}
	if R != types.EmptyRootHash && bottom.stateID() > stail {
		target := m.parent[R]
		if !db.Recoverable(target) {
			why := ""
			if rawdb.ReadStateID(kvImg, target) == nil {
				why = ": its root->id lookup entry is missing from the key-value store"
				if cfg.journalFS && bottom.stateID() > rawdb.ReadPersistentStateID(kvImg) {
					why += " (lost with the unsynced KV tail while the fsynced journal file restored the disk layer)"
				}
			}
			return "", fmt.Errorf("after recovery the parent %x of the disk state %x (id %d) is not recoverable%s", target[:4], R[:4], bottom.stateID(), why)
		}
		if err := db.Recover(target); err != nil {
			return "", fmt.Errorf("after recovery Recover(%x) from the disk state %x failed: %v", target[:4], R[:4], err)
		}
		if got := db.tree.bottom().rootHash(); got != target {
			return "", fmt.Errorf("Recover(%x) ended at %x", target[:4], got[:4])
		}
		if err := c20VerifyState(db, target, m.states[target]); err != nil {
			return "", fmt.Errorf("after recovery and rollback: %v", err)
		}
		if sh, _ := db.stateFreezer.Ancients(); sh != db.tree.bottom().stateID() {
			return "", fmt.Errorf("after rollback the state history head %d is not aligned with the disk layer id %d", sh, db.tree.bottom().stateID())
		}
	}
	closed = true
	if err := db.Close(); err != nil {
		disk.Close()
		return "", fmt.Errorf("close after recovery: %v", err)
	}
	if err := disk.Close(); err != nil {
		return "", fmt.Errorf("disk close after recovery: %v", err)
	}
	return outcome, nil
}

// ---- findings -----------------------------------------------------------------------

type c20Case struct {
	Cfg    string      `json:"cfg"`
	Ops    []string    `json:"ops"`
	FsK    int         `json:"crash_after_fs_event"`
	KvK    int         `json:"crash_after_kv_entry"`
	KvKeep int         `json:"kv_entries_durable"`
	Event  string      `json:"last_fs_event,omitempty"`
	Loss   vos.Pattern `json:"fs_loss"`
	Sig    string      `json:"fs_event_signature,omitempty"`
}

type c20Findings struct {
	mu    sync.Mutex
	class map[string]*c20Finding
}

type c20Finding struct {
	n    int64
	c    c20Case
	cj   string
	desc string
}

var c20Digits = regexp.MustCompile(`[0-9]+`)
var c20Hex = regexp.MustCompile(`\b0x[0-9a-f]*\b|\b[0-9a-f]{6,}\b`)
var c20Tab = regexp.MustCompile(`table [a-z.]+\b`)

func c20Class(err error) string {
	line := err.Error()
	if i := strings.IndexByte(line, '\n'); i >= 0 {
		line = line[:i]
	}
	line = c20Hex.ReplaceAllString(line, "X")
	line = c20Tab.ReplaceAllString(line, "table T")
	line = c20Digits.ReplaceAllString(line, "N")
	if len(line) > 170 {
		line = line[:170]
	}
	return line
}

func (fd *c20Findings) add(c c20Case, err error, tag string) {
	cl := c20Class(err)
	ctxs := "journal=kv"
	if strings.Contains(c.Cfg, "filejournal") {
		ctxs = "journal=file"
	}
	if c.KvKeep < c.KvK {
		ctxs += ",kv=lossy"
	} else {
		ctxs += ",kv=kept"
	}
	if len(c.Loss.Pick) > 0 || c.Loss.NS > 0 {
		ctxs += ",fs=lossy"
	}
	_ = ctxs
	if tag != "" {
		cl = "{" + tag + "} recovery fails"
	}
	b, _ := json.Marshal(c)
	fd.mu.Lock()
	defer fd.mu.Unlock()
	f := fd.class[cl]
	if f == nil {
		f = &c20Finding{}
		fd.class[cl] = f
	}
	f.n++
	if f.n == 1 || len(c.Ops) < len(f.c.Ops) || len(c.Ops) == len(f.c.Ops) && (len(b) < len(f.cj) || len(b) == len(f.cj) && string(b) < f.cj) {
		f.c, f.cj, f.desc = c, string(b), err.Error()
	}
}

func (fd *c20Findings) report(r *mc.R) {
	fd.mu.Lock()
	defer fd.mu.Unlock()
	var cls []string
	for cl := range fd.class {
		cls = append(cls, cl)
	}
	sort.Strings(cls)
	for _, cl := range cls {
		f := fd.class[cl]
		r.OutcomeN("VIOLATING:"+cl, f.n)
		r.Violation("C20/"+cl, fmt.Sprintf("%d failing cases in this class; smallest example %s\n%s", f.n, f.cj, f.desc), f.c)
	}
}

// c20Diagnose looks for the preconditions of the freezer defects established by C24
// (see the C24 report) in the state-history freezer of a crash image.
func c20Diagnose(img *vos.FS) string {
	files := img.Files()
	empty, nonEmpty, vtail := 0, 0, false
	for name, idx := range files {
		if !strings.HasPrefix(name, "anc/state/") || !(strings.HasSuffix(name, ".cidx") || strings.HasSuffix(name, ".ridx")) {
			continue
		}
		meta := files[name[:len(name)-5]+".meta"]
		var o struct {
			Version uint16
			Tail    uint64
			Offset  uint64
		}
		items := uint64(0)
		if len(idx) >= 6 && len(meta) > 0 && rlp.Decode(bytes.NewReader(meta), &o) == nil {
			usable := uint64(len(idx) - len(idx)%6)
			if o.Offset < usable {
				usable = o.Offset
			}
			if usable >= 6 {
				items = uint64(binary.BigEndian.Uint32(idx[2:6])) + usable/6 - 1
			}
			if o.Tail > items {
				vtail = true
			}
		}
		if items == 0 {
			empty++
		} else {
			nonEmpty++
		}
	}
	var tags []string
	if empty > 0 && nonEmpty > 0 {
		tags = append(tags, "empty-table-next-to-non-empty-table")
	}
	if vtail {
		tags = append(tags, "virtual-tail-beyond-flushed-items")
	}
	return strings.Join(tags, ",")
}

// c20TailBeyondPersisted reports whether a state-history table of the image has a tail
// (virtual tail in the metadata or items physically removed) above the persisted state id
// of the key-value image. It is only used as a precondition when the KV image lost entries.
func c20TailBeyondPersisted(kvImg ethdb.KeyValueReader, img *vos.FS) bool {
	pid := rawdb.ReadPersistentStateID(kvImg)
	files := img.Files()
	for name, idx := range files {
		if !strings.HasPrefix(name, "anc/state/") || !(strings.HasSuffix(name, ".cidx") || strings.HasSuffix(name, ".ridx")) {
			continue
		}
		if len(idx) >= 6 && uint64(binary.BigEndian.Uint32(idx[2:6])) > pid {
			return true
		}
		var o struct {
			Version uint16
			Tail    uint64
			Offset  uint64
		}
		if meta := files[name[:len(name)-5]+".meta"]; len(meta) > 0 && rlp.Decode(bytes.NewReader(meta), &o) == nil && o.Tail > pid {
			return true
		}
	}
	return false
}

// c20StaleJournal reports whether the crash image holds a journal (KV entry or file) whose
// disk layer is a state that the history has rolled back (it is not the head nor one of
// its ancestors): the precondition of the stale-journal defect established by this check.
func c20StaleJournal(kvImg ethdb.KeyValueReader, img *vos.FS, cfg c20Config, m *c20Model) bool {
	blob := rawdb.ReadTrieJournal(kvImg)
	if cfg.journalFS {
		if f, ok := img.Files()["journal/merkle.journal"]; ok {
			blob = f
		}
	}
	if len(blob) == 0 {
		return false
	}
	st := rlp.NewStream(bytes.NewReader(blob), 0)
	var (
		version        uint64
		diskRoot, root common.Hash
	)
	if st.Decode(&version) != nil || st.Decode(&diskRoot) != nil || st.Decode(&root) != nil {
		return false
	}
	for r := m.head; ; r = m.parent[r] {
		if r == root {
			return false
		}
		if r == types.EmptyRootHash {
			break
		}
	}
	_, known := m.states[root]
	return known
}

// ---- exploration ----------------------------------------------------------------------

type c20Params struct {
	maxDev   int
	allKV    bool
	withinOp bool
}

func c20Sig(evs []vos.Event) string {
	var sb strings.Builder
	last := ""
	for _, e := range evs {
		base := e.Name[strings.LastIndexByte(e.Name, '/')+1:]
		if i := strings.LastIndexByte(base, '.'); i > 0 {
			base = base[:i]
		}
		if base != last {
			sb.WriteString(base + ",")
			last = base
		}
	}
	return fmt.Sprintf("%x", mc.Hash64(sb.String()))
}

func c20OpList(ops []int) []string {
	out := make([]string, len(ops))
	for i, o := range ops {
		out[i] = c20OpNames[o]
	}
	return out
}

func c20Copy(db ethdb.KeyValueStore) *memorydb.Database {
	out := memorydb.New()
	it := db.NewIterator(nil, nil)
	for it.Next() {
		out.Put(it.Key(), it.Value())
	}
	it.Release()
	return out
}

// c20Explore executes ops and explores every crash point inside the last one. It returns
// false if the history is not executable (an operation is disabled).
func c20Explore(r *mc.R, cfg c20Config, ops []int, p c20Params, seen *sync.Map, fd *c20Findings, tgt *c20Case) bool {
	base := c20Case{Cfg: cfg.name, Ops: c20OpList(ops)}
	s, err := c20NewSys(cfg)
	if err != nil {
		fd.add(base, fmt.Errorf("without any crash: %v", err), "")
		return false
	}
	defer s.close()
	var (
		fsFrom, kvFrom int
		opStarts       []int // KV log length at the start of every op
		before         = s.m.clone()
	)
	for i, op := range ops {
		if !s.enabled(op) {
			return false
		}
		before = s.m.clone()
		fsFrom, kvFrom = s.fs.NumEvents(), s.kv.Len()
		opStarts = append(opStarts, kvFrom)
		if err := mc.Safely(func() error { return s.apply(op) }); err != nil {
			fd.add(base, fmt.Errorf("without any crash: op %d (%s): %v", i, c20OpNames[op], err), "")
			return false
		}
	}
	_ = before
	if len(ops) == 0 {
		return true
	}
	r.Eval(1)
	lastOp := ops[len(ops)-1]
	evs := s.fs.Events()
	entries := s.kv.Entries()
	fsTo, kvTo := len(evs), len(entries)
	model := s.m.clone()
	for fsK := fsFrom; fsK <= fsTo; fsK++ {
		if r.Expired() {
			return true
		}
		lo, hi := kvFrom, kvFrom
		for i := kvFrom; i < kvTo; i++ {
			if entries[i].Clock < fsK {
				lo = i + 1
			}
			if entries[i].Clock <= fsK {
				hi = i + 1
			}
		}
		if fsK == fsFrom {
			lo = kvFrom
		}
		cp := s.fs.CrashAt(fsK, false)
		cp.SetNoTorn(true)
		pats, _ := cp.Patterns(vos.EnumOpt{ProductCap: 0, MaxDev: p.maxDev})
		sig := c20Sig(evs[:fsK])
		for kvK := lo; kvK <= hi; kvK++ {
			if fsK == fsFrom && kvK == kvFrom && len(ops) > 1 {
				continue // nothing of the last operation has happened: belongs to the shorter history
			}
			completed := fsK == fsTo && kvK == kvTo
			sync0 := s.kv.LastSync(kvK)
			keepSet := map[int]bool{kvK: true, sync0: true}
			for _, st := range opStarts {
				if st >= sync0 && st <= kvK {
					keepSet[st] = true
				}
			}
			if p.withinOp {
				for k := kvFrom; k <= kvK; k++ {
					if k >= sync0 {
						keepSet[k] = true
					}
				}
			}
			if p.allKV {
				for k := sync0; k <= kvK; k++ {
					keepSet[k] = true
				}
			}
			keeps := make([]int, 0, len(keepSet))
			for k := range keepSet {
				keeps = append(keeps, k)
			}
			sort.Sort(sort.Reverse(sort.IntSlice(keeps)))
			for _, keep := range keeps {
				for _, pt := range pats {
					cs := base
					cs.FsK, cs.KvK, cs.KvKeep, cs.Loss, cs.Sig = fsK, kvK, keep, pt, sig
					if fsK > 0 {
						cs.Event = evs[fsK-1].String()
					}
					if tgt != nil && (tgt.FsK != fsK || tgt.KvK != kvK || tgt.KvKeep != keep) {
						continue
					}
					img := cp.Build(pt)
					h := mc.Hash64(fmt.Sprintf("%s|%v|%d|%v|%s", cfg.name, ops, keep, completed, img.Fingerprint()))
					if _, dup := seen.LoadOrStore(h, struct{}{}); dup && !r.Replaying() {
						img.Release()
						r.Outcome("duplicate_image_skipped")
						continue
					}
					ctx := &c20Ctx{m: model}
					if completed && keep == kvK {
						switch lastOp {
						case c20OpCommit:
							ctx.mustDiskRoot = model.head
						case c20OpJournal:
							ctx.mustLayer = model.head
						}
					}
					var outcome string
					r.Case(cs, func() error {
						tag := c20Diagnose(img)
						kvImg := s.kv.Image(keep)
						if keep < kvK && c20TailBeyondPersisted(kvImg, img) {
							if tag != "" {
								tag += ","
							}
							tag += "kv-tail-lost-below-durable-history-tail"
						}
						if c20StaleJournal(kvImg, img, cfg, model) {
							if tag != "" {
								tag += ","
							}
							tag += "journal-of-rolled-back-state"
						}
						err := mc.Safely(func() error {
							o, err := c20Recover(kvImg, img, cfg, ctx)
							outcome = o
							return err
						})
						if err != nil {
							fd.add(cs, fmt.Errorf("%v\ncrash image (file system):\n%s", err, c20Dump(img)), tag)
						}
						return nil
					})
					img.Release()
					r.DistinctHash(h)
					if outcome != "" {
						r.Outcome(outcome)
					}
					if keep == kvK && len(pt.Pick) == 0 && fsK%17 == 3 {
						r.Sample(cs)
					}
				}
			}
		}
	}
	return true
}

func c20Dump(img *vos.FS) string {
	files := img.Files()
	names := make([]string, 0, len(files))
	for n := range files {
		names = append(names, n)
	}
	sort.Strings(names)
	var sb strings.Builder
	for _, n := range names {
		d := files[n]
		if len(d) > 24 {
			fmt.Fprintf(&sb, "  %s [%d] %x...\n", n, len(d), d[:24])
		} else {
			fmt.Fprintf(&sb, "  %s [%d] %x\n", n, len(d), d)
		}
	}
	return sb.String()
}

func c20ReplayTarget() *c20Case {
	p := os.Getenv("VERIF_REPLAY")
	if p == "" {
		return nil
	}
	raw, err := os.ReadFile(p)
	if err != nil {
		return nil
	}
	var f struct {
		Replay *c20Case `json:"replay"`
	}
	if json.Unmarshal(raw, &f) != nil {
		return nil
	}
	return f.Replay
}

func TestVerif_C20(t *testing.T) {
	mc.Run(t, "C20", func(r *mc.R) {
		vos.ExitPanics(true)
		defer vos.ExitPanics(false)
		oldLog := log.Root()
		log.SetDefault(log.NewLogger(c20Crit))
		defer log.SetDefault(oldLog)
		oldMax := maxDiffLayers
		defer func() { maxDiffLayers = oldMax }()
		maxDiffLayers = 1

		depth := mc.Pick(r, 4, 5)
		p := c20Params{maxDev: 0, withinOp: true}
		if r.Thorough() {
			p.maxDev = 1
			p.allKV = true
		}
		r.Rule("every executable history of <= depth operations over {Update (fixed deterministic account transition over 3 accounts), Commit(head), Recover(parent of the disk root), Journal(head)+clean restart} " +
			"on pathdb over rawdb.Open(recording KV, state freezer + journal on the recording FS), maxDiffLayers=1, write buffer {0, 1 MiB} x journal {KV, file}, unlimited state history; plus a linear family update^k with Commit at a few positions for state-history limits {2,3} x write buffer {0, 1 MiB}; every crash point of the merged KV/FS order inside the last operation x " +
			"durable KV prefix (all, only synced, operation boundaries, every position inside the last operation; thorough: every prefix) x FS loss (all kept / all unsynced lost x namespace prefixes; thorough: one deviating file); " +
			"distinct = distinct (history, KV image, FS image)")
		r.Bound("depth", depth)
		r.Bound("maxDiffLayers", 1)
		r.Assume("KV crash model: batches atomic, ordered, durable up to the last SyncKeyValue, any prefix of later entries may survive; FS crash model as in vos/crash.go without torn appends (byte-level freezer recovery is C24); KV and FS losses independent")
		r.Assume("closing the key-value store (clean shutdown) makes its content durable")
		r.Assume("log.Crit is observed as a panic (log package's os.Exit routed through vos.Exit)")
		r.Assume("reference model: root -> account set and root -> parent root for every state produced by the history; trie root/leaf encoding taken from the trie package")
		configs := []c20Config{
			{"buf0-kvjournal", 0, false, 1, 0},
			{"buf1M-kvjournal", 1 << 20, false, 1, 0},
			{"buf0-filejournal", 0, true, 1, 0},
			{"buf1M-filejournal", 1 << 20, true, 1, 0},
		}
		// finite state-history limits: tail truncation of the state freezer in writeHistory, with
		// the transitions either flushed at once (buffer 0) or kept in the 1 MiB write buffer
		limited := []c20Config{
			{"lim2-buf1M-kvjournal", 1 << 20, false, 1, 2},
			{"lim3-buf1M-kvjournal", 1 << 20, false, 1, 3},
			{"lim2-buf0-kvjournal", 0, false, 1, 2},
			{"lim3-buf0-kvjournal", 0, false, 1, 3},
		}
		alphabet := []int{c20OpUpdate, c20OpCommit, c20OpRecover, c20OpJournal}
		type job struct {
			cfg c20Config
			ops []int
		}
		var jobs []job
		var gen func(cfg c20Config, seq []int)
		gen = func(cfg c20Config, seq []int) {
			if len(seq) > 0 {
				jobs = append(jobs, job{cfg, append([]int{}, seq...)})
			}
			if len(seq) == depth {
				return
			}
			for _, op := range alphabet {
				// prune histories that cannot be executed or add nothing: the first operation must be an update
				if len(seq) == 0 && op != c20OpUpdate {
					continue
				}
				gen(cfg, append(seq, op))
			}
		}
		for _, cfg := range configs {
			gen(cfg, nil)
		}
		// the linear family for the limited configurations: update^k with Commit(head) at up to
		// maxCommits positions (never two in a row), length <= linDepth; thorough also ends the
		// history with Recover or Journal+restart
		linDepth := mc.Pick(r, 7, 8)
		maxCommits := mc.Pick(r, 2, 3)
		r.Bound("linear_family", fmt.Sprintf("state-history limit {2,3} x buffer {0, 1 MiB}: update^k with <= %d commits, length <= %d", maxCommits, linDepth))
		var lin func(cfg c20Config, seq []int, commits int)
		lin = func(cfg c20Config, seq []int, commits int) {
			if len(seq) > 0 {
				jobs = append(jobs, job{cfg, append([]int{}, seq...)})
				if r.Thorough() && len(seq) < linDepth {
					jobs = append(jobs, job{cfg, append(append([]int{}, seq...), c20OpRecover)})
					jobs = append(jobs, job{cfg, append(append([]int{}, seq...), c20OpJournal)})
				}
			}
			if len(seq) == linDepth {
				return
			}
			lin(cfg, append(seq, c20OpUpdate), commits)
			if len(seq) > 0 && seq[len(seq)-1] == c20OpUpdate && commits < maxCommits {
				lin(cfg, append(seq, c20OpCommit), commits+1)
			}
		}
		for _, cfg := range limited {
			lin(cfg, nil, 0)
		}
		sort.SliceStable(jobs, func(i, j int) bool { return len(jobs[i].ops) > len(jobs[j].ops) })
		tgt := c20ReplayTarget()
		if tgt != nil && r.Replaying() {
			var keep []job
			for _, j := range jobs {
				if j.cfg.name == tgt.Cfg && fmt.Sprint(c20OpList(j.ops)) == fmt.Sprint(tgt.Ops) {
					keep = append(keep, j)
				}
			}
			jobs = keep
		} else {
			tgt = nil
		}
		r.Bound("histories_generated", len(jobs))
		seen := &sync.Map{}
		fd := &c20Findings{class: map[string]*c20Finding{}}
		defer fd.report(r)
		var executed, disabled int64
		var cmu sync.Mutex
		r.Parallel(len(jobs), func(i int) {
			tries := 1
			if tgt != nil {
				tries = 40
			}
			for t := 0; t < tries; t++ {
				pj := p
				if jobs[i].cfg.history != 0 {
					pj.allKV = false // long linear histories: KV prefixes at operation boundaries and inside the last operation only
				}
				ok := c20Explore(r, jobs[i].cfg, jobs[i].ops, pj, seen, fd, tgt)
				cmu.Lock()
				if ok {
					executed++
				} else {
					disabled++
				}
				cmu.Unlock()
			}
		})
		r.Bound("histories_executed", executed)
		r.Bound("histories_not_executable", disabled)
	})
}
