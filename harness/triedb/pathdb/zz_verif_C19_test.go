//go:build verif

package pathdb

// C19 — the history index of one state element behaves as a sorted set of state ids.
//
// Two harnesses share this file:
//
//   TestVerif_C19_Scaled
//       explicit-state breadth-first search over *histories* of index sessions (writer sessions that append,
//       deleter sessions that pop, tail pruning, crash-recovery sessions opened with a truncating limit) on a build in
//       which indexBlockRestartLen / indexBlockMaxSize are scaled down (run.py "instrument"/"consts"), so that
//       restart-section and block boundaries are crossed after a handful of elements.
//   TestVerif_C19_Unscaled
//       the unchanged constants (256 / 4096) on a structured grid of element counts around the 256/512 restart
//       boundaries and the measured block capacity.
//
// Oracle (independent of the package): the model is a plain sorted slice of (id, extension set). After every
// transition the bytes in the database are (a) decoded by a reference decoder written from the documented block
// format and compared with the model, and (b) read through the real indexReader / iterators: readGreaterThan(q) must
// be the least model id > q, Next() must enumerate the model, SeekGT(q)+Next() must enumerate the model's tail, and a
// filtered iterator must enumerate exactly the elements whose extension contains the filter id or one of its
// descendants (parent(x) = (x-1)/16, computed here, not with the package helper).

import (
	"bytes"
	"encoding/binary"
	"encoding/json"
	"errors"
	"fmt"
	"math"
	"os"
	"sort"
	"strings"
	"sync"
	"testing"

	"github.com/ethereum/go-ethereum/common"
	"github.com/ethereum/go-ethereum/ethdb/memorydb"
	"github.com/ethereum/go-ethereum/internal/verif/mc"
	"github.com/ethereum/go-ethereum/log"
)

// ---------------------------------------------------------------------------------------------------------------
// reference model

type c19Elem struct {
	id  uint64
	ext []uint16 // sorted, duplicate free; nil when the index has no extensions
}

func c19SortedExt(ext []uint16) []uint16 {
	if len(ext) == 0 {
		return nil
	}
	out := append([]uint16{}, ext...)
	sort.Slice(out, func(i, j int) bool { return out[i] < out[j] })
	w := 1
	for i := 1; i < len(out); i++ {
		if out[i] != out[w-1] {
			out[w] = out[i]
			w++
		}
	}
	return out[:w]
}

// c19Match is the specification of the extension filter: the element matches filter f when its extension lists f
// itself or a descendant of f in the 16-ary numbering (root 0, children of x are 16x+1..16x+16).
func c19Match(f uint16, ext []uint16) bool {
	for _, e := range ext {
		for x := e; ; x = (x - 1) / 16 {
			if x == f {
				return true
			}
			if x == 0 {
				break
			}
		}
	}
	return false
}

func c19IDs(m []c19Elem) []uint64 {
	out := make([]uint64, len(m))
	for i, e := range m {
		out[i] = e.id
	}
	return out
}

// c19Filtered returns the ids of the model elements matching the filter (nil = all).
func c19Filtered(m []c19Elem, f *uint16) []uint64 {
	var out []uint64
	for _, e := range m {
		if f == nil || c19Match(*f, e.ext) {
			out = append(out, e.id)
		}
	}
	return out
}

// c19GT returns the least id > q in the ascending slice ids, its position and whether it exists.
func c19GT(ids []uint64, q uint64) (uint64, int, bool) {
	i := sort.Search(len(ids), func(i int) bool { return ids[i] > q })
	if i < len(ids) {
		return ids[i], i, true
	}
	return 0, len(ids), false
}

func c19CloneModel(m []c19Elem) []c19Elem { return append([]c19Elem{}, m...) }

func c19EqualExt(a, b []uint16) bool {
	if len(a) != len(b) {
		return false
	}
	for i := range a {
		if a[i] != b[i] {
			return false
		}
	}
	return true
}

// ---------------------------------------------------------------------------------------------------------------
// reference decoder of the persisted format (written from the format comment in history_index_block.go)

type c19Block struct {
	id       uint32
	max      uint64 // descriptor fields as stored
	entries  int
	bitmap   []byte
	raw      []byte
	elems    []c19Elem // decoded by the reference decoder
	sections []int     // number of elements per restart section
}

func c19DecodeIDList(buf []byte) ([]uint16, error) {
	var out []uint16
	for len(buf) > 0 {
		v, n := binary.Uvarint(buf)
		if n <= 0 || v > math.MaxUint16 {
			return nil, fmt.Errorf("bad extension id encoding %x", buf)
		}
		out = append(out, uint16(v))
		buf = buf[n:]
	}
	return out, nil
}

func c19DecodeBlock(blob []byte, hasExt bool) ([]c19Elem, []int, error) {
	if len(blob) < 1 {
		return nil, nil, errors.New("empty block blob")
	}
	nr := int(blob[len(blob)-1])
	if nr == 0 || len(blob) < 1+2*nr {
		return nil, nil, fmt.Errorf("bad restart count %d for %d bytes", nr, len(blob))
	}
	dataEnd := len(blob) - 1 - 2*nr
	restarts := make([]int, nr)
	for i := range restarts {
		restarts[i] = int(binary.BigEndian.Uint16(blob[dataEnd+2*i:]))
	}
	if restarts[0] != 0 {
		return nil, nil, fmt.Errorf("first restart is %d, not 0", restarts[0])
	}
	data := blob[:dataEnd]
	var (
		elems    []c19Elem
		sections []int
		cur      uint64
		ri       int
		pos      int
	)
	for pos < len(data) {
		v, n := binary.Uvarint(data[pos:])
		if n <= 0 {
			return nil, nil, fmt.Errorf("bad varint at %d", pos)
		}
		if ri < nr && pos == restarts[ri] {
			cur = v
			ri++
			sections = append(sections, 0)
		} else {
			if v == 0 {
				return nil, nil, fmt.Errorf("zero delta at %d", pos)
			}
			cur += v
		}
		pos += n
		var ext []uint16
		if hasExt {
			l, ln := binary.Uvarint(data[pos:])
			if ln <= 0 || pos+ln+int(l) > len(data) {
				return nil, nil, fmt.Errorf("bad extension length at %d", pos)
			}
			ids, err := c19DecodeIDList(data[pos+ln : pos+ln+int(l)])
			if err != nil {
				return nil, nil, err
			}
			if len(ids) == 0 {
				return nil, nil, fmt.Errorf("empty extension at %d", pos)
			}
			ext = ids
			pos += ln + int(l)
		}
		elems = append(elems, c19Elem{cur, ext})
		sections[len(sections)-1]++
	}
	if ri != nr {
		return nil, nil, fmt.Errorf("restart %d (offset %d) does not coincide with an element start", ri, restarts[ri])
	}
	return elems, sections, nil
}

// c19Layout decodes the complete persisted index of one state element.
func c19Layout(db *memorydb.Database, ident stateIdent, bitmap int) ([]c19Block, error) {
	meta := readStateIndex(ident, db)
	if len(meta) == 0 {
		return nil, nil
	}
	size := 14 + bitmap
	if len(meta)%size != 0 {
		return nil, fmt.Errorf("metadata length %d is not a multiple of %d", len(meta), size)
	}
	var blocks []c19Block
	for off := 0; off < len(meta); off += size {
		b := c19Block{
			max:     binary.BigEndian.Uint64(meta[off:]),
			entries: int(binary.BigEndian.Uint16(meta[off+8:])),
			id:      binary.BigEndian.Uint32(meta[off+10:]),
			bitmap:  meta[off+14 : off+size],
		}
		if len(blocks) > 0 && blocks[len(blocks)-1].id+1 != b.id {
			return nil, fmt.Errorf("block ids not consecutive: %d then %d", blocks[len(blocks)-1].id, b.id)
		}
		b.raw = readStateIndexBlock(ident, db, b.id)
		if len(b.raw) == 0 {
			return nil, fmt.Errorf("descriptor of block %d has no block data", b.id)
		}
		elems, sections, err := c19DecodeBlock(b.raw, bitmap != 0)
		if err != nil {
			return nil, fmt.Errorf("block %d: %v", b.id, err)
		}
		b.elems, b.sections = elems, sections
		if len(elems) == 0 {
			return nil, fmt.Errorf("block %d is empty", b.id)
		}
		if b.entries != len(elems) {
			return nil, fmt.Errorf("block %d: descriptor entries=%d but %d elements are encoded", b.id, b.entries, len(elems))
		}
		if b.max != elems[len(elems)-1].id {
			return nil, fmt.Errorf("block %d: descriptor max=%d but the last encoded element is %d", b.id, b.max, elems[len(elems)-1].id)
		}
		for i, n := range sections {
			if n > indexBlockRestartLen || (i < len(sections)-1 && n != indexBlockRestartLen) || n == 0 {
				return nil, fmt.Errorf("block %d: restart section %d holds %d elements (interval %d)", b.id, i, n, indexBlockRestartLen)
			}
		}
		// every extension id must be announced by the block bitmap, otherwise the block is skipped by filters; and
		// no other bit may be set: indexIterator.Next gives up when a block announced by its bitmap yields no match,
		// so a stale bit hides the matching elements of all later blocks.
		want := make([]byte, len(b.bitmap))
		for _, e := range elems {
			for _, x := range e.ext {
				if x != 0 {
					want[(x-1)/8] |= 1 << (7 - (x-1)%8)
				}
			}
		}
		if !bytes.Equal(want, b.bitmap) {
			return nil, fmt.Errorf("block %d: descriptor bitmap is %x, the extensions of its elements give %x", b.id, b.bitmap, want)
		}
		blocks = append(blocks, b)
	}
	return blocks, nil
}

func c19Concat(blocks []c19Block) []c19Elem {
	var out []c19Elem
	for _, b := range blocks {
		out = append(out, b.elems...)
	}
	return out
}

func c19CompareModel(what string, got, want []c19Elem) error {
	if len(got) != len(want) {
		return fmt.Errorf("%s: %d elements %v, model has %d %v", what, len(got), c19IDs(got), len(want), c19IDs(want))
	}
	for i := range got {
		if got[i].id != want[i].id {
			return fmt.Errorf("%s: element %d is %d, model %d (got %v want %v)", what, i, got[i].id, want[i].id, c19IDs(got), c19IDs(want))
		}
		if !c19EqualExt(got[i].ext, want[i].ext) {
			return fmt.Errorf("%s: element %d (id %d) has extension %v, model %v", what, i, got[i].id, got[i].ext, want[i].ext)
		}
	}
	return nil
}

// ---------------------------------------------------------------------------------------------------------------
// configuration of one explored index

type c19Append struct {
	name string
	gaps []uint64
	exts [][]uint16 // nil for indexes without extension
}

type c19Cfg struct {
	name    string
	ident   stateIdent
	bitmap  int
	typ     historyType
	by      []stateIdent // bystander indexes that must never change
	byBits  []int
	filters []uint16
	appends []c19Append
}

var (
	c19H1 = common.HexToHash("0xa1a1a1a1a1a1a1a1a1a1a1a1a1a1a1a1a1a1a1a1a1a1a1a1a1a1a1a1a1a1a1a1")
	c19H2 = common.HexToHash("0xa1a1a1a1a1a1a1a1a1a1a1a1a1a1a1a1a1a1a1a1a1a1a1a1a1a1a1a1a1a1a1a2")
)

const c19ByBase = uint64(1) << 62 // bystander ids are far above every explored id / prune tail

func c19CfgPlain() *c19Cfg {
	return &c19Cfg{
		name:   "account",
		ident:  newAccountIdent(c19H1),
		bitmap: 0,
		typ:    typeStateHistory,
		by:     []stateIdent{newAccountIdent(c19H2), newStorageIdent(c19H1, c19H2)},
		byBits: []int{0, 0},
		appends: []c19Append{
			{"A1", []uint64{1}, nil},
			{"A1w", []uint64{200}, nil},
			{"A1x", []uint64{20000}, nil},
			{"A3", []uint64{1, 1, 1}, nil},
			{"A3x", []uint64{20000, 1, 20000}, nil},
		},
	}
}

func c19CfgTn2() *c19Cfg {
	id := newTrienodeIdent(common.Hash{}, "\x05")
	return &c19Cfg{
		name:    "trienode-2B",
		ident:   id,
		bitmap:  id.bloomSize(),
		typ:     typeTrienodeHistory,
		by:      []stateIdent{newTrienodeIdent(common.Hash{}, "\x05\x00\x00")},
		byBits:  []int{newTrienodeIdent(common.Hash{}, "\x05\x00\x00").bloomSize()},
		filters: []uint16{0, 1, 2, 3, 9, 16},
		appends: []c19Append{
			{"A1a", []uint64{1}, [][]uint16{{1}}},
			{"A1b", []uint64{1}, [][]uint16{{16}}},
			{"A1c", []uint64{200}, [][]uint16{{0}}},
			{"A1d", []uint64{1}, [][]uint16{{3, 9}}},
			{"A3a", []uint64{1, 1, 1}, [][]uint16{{1}, {1}, {3}}},
			{"A3b", []uint64{200, 1, 1}, [][]uint16{{16}, {0, 9}, {16}}},
		},
	}
}

func c19CfgTn34() *c19Cfg {
	id := newTrienodeIdent(c19H1, "")
	return &c19Cfg{
		name:    "trienode-34B",
		ident:   id,
		bitmap:  id.bloomSize(),
		typ:     typeTrienodeHistory,
		by:      []stateIdent{newTrienodeIdent(c19H1, "\x00\x00\x00")},
		byBits:  []int{newTrienodeIdent(c19H1, "\x00\x00\x00").bloomSize()},
		filters: []uint16{0, 1, 2, 3, 16, 17, 18, 40, 272},
		appends: []c19Append{
			{"A1a", []uint64{1}, [][]uint16{{1}}},
			{"A1b", []uint64{1}, [][]uint16{{17}}},
			{"A1c", []uint64{200}, [][]uint16{{272}}},
			{"A1d", []uint64{1}, [][]uint16{{2, 40}}},
			{"A3a", []uint64{1, 1, 1}, [][]uint16{{1}, {17}, {0}}},
			{"A3b", []uint64{200, 1, 1}, [][]uint16{{272}, {40}, {16, 272}}},
		},
	}
}

func c19Cfgs() map[string]*c19Cfg {
	out := map[string]*c19Cfg{}
	for _, c := range []*c19Cfg{c19CfgPlain(), c19CfgTn2(), c19CfgTn34()} {
		out[c.name] = c
	}
	return out
}

func (c *c19Cfg) byExt(i int) []uint16 {
	if c.byBits[i] == 0 {
		return nil
	}
	return []uint16{1}
}

// newDB returns a database that holds only the bystander indexes.
func (c *c19Cfg) newDB() *memorydb.Database {
	db := memorydb.New()
	for i, id := range c.by {
		w, err := newIndexWriter(db, id, 0, c.byBits[i])
		if err != nil {
			panic(err)
		}
		for k := uint64(1); k <= 5; k++ {
			if err := w.append(c19ByBase+k, c.byExt(i)); err != nil {
				panic(err)
			}
		}
		b := db.NewBatch()
		w.finish(b)
		if err := b.Write(); err != nil {
			panic(err)
		}
	}
	return db
}

func (c *c19Cfg) checkBystanders(db *memorydb.Database) error {
	for i, id := range c.by {
		blocks, err := c19Layout(db, id, c.byBits[i])
		if err != nil {
			return fmt.Errorf("bystander index %d damaged: %v", i, err)
		}
		got := c19IDs(c19Concat(blocks))
		if len(got) != 5 || got[0] != c19ByBase+1 || got[4] != c19ByBase+5 {
			return fmt.Errorf("bystander index %d changed: %v", i, got)
		}
	}
	return nil
}

// ---------------------------------------------------------------------------------------------------------------
// database snapshots (a state of the search is the database content + the model)

type c19KV struct{ k, v []byte }

func c19Snapshot(db *memorydb.Database) []c19KV {
	var out []c19KV
	it := db.NewIterator(nil, nil)
	defer it.Release()
	for it.Next() {
		out = append(out, c19KV{common.CopyBytes(it.Key()), common.CopyBytes(it.Value())})
	}
	return out
}

func c19Restore(snap []c19KV) *memorydb.Database {
	db := memorydb.NewWithCap(len(snap) + 8)
	for _, kv := range snap {
		db.Put(kv.k, kv.v)
	}
	return db
}

func c19SnapKey(snap []c19KV) string {
	var sb strings.Builder
	var l [8]byte
	for _, kv := range snap {
		binary.BigEndian.PutUint32(l[:4], uint32(len(kv.k)))
		binary.BigEndian.PutUint32(l[4:], uint32(len(kv.v)))
		sb.Write(l[:])
		sb.Write(kv.k)
		sb.Write(kv.v)
	}
	return sb.String()
}

// ---------------------------------------------------------------------------------------------------------------
// operations

// c19Op is one session. It is the JSON replay artefact, so every parameter is absolute.
type c19Op struct {
	Kind  string     `json:"k"`               // "W" writer session, "D" deleter session, "P" tail prune
	Limit uint64     `json:"limit,omitempty"` // limit handed to newIndexWriter / newIndexDeleter
	Trunc bool       `json:"trunc,omitempty"` // the limit is below the last stored id (crash-recovery truncation)
	IDs   []uint64   `json:"ids,omitempty"`   // W: ids appended
	Exts  [][]uint16 `json:"exts,omitempty"`  // W: their extensions
	Pops  int        `json:"pops,omitempty"`  // D: number of elements popped
	Tail  uint64     `json:"tail,omitempty"`  // P: new history tail
	Name  string     `json:"name,omitempty"`
}

func c19Last(m []c19Elem) uint64 {
	if len(m) == 0 {
		return 0
	}
	return m[len(m)-1].id
}

func c19Truncate(m []c19Elem, limit uint64) []c19Elem {
	out := c19CloneModel(m)
	for len(out) > 0 && out[len(out)-1].id > limit {
		out = out[:len(out)-1]
	}
	return out
}

// c19Apply executes one session on the real code and on the model and returns the new model. Only the
// operation-local expectations are checked here (errors, refresh); c19Check validates the resulting state.
func c19Apply(cfg *c19Cfg, db *memorydb.Database, model []c19Elem, op c19Op, checks bool) ([]c19Elem, error) {
	switch op.Kind {
	case "W":
		// a long-lived reader that is refreshed after the session (only defined for pure extensions)
		var rd *indexReader
		if checks && !op.Trunc {
			var err error
			if rd, err = newIndexReader(db, cfg.ident, cfg.bitmap); err != nil {
				return nil, fmt.Errorf("newIndexReader before session: %v", err)
			}
			if _, err := rd.readGreaterThan(0); err != nil { // populate the block reader cache
				return nil, fmt.Errorf("readGreaterThan(0) before session: %v", err)
			}
			if n := len(model); n > 0 {
				if _, err := rd.readGreaterThan(model[n-1].id - 1); err != nil {
					return nil, fmt.Errorf("readGreaterThan(last-1) before session: %v", err)
				}
			}
		}
		w, err := newIndexWriter(db, cfg.ident, op.Limit, cfg.bitmap)
		if err != nil {
			return nil, fmt.Errorf("newIndexWriter(limit=%d): %v", op.Limit, err)
		}
		next := c19Truncate(model, op.Limit)
		if checks && len(next) > 0 && !op.Trunc {
			// the sorted-set contract: an id that is not greater than the last one is refused (not demanded after a
			// truncating open: when the truncation empties the last block the writer only knows that block)
			if err := w.append(c19Last(next), op.Exts0()); err == nil {
				return nil, fmt.Errorf("append(%d) of the current last id accepted", c19Last(next))
			}
		}
		for i, id := range op.IDs {
			var ext []uint16
			if op.Exts != nil {
				ext = append([]uint16{}, op.Exts[i]...)
			}
			if err := w.append(id, ext); err != nil {
				return nil, fmt.Errorf("append(%d,%v): %v", id, ext, err)
			}
			next = append(next, c19Elem{id, c19SortedExt(ext)})
		}
		b := db.NewBatch()
		w.finish(b)
		if err := b.Write(); err != nil {
			return nil, err
		}
		if rd != nil {
			if err := rd.refresh(); err != nil {
				return nil, fmt.Errorf("refresh: %v", err)
			}
			if err := c19CheckReader(cfg, rd, next, "refreshed reader", false, nil); err != nil {
				return nil, err
			}
		}
		return next, nil

	case "D":
		d, err := newIndexDeleter(db, cfg.ident, op.Limit, cfg.bitmap)
		if err != nil {
			return nil, fmt.Errorf("newIndexDeleter(limit=%d): %v", op.Limit, err)
		}
		next := c19Truncate(model, op.Limit)
		if checks {
			if err := d.pop(0); err == nil {
				return nil, errors.New("pop(0) accepted")
			}
			if err := d.pop(c19Last(next) + 1); err == nil {
				return nil, fmt.Errorf("pop(%d) of an id that is not stored accepted", c19Last(next)+1)
			}
			if len(next) >= 2 {
				if err := d.pop(next[len(next)-2].id); err == nil {
					return nil, fmt.Errorf("pop(%d) of an element that is not the last accepted", next[len(next)-2].id)
				}
			}
		}
		for i := 0; i < op.Pops; i++ {
			if len(next) == 0 {
				return nil, errors.New("harness: pop on empty model")
			}
			id := c19Last(next)
			if err := d.pop(id); err != nil {
				return nil, fmt.Errorf("pop(%d): %v", id, err)
			}
			next = next[:len(next)-1]
		}
		b := db.NewBatch()
		d.finish(b)
		if err := b.Write(); err != nil {
			return nil, err
		}
		return next, nil

	case "P":
		before, err := c19Layout(db, cfg.ident, cfg.bitmap)
		if err != nil {
			return nil, fmt.Errorf("layout before prune: %v", err)
		}
		p := &indexPruner{
			disk:     db,
			typ:      cfg.typ,
			closed:   make(chan struct{}),
			log:      log.New(),
			pauseReq: make(chan chan struct{}),
			resumeCh: make(chan struct{}),
		}
		if err := p.process(op.Tail); err != nil {
			return nil, fmt.Errorf("pruner.process(%d): %v", op.Tail, err)
		}
		// expectation: exactly the leading blocks whose elements are all below the tail disappear
		var next []c19Elem
		dropping := true
		for _, b := range before {
			if dropping && b.elems[len(b.elems)-1].id < op.Tail {
				continue
			}
			dropping = false
			next = append(next, b.elems...)
		}
		// statement level: nothing at or above the tail may be lost (independent of the block partition)
		kept := map[uint64]bool{}
		for _, x := range next {
			kept[x.id] = true
		}
		for _, e := range model {
			if e.id >= op.Tail && !kept[e.id] {
				return nil, fmt.Errorf("harness: expectation drops id %d >= tail %d", e.id, op.Tail)
			}
		}
		return next, nil
	}
	return nil, fmt.Errorf("harness: unknown op %q", op.Kind)
}

// Exts0 is the extension used for the deliberately rejected append.
func (op c19Op) Exts0() []uint16 {
	if op.Exts == nil {
		return nil
	}
	return []uint16{1}
}

// ---------------------------------------------------------------------------------------------------------------
// state validation through the real readers

// c19Marks holds the element positions of interest of the unscaled grid (nil in the scaled search).
// For indexes longer than 64 elements only positions next to a restart-section boundary, next to a mark and at
// both ends are queried; short indexes are queried at every id-1, id, id+1.
func c19Queries(ids []uint64, marks ...int) []uint64 {
	seen := map[uint64]bool{}
	var out []uint64
	add := func(q uint64) {
		if !seen[q] {
			seen[q] = true
			out = append(out, q)
		}
	}
	add(0)
	near := map[int]bool{}
	for _, m := range marks {
		for j := m - 3; j <= m+2; j++ {
			near[j] = true
		}
	}
	for j, x := range ids {
		if len(ids) > 64 {
			k := j % indexBlockRestartLen
			if !(k <= 1 || k >= indexBlockRestartLen-2 || near[j] || j < 3 || j >= len(ids)-3) {
				continue
			}
		}
		add(x - 1)
		add(x)
		add(x + 1)
	}
	add(c19Last2(ids) + 1000)
	sort.Slice(out, func(i, j int) bool { return out[i] < out[j] })
	return out
}

func c19Last2(ids []uint64) uint64 {
	if len(ids) == 0 {
		return 0
	}
	return ids[len(ids)-1]
}

func c19Drain(it HistoryIndexIterator, limit int) ([]uint64, error) {
	var out []uint64
	for it.Next() {
		out = append(out, it.ID())
		if len(out) > limit {
			return out, fmt.Errorf("iterator yields more than %d elements: %v...", limit, out[:8])
		}
	}
	return out, it.Error()
}

func c19EqualIDs(a, b []uint64) bool {
	if len(a) != len(b) {
		return false
	}
	for i := range a {
		if a[i] != b[i] {
			return false
		}
	}
	return true
}

// c19CheckReader validates one indexReader against the model. seekAll: run SeekGT+tail traversal for every query
// (quadratic); otherwise only for the given subset.
func c19CheckReader(cfg *c19Cfg, rd *indexReader, model []c19Elem, what string, full bool, seekAt []uint64, marks ...int) error {
	ids := c19IDs(model)
	qs := c19Queries(ids, marks...)
	seekQs := seekAt
	if full {
		seekQs = qs
	}
	for _, q := range qs {
		got, err := rd.readGreaterThan(q)
		if err != nil {
			return fmt.Errorf("%s: readGreaterThan(%d): %v", what, q, err)
		}
		want, _, ok := c19GT(ids, q)
		if !ok {
			want = math.MaxUint64
		}
		if got != want {
			return fmt.Errorf("%s: readGreaterThan(%d)=%d, least stored id greater than it is %d (stored %v)", what, q, got, want, ids)
		}
	}
	filters := []*uint16{nil}
	if cfg.bitmap != 0 {
		for i := range cfg.filters {
			filters = append(filters, &cfg.filters[i])
		}
	}
	for _, f := range filters {
		var ef *extFilter
		fname := "none"
		if f != nil {
			x := extFilter(*f)
			ef = &x
			fname = fmt.Sprint(*f)
		}
		want := c19Filtered(model, f)
		got, err := c19Drain(rd.newIterator(ef), len(ids)+2)
		if err != nil {
			return fmt.Errorf("%s: traversal filter=%s: %v", what, fname, err)
		}
		if !c19EqualIDs(got, want) {
			return fmt.Errorf("%s: Next() traversal with filter %s yields %v, expected %v (stored %v)", what, fname, got, want, ids)
		}
		for _, q := range seekQs {
			it := rd.newIterator(ef)
			found := it.SeekGT(q)
			if err := it.Error(); err != nil {
				return fmt.Errorf("%s: SeekGT(%d) filter=%s: %v", what, q, fname, err)
			}
			_, idx, ok := c19GT(want, q)
			if found != ok {
				return fmt.Errorf("%s: SeekGT(%d) filter=%s found=%v, expected %v (matching ids %v)", what, q, fname, found, ok, want)
			}
			if !ok {
				continue
			}
			if it.ID() != want[idx] {
				return fmt.Errorf("%s: SeekGT(%d) filter=%s positioned at %d, expected %d (matching ids %v)", what, q, fname, it.ID(), want[idx], want)
			}
			wantRest := want[idx+1:]
			var rest []uint64
			if full || len(wantRest) <= 2*indexBlockRestartLen+8 {
				rest, err = c19Drain(it, len(ids)+2)
			} else {
				// long tails (unscaled grid): follow the iterator across the next two restart boundaries only
				wantRest = wantRest[:2*indexBlockRestartLen+8]
				for len(rest) < len(wantRest) && it.Next() {
					rest = append(rest, it.ID())
				}
				err = it.Error()
			}
			if err != nil {
				return fmt.Errorf("%s: Next after SeekGT(%d) filter=%s: %v", what, q, fname, err)
			}
			if !c19EqualIDs(rest, wantRest) {
				return fmt.Errorf("%s: Next() after SeekGT(%d) filter=%s yields %v, expected %v (matching ids %v)", what, q, fname, rest, wantRest, want)
			}
		}
		// one iterator re-used for a descending and then an ascending series of seeks
		it := rd.newIterator(ef)
		order := append([]uint64{}, seekQs...)
		for i := len(seekQs) - 1; i >= 0; i-- {
			order = append(order, seekQs[i])
		}
		for k := len(order) - 1; k >= 0; k-- {
			q := order[k]
			found := it.SeekGT(q)
			if err := it.Error(); err != nil {
				return fmt.Errorf("%s: re-used iterator SeekGT(%d) filter=%s: %v", what, q, fname, err)
			}
			_, idx, ok := c19GT(want, q)
			if found != ok || (ok && it.ID() != want[idx]) {
				return fmt.Errorf("%s: re-used iterator SeekGT(%d) filter=%s: found=%v id=%d, expected found=%v (matching ids %v)", what, q, fname, found, it.ID(), ok, want)
			}
		}
	}
	return nil
}

// c19Check validates the persisted state against the model.
func c19Check(cfg *c19Cfg, db *memorydb.Database, model []c19Elem, full bool, seekAt []uint64, marks ...int) ([]c19Block, error) {
	blocks, err := c19Layout(db, cfg.ident, cfg.bitmap)
	if err != nil {
		return nil, fmt.Errorf("persisted index is malformed: %v (model %v)", err, c19IDs(model))
	}
	if err := c19CompareModel("persisted bytes (reference decoder)", c19Concat(blocks), model); err != nil {
		return nil, err
	}
	rd, err := newIndexReader(db, cfg.ident, cfg.bitmap)
	if err != nil {
		return nil, fmt.Errorf("newIndexReader: %v", err)
	}
	if err := c19CheckReader(cfg, rd, model, "reader", full, seekAt, marks...); err != nil {
		return nil, err
	}
	// block level readers
	for _, b := range blocks {
		br, err := newBlockReader(b.raw, cfg.bitmap != 0)
		if err != nil {
			return nil, fmt.Errorf("newBlockReader(block %d): %v", b.id, err)
		}
		ids := c19IDs(b.elems)
		for _, q := range c19Queries(ids, len(ids)) {
			got, err := br.readGreaterThan(q)
			if err != nil {
				return nil, fmt.Errorf("block %d readGreaterThan(%d): %v", b.id, q, err)
			}
			want, _, ok := c19GT(ids, q)
			if !ok {
				want = math.MaxUint64
			}
			if got != want {
				return nil, fmt.Errorf("block %d readGreaterThan(%d)=%d, expected %d (block holds %v)", b.id, q, got, want, ids)
			}
		}
	}
	if err := cfg.checkBystanders(db); err != nil {
		return nil, err
	}
	return blocks, nil
}

// ---------------------------------------------------------------------------------------------------------------
// corruption sweep: every single-byte corruption of a block / of the metadata is rejected or read without panic

var c19CorruptSeen sync.Map

var c19CorruptAll = false

func c19CorruptValues(b byte) []byte {
	out := []byte{b ^ 0x80, b + 1, 0xff}
	if c19CorruptAll {
		out = []byte{0x00, 0xff, b + 1, b - 1, b ^ 0x80, b ^ 0x01}
	}
	var uniq []byte
	for _, v := range out {
		dup := v == b
		for _, u := range uniq {
			dup = dup || u == v
		}
		if !dup {
			uniq = append(uniq, v)
		}
	}
	return uniq
}

type c19CorruptDesc struct {
	Cfg   string  `json:"cfg"`
	Ops   []c19Op `json:"ops"`
	Block int     `json:"corrupt_block"` // index in the descriptor list, -1 = the metadata itself
	Off   int     `json:"off"`
	Val   int     `json:"val"`
}

func c19ReadCorrupted(cfg *c19Cfg, db *memorydb.Database, model []c19Elem, blocks []c19Block, blk, off int, val byte) (string, error) {
	if blk >= 0 {
		raw := common.CopyBytes(blocks[blk].raw)
		raw[off] = val
		br, err := newBlockReader(raw, cfg.bitmap != 0)
		if err != nil {
			return "rejected", nil
		}
		filters := []*extFilter{nil}
		for i, f := range cfg.filters {
			if i == 1 || i == len(cfg.filters)-1 || c19CorruptAll {
				x := extFilter(f)
				filters = append(filters, &x)
			}
		}
		errs := 0
		for _, f := range filters {
			if f != nil && cfg.bitmap == 0 {
				continue
			}
			it := br.newIterator(f)
			for n := 0; it.Next(); n++ {
				if n > 1<<16 {
					return "", errors.New("iteration over corrupted block does not terminate")
				}
			}
			if it.Error() != nil {
				errs++
			}
			bids := c19IDs(blocks[blk].elems)
			for _, q := range []uint64{0, bids[len(bids)/2], bids[len(bids)-1] - 1} {
				it := br.newIterator(f)
				if it.SeekGT(q) {
					for n := 0; it.Next(); n++ {
						if n > 1<<16 {
							return "", errors.New("iteration over corrupted block does not terminate")
						}
					}
				}
				if it.Error() != nil {
					errs++
				}
			}
		}
		if errs > 0 {
			return "read-error", nil
		}
		return "read-silently", nil
	}
	// metadata corruption: read through the index reader; db is a private copy, the original blob is restored
	orig := readStateIndex(cfg.ident, db)
	meta := common.CopyBytes(orig)
	meta[off] = val
	writeStateIndex(cfg.ident, db, meta)
	defer writeStateIndex(cfg.ident, db, orig)
	rd, err := newIndexReader(db, cfg.ident, cfg.bitmap)
	if err != nil {
		return "rejected", nil
	}
	errs := 0
	qs := []uint64{0}
	for _, b := range blocks {
		qs = append(qs, b.elems[0].id-1, b.elems[len(b.elems)-1].id-1, b.elems[len(b.elems)-1].id)
	}
	for _, q := range qs {
		if _, err := rd.readGreaterThan(q); err != nil {
			errs++
		}
	}
	it := rd.newIterator(nil)
	for n := 0; it.Next(); n++ {
		if n > 1<<16 {
			return "", errors.New("iteration over corrupted index does not terminate")
		}
	}
	if it.Error() != nil {
		errs++
	}
	for _, f := range cfg.filters {
		if cfg.bitmap == 0 {
			break
		}
		x := extFilter(f)
		it := rd.newIterator(&x)
		if it.SeekGT(0) {
			for n := 0; it.Next(); n++ {
				if n > 1<<16 {
					return "", errors.New("iteration over corrupted index does not terminate")
				}
			}
		}
		if it.Error() != nil {
			errs++
		}
	}
	if errs > 0 {
		return "read-error", nil
	}
	return "read-silently", nil
}

func c19CorruptSweep(r *mc.R, cfg *c19Cfg, db *memorydb.Database, model []c19Elem, blocks []c19Block, path []c19Op) {
	sweep := func(blk int, raw []byte) {
		key := fmt.Sprintf("%s/%d/%x", cfg.name, blk < 0, raw)
		if _, dup := c19CorruptSeen.LoadOrStore(mc.Hash64(key), true); dup {
			return
		}
		for off := range raw {
			for _, v := range c19CorruptValues(raw[off]) {
				d := c19CorruptDesc{cfg.name, path, blk, off, int(v)}
				r.Case(d, func() error {
					out, err := c19ReadCorrupted(cfg, db, model, blocks, blk, off, v)
					if err == nil {
						r.Outcome("corrupt:" + out)
					}
					return err
				})
			}
		}
	}
	for i, b := range blocks {
		sweep(i, b.raw)
	}
	if len(blocks) > 0 {
		sweep(-1, readStateIndex(cfg.ident, db))
	}
}

// ---------------------------------------------------------------------------------------------------------------
// explicit-state search

type c19State struct {
	snap   []c19KV
	model  []c19Elem
	path   []c19Op
	prunes int
	limits int
}

type c19Desc struct {
	Cfg string  `json:"cfg"`
	Ops []c19Op `json:"ops"`
}

// c19Enabled enumerates the sessions that can follow a state. All parameters are derived from the model (the
// block partition is only used to spot which limits / tails are structurally different, every tail is tried).
func c19Enabled(cfg *c19Cfg, st *c19State, blocks []c19Block, maxPrunes, maxLimits int) []c19Op {
	var ops []c19Op
	last := c19Last(st.model)
	n := len(st.model)
	for _, a := range cfg.appends {
		op := c19Op{Kind: "W", Limit: last, Name: a.name}
		id := last
		for i, g := range a.gaps {
			id += g
			op.IDs = append(op.IDs, id)
			if a.exts != nil {
				op.Exts = append(op.Exts, a.exts[i])
			}
		}
		ops = append(ops, op)
	}
	pops := map[int]bool{}
	for _, k := range []int{1, 3, n - 1, n} {
		if k >= 1 && k <= n && !pops[k] {
			pops[k] = true
			ops = append(ops, c19Op{Kind: "D", Limit: last + 2, Pops: k, Name: fmt.Sprintf("POP%d", k)})
		}
	}
	if st.prunes < maxPrunes && n > 0 {
		tails := map[uint64]bool{}
		for _, e := range st.model {
			for _, t := range []uint64{e.id, e.id + 1} {
				if !tails[t] {
					tails[t] = true
					ops = append(ops, c19Op{Kind: "P", Tail: t, Name: "PRUNE"})
				}
			}
		}
	}
	if st.limits < maxLimits && n > 0 {
		// crash recovery: the index holds ids above the recorded indexing progress L; the next writer session
		// re-indexes history L+1, the next deleter session un-indexes history L.
		limits := map[uint64]bool{}
		for _, e := range st.model[:n-1] {
			limits[e.id] = true
			if e.id > 1 {
				limits[e.id-1] = true
			}
		}
		if st.model[0].id > 1 {
			limits[st.model[0].id-1] = true
		}
		var ls []uint64
		for l := range limits {
			ls = append(ls, l)
		}
		sort.Slice(ls, func(i, j int) bool { return ls[i] < ls[j] })
		a := cfg.appends[0]
		for _, l := range ls {
			if l >= last {
				continue
			}
			w := c19Op{Kind: "W", Limit: l, Trunc: true, IDs: []uint64{l + 1}, Name: "WLIMIT"}
			if a.exts != nil {
				w.Exts = [][]uint16{a.exts[0]}
			}
			ops = append(ops, w)
			// deleter: pops the element L if it is stored (otherwise only truncates)
			// (a deleter is only ever opened to pop history L, which is then stored in this index)
			if rem := c19Truncate(st.model, l); len(rem) > 0 && c19Last(rem) == l {
				ops = append(ops, c19Op{Kind: "D", Limit: l, Trunc: true, Pops: 1, Name: "DLIMIT"})
			}
		}
	}
	return ops
}

func c19Explore(r *mc.R, cfg *c19Cfg, depth, maxPrunes, maxLimits int, corrupt bool) {
	type cand struct {
		h    uint64
		st   *c19State
		desc c19Desc
	}
	init := &c19State{snap: c19Snapshot(cfg.newDB())}
	seen := map[uint64]struct{}{}
	seen[mc.Hash64(c19SnapKey(init.snap))] = struct{}{}
	r.State(1)
	frontier := []*c19State{init}
	completed := 0
	for d := 1; d <= depth && len(frontier) > 0; d++ {
		var cands []cand
		var nmu sync.Mutex
		done := r.Parallel(len(frontier), func(i int) {
			st := frontier[i]
			base := c19Restore(st.snap)
			blocks, err := c19Layout(base, cfg.ident, cfg.bitmap)
			if err != nil {
				r.Violation(cfg.name+":layout", err.Error(), c19Desc{cfg.name, st.path})
				return
			}
			var local []cand
			for _, op := range c19Enabled(cfg, st, blocks, maxPrunes, maxLimits) {
				if r.Expired() {
					return
				}
				path := append(append([]c19Op{}, st.path...), op)
				desc := c19Desc{cfg.name, path}
				var (
					db     = c19Restore(st.snap)
					model  []c19Elem
					after  []c19Block
					failed bool
				)
				r.Transition(1)
				r.Trace(1)
				r.Case(desc, func() error {
					failed = true
					m, err := c19Apply(cfg, db, st.model, op, true)
					if err != nil {
						return err
					}
					if after, err = c19Check(cfg, db, m, true, nil); err != nil {
						return err
					}
					model, failed = m, false
					return nil
				})
				if failed {
					continue
				}
				c19Outcome(r, op, blocks, after)
				ns := &c19State{snap: c19Snapshot(db), model: model, path: path, prunes: st.prunes, limits: st.limits}
				if op.Kind == "P" {
					ns.prunes++
				}
				if op.Trunc {
					ns.limits++
				}
				// the key is the complete database content plus the two history counters that gate the alphabet
				h := mc.Hash64(fmt.Sprintf("%d/%d/%s", ns.prunes, ns.limits, c19SnapKey(ns.snap)))
				local = append(local, cand{h, ns, desc})
			}
			nmu.Lock()
			cands = append(cands, local...)
			nmu.Unlock()
		})
		if done < len(frontier) || r.Expired() {
			break
		}
		completed = d
		// deterministic de-duplication: shortest / lexicographically first path wins, independent of scheduling
		sort.Slice(cands, func(a, b int) bool { return c19PathLess(cands[a].st.path, cands[b].st.path) })
		var fresh []cand
		for _, c := range cands {
			if _, dup := seen[c.h]; dup {
				continue
			}
			seen[c.h] = struct{}{}
			fresh = append(fresh, c)
			r.State(1)
			r.DistinctHash(c.h)
			if c.h%1499 == 0 {
				r.Sample(c.desc)
			}
		}
		if corrupt {
			r.Parallel(len(fresh), func(i int) {
				st := fresh[i].st
				db := c19Restore(st.snap)
				blocks, err := c19Layout(db, cfg.ident, cfg.bitmap)
				if err != nil {
					return // already reported by the transition check
				}
				c19CorruptSweep(r, cfg, db, st.model, blocks, st.path)
			})
		}
		frontier = frontier[:0]
		if d < depth {
			for _, c := range fresh {
				frontier = append(frontier, c.st)
			}
		}
	}
	r.Bound(cfg.name+".depth_completed", completed)
	r.Bound(cfg.name+".depth_requested", depth)
	r.Bound(cfg.name+".append_sessions", len(cfg.appends))
	if completed < depth {
		r.NotExhaustive(fmt.Sprintf("%s: depth %d of %d completed", cfg.name, completed, depth))
	}
}

func c19PathLess(a, b []c19Op) bool {
	for i := 0; i < len(a) && i < len(b); i++ {
		if c := bytes.Compare(c19OpKey(a[i]), c19OpKey(b[i])); c != 0 {
			return c < 0
		}
	}
	return len(a) < len(b)
}

func c19OpKey(op c19Op) []byte {
	var b []byte
	b = append(b, op.Kind...)
	b = binary.BigEndian.AppendUint64(b, op.Limit)
	b = binary.BigEndian.AppendUint64(b, uint64(op.Pops))
	b = binary.BigEndian.AppendUint64(b, op.Tail)
	for i, id := range op.IDs {
		b = binary.BigEndian.AppendUint64(b, id)
		if op.Exts != nil {
			for _, x := range op.Exts[i] {
				b = binary.BigEndian.AppendUint16(b, x)
			}
			b = append(b, 0xff, 0xff)
		}
	}
	return b
}

func c19Outcome(r *mc.R, op c19Op, before, after []c19Block) {
	k := op.Name
	switch op.Kind {
	case "W":
		if len(after) > len(before) {
			k += ":new-block"
		}
		if op.Trunc && len(after) < len(before) {
			k += ":dropped-blocks"
		}
	case "D":
		switch {
		case len(after) == 0:
			k += ":emptied"
		case len(after) < len(before):
			k += ":crossed-block"
		case len(before) > 0 && len(after[len(after)-1].sections) < len(before[len(before)-1].sections):
			k += ":crossed-section"
		}
	case "P":
		k += fmt.Sprintf(":removed-%d-of-%d-blocks", len(before)-len(after), len(before))
	}
	r.Outcome(k)
}

// c19Replay re-executes the case stored in a replay file (search states cannot be re-found by enumeration alone).
func c19Replay(r *mc.R, t *testing.T) bool {
	p := os.Getenv("VERIF_REPLAY")
	if p == "" {
		return false
	}
	raw, err := os.ReadFile(p)
	if err != nil {
		t.Fatalf("replay: %v", err)
	}
	var f struct {
		Replay json.RawMessage `json:"replay"`
	}
	if err := json.Unmarshal(raw, &f); err != nil {
		t.Fatalf("replay: %v", err)
	}
	var probe map[string]json.RawMessage
	if json.Unmarshal(f.Replay, &probe) != nil || probe["ops"] == nil {
		return false // a grid case: the enumeration re-finds it through r.Case
	}
	var cd c19CorruptDesc
	json.Unmarshal(f.Replay, &cd)
	cfg := c19Cfgs()[cd.Cfg]
	if cfg == nil {
		t.Fatalf("replay: unknown cfg %q", cd.Cfg)
	}
	_, isCorrupt := probe["corrupt_block"]
	run := func() error {
		db := cfg.newDB()
		var model []c19Elem
		var blocks []c19Block
		for i, op := range cd.Ops {
			m, err := c19Apply(cfg, db, model, op, i == len(cd.Ops)-1 && !isCorrupt)
			if err != nil {
				return err
			}
			model = m
			if i == len(cd.Ops)-1 {
				if blocks, err = c19Check(cfg, db, model, !isCorrupt, nil); err != nil {
					return err
				}
			}
		}
		if isCorrupt {
			_, err := c19ReadCorrupted(cfg, db, model, blocks, cd.Block, cd.Off, byte(cd.Val))
			return err
		}
		return nil
	}
	if isCorrupt {
		r.Case(cd, run)
	} else {
		r.Case(c19Desc{cd.Cfg, cd.Ops}, run)
	}
	return true
}

func c19Common(r *mc.R) {
	r.Bound("indexBlockRestartLen", indexBlockRestartLen)
	r.Bound("indexBlockMaxSize", indexBlockMaxSize)
	r.Assume("reference model = sorted slice of (id, extension set); persisted bytes are decoded by a reference decoder written " +
		"from the documented block format; extension filter semantics = id or a descendant (parent(x)=(x-1)/16) listed in the extension")
	r.Assume("tail pruning works on whole blocks: a block disappears iff all its elements are below the tail; elements >= tail are never lost")
	r.Assume("trusted base: rawdb key schema accessors, memorydb")
}

func c19ScaledRule(r *mc.R) {
	r.Rule("breadth-first search over histories of index sessions: writer sessions (1 or 3 appends, 1/2/3-byte varint gaps, extension lists), " +
		"deleter sessions popping 1, 3, n-1 or n elements, tail pruning at every stored id and id+1, crash-recovery writer/deleter sessions with a " +
		"truncating limit at every stored id and id-1; a state = complete database content (de-duplicated on it); every transition is executed on the " +
		"real code and the resulting bytes are validated against the model through the reference decoder, indexReader.readGreaterThan, Next traversal, " +
		"SeekGT+Next for every query in {0, id-1, id, id+1, last+1000} and every filter, block readers, a refreshed long-lived reader; plus every " +
		"single-byte corruption (quick: ^80,+1,ff; thorough: 00,ff,+1,-1,^80,^01) of every distinct block / metadata blob read without panic")
}

func TestVerif_C19_Scaled(t *testing.T) {
	mc.Run(t, "C19", func(r *mc.R) {
		if indexBlockRestartLen > 8 || indexBlockMaxSize > 64 {
			t.Fatalf("this harness needs the scaled constants (run through run.py), got %d/%d", indexBlockRestartLen, indexBlockMaxSize)
		}
		c19Common(r)
		c19ScaledRule(r)
		c19CorruptAll = r.Thorough()
		if c19Replay(r, t) {
			return
		}
		c19Explore(r, c19CfgPlain(), mc.Pick(r, 5, 6), 1, 1, true)
		c19Explore(r, c19CfgTn2(), mc.Pick(r, 4, 5), 1, 1, true)
		c19Explore(r, c19CfgTn34(), mc.Pick(r, 4, 5), 1, 1, true)
	})
}

// ---------------------------------------------------------------------------------------------------------------
// unscaled boundary grid

type c19Profile struct {
	name string
	cfg  *c19Cfg
	gap  uint64
	ext  func(i int) []uint16
	maxN int // number of elements used to measure the block capacities
}

func c19Profiles() []*c19Profile {
	tn34 := c19CfgTn34()
	tn34.filters = []uint16{1, 16, 17, 272, 3}
	tn2 := c19CfgTn2()
	tn2.filters = []uint16{0, 1, 3, 16}
	return []*c19Profile{
		{"plain-1B", c19CfgPlain(), 1, nil, 4400},
		{"plain-8B", c19CfgPlain(), 1 << 49, nil, 1300},
		{"ext34-2B", tn34, 130, func(i int) []uint16 {
			// bands of 300 elements use different node ids, so that block bitmaps differ; every 7th touches two nodes
			if i%7 == 0 {
				return []uint16{2, 40}
			}
			return [][]uint16{{1}, {272}, {17}, {16}}[(i/300)%4]
		}, 2300},
		{"ext2-1B", tn2, 1, func(i int) []uint16 {
			if i%5 == 0 {
				return []uint16{0}
			}
			return []uint16{uint16(1 + (i/500)%16)}
		}, 3000},
	}
}

func (p *c19Profile) elem(i int) c19Elem {
	e := c19Elem{id: uint64(i+1) * p.gap}
	if p.ext != nil {
		e.ext = c19SortedExt(p.ext(i))
	}
	return e
}

// c19Build appends elements [0,n) in two writer sessions split at `split` (0 = one session).
func c19Build(p *c19Profile, n, split int) (*memorydb.Database, []c19Elem, error) {
	db := p.cfg.newDB()
	var model []c19Elem
	for _, rng := range [][2]int{{0, split}, {split, n}} {
		if rng[0] == rng[1] {
			continue
		}
		op := c19Op{Kind: "W", Limit: c19Last(model)}
		for i := rng[0]; i < rng[1]; i++ {
			e := p.elem(i)
			op.IDs = append(op.IDs, e.id)
			if p.ext != nil {
				op.Exts = append(op.Exts, e.ext)
			}
		}
		m, err := c19Apply(p.cfg, db, model, op, false)
		if err != nil {
			return nil, nil, err
		}
		model = m
	}
	return db, model, nil
}

type c19GridCase struct {
	Profile string `json:"profile"`
	N       int    `json:"n"`
	Split   int    `json:"split,omitempty"`
	Op      string `json:"op"`
	Keep    int    `json:"keep,omitempty"`
	Tail    uint64 `json:"tail,omitempty"`
	Limit   uint64 `json:"limit,omitempty"`
}

// c19SeekAt picks the queries for the SeekGT+tail traversals: around every grid position.
func c19SeekAt(model []c19Elem, marks []int) []uint64 {
	var out []uint64
	for _, m := range marks {
		for _, j := range []int{m - 2, m - 1, m} {
			if j >= 0 && j < len(model) {
				out = append(out, model[j].id-1, model[j].id)
			}
		}
	}
	return out
}

func TestVerif_C19_Unscaled(t *testing.T) {
	mc.Run(t, "C19", func(r *mc.R) {
		if indexBlockRestartLen != 256 || indexBlockMaxSize != 4096 {
			// the grid below is built around the shipped constants; other values are still handled (capacities are measured)
			r.Bound("note", "constants differ from 256/4096")
		}
		c19Common(r)
		r.Rule("unscaled constants; per profile (1-byte / 8-byte varint deltas without extension, 34-byte and 2-byte bitmap extensions) the grid " +
			"N = {1,2,R-1,R,R+1,2R,2R+1,B1-1,B1,B1+1,B1+R,B1+R+1,B2,B2+1} (R restart interval, B1/B2 measured cumulative block capacities; B2 omitted for 1-byte deltas and, in the quick tier, for block capacities above 600): " +
			"build n in N with a session split at every s in N; pop down to every m in N u {0} in one deleter session then re-append 2; prune at " +
			"{first, each block max-1, max, max+1, last+1} then pop 1; truncating writer limit at every element position in N; full validation after each step")
		for _, p := range c19Profiles() {
			if r.Expired() {
				break
			}
			// measure the block capacities on the real code (input selection only)
			db, _, err := c19Build(p, p.maxN, 0)
			if err != nil {
				r.Violation(p.name+":measure", err.Error(), nil)
				continue
			}
			blocks, err := c19Layout(db, p.cfg.ident, p.cfg.bitmap)
			if err != nil || len(blocks) < 2 {
				r.Violation(p.name+":measure", fmt.Sprintf("cannot measure block capacities: %v (%d blocks)", err, len(blocks)), nil)
				continue
			}
			b1 := len(blocks[0].elems)
			b2 := p.maxN + 1 // beyond the grid unless a third block exists (then block 1 is complete)
			if len(blocks) >= 3 && (r.Thorough() || b1 < 600) {
				b2 = b1 + len(blocks[1].elems)
			}
			r.Bound(p.name+".block_capacities", []int{b1, b2 - b1})
			R := indexBlockRestartLen
			set := map[int]bool{}
			for _, n := range []int{1, 2, R - 1, R, R + 1, 2 * R, 2*R + 1, b1 - 1, b1, b1 + 1, b1 + R, b1 + R + 1, b2, b2 + 1} {
				if n >= 1 && n <= p.maxN {
					set[n] = true
				}
			}
			var grid []int
			for n := range set {
				grid = append(grid, n)
			}
			sort.Ints(grid)
			r.Bound(p.name+".grid", grid)

			var cases []c19GridCase
			for _, n := range grid {
				cases = append(cases, c19GridCase{Profile: p.name, N: n, Op: "build"})
				for _, s := range grid {
					if s < n {
						cases = append(cases, c19GridCase{Profile: p.name, N: n, Split: s, Op: "build"})
					}
				}
				for _, m := range append([]int{0}, grid...) {
					if m < n {
						cases = append(cases, c19GridCase{Profile: p.name, N: n, Op: "pop", Keep: m})
					}
				}
				// tails and limits are derived from the element positions
				tails := map[uint64]bool{p.elem(0).id: true, p.elem(n-1).id + 1: true}
				for _, c := range []int{b1, b2} {
					if c <= n {
						mx := p.elem(c - 1).id
						tails[mx-1], tails[mx], tails[mx+1] = true, true, true
					}
				}
				var ts []uint64
				for t := range tails {
					ts = append(ts, t)
				}
				sort.Slice(ts, func(i, j int) bool { return ts[i] < ts[j] })
				for _, t := range ts {
					cases = append(cases, c19GridCase{Profile: p.name, N: n, Op: "prune", Tail: t})
				}
				for _, m := range grid {
					if m < n {
						cases = append(cases, c19GridCase{Profile: p.name, N: n, Op: "wlimit", Limit: p.elem(m - 1).id})
						if p.gap > 1 {
							cases = append(cases, c19GridCase{Profile: p.name, N: n, Op: "wlimit", Limit: p.elem(m-1).id + 1})
						}
						cases = append(cases, c19GridCase{Profile: p.name, N: n, Op: "dlimit", Limit: p.elem(m - 1).id})
					}
				}
			}
			r.Parallel(len(cases), func(i int) {
				c := cases[i]
				r.Case(c, func() error { return c19RunGrid(r, p, c, grid) })
				r.DistinctHash(mc.Hash64(fmt.Sprint(c)))
				if i%401 == 0 {
					r.Sample(c)
				}
			})
		}
	})
}

func c19RunGrid(r *mc.R, p *c19Profile, c c19GridCase, grid []int) error {
	cfg := p.cfg
	db, model, err := c19Build(p, c.N, c.Split)
	if err != nil {
		return err
	}
	check := func(stage string, m []c19Elem) ([]c19Block, error) {
		marks := append(append([]int{}, grid...), len(m))
		blocks, err := c19Check(cfg, db, m, false, c19SeekAt(m, marks), marks...)
		if err != nil {
			return nil, fmt.Errorf("%s: %v", stage, c19Short(err))
		}
		return blocks, nil
	}
	before, err := check("after build", model)
	if err != nil {
		return err
	}
	next := func(i int) c19Op {
		// the following two elements after position i
		op := c19Op{Kind: "W", Limit: c19Last(model)}
		for k := 0; k < 2; k++ {
			e := p.elem(i + k)
			op.IDs = append(op.IDs, e.id)
			if p.ext != nil {
				op.Exts = append(op.Exts, e.ext)
			}
		}
		return op
	}
	switch c.Op {
	case "build":
		r.Outcome(fmt.Sprintf("build:%d-blocks", len(before)))
	case "pop":
		if model, err = c19Apply(cfg, db, model, c19Op{Kind: "D", Limit: c19Last(model), Pops: c.N - c.Keep}, true); err != nil {
			return err
		}
		after, err := check("after pop", model)
		if err != nil {
			return err
		}
		r.Outcome(fmt.Sprintf("pop:%d->%d-blocks", len(before), len(after)))
		if model, err = c19Apply(cfg, db, model, next(c.Keep), true); err != nil {
			return err
		}
		if _, err := check("after re-append", model); err != nil {
			return err
		}
	case "prune":
		if model, err = c19Apply(cfg, db, model, c19Op{Kind: "P", Tail: c.Tail}, true); err != nil {
			return err
		}
		after, err := check("after prune", model)
		if err != nil {
			return err
		}
		r.Outcome(fmt.Sprintf("prune:%d->%d-blocks", len(before), len(after)))
		if len(model) > 0 {
			if model, err = c19Apply(cfg, db, model, c19Op{Kind: "D", Limit: c19Last(model), Pops: 1}, true); err != nil {
				return err
			}
			if _, err := check("after prune+pop", model); err != nil {
				return err
			}
		}
		if model, err = c19Apply(cfg, db, model, next(c.N), true); err != nil {
			return err
		}
		if _, err := check("after prune+pop+append", model); err != nil {
			return err
		}
	case "wlimit":
		op := c19Op{Kind: "W", Limit: c.Limit, Trunc: true, IDs: []uint64{c.Limit + 1}}
		if p.ext != nil {
			op.Exts = [][]uint16{{1}}
		}
		if model, err = c19Apply(cfg, db, model, op, true); err != nil {
			return err
		}
		after, err := check("after truncating writer", model)
		if err != nil {
			return err
		}
		r.Outcome(fmt.Sprintf("wlimit:%d->%d-blocks", len(before), len(after)))
	case "dlimit":
		if model, err = c19Apply(cfg, db, model, c19Op{Kind: "D", Limit: c.Limit, Trunc: true, Pops: 1}, true); err != nil {
			return err
		}
		after, err := check("after truncating deleter", model)
		if err != nil {
			return err
		}
		r.Outcome(fmt.Sprintf("dlimit:%d->%d-blocks", len(before), len(after)))
	default:
		return fmt.Errorf("harness: unknown grid op %q", c.Op)
	}
	return nil
}

// c19Short trims the long id lists out of an error message (unscaled indexes hold thousands of ids).
func c19Short(err error) string {
	s := err.Error()
	if len(s) > 600 {
		s = s[:600] + "…"
	}
	return s
}
