//go:build verif

package pathdb

// C16 - layered state reads return exactly the requested state.
//
// Explicit-state exploration (mc.Explore) of the real pathdb.Database over operation
// sequences Update(parent in live roots, delta) / cap(root,1) / Commit(root). The state
// alphabet is tiny (2 accounts, one storage slot, 14 worlds) and every root is the REAL
// state root of its world, so equal worlds have equal roots: repeated roots, returns to a
// grand-parent's root, forks and root==parent arise by construction.
//
// Reference model (independent of pathdb): world -> full flat state + full trie node set
// (built with fresh in-memory tries, never read through the database under test) and the
// layer tree as a parent map with the documented flatten semantics (survivors of a cap are
// the descendants of the new base). After every transition every one of the 14 roots is
// read through fresh StateReader/NodeReader instances (and through the readers that were
// handed out while the root was live): a live root must read exactly its world (accounts,
// slots, every trie node, plus a trie walk through the trie package), any other root must
// fail or return exactly its own world - never another state's data.

import (
	"bytes"
	"crypto/sha256"
	"errors"
	"fmt"
	"sort"
	"strings"
	"sync"
	"sync/atomic"
	"testing"
	"time"

	"github.com/ethereum/go-ethereum/common"
	"github.com/ethereum/go-ethereum/core/rawdb"
	"github.com/ethereum/go-ethereum/core/types"
	"github.com/ethereum/go-ethereum/crypto"
	"github.com/ethereum/go-ethereum/ethdb"
	"github.com/ethereum/go-ethereum/internal/verif/mc"
	"github.com/ethereum/go-ethereum/rlp"
	"github.com/ethereum/go-ethereum/trie"
	"github.com/ethereum/go-ethereum/trie/trienode"
	"github.com/ethereum/go-ethereum/triedb/database"
	"github.com/holiman/uint256"
)

// ---------------------------------------------------------------------------
// Universe: worlds, their real roots, flat states and complete trie node sets.

type c16World struct{ A, AS, B uint8 } // A: 0 absent | nonce 1 | 2; AS: slot of A 0 absent | 1 | 2; B: 0 absent | 1

func (w c16World) String() string { return fmt.Sprintf("a%ds%db%d", w.A, w.AS, w.B) }

type c16Node struct {
	owner common.Hash
	path  string
}

type c16WorldData struct {
	w     c16World
	root  common.Hash
	slim  map[common.Hash][]byte                 // flat accounts (slim RLP), existing only
	full  map[common.Hash][]byte                 // trie account values (full RLP), existing only
	slots map[common.Hash]map[common.Hash][]byte // flat slots, existing only
	sroot map[common.Hash]common.Hash            // storage roots of existing accounts
	nodes map[c16Node][]byte                     // complete node set of the account trie and all storage tries
}

type c16Universe struct {
	worlds  []*c16WorldData
	byRoot  map[common.Hash]int
	byWorld map[c16World]int
	addr    [2]common.Address
	ahash   [2]common.Hash
	skey    common.Hash // raw slot key
	shash   common.Hash // hashed slot key
	allNode []c16Node   // union of all node positions, sorted
}

var (
	c16UniOnce sync.Once
	c16Uni     *c16Universe
)

func c16GetUniverse() *c16Universe {
	c16UniOnce.Do(func() { c16Uni = c16BuildUniverse() })
	return c16Uni
}

func c16BuildUniverse() *c16Universe {
	u := &c16Universe{byRoot: map[common.Hash]int{}, byWorld: map[c16World]int{}}
	u.addr[0] = common.HexToAddress("0xa100000000000000000000000000000000000c16")
	u.addr[1] = common.HexToAddress("0xb200000000000000000000000000000000000c16")
	u.ahash[0] = crypto.Keccak256Hash(u.addr[0].Bytes())
	u.ahash[1] = crypto.Keccak256Hash(u.addr[1].Bytes())
	u.skey = common.HexToHash("0x01")
	u.shash = crypto.Keccak256Hash(u.skey.Bytes())
	for b := uint8(0); b <= 1; b++ {
		for a := uint8(0); a <= 2; a++ {
			for s := uint8(0); s <= 2; s++ {
				if a == 0 && s != 0 {
					continue
				}
				w := c16World{a, s, b}
				d := c16BuildWorld(u, w)
				if prev, dup := u.byRoot[d.root]; dup {
					panic(fmt.Sprintf("c16: worlds %v and %v share a root", u.worlds[prev].w, w))
				}
				u.byRoot[d.root] = len(u.worlds)
				u.byWorld[w] = len(u.worlds)
				u.worlds = append(u.worlds, d)
			}
		}
	}
	seen := map[c16Node]bool{}
	for _, d := range u.worlds {
		for n := range d.nodes {
			if !seen[n] {
				seen[n] = true
				u.allNode = append(u.allNode, n)
			}
		}
	}
	sort.Slice(u.allNode, func(i, j int) bool {
		if c := bytes.Compare(u.allNode[i].owner[:], u.allNode[j].owner[:]); c != 0 {
			return c < 0
		}
		return u.allNode[i].path < u.allNode[j].path
	})
	return u
}

// c16BuildWorld builds the tries of one world from scratch in memory (empty
// tries need no database) and records every node of them.
func c16BuildWorld(u *c16Universe, w c16World) *c16WorldData {
	d := &c16WorldData{
		w:     w,
		slim:  map[common.Hash][]byte{},
		full:  map[common.Hash][]byte{},
		slots: map[common.Hash]map[common.Hash][]byte{},
		sroot: map[common.Hash]common.Hash{},
		nodes: map[c16Node][]byte{},
	}
	collect := func(owner common.Hash, set *trienode.NodeSet) {
		if set == nil {
			return
		}
		for path, n := range set.Nodes {
			if n.IsDeleted() {
				panic("c16: deleted node in a fresh trie")
			}
			d.nodes[c16Node{owner, path}] = common.CopyBytes(n.Blob)
		}
	}
	acct, err := trie.New(trie.StateTrieID(types.EmptyRootHash), nil)
	if err != nil {
		panic(err)
	}
	nonces := [2]uint8{w.A, w.B}
	for i := 0; i < 2; i++ {
		if nonces[i] == 0 {
			continue
		}
		sroot := types.EmptyRootHash
		if i == 0 && w.AS != 0 {
			st, err := trie.New(trie.StorageTrieID(types.EmptyRootHash, u.ahash[0], types.EmptyRootHash), nil)
			if err != nil {
				panic(err)
			}
			val, _ := rlp.EncodeToBytes(common.TrimLeftZeroes([]byte{w.AS}))
			st.MustUpdate(u.shash[:], val)
			var set *trienode.NodeSet
			sroot, set = st.Commit(false)
			collect(u.ahash[0], set)
			d.slots[u.ahash[0]] = map[common.Hash][]byte{u.shash: val}
		}
		acc := types.StateAccount{Nonce: uint64(nonces[i]), Balance: uint256.NewInt(uint64(100 + i)), Root: sroot, CodeHash: types.EmptyCodeHash[:]}
		full, _ := rlp.EncodeToBytes(&acc)
		d.full[u.ahash[i]] = full
		d.slim[u.ahash[i]] = types.SlimAccountRLP(acc)
		d.sroot[u.ahash[i]] = sroot
		acct.MustUpdate(u.ahash[i][:], full)
	}
	root, set := acct.Commit(false)
	collect(common.Hash{}, set)
	d.root = root
	return d
}

// c16Transition builds the arguments of Database.Update for the transition
// from world p to world c: the flat state diff with origins and the trie node
// diff (changed/new nodes with their blob, vanished nodes as deletions). Fresh
// maps are built on every call because pathdb retains them.
func c16Transition(u *c16Universe, p, c int) (*trienode.MergedNodeSet, *StateSetWithOrigin) {
	pw, cw := u.worlds[p], u.worlds[c]
	accounts := map[common.Hash][]byte{}
	storages := map[common.Hash]map[common.Hash][]byte{}
	accountOrigin := map[common.Address][]byte{}
	storageOrigin := map[common.Address]map[common.Hash][]byte{}
	for i := 0; i < 2; i++ {
		h := u.ahash[i]
		if !bytes.Equal(pw.slim[h], cw.slim[h]) {
			accounts[h] = common.CopyBytes(cw.slim[h]) // nil when destructed
			accountOrigin[u.addr[i]] = common.CopyBytes(pw.slim[h])
		}
		if !bytes.Equal(pw.slots[h][u.shash], cw.slots[h][u.shash]) {
			storages[h] = map[common.Hash][]byte{u.shash: common.CopyBytes(cw.slots[h][u.shash])}
			storageOrigin[u.addr[i]] = map[common.Hash][]byte{u.shash: common.CopyBytes(pw.slots[h][u.shash])}
		}
	}
	merged := trienode.NewMergedNodeSet()
	sets := map[common.Hash]*trienode.NodeSet{}
	get := func(owner common.Hash) *trienode.NodeSet {
		if sets[owner] == nil {
			sets[owner] = trienode.NewNodeSet(owner)
		}
		return sets[owner]
	}
	for _, n := range u.allNode {
		pb, cb := pw.nodes[n], cw.nodes[n]
		switch {
		case bytes.Equal(pb, cb):
		case len(cb) == 0:
			get(n.owner).AddNode([]byte(n.path), trienode.NewDeletedWithPrev(common.CopyBytes(pb)))
		default:
			get(n.owner).AddNode([]byte(n.path), trienode.NewNodeWithPrev(crypto.Keccak256Hash(cb), common.CopyBytes(cb), common.CopyBytes(pb)))
		}
	}
	owners := make([]common.Hash, 0, len(sets))
	for o := range sets {
		owners = append(owners, o)
	}
	sort.Slice(owners, func(i, j int) bool { return bytes.Compare(owners[i][:], owners[j][:]) < 0 })
	for _, o := range owners {
		if err := merged.Merge(sets[o]); err != nil {
			panic(err)
		}
	}
	return merged, NewStateSetWithOrigin(accounts, storages, accountOrigin, storageOrigin, false)
}

// ---------------------------------------------------------------------------
// Deltas.

var c16DeltaNames = []string{"A=1", "A=2", "A=del", "As=1", "As=2", "As=del", "B=1", "B=del"}

// c16ApplyDelta returns the world after the delta and whether the delta is part
// of the explored alphabet in world w. No-op deltas (root == parent, which the
// database must reject) are kept for the account A family only: exactly one of
// A=1/A=2/A=del is a no-op in every world, so every live parent gets one probe.
func c16ApplyDelta(w c16World, d int) (c16World, bool) {
	switch d {
	case 0, 1:
		w.A = uint8(d + 1)
		return w, true
	case 2:
		w.A, w.AS = 0, 0
		return w, true
	case 3, 4:
		if w.A == 0 || w.AS == uint8(d-2) {
			return w, false
		}
		w.AS = uint8(d - 2)
		return w, true
	case 5:
		if w.A == 0 || w.AS == 0 {
			return w, false
		}
		w.AS = 0
		return w, true
	case 6:
		if w.B == 1 {
			return w, false
		}
		w.B = 1
		return w, true
	case 7:
		if w.B == 0 {
			return w, false
		}
		w.B = 0
		return w, true
	}
	panic("c16: bad delta")
}

// ---------------------------------------------------------------------------
// Reference model of the layer tree.

const (
	c16Dead = -2
	c16Base = -1
)

type c16Model struct {
	parent []int // per world: c16Dead, c16Base or the parent world
	base   int
}

func c16NewModel(n int, start int) *c16Model {
	m := &c16Model{parent: make([]int, n), base: start}
	for i := range m.parent {
		m.parent[i] = c16Dead
	}
	m.parent[start] = c16Base // world 0 is the empty world = the fresh disk layer
	return m
}

func (m *c16Model) live(w int) bool { return m.parent[w] != c16Dead }

func (m *c16Model) depth(w int) int {
	d := 0
	for m.parent[w] != c16Base {
		w = m.parent[w]
		d++
	}
	return d
}

// rebase makes nb the disk layer: only nb and its descendants survive.
func (m *c16Model) rebase(nb int, keepDescendants bool) {
	keep := make([]bool, len(m.parent))
	for w := range m.parent {
		if !m.live(w) {
			continue
		}
		for x := w; ; x = m.parent[x] {
			if x == nb {
				keep[w] = keepDescendants || w == nb
				break
			}
			if m.parent[x] == c16Base {
				break
			}
		}
	}
	for w := range m.parent {
		if !keep[w] {
			m.parent[w] = c16Dead
		}
	}
	m.parent[nb] = c16Base
	m.base = nb
}

// cap mirrors the documented semantics of layerTree.cap; it returns the number
// of diff layers merged into the disk layer and whether an error is expected.
func (m *c16Model) cap(w, layers int) (flattened int, wantErr bool) {
	if w == m.base {
		return 0, true // "is disk layer"
	}
	if layers == 0 {
		n := m.depth(w)
		m.rebase(w, false)
		return n, false
	}
	diff := w
	for i := 0; i < layers-1; i++ {
		if m.parent[diff] == m.base {
			return 0, false // too shallow
		}
		diff = m.parent[diff]
	}
	nb := m.parent[diff]
	if nb == m.base {
		return 0, false
	}
	n := m.depth(nb)
	m.rebase(nb, true)
	return n, false
}

// ---------------------------------------------------------------------------
// Operations.

type c16Op struct {
	kind   int // 0 update, 1 cap(root,1), 2 commit
	w      int // parent world (update) or target world
	delta  int
	layers int
}

type c16Alphabet struct {
	names []string
	ops   []c16Op
}

func c16BuildAlphabet(u *c16Universe, withCap bool) *c16Alphabet {
	al := &c16Alphabet{}
	for w := range u.worlds {
		for d := range c16DeltaNames {
			al.ops = append(al.ops, c16Op{kind: 0, w: w, delta: d})
			al.names = append(al.names, fmt.Sprintf("update(%v,%s)", u.worlds[w].w, c16DeltaNames[d]))
		}
	}
	if withCap {
		for w := range u.worlds {
			al.ops = append(al.ops, c16Op{kind: 1, w: w, layers: 1})
			al.names = append(al.names, fmt.Sprintf("cap(%v,1)", u.worlds[w].w))
		}
	}
	for w := range u.worlds {
		al.ops = append(al.ops, c16Op{kind: 2, w: w})
		al.names = append(al.names, fmt.Sprintf("commit(%v)", u.worlds[w].w))
	}
	return al
}

// ---------------------------------------------------------------------------
// Flush gate: lets the harness hold the background flush of the frozen write
// buffer right before its batch reaches the key-value store, deterministically.

type c16Gate struct {
	pass     atomic.Int64 // number of batch writes to let through before blocking
	armed    atomic.Bool
	arrived  chan struct{}
	mu       sync.Mutex
	hold     chan struct{} // closed by the harness to release the held write
	timedOut atomic.Bool
}

func c16NewGate() *c16Gate {
	return &c16Gate{arrived: make(chan struct{}, 16), hold: make(chan struct{})}
}

func (g *c16Gate) holdCh() chan struct{} {
	g.mu.Lock()
	defer g.mu.Unlock()
	return g.hold
}

// open releases a held write (if any) and installs a fresh hold channel.
func (g *c16Gate) open() {
	g.mu.Lock()
	close(g.hold)
	g.hold = make(chan struct{})
	g.mu.Unlock()
}

type c16GateDB struct {
	ethdb.Database
	g *c16Gate
}

func (d *c16GateDB) NewBatch() ethdb.Batch { return &c16GateBatch{d.Database.NewBatch(), d.g} }
func (d *c16GateDB) NewBatchWithSize(n int) ethdb.Batch {
	return &c16GateBatch{d.Database.NewBatchWithSize(n), d.g}
}

type c16GateBatch struct {
	ethdb.Batch
	g *c16Gate
}

func (b *c16GateBatch) Write() error {
	if b.g.armed.Load() {
		if b.g.pass.Add(-1) < 0 {
			hold := b.g.holdCh()
			b.g.arrived <- struct{}{}
			select {
			case <-hold:
			case <-time.After(20 * time.Second): // watchdog against a hang only; reported as harness error, never a verdict
				b.g.timedOut.Store(true)
			}
		}
	}
	return b.Batch.Write()
}

// ---------------------------------------------------------------------------
// Configurations and the live instance.

type c16Cfg struct {
	Name   string
	Buffer int      // WriteBufferSize
	Gated  bool     // asynchronous flush, held at the gate while the reads are checked
	Cache  int      // size of the clean node/state caches (0: disabled)
	MaxDL  int      // maxDiffLayers (package variable, the same for all configurations of one run)
	Cap    bool     // explicit cap(root,1) operations in the alphabet
	Start  c16World // world that is committed to the disk layer before the exploration starts (zero value: fresh database)
}

type c16Inst struct {
	cfg      c16Cfg
	u        *c16Universe
	db       *Database
	gate     *c16Gate
	inflight bool
	broken   bool // an operation panicked: locks may be held, the instance is not used or closed any more
	heldS    []database.StateReader
	heldN    []database.NodeReader
}

func c16NewInst(u *c16Universe, cfg c16Cfg) *c16Inst {
	in := &c16Inst{cfg: cfg, u: u, heldS: make([]database.StateReader, len(u.worlds)), heldN: make([]database.NodeReader, len(u.worlds))}
	var disk ethdb.Database = rawdb.NewMemoryDatabase()
	cache := cfg.Cache
	if cfg.Gated {
		in.gate = c16NewGate()
		disk = &c16GateDB{disk, in.gate}
	}
	in.db = New(disk, &Config{
		TrieCleanSize:     cache,
		StateCleanSize:    cache,
		WriteBufferSize:   cfg.Buffer,
		TrienodeHistory:   -1,
		NoAsyncFlush:      !cfg.Gated,
		NoAsyncGeneration: true,
	}, false)
	if start := u.byWorld[cfg.Start]; start != 0 {
		nodes, states := c16Transition(u, 0, start)
		if err := in.db.Update(u.worlds[start].root, u.worlds[0].root, 0, nodes, states); err != nil {
			panic(fmt.Sprintf("c16: preload update: %v", err))
		}
		if err := in.db.Commit(u.worlds[start].root, false); err != nil {
			panic(fmt.Sprintf("c16: preload commit: %v", err))
		}
		in.drain()
	}
	return in
}

func (in *c16Inst) close() {
	if in.broken {
		if in.gate != nil {
			in.gate.armed.Store(false)
			in.gate.open()
		}
		return
	}
	in.drain()
	in.db.Close()
	in.db.diskdb.Close()
}

// drain releases a held flush and waits for its completion through the
// package's own notification (buffer.done via diskLayer.waitFlush).
func (in *c16Inst) drain() {
	if in.gate == nil {
		return
	}
	in.gate.armed.Store(false)
	in.gate.open()
	in.inflight = false
	in.db.tree.bottom().waitFlush()
	for len(in.gate.arrived) > 0 {
		<-in.gate.arrived
	}
}

// run executes one operation on the real database. flushes is the number of
// disk-layer commits the reference model predicts (gated configuration: all but
// the last one are let through, the last one is held until the next operation).
func (in *c16Inst) run(op c16Op, child int, flushes int) error {
	in.drain()
	if in.gate != nil && flushes > 0 {
		in.gate.pass.Store(int64(flushes - 1))
		in.gate.armed.Store(true)
	}
	var err error
	switch op.kind {
	case 0:
		nodes, states := c16Transition(in.u, op.w, child)
		err = in.db.Update(in.u.worlds[child].root, in.u.worlds[op.w].root, uint64(child), nodes, states)
	case 1:
		err = func() error {
			in.db.lock.Lock()
			defer in.db.lock.Unlock()
			return in.db.tree.cap(in.u.worlds[op.w].root, op.layers)
		}()
	case 2:
		err = in.db.Commit(in.u.worlds[op.w].root, false)
	}
	if in.gate != nil && flushes == 0 {
		in.db.tree.bottom().waitFlush()
	}
	if in.gate != nil && flushes > 0 {
		// wait until the flusher is parked at the gate (or has finished without writing)
		fr := in.db.tree.bottom().frozen
		if fr != nil && fr.done != nil {
			select {
			case <-in.gate.arrived:
				in.inflight = true
			case <-fr.done:
			}
		}
	}
	return err
}

// ---------------------------------------------------------------------------
// Reads and the oracle.

func c16Same(a, b []byte) bool { return (len(a) == 0 && len(b) == 0) || bytes.Equal(a, b) }

type c16Stats struct {
	liveRoots, deadRoots, deadReadable, reads, heldStaleErr, heldLive int
}

// checkState reads everything of world w through sr. mustLive: every read must
// succeed and be exact; otherwise a read may fail but must never differ.
func (in *c16Inst) checkState(tag string, w int, sr database.StateReader, mustLive bool, st *c16Stats) error {
	u := in.u
	wd := u.worlds[w]
	rd, ok := sr.(*reader)
	if !ok {
		return fmt.Errorf("%s %v: unexpected reader type %T", tag, wd.w, sr)
	}
	for i := 0; i < 2; i++ {
		h := u.ahash[i]
		blob, err := rd.AccountRLP(h)
		st.reads++
		if err != nil {
			if mustLive {
				return fmt.Errorf("%s live root %v: AccountRLP(acct%d) failed: %v", tag, wd.w, i, err)
			}
		} else if !c16Same(blob, wd.slim[h]) {
			return fmt.Errorf("%s root %v (live=%v): AccountRLP(acct%d)=%x, that state has %x", tag, wd.w, mustLive, i, blob, wd.slim[h])
		}
		acc, err := sr.Account(h)
		if err == nil {
			var got []byte
			if acc != nil {
				got, _ = rlp.EncodeToBytes(acc)
			}
			if !c16Same(got, wd.slim[h]) {
				return fmt.Errorf("%s root %v (live=%v): Account(acct%d)=%x, that state has %x", tag, wd.w, mustLive, i, got, wd.slim[h])
			}
		} else if mustLive {
			return fmt.Errorf("%s live root %v: Account(acct%d) failed: %v", tag, wd.w, i, err)
		}
		val, err := sr.Storage(h, u.shash)
		st.reads++
		if err != nil {
			if mustLive {
				return fmt.Errorf("%s live root %v: Storage(acct%d) failed: %v", tag, wd.w, i, err)
			}
		} else if !c16Same(val, wd.slots[h][u.shash]) {
			return fmt.Errorf("%s root %v (live=%v): Storage(acct%d,slot)=%x, that state has %x", tag, wd.w, mustLive, i, val, wd.slots[h][u.shash])
		}
	}
	return nil
}

// c16NodeIssue is returned for failed node reads at a live root, so that the
// caller can classify them.
type c16NodeIssue struct {
	msg   string
	stale bool
}

func (e *c16NodeIssue) Error() string { return e.msg }

func (in *c16Inst) checkNodes(tag string, w int, nr database.NodeReader, mustLive bool, st *c16Stats) error {
	u := in.u
	wd := u.worlds[w]
	for _, n := range u.allNode {
		blob, present := wd.nodes[n]
		if !present {
			continue
		}
		got, err := nr.Node(n.owner, []byte(n.path), crypto.Keccak256Hash(blob))
		st.reads++
		if err != nil {
			if mustLive {
				return &c16NodeIssue{msg: fmt.Sprintf("%s live root %v: Node(owner=%x.., path=%x) failed: %v", tag, wd.w, n.owner[:2], n.path, err), stale: errors.Is(err, errSnapshotStale)}
			}
			continue
		}
		if !bytes.Equal(got, blob) {
			return fmt.Errorf("%s root %v (live=%v): Node(owner=%x.., path=%x)=%x, that state has %x", tag, wd.w, mustLive, n.owner[:2], n.path, got, blob)
		}
	}
	return nil
}

// walk resolves every account and slot of world w through the trie package on
// top of the database (second, independent route to the trie nodes).
func (in *c16Inst) walk(w int) error {
	u := in.u
	wd := u.worlds[w]
	tr, err := trie.New(trie.StateTrieID(wd.root), in.db)
	if err != nil {
		return &c16NodeIssue{msg: fmt.Sprintf("live root %v: cannot open account trie: %v", wd.w, err), stale: strings.Contains(err.Error(), errSnapshotStale.Error())}
	}
	for i := 0; i < 2; i++ {
		h := u.ahash[i]
		got, err := tr.Get(h[:])
		if err != nil {
			return &c16NodeIssue{msg: fmt.Sprintf("live root %v: trie Get(acct%d) failed: %v", wd.w, i, err), stale: strings.Contains(err.Error(), errSnapshotStale.Error())}
		}
		if !c16Same(got, wd.full[h]) {
			return fmt.Errorf("live root %v: account trie has acct%d=%x, that state has %x", wd.w, i, got, wd.full[h])
		}
		if len(wd.slots[h]) == 0 {
			continue
		}
		st, err := trie.New(trie.StorageTrieID(wd.root, h, wd.sroot[h]), in.db)
		if err != nil {
			return &c16NodeIssue{msg: fmt.Sprintf("live root %v: cannot open storage trie of acct%d: %v", wd.w, i, err), stale: strings.Contains(err.Error(), errSnapshotStale.Error())}
		}
		val, err := st.Get(u.shash[:])
		if err != nil {
			return &c16NodeIssue{msg: fmt.Sprintf("live root %v: storage trie Get failed: %v", wd.w, err), stale: strings.Contains(err.Error(), errSnapshotStale.Error())}
		}
		if !c16Same(val, wd.slots[h][u.shash]) {
			return fmt.Errorf("live root %v: storage trie of acct%d has %x, that state has %x", wd.w, i, val, wd.slots[h][u.shash])
		}
	}
	return nil
}

// parentDangling reports whether the diff layer of world w hangs off a layer
// object that is no longer the one registered in the tree for that root (its
// parent was flattened into the disk layer while w stayed a fork sibling).
func (in *c16Inst) parentDangling(w int) bool {
	tree := in.db.tree
	dl, ok := tree.layers[in.u.worlds[w].root].(*diffLayer)
	if !ok {
		return false
	}
	for {
		p := dl.parent
		if tree.layers[p.rootHash()] != p {
			return true
		}
		pd, ok := p.(*diffLayer)
		if !ok {
			return false
		}
		dl = pd
	}
}

func (in *c16Inst) anyDangling(m *c16Model) bool {
	for w := range in.u.worlds {
		if m.live(w) && in.parentDangling(w) {
			return true
		}
	}
	return false
}

// check is the oracle, run after an operation. nodeIssues collects failed node
// reads at live roots whose diff layer hangs off a flattened parent object
// (reported by the caller under a dedicated key); everything else is returned.
func (in *c16Inst) check(m *c16Model, st *c16Stats, nodeIssues *[]string) error {
	u := in.u
	for w := range u.worlds {
		root := u.worlds[w].root
		live := m.live(w)
		sr, serr := in.db.StateReader(root)
		nr, nerr := in.db.NodeReader(root)
		if live {
			st.liveRoots++
			if serr != nil || nerr != nil {
				return fmt.Errorf("root %v must be available (descendant of the disk layer %v) but StateReader: %v, NodeReader: %v", u.worlds[w].w, u.worlds[m.base].w, serr, nerr)
			}
		} else {
			st.deadRoots++
			if serr == nil || nerr == nil {
				st.deadReadable++
			}
		}
		if serr == nil {
			if err := in.checkState("fresh reader", w, sr, live, st); err != nil {
				return err
			}
		}
		if nerr == nil {
			err := in.checkNodes("fresh reader", w, nr, live, st)
			if err == nil && live {
				err = in.walk(w)
			}
			if err != nil {
				var ni *c16NodeIssue
				if errors.As(err, &ni) && ni.stale && in.parentDangling(w) {
					*nodeIssues = append(*nodeIssues, ni.msg)
				} else {
					return err
				}
			}
		}
		// readers handed out earlier, while the root was live
		if in.heldS[w] != nil {
			if live {
				st.heldLive++
			}
			if err := in.checkState("held reader", w, in.heldS[w], live, st); err != nil {
				return err
			}
			// a held node reader may legitimately fail (its layer object can be flattened away), but it must never
			// return another state's node
			if err := in.checkNodes("held reader", w, in.heldN[w], false, st); err != nil {
				return err
			}
		}
		if live && in.heldS[w] == nil {
			in.heldS[w], in.heldN[w] = sr, nr
		}
	}
	return nil
}

// hold hands out readers for the roots that are live now (prefix replay).
func (in *c16Inst) hold(m *c16Model) {
	for w := range in.u.worlds {
		if m.live(w) && in.heldS[w] == nil {
			sr, e1 := in.db.StateReader(in.u.worlds[w].root)
			nr, e2 := in.db.NodeReader(in.u.worlds[w].root)
			if e1 == nil && e2 == nil {
				in.heldS[w], in.heldN[w] = sr, nr
			}
		}
	}
}

// fingerprint is the white-box part of the state key: everything in the
// implementation that can influence future reads.
func (in *c16Inst) fingerprint() string {
	u := in.u
	tree := in.db.tree
	var sb strings.Builder
	id := func(h common.Hash) string {
		if i, ok := u.byRoot[h]; ok {
			return fmt.Sprint(i)
		}
		return h.Hex()
	}
	base := tree.base
	fmt.Fprintf(&sb, "base=%s stale=%v buf.layers=%d frozen=%v|", id(base.root), base.stale, base.buffer.layers, base.frozen != nil)
	// layers with parent links and whether the parent pointer is the registered object
	roots := make([]common.Hash, 0, len(tree.layers))
	for r := range tree.layers {
		roots = append(roots, r)
	}
	sort.Slice(roots, func(i, j int) bool { return bytes.Compare(roots[i][:], roots[j][:]) < 0 })
	for _, r := range roots {
		switch l := tree.layers[r].(type) {
		case *diskLayer:
			fmt.Fprintf(&sb, "L%s:disk(cur=%v);", id(r), l == base)
		case *diffLayer:
			fmt.Fprintf(&sb, "L%s->%s(reg=%v);", id(r), id(l.parent.rootHash()), tree.layers[l.parent.rootHash()] == l.parent)
		}
	}
	// descendants
	anc := make([]common.Hash, 0, len(tree.descendants))
	for r := range tree.descendants {
		anc = append(anc, r)
	}
	sort.Slice(anc, func(i, j int) bool { return bytes.Compare(anc[i][:], anc[j][:]) < 0 })
	for _, a := range anc {
		var ds []string
		for d := range tree.descendants[a] {
			ds = append(ds, id(d))
		}
		sort.Strings(ds)
		fmt.Fprintf(&sb, "D%s:%s;", id(a), strings.Join(ds, ","))
	}
	// lookup lists (order matters)
	for i := 0; i < 2; i++ {
		sb.WriteString("A:")
		for _, r := range tree.lookup.accounts[u.ahash[i]] {
			sb.WriteString(id(r) + ",")
		}
		sb.WriteString("S:")
		for _, r := range tree.lookup.storages[storageKey(u.ahash[i], u.shash)] {
			sb.WriteString(id(r) + ",")
		}
	}
	fmt.Fprintf(&sb, "|lk=%d/%d|", len(tree.lookup.accounts), len(tree.lookup.storages))
	// write buffers, clean caches and persistent store over the whole key universe
	probe := func(name string, b *buffer) {
		if b == nil {
			return
		}
		sb.WriteString(name + "{")
		for i := 0; i < 2; i++ {
			if v, ok := b.account(u.ahash[i]); ok {
				fmt.Fprintf(&sb, "a%d=%x;", i, v)
			}
			if v, ok := b.storage(u.ahash[i], u.shash); ok {
				fmt.Fprintf(&sb, "s%d=%x;", i, v)
			}
		}
		for k, n := range u.allNode {
			if v, ok := b.node(n.owner, []byte(n.path)); ok {
				fmt.Fprintf(&sb, "n%d=%x;", k, crypto.Keccak256(v.Blob)[:4])
			}
		}
		sb.WriteString("}")
	}
	probe("buf", base.buffer)
	probe("frz", base.frozen)
	kv := in.db.diskdb
	for i := 0; i < 2; i++ {
		fmt.Fprintf(&sb, "da%d=%x;ds%d=%x;", i, rawdb.ReadAccountSnapshot(kv, u.ahash[i]), i, rawdb.ReadStorageSnapshot(kv, u.ahash[i], u.shash))
		if base.states != nil {
			v, ok := base.states.HasGet(nil, u.ahash[i][:])
			v2, ok2 := base.states.HasGet(nil, storageKeySlice(u.ahash[i], u.shash))
			fmt.Fprintf(&sb, "ca%d=%v%x;cs%d=%v%x;", i, ok, v, i, ok2, v2)
		}
	}
	for k, n := range u.allNode {
		var blob []byte
		if n.owner == (common.Hash{}) {
			blob = rawdb.ReadAccountTrieNode(kv, []byte(n.path))
		} else {
			blob = rawdb.ReadStorageTrieNode(kv, n.owner, []byte(n.path))
		}
		fmt.Fprintf(&sb, "dn%d=%x;", k, crypto.Keccak256(blob)[:4])
		if base.nodes != nil {
			fmt.Fprintf(&sb, "cn%d=%x;", k, crypto.Keccak256(base.nodes.Get(nil, nodeCacheKey(n.owner, []byte(n.path))))[:4])
		}
	}
	sum := sha256.Sum256([]byte(sb.String()))
	return string(sum[:16])
}

// ---------------------------------------------------------------------------
// The explored system.

type c16Shared struct {
	r      *mc.R
	u      *c16Universe
	al     *c16Alphabet
	cfg    c16Cfg
	mu     sync.Mutex
	known  []c16Known // failed node reads at fork siblings of a flattened layer
	counts map[string]int64
	st     c16Stats
}

type c16Known struct {
	ops      []string
	msg      string
	followUp bool
}

type c16Sys struct {
	sh      *c16Shared
	m       *c16Model
	trace   []int // operations applied so far (indices into the alphabet)
	pending int   // number of leading operations of trace not yet executed on the real database
	in      *c16Inst
	err     error
	tainted bool // a live diff layer hangs (or hung) off a flattened parent object somewhere along this trace
	dead    bool // an operation on a tainted state failed: the state is not expanded
}

func (sh *c16Shared) newSys() mc.Sys {
	return &c16Sys{sh: sh, m: c16NewModel(len(sh.u.worlds), sh.u.byWorld[sh.cfg.Start])}
}

func (s *c16Sys) child(op c16Op) (int, bool) {
	cw, ok := c16ApplyDelta(s.sh.u.worlds[op.w].w, op.delta)
	if !ok {
		return 0, false
	}
	return s.sh.u.byWorld[cw], true
}

// Enabled is answered from the reference model alone. When the operation is
// enabled the real database is materialised (the operations applied so far were
// only recorded, see Apply), so that disabled operations cost no replay.
func (s *c16Sys) Enabled(i int) bool {
	op := s.sh.al.ops[i]
	if !s.m.live(op.w) {
		return false
	}
	if op.kind == 0 {
		if _, ok := s.child(op); !ok {
			return false
		}
	}
	s.materialise()
	return !s.dead
}

func (s *c16Sys) materialise() {
	if s.in != nil {
		return
	}
	s.in = c16NewInst(s.sh.u, s.sh.cfg)
	m := c16NewModel(len(s.sh.u.worlds), s.sh.u.byWorld[s.sh.cfg.Start])
	s.in.hold(m)
	for _, i := range s.trace {
		if err := s.step(m, i, false); err != nil {
			s.err = fmt.Errorf("replay divergence at prefix op %s: %v", s.sh.al.names[i], err)
			break
		}
		if s.dead {
			break
		}
		s.in.hold(m)
	}
}

// Apply records the operation on the reference model; once the real database
// exists (after Enabled returned true, or in replay mode) it is executed there
// and the oracle is evaluated.
func (s *c16Sys) Apply(i int) error {
	if s.in == nil {
		s.modelStep(s.m, s.sh.al.ops[i])
		s.trace = append(s.trace, i)
		return nil
	}
	if s.err != nil {
		return s.err
	}
	s.trace = append(s.trace, i)
	return s.step(s.m, i, true)
}

type c16Expect struct {
	child   int
	errWant int // 0 must succeed, 1 must fail, 2 either (insertion of an existing root that is the disk layer)
	flushes int
	class   string
}

// modelStep advances the reference model and returns what the operation is
// expected to do.
func (s *c16Sys) modelStep(m *c16Model, op c16Op) c16Expect {
	cfg := s.sh.cfg
	perFlatten := func(n int) int {
		if cfg.Buffer == 0 {
			return n
		}
		return 0
	}
	switch op.kind {
	case 0:
		c, _ := s.child(op)
		if c == op.w {
			return c16Expect{child: c, errWant: 1, class: "update:root==parent rejected"}
		}
		class := "update:new layer"
		if m.live(c) {
			// a layer with this root exists: the insertion is skipped, the cap still runs from that root
			class = "update:existing root (skipped)"
			if c == m.base {
				return c16Expect{child: c, errWant: 2, class: "update:existing root is the disk layer"}
			}
		} else {
			m.parent[c] = op.w
		}
		n, _ := m.cap(c, cfg.MaxDL)
		if n > 0 {
			class += "+flatten"
		}
		return c16Expect{child: c, flushes: perFlatten(n), class: class}
	case 1:
		n, wantErr := m.cap(op.w, op.layers)
		if wantErr {
			return c16Expect{errWant: 1, class: "cap:disk layer rejected"}
		}
		if n == 0 {
			return c16Expect{class: "cap:no-op"}
		}
		return c16Expect{flushes: perFlatten(n), class: "cap:flatten"}
	default:
		n, wantErr := m.cap(op.w, 0)
		if wantErr {
			return c16Expect{errWant: 1, class: "commit:disk layer rejected"}
		}
		return c16Expect{flushes: n, class: "commit:flatten"} // forced: every merged layer is flushed
	}
}

// step executes one operation on the real database and evaluates it against the
// reference. full: this is the transition being explored (statistics and known-issue
// records are taken); otherwise it is a prefix replay.
//
// Known defect handling (see checks/C16.json): once a live diff layer hangs off a
// flattened parent object the trace is "tainted". Failed node reads at such a layer
// are recorded and the exploration goes on; any other failure of an operation applied
// to a tainted state (e.g. building on top of that layer flattens the flattened parent
// a second time and wipes the layer tree) is attributed to the same defect, recorded,
// and that state is not expanded further. Untainted traces are strict.
func (s *c16Sys) step(m *c16Model, i int, full bool) error {
	op := s.sh.al.ops[i]
	ex := s.modelStep(m, op)
	taintedBefore := s.tainted
	var err error
	fail := mc.Safely(func() error {
		flushes := ex.flushes
		if taintedBefore {
			flushes = 0 // the flush count of a tainted state is not predictable: let the flushes run and wait for them
		}
		err = s.in.run(op, ex.child, flushes)
		return nil
	})
	if fail != nil {
		s.in.broken = true // locks may be left held by the panic: the instance is abandoned
	}
	if s.in.gate != nil && s.in.gate.timedOut.Load() && !taintedBefore {
		s.sh.r.HarnessError("c16: flush gate watchdog fired (the database flushed more often than the reference model predicted)")
	}
	switch {
	case fail != nil:
	case ex.errWant == 0 && err != nil:
		fail = fmt.Errorf("%s: unexpected error: %v", s.sh.al.names[i], err)
	case ex.errWant == 1 && err == nil:
		fail = fmt.Errorf("%s: must be rejected but succeeded", s.sh.al.names[i])
	}
	var st c16Stats
	var issues []string
	if fail == nil && (full || taintedBefore) { // tainted traces are re-checked during replay so that the pruning is reproduced
		fail = mc.Safely(func() error { return s.in.check(m, &st, &issues) })
	}
	if fail == nil && s.in.anyDangling(m) {
		s.tainted = true
	}
	sh := s.sh
	names := func() []string {
		out := make([]string, len(s.trace))
		for k, o := range s.trace {
			out[k] = sh.al.names[o]
		}
		return out
	}
	if fail != nil && taintedBefore {
		s.dead = true
		if full {
			sh.mu.Lock()
			sh.counts["operation on a state with a fork sibling of a flattened layer fails (attributed to the known defect, not expanded)"]++
			sh.known = append(sh.known, c16Known{ops: names(), msg: fail.Error(), followUp: true})
			sh.mu.Unlock()
		}
		return nil
	}
	if !full || fail != nil {
		return fail
	}
	sh.mu.Lock()
	cls := ex.class
	if ex.errWant == 2 {
		if err != nil {
			cls += " -> error"
		} else {
			cls += " -> nil"
		}
	}
	sh.counts[cls]++
	sh.st.liveRoots += st.liveRoots
	sh.st.deadRoots += st.deadRoots
	sh.st.deadReadable += st.deadReadable
	sh.st.reads += st.reads
	sh.st.heldLive += st.heldLive
	if len(issues) > 0 {
		sh.counts["live fork sibling of a flattened layer: node read fails (stale)"]++
		sh.known = append(sh.known, c16Known{ops: names(), msg: issues[0]})
	}
	sh.mu.Unlock()
	return nil
}

func (s *c16Sys) Key() string {
	s.materialise()
	if s.err != nil {
		return ""
	}
	if s.dead {
		return fmt.Sprint("dead:", s.trace)
	}
	var sb strings.Builder
	for w, p := range s.m.parent {
		if p != c16Dead {
			fmt.Fprintf(&sb, "%d<%d;", w, p)
		}
	}
	return fmt.Sprintf("%st=%v#", sb.String(), s.tainted) + s.in.fingerprint()
}

func c16Close(s mc.Sys) {
	if in := s.(*c16Sys).in; in != nil {
		in.close()
	}
}

// c16Explore runs one exploration and reports the node-read issue class (if it
// occurred) once, under a stable key, with the shortest trace as replay.
func c16Explore(r *mc.R, u *c16Universe, cfg c16Cfg, depth int) {
	sh := &c16Shared{r: r, u: u, al: c16BuildAlphabet(u, cfg.Cap), cfg: cfg, counts: map[string]int64{}}
	name := "C16/" + cfg.Name
	r.Explore(mc.Config{Name: name, Ops: sh.al.names, Depth: depth, New: sh.newSys, Close: c16Close})
	for k, v := range sh.counts {
		r.OutcomeN(cfg.Name+"/"+k, v)
	}
	r.OutcomeN(cfg.Name+"/reads", int64(sh.st.reads))
	r.OutcomeN(cfg.Name+"/live-root checks", int64(sh.st.liveRoots))
	r.OutcomeN(cfg.Name+"/non-live-root checks", int64(sh.st.deadRoots))
	r.OutcomeN(cfg.Name+"/held readers of live roots checked", int64(sh.st.heldLive))
	if len(sh.known) > 0 {
		caps := func(a []string) (n int) { // prefer traces that use the public API only
			for _, o := range a {
				if strings.HasPrefix(o, "cap(") {
					n++
				}
			}
			return n
		}
		less := func(a, b []string) bool {
			if len(a) != len(b) {
				return len(a) < len(b)
			}
			if ca, cb := caps(a), caps(b); ca != cb {
				return ca < cb
			}
			return strings.Join(a, ";") < strings.Join(b, ";")
		}
		sort.Slice(sh.known, func(i, j int) bool { return less(sh.known[i].ops, sh.known[j].ops) })
		k := sh.known[0]
		nFollow := 0
		var follow *c16Known
		for i := range sh.known {
			if sh.known[i].followUp {
				nFollow++
				if follow == nil {
					follow = &sh.known[i]
				}
			}
		}
		desc := fmt.Sprintf("%s (the diff layer keeps pointing at the flattened parent object whose disk layer is stale; %d traces with failed node reads at such a layer in this exploration)", k.msg, len(sh.known)-nFollow)
		if follow != nil {
			desc += fmt.Sprintf("; %d operations applied to such a state failed and were attributed to the same defect, shortest: %s => %s", nFollow, strings.Join(follow.ops, ";"), follow.msg)
		}
		r.Violation("C16/node-read-stale-at-fork-sibling/"+cfg.Name+":"+strings.Join(k.ops, ";"), desc, map[string]any{"explore": name, "ops": k.ops})
	}
}

func TestVerif_C16(t *testing.T) {
	mc.Run(t, "C16", func(r *mc.R) {
		u := c16GetUniverse()
		old := maxDiffLayers
		defer func() { maxDiffLayers = old }()
		r.Rule("explicit-state BFS over sequences of Update(parent in live roots, delta in 8 single-field deltas incl. the no-op that must be rejected) / cap(root,1) / Commit(root) " +
			"on the real pathdb.Database; worlds = 2 accounts x 1 slot (14 worlds) with their real state roots; state key = reference layer tree + white-box fingerprint " +
			"(layers with parent links, descendants, lookup lists, buffers, clean caches, persistent store); distinct = distinct (key, first trace)")
		r.Bound("worlds", len(u.worlds))
		r.Assume("reference model = per-world flat state and complete trie node set built with fresh in-memory tries (trie package is trusted), layer tree as parent map: a cap keeps exactly the descendants of the new disk layer, Commit keeps only the committed root, inserting an existing root is a no-op")
		r.Assume("NoAsyncGeneration; background flushes are either synchronous (NoAsyncFlush) or held at a deterministic gate in front of the key-value batch write and awaited through buffer.done; concurrent readers during flattening are not part of this check")
		full := c16World{A: 1, AS: 1, B: 1}
		type plan struct {
			cfg   c16Cfg
			depth int
		}
		mk := func(kind string, start c16World, mdl int) c16Cfg {
			sn := "fresh"
			if start != (c16World{}) {
				sn = "disk=" + start.String()
			}
			cfg := c16Cfg{Name: fmt.Sprintf("%s/%s/maxdiff=%d", kind, sn, mdl), MaxDL: mdl, Cap: true, Start: start}
			switch kind {
			case "buf0+cache": // every flattened layer is flushed synchronously; reads served by clean caches / store
				cfg.Buffer, cfg.Cache = 0, 64*1024
			case "buf1M": // flattened layers stay in the live write buffer until a Commit
				cfg.Buffer = 1 << 20
			case "buf0-gated": // every flattened layer is frozen and its flush held: reads served by the frozen buffer
				cfg.Buffer, cfg.Gated = 0, true
			default:
				panic(kind)
			}
			return cfg
		}
		var plans []plan
		if r.Quick() {
			plans = []plan{
				{mk("buf1M", c16World{}, 2), 4}, {mk("buf1M", full, 2), 4},
				{mk("buf0+cache", c16World{}, 2), 3}, {mk("buf0+cache", full, 2), 3},
				{mk("buf0-gated", c16World{}, 2), 3}, {mk("buf0-gated", full, 2), 3},
				{mk("buf0-gated", full, 1), 3},
			}
		} else {
			for _, kind := range []string{"buf1M", "buf0+cache", "buf0-gated"} {
				plans = append(plans, plan{mk(kind, c16World{}, 2), 5}, plan{mk(kind, full, 2), 5})
			}
			plans = append(plans, plan{mk("buf0-gated", full, 1), 5}, plan{mk("buf0+cache", full, 1), 5}, plan{mk("buf1M", full, 3), 5}, plan{mk("buf0+cache", c16World{}, 3), 5})
		}
		for _, p := range plans {
			if r.Expired() {
				break
			}
			maxDiffLayers = p.cfg.MaxDL // package variable: explorations run one after the other
			r.Bound(p.cfg.Name+".depth", p.depth)
			c16Explore(r, u, p.cfg, p.depth)
		}
	})
}
