//go:build verif

package pathdb

// C17 — state rollback restores exactly the historical state.
//
// Bounded-exhaustive enumeration of canonical histories (all sequences of <= L transitions over a small delta
// alphabet, with Commit placed at every position) x configurations (state-history limit, write-buffer size, trienode
// history on/off). After each history every root ever created (plus unknown roots) is asked through Recoverable; for
// each recoverable root the history is replayed on a fresh instance and Recover(root) is executed, for each
// non-recoverable root Recover must fail without changing anything.
//
// Oracle: an independent reference world (plain Go structs) is maintained by the history generator; root -> world.
// After Recover(r): flat reads through the database, complete trie walks through the database, and (when the write
// buffer is empty) the raw key-value image of the flat-state and trie-node key spaces must equal world(r) exactly.

import (
	"bytes"
	"errors"
	"fmt"
	"sort"
	"strings"
	"sync/atomic"
	"testing"
	"time"

	"github.com/ethereum/go-ethereum/common"
	"github.com/ethereum/go-ethereum/core/rawdb"
	"github.com/ethereum/go-ethereum/core/types"
	"github.com/ethereum/go-ethereum/crypto"
	"github.com/ethereum/go-ethereum/ethdb"
	"github.com/ethereum/go-ethereum/ethdb/memorydb"
	"github.com/ethereum/go-ethereum/internal/verif/mc"
	"github.com/ethereum/go-ethereum/log"
	"github.com/ethereum/go-ethereum/rlp"
	"github.com/ethereum/go-ethereum/trie"
	"github.com/ethereum/go-ethereum/trie/trienode"
	"github.com/ethereum/go-ethereum/triedb/database"
	"github.com/holiman/uint256"
)

// ---------------------------------------------------------------------------------------------------------------
// reference world

const (
	c17NAcc  = 3 // A, B, S(ender)
	c17NSlot = 2
)

type c17Acc struct {
	Exists bool
	Nonce  uint64
	Bal    uint64
	Slots  [c17NSlot]uint64 // 0 = absent
	Root   common.Hash      // storage root (from the real trie; part of the account encoding)
}

type c17World struct {
	Acc [c17NAcc]c17Acc
}

var (
	c17Addrs = [c17NAcc + 1]common.Address{
		common.HexToAddress("0xa1000000000000000000000000000000000000a1"),
		common.HexToAddress("0xb2000000000000000000000000000000000000b2"),
		common.HexToAddress("0xc3000000000000000000000000000000000000c3"),
		common.HexToAddress("0xd4000000000000000000000000000000000000d4"), // never used
	}
	c17AddrHashes [c17NAcc + 1]common.Hash
	c17SlotKeys   = [c17NSlot + 1]common.Hash{
		common.HexToHash("0x01"), common.HexToHash("0x02"), common.HexToHash("0x03"), // the last one is never used
	}
	c17SlotHashes [c17NSlot + 1]common.Hash
)

func init() {
	for i, a := range c17Addrs {
		c17AddrHashes[i] = crypto.Keccak256Hash(a.Bytes())
	}
	for i, k := range c17SlotKeys {
		c17SlotHashes[i] = crypto.Keccak256Hash(k.Bytes())
	}
}

func (a *c17Acc) state() types.StateAccount {
	return types.StateAccount{Nonce: a.Nonce, Balance: uint256.NewInt(a.Bal), Root: a.Root, CodeHash: types.EmptyCodeHash.Bytes()}
}

func (a *c17Acc) slim() []byte {
	if !a.Exists {
		return nil
	}
	return types.SlimAccountRLP(a.state())
}

func (a *c17Acc) full() []byte {
	if !a.Exists {
		return nil
	}
	st := a.state()
	b, err := rlp.EncodeToBytes(&st)
	if err != nil {
		panic(err)
	}
	return b
}

func c17SlotRLP(v uint64) []byte {
	if v == 0 {
		return nil
	}
	b, _ := rlp.EncodeToBytes(common.TrimLeftZeroes(common.BigToHash(uint256.NewInt(v).ToBig()).Bytes()))
	return b
}

// ---------------------------------------------------------------------------------------------------------------
// delta alphabet

const c17Commit = "COMMIT"

var c17Deltas = []string{"A+", "A.k0=1", "A.k0=2", "A.k0=0", "A.k1=1", "A-", "A!", "B+", "B.k0=1", "B-"}

// c17Step applies a delta to a world; ok=false when the delta is not enabled (would not change anything or is
// meaningless). The sender account's nonce is bumped by every transition so that state roots never repeat (as on a
// real chain, where pathdb assumes unique roots).
func c17Step(w c17World, op string, n uint64) (c17World, bool) {
	idx := 0
	if op[0] == 'B' {
		idx = 1
	}
	a := &w.Acc[idx]
	create := func() {
		if !a.Exists {
			*a = c17Acc{Exists: true, Bal: 1}
		}
	}
	switch op[1:] {
	case "+":
		if !a.Exists {
			create()
		} else {
			a.Bal = 3 - a.Bal
		}
	case ".k0=1", ".k0=2", ".k1=1":
		slot := int(op[3] - '0')
		val := uint64(op[5] - '0')
		if a.Exists && a.Slots[slot] == val {
			return w, false
		}
		create()
		a.Slots[slot] = val
	case ".k0=0":
		if !a.Exists || a.Slots[0] == 0 {
			return w, false
		}
		a.Slots[0] = 0
	case "-":
		if !a.Exists {
			return w, false
		}
		*a = c17Acc{}
	case "!":
		// destruct and re-create within one transition: storage wiped, then one slot set again
		if !a.Exists {
			return w, false
		}
		*a = c17Acc{Exists: true, Bal: 2}
		a.Slots[0] = 2
	default:
		panic("unknown delta " + op)
	}
	s := &w.Acc[2]
	s.Exists, s.Bal, s.Nonce = true, 7, n
	return w, true
}

// c17Transition turns (prev world -> next world) into the arguments of Database.Update. Storage roots are computed
// with the real trie on top of the parent state (trusted base) and stored back into next.
func c17Transition(db *Database, parent common.Hash, prev c17World, next *c17World) (common.Hash, *trienode.MergedNodeSet, *StateSetWithOrigin) {
	var (
		nodes         = trienode.NewMergedNodeSet()
		accounts      = map[common.Hash][]byte{}
		storages      = map[common.Hash]map[common.Hash][]byte{}
		accountOrigin = map[common.Address][]byte{}
		storageOrigin = map[common.Address]map[common.Hash][]byte{}
		trieAccounts  = map[common.Hash][]byte{}
	)
	for i := 0; i < c17NAcc; i++ {
		p, n := prev.Acc[i], &next.Acc[i]
		n.Root = types.EmptyRootHash
		if !n.Exists {
			n.Root = common.Hash{}
		}
		prevRoot := p.Root
		if !p.Exists {
			prevRoot = types.EmptyRootHash
		}
		entries := map[common.Hash][]byte{}
		for j := 0; j < c17NSlot; j++ {
			if p.Slots[j] != n.Slots[j] {
				entries[c17SlotHashes[j]] = c17SlotRLP(n.Slots[j])
				if storages[c17AddrHashes[i]] == nil {
					storages[c17AddrHashes[i]] = map[common.Hash][]byte{}
					storageOrigin[c17Addrs[i]] = map[common.Hash][]byte{}
				}
				storages[c17AddrHashes[i]][c17SlotHashes[j]] = c17SlotRLP(n.Slots[j])
				storageOrigin[c17Addrs[i]][c17SlotKeys[j]] = c17SlotRLP(p.Slots[j]) // raw storage key (history v1)
			}
		}
		if n.Exists {
			n.Root = prevRoot
		}
		if len(entries) > 0 {
			root, set := updateTrie(db, parent, c17AddrHashes[i], prevRoot, entries)
			if set != nil {
				if err := nodes.Merge(set); err != nil {
					panic(err)
				}
			}
			if n.Exists {
				n.Root = root
			} else if root != types.EmptyRootHash {
				panic("harness: storage of a destructed account is not empty")
			}
		}
		if p.Exists != n.Exists || (n.Exists && !bytes.Equal(p.slim(), n.slim())) {
			accounts[c17AddrHashes[i]] = n.slim()
			accountOrigin[c17Addrs[i]] = p.slim()
			trieAccounts[c17AddrHashes[i]] = n.full()
		}
	}
	root, set := updateTrie(db, parent, common.Hash{}, parent, trieAccounts)
	if set != nil {
		if err := nodes.Merge(set); err != nil {
			panic(err)
		}
	}
	return root, nodes, NewStateSetWithOrigin(accounts, storages, accountOrigin, storageOrigin, true)
}

// ---------------------------------------------------------------------------------------------------------------
// instances

type c17Cfg struct {
	Hist   uint64 `json:"hist"`     // StateHistory limit, 0 = everything
	Buffer int    `json:"buffer"`   // WriteBufferSize
	Trie   int64  `json:"trienode"` // TrienodeHistory: -1 off, otherwise limit
	// Async: NoAsyncFlush=false (production default). Buffer flushes run in the package's background goroutine and
	// the flushed content stays linked to the disk layer as the frozen buffer. The harness waits for the flush through
	// the package's own notification (diskLayer.waitFlush -> buffer.done) after every operation; the flush of the last
	// operation is additionally held at a gate in front of the key-value batch write for one observation.
	Async  bool   `json:"async,omitempty"`
	Index  bool   `json:"index,omitempty"` // history indexing enabled (used by the C18 harness)
	// RealIniter: start the indexers through Config.EnableStateIndexing (background initer goroutine). Otherwise the
	// indexers are attached in the "initial indexing finished" state: the genuine start-up races its first heartbeat
	// against the sync-state goroutine and, when it loses, only finishes at the next heartbeat 15 seconds later.
	RealIniter bool `json:"real_initer,omitempty"`
}

// c17Gate parks the first key-value batch write after it has been armed (the background flush of buffer.flush).
type c17Gate struct {
	armed    atomic.Bool
	timedOut atomic.Bool
	arrived  chan struct{}
	hold     chan struct{}
}

type c17GateDB struct {
	ethdb.Database
	g *c17Gate
}

func (d *c17GateDB) NewBatch() ethdb.Batch { return &c17GateBatch{d.Database.NewBatch(), d.g} }
func (d *c17GateDB) NewBatchWithSize(n int) ethdb.Batch {
	return &c17GateBatch{d.Database.NewBatchWithSize(n), d.g}
}

type c17GateBatch struct {
	ethdb.Batch
	g *c17Gate
}

func (b *c17GateBatch) Write() error {
	if b.g.armed.CompareAndSwap(true, false) {
		b.g.arrived <- struct{}{}
		select {
		case <-b.g.hold:
		case <-time.After(60 * time.Second): // watchdog against a harness hang only; reported as harness error
			b.g.timedOut.Store(true)
		}
	}
	return b.Batch.Write()
}

type c17Inst struct {
	cfg    c17Cfg
	gate   *c17Gate
	kv     *memorydb.Database
	disk   ethdb.Database
	db     *Database
	parking bool
	roots  []common.Hash // roots[i] = root with state id i (roots[0] = empty root)
	worlds []c17World
}

func c17NewInst(cfg c17Cfg) *c17Inst {
	kv := memorydb.New()
	disk, err := rawdb.Open(kv, rawdb.OpenOptions{}) // empty ancient dir => in-memory freezers
	if err != nil {
		panic(err)
	}
	var gate *c17Gate
	if cfg.Async {
		gate = &c17Gate{arrived: make(chan struct{}, 1), hold: make(chan struct{})}
		disk = &c17GateDB{disk, gate}
	}
	db := New(disk, &Config{
		StateHistory:        cfg.Hist,
		TrienodeHistory:     cfg.Trie,
		FullValueCheckpoint: 2,
		TrieCleanSize:       c17CacheSize,
		StateCleanSize:      c17CacheSize,
		WriteBufferSize:     cfg.Buffer,
		NoAsyncFlush:        !cfg.Async,
		NoAsyncGeneration:   true,
		EnableStateIndexing: cfg.Index && cfg.RealIniter,
		NoHistoryIndexDelay: true,
	}, false)
	if cfg.Index && !cfg.RealIniter {
		db.stateIndexer = c17AttachIndexer(disk, db.stateFreezer, typeStateHistory)
		if db.trienodeFreezer != nil {
			db.trienodeIndexer = c17AttachIndexer(disk, db.trienodeFreezer, typeTrienodeHistory)
		}
	}
	return &c17Inst{cfg: cfg, gate: gate, kv: kv, disk: disk, db: db, roots: []common.Hash{types.EmptyRootHash}, worlds: []c17World{{}}}
}

func (in *c17Inst) close() {
	if in.gate != nil {
		in.gate.armed.Store(false)
	}
	in.db.Close()
	in.disk.Close()
}

// run executes a history; ops holds deltas and COMMIT markers. It returns false if a delta is not enabled.
func (in *c17Inst) run(ops []string) (bool, error) {
	for _, op := range ops {
		head := in.roots[len(in.roots)-1]
		if op == c17Commit {
			if len(in.roots) == 1 {
				return false, nil
			}
			if err := in.db.Commit(head, false); err != nil {
				return true, fmt.Errorf("Commit: %v", err)
			}
			if err := in.settle(); err != nil {
				return true, fmt.Errorf("background flush after Commit: %v", err)
			}
			continue
		}
		prev := in.worlds[len(in.worlds)-1]
		next, ok := c17Step(prev, op, uint64(len(in.roots)))
		if !ok {
			return false, nil
		}
		root, nodes, states := c17Transition(in.db, head, prev, &next)
		if err := in.db.Update(root, head, uint64(len(in.roots)), nodes, states); err != nil {
			return true, fmt.Errorf("Update(%s): %v", op, err)
		}
		in.roots = append(in.roots, root)
		in.worlds = append(in.worlds, next)
		if err := in.settle(); err != nil {
			return true, fmt.Errorf("background flush after Update(%s): %v", op, err)
		}
	}
	return true, nil
}

// settle waits, in the asynchronous configurations, until the background flush scheduled by the last operation has
// finished (package notification buffer.done). Not done while a flush is deliberately parked at the gate.
func (in *c17Inst) settle() error {
	if !in.cfg.Async || in.parking {
		return nil
	}
	return in.db.tree.bottom().waitFlush()
}

// runParked executes a history like run, but holds the background flush of the LAST operation (if it schedules one)
// in front of its key-value batch write, calls observe while the frozen buffer is linked and its content is not yet on
// disk, then releases the flush and waits for it.
func (in *c17Inst) runParked(ops []string, observe func(parked bool) error) (bool, error) {
	if ok, err := in.run(ops[:len(ops)-1]); err != nil || !ok {
		return ok, err
	}
	in.parking = true
	in.gate.armed.Store(true)
	ok, err := in.run(ops[len(ops)-1:])
	in.parking = false
	parked := false
	if err == nil && ok {
		if fr := in.db.tree.bottom().frozen; fr != nil && fr.done != nil {
			select {
			case <-in.gate.arrived:
				parked = true
			case <-fr.done: // an older, already finished flush: the last operation did not flush
			}
		}
	}
	in.gate.armed.Store(false)
	var oerr error
	if err == nil && ok {
		oerr = observe(parked)
	}
	close(in.gate.hold)
	if werr := in.db.tree.bottom().waitFlush(); werr != nil && err == nil {
		err = fmt.Errorf("background flush: %v", werr)
	}
	if in.gate.timedOut.Load() && err == nil {
		err = errors.New("harness: the parked flush was not released within 60 s")
	}
	if err == nil {
		err = oerr
	}
	return ok, err
}

// ---------------------------------------------------------------------------------------------------------------
// observation

type c17RawDB struct{ disk ethdb.KeyValueReader }

func (d c17RawDB) NodeReader(common.Hash) (database.NodeReader, error) { return d, nil }

func (d c17RawDB) Node(owner common.Hash, path []byte, hash common.Hash) ([]byte, error) {
	var blob []byte
	if owner == (common.Hash{}) {
		blob = rawdb.ReadAccountTrieNode(d.disk, path)
	} else {
		blob = rawdb.ReadStorageTrieNode(d.disk, owner, path)
	}
	if len(blob) == 0 {
		return nil, fmt.Errorf("raw trie node %x/%x missing", owner, path)
	}
	if crypto.Keccak256Hash(blob) != hash {
		return nil, fmt.Errorf("raw trie node %x/%x has hash %x, want %x", owner, path, crypto.Keccak256Hash(blob), hash)
	}
	return blob, nil
}

// c17WalkTrie returns the leaves and the paths of all stored (hashed) nodes of a trie.
func c17WalkTrie(id *trie.ID, ndb database.NodeDatabase) (map[common.Hash][]byte, []string, error) {
	tr, err := trie.New(id, ndb)
	if err != nil {
		return nil, nil, err
	}
	it, err := tr.NodeIterator(nil)
	if err != nil {
		return nil, nil, err
	}
	leaves := map[common.Hash][]byte{}
	var paths []string
	for it.Next(true) {
		if it.Hash() != (common.Hash{}) {
			paths = append(paths, string(it.Path()))
		}
		if it.Leaf() {
			leaves[common.BytesToHash(it.LeafKey())] = common.CopyBytes(it.LeafBlob())
		}
	}
	return leaves, paths, it.Error()
}

// c17VerifyWorld checks that the database, read at root, shows exactly world w.
func c17VerifyWorld(in *c17Inst, root common.Hash, w c17World, raw bool) error {
	db := in.db
	// 1. flat reads through the layers
	sr0, err := db.StateReader(root)
	if err != nil {
		return fmt.Errorf("StateReader: %v", err)
	}
	sr, ok := sr0.(interface {
		AccountRLP(hash common.Hash) ([]byte, error)
		Storage(accountHash, storageHash common.Hash) ([]byte, error)
	})
	if !ok {
		return fmt.Errorf("harness: state reader %T has no AccountRLP", sr0)
	}
	for i := 0; i <= c17NAcc; i++ {
		var want []byte
		var acc c17Acc
		if i < c17NAcc {
			acc = w.Acc[i]
			want = acc.slim()
		}
		got, err := sr.AccountRLP(c17AddrHashes[i])
		if err != nil {
			return fmt.Errorf("AccountRLP(%d): %v", i, err)
		}
		if !bytes.Equal(got, want) {
			return fmt.Errorf("flat account %d = %x, expected %x", i, got, want)
		}
		for j := 0; j <= c17NSlot; j++ {
			var wantSlot []byte
			if j < c17NSlot {
				wantSlot = c17SlotRLP(acc.Slots[j])
			}
			got, err := sr.Storage(c17AddrHashes[i], c17SlotHashes[j])
			if err != nil {
				return fmt.Errorf("Storage(%d,%d): %v", i, j, err)
			}
			if !bytes.Equal(got, wantSlot) {
				return fmt.Errorf("flat slot %d of account %d = %x, expected %x", j, i, got, wantSlot)
			}
		}
	}
	// 2. tries, through the layers and (raw) directly from the key-value store
	sources := []struct {
		name string
		ndb  database.NodeDatabase
	}{{"layered", db}}
	if raw {
		sources = append(sources, struct {
			name string
			ndb  database.NodeDatabase
		}{"raw", c17RawDB{in.disk}})
	}
	rawNodes := map[string]bool{}
	for _, src := range sources {
		leaves, paths, err := c17WalkTrie(trie.StateTrieID(root), src.ndb)
		if err != nil {
			return fmt.Errorf("%s account trie walk: %v", src.name, err)
		}
		if src.name == "raw" {
			for _, p := range paths {
				rawNodes["A"+p] = true
			}
		}
		n := 0
		for i := 0; i < c17NAcc; i++ {
			acc := w.Acc[i]
			if !acc.Exists {
				continue
			}
			n++
			if !bytes.Equal(leaves[c17AddrHashes[i]], acc.full()) {
				return fmt.Errorf("%s account trie: account %d = %x, expected %x", src.name, i, leaves[c17AddrHashes[i]], acc.full())
			}
			sl, spaths, err := c17WalkTrie(trie.StorageTrieID(root, c17AddrHashes[i], acc.Root), src.ndb)
			if err != nil {
				return fmt.Errorf("%s storage trie walk of account %d: %v", src.name, i, err)
			}
			if src.name == "raw" {
				for _, p := range spaths {
					rawNodes["O"+string(c17AddrHashes[i].Bytes())+p] = true
				}
			}
			m := 0
			for j := 0; j < c17NSlot; j++ {
				if acc.Slots[j] == 0 {
					continue
				}
				m++
				if !bytes.Equal(sl[c17SlotHashes[j]], c17SlotRLP(acc.Slots[j])) {
					return fmt.Errorf("%s storage trie of account %d: slot %d = %x, expected %x", src.name, i, j, sl[c17SlotHashes[j]], c17SlotRLP(acc.Slots[j]))
				}
			}
			if len(sl) != m {
				return fmt.Errorf("%s storage trie of account %d holds %d slots, expected %d", src.name, i, len(sl), m)
			}
		}
		if len(leaves) != n {
			return fmt.Errorf("%s account trie holds %d accounts, expected %d", src.name, len(leaves), n)
		}
	}
	if !raw {
		return nil
	}
	// 3. the raw key spaces contain nothing else
	wantFlat := map[string][]byte{}
	for i := 0; i < c17NAcc; i++ {
		acc := w.Acc[i]
		if !acc.Exists {
			continue
		}
		wantFlat["a"+string(c17AddrHashes[i].Bytes())] = acc.slim()
		for j := 0; j < c17NSlot; j++ {
			if acc.Slots[j] != 0 {
				wantFlat["o"+string(c17AddrHashes[i].Bytes())+string(c17SlotHashes[j].Bytes())] = c17SlotRLP(acc.Slots[j])
			}
		}
	}
	it := in.kv.NewIterator(nil, nil)
	defer it.Release()
	seenFlat := 0
	for it.Next() {
		key := it.Key()
		switch {
		case (key[0] == 'a' && len(key) == 33) || (key[0] == 'o' && len(key) == 65):
			want, ok := wantFlat[string(key)]
			if !ok {
				return fmt.Errorf("raw flat state holds unexpected entry %x = %x", key, it.Value())
			}
			if !bytes.Equal(want, it.Value()) {
				return fmt.Errorf("raw flat state entry %x = %x, expected %x", key, it.Value(), want)
			}
			seenFlat++
		case c17IsNodeKey(key):
			if !rawNodes[string(key)] {
				return fmt.Errorf("raw trie node key space holds a node that is not part of state %x: key %x", root, key)
			}
		}
	}
	if seenFlat != len(wantFlat) {
		return fmt.Errorf("raw flat state holds %d entries, expected %d", seenFlat, len(wantFlat))
	}
	return nil
}

func c17IsNodeKey(key []byte) bool {
	var path []byte
	if ok, p := rawdb.ResolveAccountTrieNodeKey(key); ok {
		path = p
	} else if ok, _, p := rawdb.ResolveStorageTrieNode(key); ok {
		path = p
	} else {
		return false
	}
	for _, b := range path {
		if b > 15 {
			return false
		}
	}
	return true
}

// c17Image captures everything Recover may touch.
func c17Image(in *c17Inst) string {
	var sb strings.Builder
	it := in.kv.NewIterator(nil, nil)
	for it.Next() {
		fmt.Fprintf(&sb, "%x=%x\n", it.Key(), it.Value())
	}
	it.Release()
	for _, f := range []ethdb.AncientStore{in.db.stateFreezer, in.db.trienodeFreezer} {
		if f == nil {
			sb.WriteString("nofreezer\n")
			continue
		}
		head, _ := f.Ancients()
		tail, _ := f.Tail(rawdb.DefaultHistoryGroup)
		fmt.Fprintf(&sb, "freezer %d..%d\n", tail, head)
	}
	dl := in.db.tree.bottom()
	fmt.Fprintf(&sb, "bottom %x id=%d layers=%d buffer=%d\n", dl.rootHash(), dl.stateID(), in.db.tree.len(), dl.buffer.layers)
	return sb.String()
}

// ---------------------------------------------------------------------------------------------------------------
// the check of one (history, configuration)

type c17Case struct {
	Cfg c17Cfg   `json:"cfg"`
	Ops []string `json:"ops"`
}

func c17Freezers(in *c17Inst) []ethdb.AncientStore {
	out := []ethdb.AncientStore{in.db.stateFreezer}
	if in.db.trienodeFreezer != nil {
		out = append(out, in.db.trienodeFreezer)
	}
	return out
}

func c17Check(r *mc.R, c c17Case) error {
	in := c17NewInst(c.Cfg)
	defer func() { in.close() }()
	var (
		ok  bool
		err error
	)
	if c.Cfg.Async {
		ok, err = in.runParked(c.Ops, func(parked bool) error {
			// observation while the flush is parked: the frozen buffer is linked, its content is not on disk yet
			if !parked {
				r.Outcome("async:last-op-did-not-flush")
				return nil
			}
			r.Outcome("async:observed-with-parked-flush")
			dl := in.db.tree.bottom()
			if err := c17VerifyWorld(in, in.roots[len(in.roots)-1], in.worlds[len(in.worlds)-1], false); err != nil {
				return fmt.Errorf("head state while the flush is parked: %v", err)
			}
			if err := c17VerifyWorld(in, dl.rootHash(), in.worlds[dl.stateID()], false); err != nil {
				return fmt.Errorf("disk layer state %d while its flush is parked: %v", dl.stateID(), err)
			}
			for i, root := range in.roots {
				if rec := in.db.Recoverable(root); rec && uint64(i) >= dl.stateID() {
					return fmt.Errorf("Recoverable(state %d)=true while the flush is parked and the disk layer is at %d", i, dl.stateID())
				}
			}
			return nil
		})
	} else {
		ok, err = in.run(c.Ops)
	}
	if err != nil || !ok {
		if !ok {
			return errors.New("harness: history contains a disabled delta")
		}
		return err
	}
	diskID := in.db.tree.bottom().stateID()
	// every state still served by a layer must read correctly before any rollback (sanity of the generator)
	if err := c17VerifyWorld(in, in.roots[len(in.roots)-1], in.worlds[len(in.worlds)-1], false); err != nil {
		return fmt.Errorf("head state before rollback: %v", err)
	}
	// classification of every root
	type target struct {
		root common.Hash
		id   int // -1 for unknown roots
	}
	var targets []target
	for i, root := range in.roots {
		targets = append(targets, target{root, i})
	}
	targets = append(targets, target{common.Hash{}, -1}, target{common.HexToHash("0xdeadbeef"), -1})
	var recoverable []target
	for _, t := range targets {
		rec := in.db.Recoverable(t.root)
		if t.id < 0 || uint64(t.id) >= diskID {
			if rec {
				return fmt.Errorf("Recoverable(%x)=true for a root that is not below the disk layer (id %d, disk layer id %d)", t.root, t.id, diskID)
			}
		} else {
			// liveness: inside the retained window below the disk layer the root must be recoverable
			must := c.Cfg.Hist == 0 || uint64(t.id)+c.Cfg.Hist >= diskID
			if must && !rec {
				return fmt.Errorf("Recoverable(root of state %d)=false although the disk layer is at %d and the history limit is %d", t.id, diskID, c.Cfg.Hist)
			}
		}
		if rec {
			recoverable = append(recoverable, t)
			r.Outcome("recoverable")
			continue
		}
		r.Outcome("not-recoverable")
		// refused without changing anything
		before := c17Image(in)
		if err := in.db.Recover(t.root); err == nil {
			return fmt.Errorf("Recover(%x) of a root reported as not recoverable (id %d, disk %d) succeeded", t.root, t.id, diskID)
		}
		if after := c17Image(in); after != before {
			return fmt.Errorf("refused Recover(%x) changed the database:\n%s", t.root, c17Diff(before, after))
		}
	}
	// roll back to every recoverable root, each on its own replayed instance (the last one re-uses this instance)
	for k, t := range recoverable {
		inst := in
		if k < len(recoverable)-1 {
			inst = c17NewInst(c.Cfg)
			if _, err := inst.run(c.Ops); err != nil {
				inst.close()
				return fmt.Errorf("replay: %v", err)
			}
		}
		err := c17RecoverAndVerify(r, inst, t.root, t.id, c.Ops, true)
		if inst != in {
			inst.close()
		}
		if err != nil {
			return fmt.Errorf("Recover(root of state %d) with the disk layer at %d: %v", t.id, diskID, err)
		}
	}
	return nil
}

func c17RecoverAndVerify(r *mc.R, in *c17Inst, root common.Hash, id int, ops []string, fork bool) error {
	bufBefore := in.db.tree.bottom().buffer.layers
	if in.db.tree.bottom().frozen != nil {
		if bufBefore == 0 {
			r.Outcome("rollback:below-a-flushed-frozen-buffer")
		} else {
			r.Outcome("rollback:frozen-buffer-linked")
		}
	}
	if err := in.db.Recover(root); err != nil {
		return fmt.Errorf("failed: %v", err)
	}
	dl := in.db.tree.bottom()
	if dl.rootHash() != root || dl.stateID() != uint64(id) {
		return fmt.Errorf("disk layer is %x/%d afterwards", dl.rootHash(), dl.stateID())
	}
	if in.db.tree.len() != 1 {
		return fmt.Errorf("%d layers left afterwards", in.db.tree.len())
	}
	raw := dl.buffer.empty()
	switch {
	case bufBefore == 0:
		r.Outcome("rollback:on-disk")
	case raw:
		r.Outcome("rollback:across-buffer-boundary")
	default:
		r.Outcome("rollback:inside-buffer")
	}
	if err := c17VerifyWorld(in, root, in.worlds[id], raw); err != nil {
		return err
	}
	pid := rawdb.ReadPersistentStateID(in.disk)
	if raw {
		if pid != uint64(id) {
			return fmt.Errorf("persistent state id is %d, expected %d", pid, id)
		}
		if sroot := rawdb.ReadSnapshotRoot(in.disk); sroot != root {
			return fmt.Errorf("snapshot root is %x, expected %x", sroot, root)
		}
	} else if pid > uint64(id) {
		return fmt.Errorf("persistent state id %d is above the recovered state %d", pid, id)
	}
	for i, f := range c17Freezers(in) {
		head, err := f.Ancients()
		if err != nil {
			return err
		}
		if head != uint64(id) {
			return fmt.Errorf("freezer %d holds histories up to %d, expected truncation to %d", i, head, id)
		}
	}
	// states above the target are gone, the target itself is now the live state
	if in.db.Recoverable(root) {
		return errors.New("the recovered root is still reported recoverable")
	}
	for j := id + 1; j < len(in.roots); j++ {
		if _, err := in.db.StateReader(in.roots[j]); err == nil {
			return fmt.Errorf("state %d is still readable after rolling back to %d", j, id)
		}
	}
	if !fork {
		return nil
	}
	// Continue with a different fork: the abandoned roots (their root->id mappings are left in the database) must
	// not be reported recoverable once the new chain has grown past them, and the fork point stays recoverable.
	abandoned := append([]common.Hash{}, in.roots[id+1:]...)
	var origNext string
	n := 0
	for _, op := range ops {
		if op != c17Commit {
			if n == id {
				origNext = op
			}
			n++
		}
	}
	in.roots, in.worlds = in.roots[:id+1], in.worlds[:id+1]
	forkOps := []string{"B+", c17Commit, "A+", c17Commit}
	if origNext == "B+" {
		forkOps = []string{"A+", c17Commit, "B+", c17Commit}
	}
	if _, err := in.run(forkOps); err != nil {
		return fmt.Errorf("extending with a different fork after the rollback: %v", err)
	}
	if err := c17VerifyWorld(in, in.roots[len(in.roots)-1], in.worlds[len(in.worlds)-1], in.db.tree.bottom().buffer.empty()); err != nil {
		return fmt.Errorf("fork head after rollback: %v", err)
	}
	for k, old := range abandoned {
		if in.db.Recoverable(old) {
			return fmt.Errorf("abandoned root of old state %d is reported recoverable after the chain was re-extended", id+1+k)
		}
		before := c17Image(in)
		if err := in.db.Recover(old); err == nil {
			return fmt.Errorf("Recover to the abandoned root of old state %d succeeded", id+1+k)
		}
		if after := c17Image(in); after != before {
			return fmt.Errorf("refused Recover(abandoned root) changed the database:\n%s", c17Diff(before, after))
		}
	}
	r.Outcome("fork:abandoned-roots-refused")
	if !in.db.Recoverable(root) {
		return errors.New("the fork point is not recoverable although two histories lie above it")
	}
	return c17RecoverAndVerify(r, in, root, id, ops, false)
}

func c17Diff(a, b string) string {
	la, lb := strings.Split(a, "\n"), strings.Split(b, "\n")
	in := map[string]bool{}
	for _, l := range la {
		in[l] = true
	}
	var out []string
	for _, l := range lb {
		if !in[l] {
			out = append(out, "+ "+l)
		}
		delete(in, l)
	}
	for l := range in {
		out = append(out, "- "+l)
	}
	sort.Strings(out)
	if len(out) > 12 {
		out = out[:12]
	}
	return strings.Join(out, "\n")
}

// c17Histories enumerates all enabled delta sequences of length 1..maxLen with COMMIT inserted at every position
// (at most maxCommits markers, never two in a row, never first).
func c17Histories(maxLen, maxCommits int) [][]string {
	var out [][]string
	var rec func(w c17World, ops []string, n, commits int)
	rec = func(w c17World, ops []string, n, commits int) {
		if n > 0 {
			out = append(out, append([]string{}, ops...))
			if commits < maxCommits && ops[len(ops)-1] != c17Commit {
				withCommit := append(append([]string{}, ops...), c17Commit)
				out = append(out, withCommit)
				if n < maxLen {
					for _, d := range c17Deltas {
						if nw, ok := c17Step(w, d, uint64(n+1)); ok {
							rec(nw, append(append([]string{}, withCommit...), d), n+1, commits+1)
						}
					}
				}
			}
		}
		if n == maxLen {
			return
		}
		for _, d := range c17Deltas {
			if nw, ok := c17Step(w, d, uint64(n+1)); ok {
				rec(nw, append(append([]string{}, ops...), d), n+1, commits)
			}
		}
	}
	rec(c17World{}, nil, 0, 0)
	// de-duplicate (a history ending in COMMIT is produced once; recursion above also emits prefixes once)
	seen := map[string]bool{}
	var uniq [][]string
	for _, h := range out {
		k := strings.Join(h, ";")
		if !seen[k] {
			seen[k] = true
			uniq = append(uniq, h)
		}
	}
	return uniq
}

func TestVerif_C17(t *testing.T) {
	mc.Run(t, "C17", func(r *mc.R) {
		old := maxDiffLayers
		maxDiffLayers = 1
		defer func() { maxDiffLayers = old }()

		maxLen := mc.Pick(r, 3, 4)
		maxCommits := mc.Pick(r, 1, 2)
		r.Rule("all canonical histories of 1..L state transitions over the delta alphabet {create/modify A, A.slot0:=1|2|absent, A.slot1:=1, destruct A, " +
			"destruct-and-recreate A, create/modify B, B.slot0:=1, destruct B} (only enabled deltas; a sender account's nonce changes in every transition), " +
			"with Commit (flatten+flush) inserted at every position, x configurations {history limit 0|2} x {write buffer 0|1MB} x {trienode history off|on} x " +
			"{synchronous flush | asynchronous flush: awaited through buffer.done after every operation, the frozen buffer stays linked; the flush of the last operation is " +
			"first parked in front of its batch write for one observation of head/disk-layer reads and Recoverable}, " +
			"maxDiffLayers=1; after each history every root ever created + 2 unknown roots is classified by Recoverable; each recoverable root is rolled back to " +
			"on a freshly replayed instance (then the chain is re-extended with a different 2-transition fork, the abandoned roots must be refused, and the fork point is rolled back to again), " +
			"each other root must be refused without any change; quick tier: 4 of the 8 (hist,buffer,trienode) combinations (pairwise covering), each sync and async")
		r.Bound("max_transitions", maxLen)
		r.Bound("max_commits", maxCommits)
		r.Assume("reference = generator-side world structs (root -> accounts, slots); trie package and rawdb key schema are the trusted base; " +
			"in-memory freezers (rawdb.Open with empty ancient dir), synchronous generation; asynchronous flushes are awaited through the package's notification or held at a deterministic gate")
		r.Assume("liveness demanded: a root with id i below the disk layer d is recoverable when the history limit is 0 or i+limit >= d")
		hists := c17Histories(maxLen, maxCommits)
		r.Bound("histories", len(hists))
		var cfgs []c17Cfg
		for _, hist := range []uint64{0, 2} {
			for _, buf := range []int{0, 1 << 20} {
				for _, tn := range []int64{-1, 0} {
					// quick tier: a 2x2 covering half of the cube (every pair of parameter values still occurs)
					if r.Quick() && (hist == 2) != ((buf == 0) != (tn == 0)) {
						continue
					}
					cfgs = append(cfgs, c17Cfg{Hist: hist, Buffer: buf, Trie: tn}, c17Cfg{Hist: hist, Buffer: buf, Trie: tn, Async: true})
				}
			}
		}
		r.Bound("configurations", len(cfgs))
		r.Parallel(len(hists), func(i int) {
			for _, cfg := range cfgs {
				if r.Expired() {
					return
				}
				c := c17Case{cfg, hists[i]}
				r.Case(c, func() error { return c17Check(r, c) })
				r.DistinctHash(mc.Hash64(fmt.Sprint(c)))
			}
			if i%97 == 0 {
				r.Sample(c17Case{cfgs[i%len(cfgs)], hists[i]})
			}
		})
	})
}

var c17CacheSize = 256 * 1024

// c17AttachIndexer builds a historyIndexer for an empty history whose initial indexing run is already finished
// (what indexIniter.index does for an empty freezer: store the metadata with Last=0 and close done). All later
// indexing / un-indexing / pruning goes through the real synchronous paths (extend, shorten, indexSingle, ...).
func c17AttachIndexer(disk ethdb.Database, freezer ethdb.AncientStore, typ historyType) *historyIndexer {
	storeIndexMetadata(disk, typ, 0)
	done := make(chan struct{})
	close(done)
	return &historyIndexer{
		initer: &indexIniter{
			state:     &initerState{state: stateSynced, disk: disk, term: make(chan struct{})},
			disk:      disk,
			freezer:   freezer,
			interrupt: make(chan *interruptSignal),
			done:      done,
			closed:    make(chan struct{}),
			typ:       typ,
			log:       log.New("type", typ.String()),
		},
		pruner:  newIndexPruner(disk, typ),
		typ:     typ,
		disk:    disk,
		freezer: freezer,
	}
}
