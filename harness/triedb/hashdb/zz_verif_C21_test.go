//go:build verif

package hashdb

import (
	"bytes"
	"crypto/sha256"
	"fmt"
	"sort"
	"strconv"
	"strings"
	"sync"
	"sync/atomic"
	"testing"

	"github.com/ethereum/go-ethereum/common"
	"github.com/ethereum/go-ethereum/core/rawdb"
	"github.com/ethereum/go-ethereum/core/types"
	"github.com/ethereum/go-ethereum/crypto"
	"github.com/ethereum/go-ethereum/ethdb"
	"github.com/ethereum/go-ethereum/internal/verif/mc"
	"github.com/ethereum/go-ethereum/rlp"
	"github.com/ethereum/go-ethereum/trie"
	"github.com/ethereum/go-ethereum/trie/trienode"
	"github.com/ethereum/go-ethereum/triedb/database"
	"github.com/holiman/uint256"
)

// ---------------------------------------------------------------------------
// The family of states (account tries with storage tries) that is pushed
// through the hash-scheme node database.
//
// Three accounts A, B, C whose trie keys are laid out so that A and B live
// under a common sub-branch and C is a sibling leaf of that sub-branch; three
// storage tries over three slots laid out the same way, so that storage tries
// share a sub-branch or single leaves with each other. All node encodings are
// >= 32 bytes, i.e. every node is a hashed (reference counted) node.

const c21NAcct = 3

type c21Acct struct {
	Present bool
	Bal     uint64
	Stor    int // index into c21Storages, -1 = no storage
}

type c21State [c21NAcct]c21Acct

var c21Storages = [][3]int{
	{1, 1, 1}, // S0
	{1, 1, 2}, // S1: shares the (slot0,slot1) sub-branch with S0
	{1, 2, 1}, // S2: shares the slot0 leaf with S0,S1 and the slot2 leaf with S0
}

func c21A(bal uint64, stor int) c21Acct { return c21Acct{true, bal, stor} }

var c21None = c21Acct{}

// c21Family: T0 is the base; T1 changes only A's balance (A's storage trie is
// kept by reference: external reference from a new account leaf to an old
// storage root); T2 makes two accounts share one storage root; T3 changes
// only C (the (A,B) sub-branch is shared with T0); T4 deletes B (the sub-branch
// collapses) and moves A to S2; T5 puts A back to T0's leaf next to T1's B/C
// shape and gives C a storage trie.
var c21Family = []c21State{
	{c21A(1, 0), c21A(1, 1), c21A(1, -1)}, // T0
	{c21A(2, 0), c21A(1, 1), c21A(1, -1)}, // T1
	{c21A(2, 0), c21A(1, 0), c21A(1, -1)}, // T2
	{c21A(1, 0), c21A(1, 1), c21A(2, -1)}, // T3
	{c21A(1, 2), c21None, c21A(1, -1)},    // T4
	{c21A(1, 0), c21A(1, 0), c21A(2, 2)},  // T5
}

func c21Key(first byte) []byte {
	k := make([]byte, 32)
	k[0] = first
	for i := 1; i < 32; i++ {
		k[i] = byte(0x30 + i)
	}
	return k
}

var c21AcctKeys = [c21NAcct][]byte{c21Key(0x11), c21Key(0x12), c21Key(0x20)}
var c21SlotKeys = [3][]byte{c21Key(0x11), c21Key(0x12), c21Key(0x20)}

func c21SlotVal(v int) []byte {
	raw := bytes.Repeat([]byte{byte(0xa0 + v)}, 32)
	enc, _ := rlp.EncodeToBytes(raw)
	return enc
}

// c21Store is the plain content-addressed node store used only to *prepare*
// the node sets that are fed into the database under test (it stands for "the
// parent state was readable when the block was executed").
type c21Store struct{ m map[common.Hash][]byte }

func (s *c21Store) NodeReader(root common.Hash) (database.NodeReader, error) { return s, nil }
func (s *c21Store) Node(owner common.Hash, path []byte, hash common.Hash) ([]byte, error) {
	return s.m[hash], nil
}

type c21World struct {
	states    []c21State
	roots     []common.Hash
	storRoots []common.Hash
	ids       map[common.Hash]int
	hashes    []common.Hash
	blobs     [][]byte
	nodes     []map[common.Hash]bool       // expected complete node set of state i (from the from-empty commit)
	sets      [][]*trienode.MergedNodeSet // sets[i][j+1]: node set of the transition state j -> state i (j = -1: from the empty state)
	setHashes [][]map[common.Hash]bool
	steps     [][][]*trienode.MergedNodeSet // sets[i][j+1] split into consecutive Update calls (see c21Split)
	kids      map[common.Hash][]common.Hash // children of a node: hash references inside the blob + the storage root of an account leaf
	store     *c21Store

	// outcome counters
	validated sync.Map // [16]byte(sha256(state key, op)) -> oracle passed
	nOracle   atomic.Int64
	nLeak     atomic.Int64
	nGC, nCapPartial, nCapAll, nCommitShared, nReinsert, nExtSkip, nDerefNoop, nRefNoop, nLiveChecks, nDiskReads atomic.Int64
}

func (w *c21World) absorb(set *trienode.MergedNodeSet) {
	// deterministic numbering of the nodes (names in keys and messages)
	var owners []common.Hash
	for owner := range set.Sets {
		owners = append(owners, owner)
	}
	sort.Slice(owners, func(a, b int) bool { return bytes.Compare(owners[a][:], owners[b][:]) < 0 })
	for _, owner := range owners {
		set.Sets[owner].ForEachWithOrder(func(path string, n *trienode.Node) {
			if n.IsDeleted() {
				return
			}
			if _, ok := w.ids[n.Hash]; !ok {
				w.ids[n.Hash] = len(w.hashes)
				w.hashes = append(w.hashes, n.Hash)
				w.blobs = append(w.blobs, n.Blob)
			}
			w.store.m[n.Hash] = n.Blob
		})
	}
}

// c21Build executes the state transition parent -> target the way StateDB.Commit
// does: storage tries of changed accounts are opened at their old root, changed,
// committed; the account trie is opened at the parent root, the changed account
// leaves are written, and it is committed with leaf collection.
func (w *c21World) build(target c21State, parent *c21State, parentRoot common.Hash) (common.Hash, *trienode.MergedNodeSet, error) {
	merged := trienode.NewMergedNodeSet()
	acc, err := trie.New(trie.StateTrieID(parentRoot), w.store)
	if err != nil {
		return common.Hash{}, nil, err
	}
	for a := 0; a < c21NAcct; a++ {
		old := c21None
		if parent != nil {
			old = parent[a]
		}
		nw := target[a]
		if old == nw {
			continue
		}
		owner := common.BytesToHash(c21AcctKeys[a])
		oldSlots, newSlots := [3]int{}, [3]int{}
		oldRoot := types.EmptyRootHash
		if old.Present && old.Stor >= 0 {
			oldSlots = c21Storages[old.Stor]
			oldRoot = w.storRoots[old.Stor]
		}
		if nw.Present && nw.Stor >= 0 {
			newSlots = c21Storages[nw.Stor]
		}
		newRoot := oldRoot
		if oldSlots != newSlots {
			st, err := trie.New(trie.StorageTrieID(parentRoot, owner, oldRoot), w.store)
			if err != nil {
				return common.Hash{}, nil, err
			}
			for s := 0; s < 3; s++ {
				switch {
				case newSlots[s] == oldSlots[s]:
				case newSlots[s] == 0:
					if err := st.Delete(c21SlotKeys[s]); err != nil {
						return common.Hash{}, nil, err
					}
				default:
					if err := st.Update(c21SlotKeys[s], c21SlotVal(newSlots[s])); err != nil {
						return common.Hash{}, nil, err
					}
				}
			}
			var set *trienode.NodeSet
			newRoot, set = st.Commit(false)
			if set != nil {
				if err := merged.Merge(set); err != nil {
					return common.Hash{}, nil, err
				}
			}
		}
		if !nw.Present {
			if err := acc.Delete(c21AcctKeys[a]); err != nil {
				return common.Hash{}, nil, err
			}
			continue
		}
		enc, _ := rlp.EncodeToBytes(&types.StateAccount{Nonce: 1, Balance: uint256.NewInt(nw.Bal), Root: newRoot, CodeHash: types.EmptyCodeHash.Bytes()})
		if err := acc.Update(c21AcctKeys[a], enc); err != nil {
			return common.Hash{}, nil, err
		}
	}
	root, set := acc.Commit(true)
	if set != nil {
		if err := merged.Merge(set); err != nil {
			return common.Hash{}, nil, err
		}
	}
	return root, merged, nil
}

// c21Split makes the insertion order of a node set deterministic. hashdb.Update
// walks the storage tries of a merged node set in Go map iteration order, so with
// two storage tries that both bring new nodes the flush-list order would differ
// from run to run. Update only inserts the sets one after the other (storage
// tries first, account trie last) and then links the account leaves, hence one
// call whose iteration order is (o1, o2, ..., account) is equivalent to the calls
// Update({o1}); Update({o2}); ...; Update({ok, account}). The owners are taken in
// ascending order; sets that only delete nodes insert nothing and stay in the
// last call.
func c21Split(set *trienode.MergedNodeSet) []*trienode.MergedNodeSet {
	var inserting []common.Hash
	for owner, sub := range set.Sets {
		if owner == (common.Hash{}) {
			continue
		}
		for _, n := range sub.Nodes {
			if !n.IsDeleted() {
				inserting = append(inserting, owner)
				break
			}
		}
	}
	if len(inserting) <= 1 {
		return []*trienode.MergedNodeSet{set}
	}
	sort.Slice(inserting, func(a, b int) bool { return bytes.Compare(inserting[a][:], inserting[b][:]) < 0 })
	var steps []*trienode.MergedNodeSet
	alone := map[common.Hash]bool{}
	for _, owner := range inserting[:len(inserting)-1] {
		m := trienode.NewMergedNodeSet()
		m.Sets[owner] = set.Sets[owner]
		steps = append(steps, m)
		alone[owner] = true
	}
	last := trienode.NewMergedNodeSet()
	for owner, sub := range set.Sets {
		if !alone[owner] {
			last.Sets[owner] = sub
		}
	}
	return append(steps, last)
}

func c21NewWorld(n int) (*c21World, error) {
	w := &c21World{states: c21Family[:n], ids: map[common.Hash]int{}, kids: map[common.Hash][]common.Hash{}, store: &c21Store{m: map[common.Hash][]byte{}}}
	// storage roots (plain tries built from scratch)
	for _, slots := range c21Storages {
		st := trie.NewEmpty(w.store)
		for s, v := range slots {
			if v != 0 {
				st.MustUpdate(c21SlotKeys[s], c21SlotVal(v))
			}
		}
		w.storRoots = append(w.storRoots, st.Hash())
	}
	w.sets = make([][]*trienode.MergedNodeSet, n)
	w.setHashes = make([][]map[common.Hash]bool, n)
	for i := 0; i < n; i++ {
		root, set, err := w.build(w.states[i], nil, types.EmptyRootHash)
		if err != nil {
			return nil, err
		}
		w.absorb(set)
		w.roots = append(w.roots, root)
		all := map[common.Hash]bool{}
		for _, sub := range set.Sets {
			for _, nd := range sub.Nodes {
				if !nd.IsDeleted() {
					if crypto.Keccak256Hash(nd.Blob) != nd.Hash {
						return nil, fmt.Errorf("node set of state %d: blob does not hash to its key", i)
					}
					all[nd.Hash] = true
				}
			}
		}
		w.nodes = append(w.nodes, all)
		for _, sub := range set.Sets {
			for _, nd := range sub.Nodes {
				if !nd.IsDeleted() && w.kids[nd.Hash] == nil {
					kids := []common.Hash{}
					trie.ForGatherChildren(nd.Blob, func(c common.Hash) { kids = append(kids, c) })
					w.kids[nd.Hash] = kids
				}
			}
		}
		if acc := set.Sets[common.Hash{}]; acc != nil {
			for _, leaf := range acc.Leaves {
				var a types.StateAccount
				if err := rlp.DecodeBytes(leaf.Blob, &a); err != nil {
					return nil, err
				}
				if a.Root != types.EmptyRootHash {
					dup := false
					for _, c := range w.kids[leaf.Parent] {
						dup = dup || c == a.Root
					}
					if !dup {
						w.kids[leaf.Parent] = append(w.kids[leaf.Parent], a.Root)
					}
				}
			}
		}
		w.sets[i] = make([]*trienode.MergedNodeSet, n+1)
		w.sets[i][0] = set
	}
	for i := 0; i < n; i++ {
		for j := 0; j < n; j++ {
			if i == j {
				continue
			}
			root, set, err := w.build(w.states[i], &w.states[j], w.roots[j])
			if err != nil {
				return nil, fmt.Errorf("transition %d->%d: %v", j, i, err)
			}
			if root != w.roots[i] {
				return nil, fmt.Errorf("transition %d->%d: root differs from the from-scratch root", j, i)
			}
			w.sets[i][j+1] = set
		}
	}
	w.steps = make([][][]*trienode.MergedNodeSet, n)
	for i := 0; i < n; i++ {
		w.setHashes[i] = make([]map[common.Hash]bool, n+1)
		w.steps[i] = make([][]*trienode.MergedNodeSet, n+1)
		for j := 0; j <= n; j++ {
			if w.sets[i][j] == nil {
				continue
			}
			w.steps[i][j] = c21Split(w.sets[i][j])
			hs := map[common.Hash]bool{}
			for _, sub := range w.sets[i][j].Sets {
				for _, nd := range sub.Nodes {
					if !nd.IsDeleted() {
						hs[nd.Hash] = true
						if !w.nodes[i][nd.Hash] {
							return nil, fmt.Errorf("transition %d->%d produced a node outside the from-scratch node set", j-1, i)
						}
					}
				}
			}
			w.setHashes[i][j] = hs
		}
	}
	return w, nil
}

// ---------------------------------------------------------------------------
// System under exploration.

type c21Op struct {
	kind string // upE upH upP ref deref cap0 capHalf capOne capSize commit
	i, j int
}

func (o c21Op) name() string {
	switch o.kind {
	case "upE":
		return fmt.Sprintf("Update(T%d<-empty)+Ref", o.i)
	case "upN":
		return fmt.Sprintf("Update(T%d<-empty)", o.i)
	case "upH":
		return fmt.Sprintf("Update(T%d<-head)+Ref", o.i)
	case "upP":
		return fmt.Sprintf("Update(T%d<-T%d)+Ref", o.i, o.j)
	case "ref":
		return fmt.Sprintf("Reference(T%d)", o.i)
	case "deref":
		return fmt.Sprintf("Dereference(T%d)", o.i)
	case "commit":
		return fmt.Sprintf("Commit(T%d)", o.i)
	case "cap0":
		return "Cap(0)"
	case "capHalf":
		return "Cap(size/2)"
	case "capOne":
		return "Cap(size-1)"
	case "capSize":
		return "Cap(size)"
	}
	return o.kind
}

func c21Ops(n int, allParents bool) []c21Op {
	var ops []c21Op
	for i := 0; i < n; i++ {
		ops = append(ops, c21Op{kind: "upE", i: i})
	}
	if allParents {
		for i := 0; i < n; i++ {
			for j := 0; j < n; j++ {
				if i != j {
					ops = append(ops, c21Op{kind: "upP", i: i, j: j})
				}
			}
		}
	} else {
		for i := 0; i < n; i++ {
			ops = append(ops, c21Op{kind: "upH", i: i})
		}
	}
	for i := 0; i < n; i++ {
		if i == 0 || i == 2 { // the un-referenced Update only for T0 and T2
			ops = append(ops, c21Op{kind: "upN", i: i})
		}
	}
	for i := 0; i < n; i++ {
		ops = append(ops, c21Op{kind: "deref", i: i})
	}
	for i := 0; i < n; i++ {
		// the bare Reference only for T0 and T2 (Update(Ti<-empty)+Ref on a held root adds a reference for the others)
		if i == 0 || i == 2 {
			ops = append(ops, c21Op{kind: "ref", i: i})
		}
	}
	ops = append(ops, c21Op{kind: "cap0"}, c21Op{kind: "capOne"}, c21Op{kind: "capHalf"}, c21Op{kind: "capSize"})
	for i := 0; i < n; i++ {
		ops = append(ops, c21Op{kind: "commit", i: i})
	}
	return ops
}

const c21MaxRef = 2
const c21ExploreName = "gc"

type c21Sys struct {
	w         *c21World
	ops       []c21Op
	disk      ethdb.Database
	db        *Database
	cnt       []int  // model: References minus Dereferences per root
	committed []bool // model: roots that were committed while live
	head      int    // most recently updated state, -1 = none
	block     uint64
	lastKey   string
	r         *mc.R
	names     []string // operations applied so far
	pending   []bool   // model: root was Update'd without a Reference and not dereferenced since (kept until Dereference)
	explore   string   // name of the exploration (for replay descriptors)
	// orphans: cached nodes one of whose parents was flushed by a Cap while the node itself
	// stayed cached (the flushed parent was older than the child it references). Cap does not
	// release the reference the flushed parent holds, and nothing cascades to the child any
	// more. This is the exact precondition of the registered finding garbage-after-partial-cap.
	orphans map[common.Hash]bool
}

func c21NewSys(r *mc.R, w *c21World, ops []c21Op) *c21Sys {
	disk := rawdb.NewMemoryDatabase()
	return &c21Sys{r: r, w: w, ops: ops, disk: disk, db: New(disk, nil), cnt: make([]int, len(w.states)), committed: make([]bool, len(w.states)), head: -1,
		pending: make([]bool, len(w.states)), explore: c21ExploreName, orphans: map[common.Hash]bool{}}
}

func (s *c21Sys) live(i int) bool { return s.cnt[i] > 0 || s.committed[i] || s.pending[i] }

// holds reports whether root i keeps its nodes in the cache (a reference, or an Update that was not dereferenced yet).
func (s *c21Sys) holds(i int) bool { return s.cnt[i] > 0 || s.pending[i] }

func (s *c21Sys) Enabled(op int) bool {
	o := s.ops[op]
	switch o.kind {
	case "upE":
		return s.cnt[o.i] < c21MaxRef
	case "upN":
		return s.cnt[o.i] == 0 && !s.pending[o.i]
	case "upH":
		return s.cnt[o.i] < c21MaxRef && s.head >= 0 && s.head != o.i && s.live(s.head)
	case "upP":
		return s.cnt[o.i] < c21MaxRef && s.live(o.j)
	case "ref":
		return s.holds(o.i) && s.cnt[o.i] < c21MaxRef
	case "deref":
		return s.holds(o.i)
	case "commit":
		return s.holds(o.i)
	case "capOne", "capHalf", "capSize":
		return len(s.db.dirties) > 0
	}
	return true
}

type c21Snap struct {
	flush []common.Hash
	size  []int // accounted size of each flush-list entry
	total int
	disk  map[common.Hash]bool
}

// c21Structure checks the internal consistency of the dirty cache: the flush-list
// is a doubly linked permutation of dirties, the size counters equal the
// recomputed sums, blobs hash to their keys.
func (s *c21Sys) structure() (*c21Snap, error) {
	db := s.db
	snap := &c21Snap{disk: map[common.Hash]bool{}}
	if len(db.dirties) == 0 {
		// An empty cache is recognised by insert() through oldest == {} alone (it then
		// resets both ends), so a stale newest is not observable and not demanded here.
		if db.oldest != (common.Hash{}) {
			return nil, fmt.Errorf("flush-list: dirties is empty but oldest=%x", db.oldest[:4])
		}
	}
	seen := map[common.Hash]bool{}
	prev := common.Hash{}
	var dsum, csum int
	for h := db.oldest; h != (common.Hash{}); {
		n := db.dirties[h]
		if n == nil {
			return nil, fmt.Errorf("flush-list: entry %s (after %s) is not in dirties", s.nm(h), s.nm(prev))
		}
		if seen[h] {
			return nil, fmt.Errorf("flush-list: cycle at %s", s.nm(h))
		}
		seen[h] = true
		// The back link of the oldest entry is never read (every unlink handles
		// hash == oldest first), and insert() into a drained cache leaves the stale
		// newest in it; it is therefore only demanded for the inner entries.
		if h != db.oldest && n.flushPrev != prev {
			return nil, fmt.Errorf("flush-list: %s.flushPrev=%s, but it follows %s", s.nm(h), s.nm(n.flushPrev), s.nm(prev))
		}
		if crypto.Keccak256Hash(n.node) != h {
			return nil, fmt.Errorf("dirties: blob of %s does not hash to its key", s.nm(h))
		}
		sz := common.HashLength + len(n.node) + cachedNodeSize + common.HashLength*len(n.external)
		snap.flush = append(snap.flush, h)
		snap.size = append(snap.size, sz)
		snap.total += sz
		dsum += common.HashLength + len(n.node)
		csum += common.HashLength * len(n.external)
		prev = h
		h = n.flushNext
	}
	if len(db.dirties) > 0 && prev != db.newest {
		return nil, fmt.Errorf("flush-list: walk from oldest ends at %s, newest=%s", s.nm(prev), s.nm(db.newest))
	}
	if len(seen) != len(db.dirties) {
		return nil, fmt.Errorf("flush-list: %d entries linked, dirties holds %d (flush-list is not a permutation of dirties)", len(seen), len(db.dirties))
	}
	if int(db.dirtiesSize) != dsum {
		return nil, fmt.Errorf("size: dirtiesSize=%d, recomputed %d", int(db.dirtiesSize), dsum)
	}
	if int(db.childrenSize) != csum {
		return nil, fmt.Errorf("size: childrenSize=%d, recomputed %d", int(db.childrenSize), csum)
	}
	if d, sz := db.Size(); d != 0 || int(sz) != snap.total {
		return nil, fmt.Errorf("size: Size()=(%d,%d), recomputed (0,%d)", int(d), int(sz), snap.total)
	}
	it := s.disk.NewIterator(nil, nil)
	for it.Next() {
		k := common.BytesToHash(it.Key())
		if len(it.Key()) != common.HashLength || crypto.Keccak256Hash(it.Value()) != k {
			it.Release()
			return nil, fmt.Errorf("disk: entry %x does not hold a node hashing to its key", it.Key())
		}
		snap.disk[k] = true
	}
	it.Release()
	return snap, nil
}

func (s *c21Sys) nm(h common.Hash) string {
	if h == (common.Hash{}) {
		return "nil"
	}
	if id, ok := s.w.ids[h]; ok {
		return "n" + strconv.Itoa(id)
	}
	return fmt.Sprintf("%x", h[:4])
}

func (s *c21Sys) nms(hs []common.Hash) string {
	out := make([]string, len(hs))
	for i, h := range hs {
		out[i] = s.nm(h)
	}
	return "[" + strings.Join(out, " ") + "]"
}

// c21Subseq reports whether b is a subsequence of a and returns the removed elements.
func c21Subseq(a, b []common.Hash) (bool, []common.Hash) {
	var removed []common.Hash
	j := 0
	for _, h := range a {
		if j < len(b) && b[j] == h {
			j++
		} else {
			removed = append(removed, h)
		}
	}
	return j == len(b), removed
}

// checkLive: every node of every referenced (or committed) root is readable with
// the right content through the database's NodeReader, and a real trie opened on
// the database walks to exactly the model's accounts and slots.
func (s *c21Sys) checkLive() error {
	for i := range s.w.states {
		if !s.live(i) {
			continue
		}
		s.w.nLiveChecks.Add(1)
		root := s.w.roots[i]
		rd, err := s.db.NodeReader(root)
		if err != nil {
			return fmt.Errorf("live-node-lost: NodeReader(T%d) (refs=%d committed=%v): %v", i, s.cnt[i], s.committed[i], err)
		}
		for h := range s.w.nodes[i] {
			blob, err := rd.Node(common.Hash{}, nil, h)
			if err != nil || !bytes.Equal(blob, s.w.blobs[s.w.ids[h]]) {
				return fmt.Errorf("live-node-lost: node %s reachable from T%d (refs=%d committed=%v) is not readable (got %d bytes, err=%v)", s.nm(h), i, s.cnt[i], s.committed[i], len(blob), err)
			}
			if _, inMem := s.db.dirties[h]; !inMem {
				s.w.nDiskReads.Add(1)
			}
		}
		// walk with the real trie code
		got, err := s.walk(root)
		if err != nil {
			return fmt.Errorf("live-node-lost: walking T%d (refs=%d committed=%v): %v", i, s.cnt[i], s.committed[i], err)
		}
		if got != s.w.states[i] {
			return fmt.Errorf("walk of T%d returned %v, model %v", i, got, s.w.states[i])
		}
	}
	return nil
}

func (s *c21Sys) walk(root common.Hash) (c21State, error) {
	var out c21State
	tr, err := trie.New(trie.StateTrieID(root), s.db)
	if err != nil {
		return out, err
	}
	nit, err := tr.NodeIterator(nil)
	if err != nil {
		return out, err
	}
	it := trie.NewIterator(nit)
	for it.Next() {
		a := -1
		for k := range c21AcctKeys {
			if bytes.Equal(c21AcctKeys[k], it.Key) {
				a = k
			}
		}
		if a < 0 {
			return out, fmt.Errorf("unknown account key %x", it.Key)
		}
		var acct types.StateAccount
		if err := rlp.DecodeBytes(it.Value, &acct); err != nil {
			return out, err
		}
		out[a] = c21Acct{Present: true, Bal: acct.Balance.Uint64(), Stor: -1}
		if acct.Root == types.EmptyRootHash {
			continue
		}
		st, err := trie.New(trie.StorageTrieID(root, common.BytesToHash(it.Key), acct.Root), s.db)
		if err != nil {
			return out, err
		}
		snit, err := st.NodeIterator(nil)
		if err != nil {
			return out, err
		}
		var slots [3]int
		sit := trie.NewIterator(snit)
		for sit.Next() {
			k := -1
			for x := range c21SlotKeys {
				if bytes.Equal(c21SlotKeys[x], sit.Key) {
					k = x
				}
			}
			if k < 0 {
				return out, fmt.Errorf("unknown slot key %x", sit.Key)
			}
			for v := 1; v <= 2; v++ {
				if bytes.Equal(sit.Value, c21SlotVal(v)) {
					slots[k] = v
				}
			}
			if slots[k] == 0 {
				return out, fmt.Errorf("unknown slot value %x", sit.Value)
			}
		}
		if sit.Err != nil {
			return out, sit.Err
		}
		for x, sl := range c21Storages {
			if sl == slots && s.w.storRoots[x] == acct.Root {
				out[a].Stor = x
			}
		}
		if out[a].Stor < 0 {
			return out, fmt.Errorf("storage of account %d (%v) matches no model storage", a, slots)
		}
	}
	if it.Err != nil {
		return out, it.Err
	}
	return out, nil
}

// checkNoGarbage: every cached node is reachable from a root that still holds a
// reference; in particular the cache is empty when no references are left.
// garbage returns the cached nodes that no holding root (reference, or Update not yet
// dereferenced) reaches.
func (s *c21Sys) garbage(flush []common.Hash, holds []bool) []common.Hash {
	var out []common.Hash
	for _, h := range flush {
		ok := false
		for i := range holds {
			if holds[i] && s.w.nodes[i][h] {
				ok = true
				break
			}
		}
		if !ok {
			out = append(out, h)
		}
	}
	return out
}

// checkNoGarbage: every cached node is reachable from a root that still holds it; in
// particular the cache is empty (Size()==0 follows from the size check) when nothing is
// held any more. The only cached garbage that is reported under the separate key class
// garbage-after-partial-cap is the one explained exactly by that finding's precondition:
// an orphan (a parent of it was flushed by Cap while it stayed cached) or a node below an
// orphan. It is reported when it appears; the history is explored further with the
// oracle unchanged for all other nodes.
func (s *c21Sys) checkNoGarbage(o c21Op, pre, post *c21Snap, holdsBefore []bool) error {
	holds := make([]bool, len(s.cnt))
	anyHold := false
	for i := range s.cnt {
		holds[i] = s.holds(i)
		anyHold = anyHold || holds[i]
	}
	garbage := s.garbage(post.flush, holds)
	if len(garbage) == 0 {
		return nil
	}
	excused := map[common.Hash]bool{}
	var mark func(h common.Hash)
	mark = func(h common.Hash) {
		if excused[h] {
			return
		}
		if _, cached := s.db.dirties[h]; !cached {
			return
		}
		excused[h] = true
		for _, c := range s.w.kids[h] {
			mark(c)
		}
	}
	for h := range s.orphans {
		mark(h)
	}
	for _, h := range garbage {
		if !excused[h] {
			if !anyHold {
				return fmt.Errorf("garbage-kept: all references are gone but dirties still holds %s (parents=%d); dirties=%s", s.nm(h), s.db.dirties[h].parents, s.nms(post.flush))
			}
			return fmt.Errorf("garbage-kept: cached node %s (parents=%d) is reachable from no referenced root (refs=%v pending=%v); dirties=%s", s.nm(h), s.db.dirties[h].parents, s.cnt, s.pending, s.nms(post.flush))
		}
	}
	// all garbage is explained by orphaning: report it when it is new
	was := map[common.Hash]bool{}
	for _, h := range s.garbage(pre.flush, holdsBefore) {
		was[h] = true
	}
	fresh := false
	for _, h := range garbage {
		fresh = fresh || !was[h]
	}
	if fresh {
		s.w.nLeak.Add(1)
		if s.r != nil {
			names := append([]string{}, s.names...)
			s.r.Violation("garbage-after-partial-cap:"+s.explore+":"+strings.Join(names, ";"),
				fmt.Sprintf("at op %s: cached garbage %s is left below nodes orphaned by Cap (a flushed parent was older than the child it references); refs=%v dirties=%s", o.name(), s.nms(garbage), s.cnt, s.nms(post.flush)),
				map[string]any{"explore": s.explore, "ops": names})
			return nil
		}
		return fmt.Errorf("garbage-after-partial-cap: cached garbage %s left below nodes orphaned by Cap; dirties=%s", s.nms(garbage), s.nms(post.flush))
	}
	return nil
}

func (s *c21Sys) onDisk(h common.Hash) bool {
	return bytes.Equal(rawdb.ReadLegacyTrieNode(s.disk, h), s.w.blobs[s.w.ids[h]])
}

// Apply executes the operation on the real database and on the model. The full
// oracle runs the first time a (state, operation) pair is seen anywhere in the
// exploration; when the same pair is executed again (the BFS rebuilds states by
// replaying their operation list) only the operation itself is executed. The
// state is the complete key used for de-duplication (model + white-box
// fingerprint), and every field the oracle reads is part of that key.
func (s *c21Sys) Apply(op int) error {
	if s.lastKey == "" {
		s.lastKey = s.computeKey()
	}
	memo := sha256.Sum256([]byte(s.lastKey + "#" + strconv.Itoa(op)))
	var mk [16]byte
	copy(mk[:], memo[:16])
	_, known := s.w.validated.Load(mk)
	s.names = append(s.names, s.ops[op].name())
	err := s.apply(op, !known)
	s.lastKey = s.computeKey()
	if err == nil && !known {
		s.w.validated.Store(mk, struct{}{})
		s.w.nOracle.Add(1)
	}
	return err
}

func (s *c21Sys) apply(op int, check bool) error {
	o := s.ops[op]
	w := s.w
	var pre *c21Snap
	if check {
		var err error
		if pre, err = s.structure(); err != nil {
			return fmt.Errorf("before op: %v", err)
		}
	} else {
		pre = &c21Snap{total: s.accounted()}
	}
	diskMayChange := false
	var limit int
	holdsBefore := make([]bool, len(s.cnt))
	for i := range s.cnt {
		holdsBefore[i] = s.holds(i)
	}
	switch o.kind {
	case "upE", "upH", "upP", "upN":
		j := -1
		if o.kind == "upH" {
			j = s.head
		} else if o.kind == "upP" {
			j = o.j
		}
		parent := types.EmptyRootHash
		if j >= 0 {
			parent = w.roots[j]
		}
		for h := range w.setHashes[o.i][j+1] {
			if _, in := s.db.dirties[h]; check && !in && pre.disk[h] {
				w.nReinsert.Add(1)
				break
			}
		}
		s.block++
		for _, part := range w.steps[o.i][j+1] {
			if err := s.db.Update(w.roots[o.i], parent, s.block, part); err != nil {
				return fmt.Errorf("Update: %v", err)
			}
		}
		if o.kind == "upN" {
			s.pending[o.i] = true
		} else {
			s.db.Reference(w.roots[o.i], common.Hash{})
			s.cnt[o.i]++
			s.pending[o.i] = false
		}
		s.head = o.i
	case "ref":
		if _, in := s.db.dirties[w.roots[o.i]]; check && !in {
			w.nRefNoop.Add(1)
		}
		s.db.Reference(w.roots[o.i], common.Hash{})
		s.cnt[o.i]++
		s.pending[o.i] = false
	case "deref":
		if _, in := s.db.dirties[w.roots[o.i]]; check && !in {
			w.nDerefNoop.Add(1)
		}
		s.db.Dereference(w.roots[o.i])
		if s.cnt[o.i] > 0 {
			s.cnt[o.i]--
		} else {
			s.pending[o.i] = false
		}
	case "commit":
		diskMayChange = true
		if err := s.db.Commit(w.roots[o.i], false); err != nil {
			return fmt.Errorf("Commit: %v", err)
		}
		s.committed[o.i] = true
		s.pending[o.i] = false
	case "cap0", "capOne", "capHalf", "capSize":
		diskMayChange = true
		switch o.kind {
		case "cap0":
			limit = 0
		case "capOne":
			limit = pre.total - 1
		case "capHalf":
			limit = pre.total / 2
		case "capSize":
			limit = pre.total
		}
		before := make([]common.Hash, 0, len(s.db.dirties))
		for h := range s.db.dirties {
			before = append(before, h)
		}
		if err := s.db.Cap(common.StorageSize(limit)); err != nil {
			return fmt.Errorf("Cap: %v", err)
		}
		// a flushed node whose child stays cached leaves that child orphaned
		for _, h := range before {
			if _, still := s.db.dirties[h]; still {
				continue
			}
			for _, c := range w.kids[h] {
				if _, cached := s.db.dirties[c]; cached {
					s.orphans[c] = true
				}
			}
		}
	}
	for h := range s.orphans {
		if _, cached := s.db.dirties[h]; !cached {
			delete(s.orphans, h)
		}
	}
	if !check {
		return nil
	}
	post, err := s.structure()
	if err != nil {
		return err
	}
	// the disk never loses a node, and only Cap / Commit write to it
	for h := range pre.disk {
		if !post.disk[h] {
			return fmt.Errorf("disk: node %s disappeared from disk", s.nm(h))
		}
	}
	if !diskMayChange && len(post.disk) != len(pre.disk) {
		return fmt.Errorf("disk: %s wrote to disk", o.name())
	}
	// op specific effects on the cache
	switch o.kind {
	case "upE", "upH", "upP", "upN":
		if len(post.flush) < len(pre.flush) || !c21EqualHashes(post.flush[:len(pre.flush)], pre.flush) {
			return fmt.Errorf("Update changed existing flush-list entries: %s -> %s", s.nms(pre.flush), s.nms(post.flush))
		}
	case "ref":
		if !c21EqualHashes(pre.flush, post.flush) {
			return fmt.Errorf("Reference changed the cache: %s -> %s", s.nms(pre.flush), s.nms(post.flush))
		}
	case "deref":
		ok, removed := c21Subseq(pre.flush, post.flush)
		if !ok {
			return fmt.Errorf("Dereference reordered the flush-list: %s -> %s", s.nms(pre.flush), s.nms(post.flush))
		}
		if len(removed) > 0 {
			w.nGC.Add(1)
		}
	case "commit":
		ok, removed := c21Subseq(pre.flush, post.flush)
		if !ok {
			return fmt.Errorf("Commit reordered the flush-list: %s -> %s", s.nms(pre.flush), s.nms(post.flush))
		}
		for _, h := range removed {
			if !w.nodes[o.i][h] {
				return fmt.Errorf("Commit(T%d) uncached %s which is not part of T%d", o.i, s.nm(h), o.i)
			}
			for k := range s.cnt {
				if k != o.i && s.cnt[k] > 0 && w.nodes[k][h] {
					w.nCommitShared.Add(1)
					break
				}
			}
		}
		for h := range w.nodes[o.i] {
			if !s.onDisk(h) {
				return fmt.Errorf("Commit(T%d): node %s of the committed trie is not on disk", o.i, s.nm(h))
			}
		}
		if _, in := s.db.dirties[w.roots[o.i]]; in {
			return fmt.Errorf("Commit(T%d): root still in dirties", o.i)
		}
	case "cap0", "capOne", "capHalf", "capSize":
		// specification: flush from the oldest end the minimal prefix after which the accounted size is <= limit
		k, rest := 0, pre.total
		for rest > limit && k < len(pre.flush) {
			rest -= pre.size[k]
			k++
		}
		if !c21EqualHashes(pre.flush[k:], post.flush) {
			return fmt.Errorf("%s (limit %d of %d): expected the oldest %d entries flushed, flush-list %s -> %s", o.name(), limit, pre.total, k, s.nms(pre.flush), s.nms(post.flush))
		}
		for _, h := range pre.flush[:k] {
			if !s.onDisk(h) {
				return fmt.Errorf("%s: flushed node %s is not on disk", o.name(), s.nm(h))
			}
		}
		if k == len(pre.flush) {
			w.nCapAll.Add(1)
		} else if k > 0 {
			w.nCapPartial.Add(1)
		}
	}
	if err := s.checkLive(); err != nil {
		return err
	}
	return s.checkNoGarbage(o, pre, post, holdsBefore)
}

func c21EqualHashes(a, b []common.Hash) bool {
	if len(a) != len(b) {
		return false
	}
	for i := range a {
		if a[i] != b[i] {
			return false
		}
	}
	return true
}

func (s *c21Sys) Key() string {
	if s.lastKey == "" {
		s.lastKey = s.computeKey()
	}
	return s.lastKey
}

// accounted recomputes the memory usage from the cache contents (used to choose
// the Cap limits when the snapshot is not taken).
func (s *c21Sys) accounted() int {
	t := 0
	for _, n := range s.db.dirties {
		t += common.HashLength + len(n.node) + cachedNodeSize + common.HashLength*len(n.external)
	}
	return t
}

func (s *c21Sys) computeKey() string {
	var b strings.Builder
	for i := range s.cnt {
		b.WriteByte(byte('0' + s.cnt[i]))
		if s.committed[i] {
			b.WriteByte('c')
		}
		if s.pending[i] {
			b.WriteByte('p')
		}
	}
	fmt.Fprintf(&b, "h%d|", s.head)
	if len(s.orphans) > 0 {
		var or []int
		for h := range s.orphans {
			or = append(or, s.w.ids[h])
		}
		sort.Ints(or)
		fmt.Fprintf(&b, "o%v|", or)
	}
	for h := s.db.oldest; h != (common.Hash{}); {
		n := s.db.dirties[h]
		if n == nil {
			b.WriteString("?")
			break
		}
		fmt.Fprintf(&b, "%d:%d", s.w.ids[h], n.parents)
		if len(n.external) > 0 {
			var ex []int
			for c := range n.external {
				ex = append(ex, s.w.ids[c])
			}
			sort.Ints(ex)
			fmt.Fprintf(&b, "x%v", ex)
		}
		b.WriteByte(',')
		h = n.flushNext
	}
	b.WriteByte('|')
	var onDisk []int
	it := s.disk.NewIterator(nil, nil)
	for it.Next() {
		onDisk = append(onDisk, s.w.ids[common.BytesToHash(it.Key())])
	}
	it.Release()
	sort.Ints(onDisk)
	fmt.Fprintf(&b, "%v", onDisk)
	return b.String()
}

func TestVerif_C21(t *testing.T) {
	mc.Run(t, "C21", func(r *mc.R) {
		nStates := mc.Pick(r, 5, 6)
		depth := mc.Pick(r, 5, 6)
		allParents := mc.Pick(r, false, true)
		r.Rule("BFS over operation sequences on one hashdb.Database over memorydb (from the empty database and from a start state with T0 referenced and half flushed by Cap); alphabet = Update(Ti<-empty)+Reference(Ti,{}), Update(Ti<-empty) without Reference, Update(Ti<-head)+Reference " +
			"(thorough: Update(Ti<-Tj) for every live Tj) with the real node sets of the state transition (account trie with leaves + storage tries, external storage-root references), " +
			"Reference(Ti,{}), Dereference(Ti), Cap(0 | size-1 | size/2 | size), Commit(Ti); a state = (reference count per root, committed roots, head) + white-box fingerprint " +
			"(flush-list order with parents count and external children per cached node, set of nodes on disk)")
		r.Bound("states_in_family", nStates)
		r.Bound("depth", depth)
		r.Bound("max_references_per_root", c21MaxRef)
		r.Bound("all_parents", allParents)
		r.Assume("family: 3 accounts (A,B under one sub-branch, C sibling) x 3 storage tries over 3 slots sharing a sub-branch / leaves; all nodes are hashed nodes; " +
			"node sets are produced by the real trie code from a parent state that the model says is readable (referenced or committed), like StateDB.Commit does")
		r.Assume("reference model = References minus Dereferences per root + committed set; expected node set of a state = nodes of its from-scratch trie commit (trie package), independent of hashdb")
		r.Assume("API contract: Dereference / Commit / extra Reference only on roots that hold a reference or were Update'd and not dereferenced since; no clean cache")
		w, err := c21NewWorld(nStates)
		if err != nil {
			r.HarnessError("cannot build the state family: " + err.Error())
			return
		}
		r.Bound("distinct_trie_nodes", len(w.hashes))
		ops := c21Ops(nStates, allParents)
		names := make([]string, len(ops))
		for i, o := range ops {
			names[i] = o.name()
		}
		type explo struct {
			name   string
			prefix []string
			depth  int
		}
		for _, e := range []explo{
			// pre-populated start state: T0 referenced, the older half of its nodes (children first) flushed
			// by Cap while their parents stay cached; re-inserting such a child is one Update away
			{c21ExploreName + "@T0-half-capped", []string{"Update(T0<-empty)+Ref", "Cap(size/2)"}, depth - 1},
			{c21ExploreName, nil, depth},
		} {
			if r.Expired() {
				break
			}
			e := e
			r.Explore(mc.Config{
				Name:  e.name,
				Ops:   names,
				Depth: e.depth,
				New: func() mc.Sys {
					s := c21NewSys(r, w, ops)
					s.explore = e.name
					for _, name := range e.prefix {
						op := -1
						for i, n := range names {
							if n == name {
								op = i
							}
						}
						if op < 0 || !s.Enabled(op) {
							r.HarnessError("prefix op " + name + " unknown or not enabled")
							break
						}
						if err := s.Apply(op); err != nil {
							r.HarnessError("prefix op " + name + ": " + err.Error())
							break
						}
					}
					s.names = nil
					return s
				},
			})
		}
		r.OutcomeN("dereference_collected_nodes", w.nGC.Load())
		r.OutcomeN("dereference_of_uncached_root", w.nDerefNoop.Load())
		r.OutcomeN("reference_of_uncached_root", w.nRefNoop.Load())
		r.OutcomeN("cap_partial_flush", w.nCapPartial.Load())
		r.OutcomeN("cap_full_flush", w.nCapAll.Load())
		r.OutcomeN("commit_uncached_node_shared_with_other_live_root", w.nCommitShared.Load())
		r.OutcomeN("update_reinserts_node_already_on_disk", w.nReinsert.Load())
		r.OutcomeN("cached_garbage_after_partial_cap", w.nLeak.Load())
		r.OutcomeN("transitions_with_full_oracle", w.nOracle.Load())
		r.OutcomeN("live_root_checks", w.nLiveChecks.Load())
		r.OutcomeN("live_node_served_from_disk", w.nDiskReads.Load())
	})
}

// c21DeepSeeds are directed operation sequences beyond the BFS depth. They are NOT
// part of the registered check (checks/C21.json runs ^TestVerif_C21$ only): both
// end with cached nodes that no referenced root reaches on the unchanged tree
// (Cap drops a cached account leaf without releasing the reference it holds on a
// storage root that was cached after it). Kept as replayable regression seeds.
var c21DeepSeeds = []struct {
	Name       string
	States     int
	AllParents bool
	Ops        []string
}{
	{"leak-after-cap/full-node-set", 5, false, []string{"Update(T0<-empty)+Ref", "Cap(0)", "Update(T1<-head)+Ref", "Update(T2<-empty)+Ref",
		"Cap(size-1)", "Dereference(T1)", "Dereference(T2)", "Dereference(T0)"}},
	{"leak-after-cap/linear-chain", 6, true, []string{"Update(T0<-empty)+Ref", "Commit(T0)", "Update(T1<-T0)+Ref", "Update(T2<-T1)+Ref",
		"Update(T5<-T2)+Ref", "Update(T2<-T5)+Ref", "Cap(size-1)", "Dereference(T1)", "Dereference(T2)", "Dereference(T2)", "Dereference(T5)", "Dereference(T0)"}},
}

func TestVerif_C21_deep(t *testing.T) {
	mc.Run(t, "C21", func(r *mc.R) {
		r.Rule("directed operation sequences (regression seeds) executed with the same system and oracle as TestVerif_C21")
		for _, seed := range c21DeepSeeds {
			w, err := c21NewWorld(seed.States)
			if err != nil {
				r.HarnessError(err.Error())
				return
			}
			ops := c21Ops(seed.States, seed.AllParents)
			r.Case(map[string]any{"seed": seed.Name, "ops": seed.Ops}, func() error {
				s := c21NewSys(nil, w, ops)
				for _, name := range seed.Ops {
					op := -1
					for i, o := range ops {
						if o.name() == name {
							op = i
						}
					}
					if op < 0 || !s.Enabled(op) {
						return fmt.Errorf("seed op %q unknown or not enabled", name)
					}
					if err := s.Apply(op); err != nil {
						return fmt.Errorf("at op %s: %v", name, err)
					}
				}
				return nil
			})
			r.Outcome("seed-executed")
		}
	})
}
