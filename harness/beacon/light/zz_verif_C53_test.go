//go:build verif

package light

// C53 — the beacon light client follows only properly signed committees.
//
// Explicit-state exploration (mc.Explore) of operation sequences on the real
// CommitteeChain (memory database, the package's deterministic dummy signature
// scheme, fixed clock) together with a naive map-based reference model.
//
// All artefacts (committees, merkle trees, updates, checkpoints, signed
// headers) are generated deterministically from SHA-256 of their names: the
// package's own GenerateTest* helpers use crypto/rand and math/rand and are not
// used. The merkle trees are built bottom-up by c53Tree (independent of
// merkle.VerifyProof, which is code under test).

import (
	"bytes"
	"crypto/sha256"
	"encoding/binary"
	"fmt"
	"sort"
	"strings"
	"sync"
	"testing"
	"time"

	"github.com/ethereum/go-ethereum/beacon/merkle"
	"github.com/ethereum/go-ethereum/beacon/params"
	"github.com/ethereum/go-ethereum/beacon/types"
	"github.com/ethereum/go-ethereum/common"
	"github.com/ethereum/go-ethereum/common/mclock"
	"github.com/ethereum/go-ethereum/core/rawdb"
	"github.com/ethereum/go-ethereum/ethdb/memorydb"
	"github.com/ethereum/go-ethereum/internal/verif/mc"
	"github.com/ethereum/go-ethereum/rlp"
)

const (
	c53Thr      = 300                                 // signer threshold of the chain and of the head tracker
	c53MaxP     = 4                                   // committees exist for periods 0..4, updates for 0..3
	c53NowSlot  = 3*params.SyncPeriodLength + 4915    // "now" = period 3.6: period 4 is in the future
	c53NowNanos = int64(c53NowSlot) * 12 * int64(time.Second)
)

// ---------------------------------------------------------------------------
// deterministic artefacts

func c53H(parts ...any) (out [32]byte) {
	return sha256.Sum256([]byte(fmt.Sprint(parts...)))
}

// c53Tree is a sparse binary merkle tree over generalized indices: the given
// leaves have the given values, every other subtree is a deterministic filler.
type c53Tree struct {
	seed   string
	leaves map[uint64]merkle.Value
}

func (t *c53Tree) hasLeafBelow(g uint64) bool {
	for x := range t.leaves {
		y := x
		for y > g {
			y >>= 1
		}
		if y == g && x != g {
			return true
		}
	}
	return false
}

func (t *c53Tree) node(g uint64) merkle.Value {
	if v, ok := t.leaves[g]; ok {
		return v
	}
	if t.hasLeafBelow(g) {
		l, r := t.node(2*g), t.node(2*g+1)
		return merkle.Value(sha256.Sum256(append(l[:], r[:]...)))
	}
	return merkle.Value(c53H("c53-filler", t.seed, g))
}

func (t *c53Tree) branch(g uint64) (b merkle.Values) {
	for g > 1 {
		b = append(b, t.node(g^1))
		g >>= 1
	}
	return b
}

func c53PeriodStart(p int) uint64 { return uint64(p) * params.SyncPeriodLength }

// c53Upd describes one light client update artefact.
type c53Upd struct {
	Name      string
	Period    int    // period of the attested header
	Signer    string // committee that produced the signature
	SigPeriod int    // period of the signature slot
	Next      string // committee claimed in NextSyncCommitteeRoot
	Proven    string // committee actually proven by the branch in the attested state
	Count     int    // number of bits set in the signer bitmask
	Finalized bool
	Intact    bool // the signature was made for exactly this header and bitmask
	Future    bool // attested slot is not before "now"
	Forged    bool // not a properly signed update of a legit committee
	u         *types.LightClientUpdate
	enc       []byte
}

func (d *c53Upd) validateOK() bool { return d.SigPeriod == d.Period && d.Next == d.Proven }

type c53Checkpoint struct {
	Name      string
	Period    int
	Committee string // committee supplied
	Root      string // committee whose root is claimed in CommitteeRoot
	Proven    string // committee whose root is in the header state
	Next      string // next committee root in the state (branch[0])
	b         *types.BootstrapData
}

func (c *c53Checkpoint) validateOK() bool { return c.Committee == c.Root && c.Root == c.Proven }

type c53Head struct {
	Name      string
	SigPeriod int
	Signer    string
	Count     int
	Intact    bool
	Future    bool
	sh        types.SignedHeader
}

type c53World struct {
	cfg      *params.ChainConfig
	comm     map[string]*types.SerializedSyncCommittee
	root     map[string]common.Hash
	commEnc  map[string][]byte
	rootEnc  map[string][]byte
	upd      map[string]*c53Upd
	updByEnc map[string]string
	cps      map[string]*c53Checkpoint
	heads    [c53MaxP + 1][]*c53Head
}

var (
	c53Once sync.Once
	c53W    *c53World
)

func c53GetWorld() *c53World {
	c53Once.Do(func() { c53W = c53Build() })
	return c53W
}

func c53Bitmask(count int) (b [params.SyncCommitteeBitmaskSize]byte) {
	for i := 0; i < count; i++ {
		b[i/8] |= 1 << (i & 7)
	}
	return b
}

func (w *c53World) sign(h types.Header, signer string, sigSlot uint64, count int) types.SignedHeader {
	bitmask := c53Bitmask(count)
	signingRoot, err := w.cfg.Forks.SigningRoot(h.Epoch(), h.Hash())
	if err != nil {
		panic(err)
	}
	var c dummySyncCommittee
	copy(c[:], w.comm[signer][:32])
	return types.SignedHeader{
		Header:        h,
		Signature:     types.SyncAggregate{Signers: bitmask, Signature: makeDummySignature(c, signingRoot, bitmask)},
		SignatureSlot: sigSlot,
	}
}

type c53UpdSpec struct {
	name            string
	period          int
	signer          string
	sigPeriod       int
	next, proven    string
	count           int
	finalized       bool
	inflate, future bool
	forged          bool
}

func (w *c53World) addUpdate(s c53UpdSpec) {
	u := new(types.LightClientUpdate)
	u.NextSyncCommitteeRoot = w.root[s.next]
	att := &c53Tree{seed: "att-" + s.name, leaves: map[uint64]merkle.Value{
		params.StateIndexNextSyncCommittee(""): merkle.Value(w.root[s.proven]),
	}}
	slot := c53PeriodStart(s.period) + 2000
	if s.finalized {
		slot = c53PeriodStart(s.period) + 200
		fin := types.Header{Slot: c53PeriodStart(s.period) + 100, StateRoot: common.Hash(c53H("c53-finstate", s.name))}
		u.FinalizedHeader = &fin
		att.leaves[params.StateIndexFinalBlock("")] = merkle.Value(fin.Hash())
	}
	if s.future {
		slot = c53PeriodStart(s.period) + 6000
	}
	hdr := types.Header{Slot: slot, StateRoot: common.Hash(att.node(1))}
	u.NextSyncCommitteeBranch = att.branch(params.StateIndexNextSyncCommittee(""))
	if s.finalized {
		u.FinalityBranch = att.branch(params.StateIndexFinalBlock(""))
	}
	sigSlot := slot + 1
	if s.sigPeriod != s.period {
		sigSlot = c53PeriodStart(s.sigPeriod) + 2001
	}
	if s.inflate {
		u.AttestedHeader = w.sign(hdr, s.signer, sigSlot, s.count-1)
		u.AttestedHeader.Signature.Signers = c53Bitmask(s.count)
	} else {
		u.AttestedHeader = w.sign(hdr, s.signer, sigSlot, s.count)
	}
	u.Score() // fill the lazily cached score before the artefact is shared between goroutines
	enc, err := rlp.EncodeToBytes(u)
	if err != nil {
		panic(err)
	}
	d := &c53Upd{Name: s.name, Period: s.period, Signer: s.signer, SigPeriod: s.sigPeriod, Next: s.next, Proven: s.proven,
		Count: s.count, Finalized: s.finalized, Intact: !s.inflate, Future: slot >= c53NowSlot, Forged: s.forged, u: u, enc: enc}
	if _, dup := w.upd[s.name]; dup {
		panic("duplicate update " + s.name)
	}
	if prev, dup := w.updByEnc[string(enc)]; dup {
		panic("updates " + prev + " and " + s.name + " have the same encoding")
	}
	w.upd[s.name] = d
	w.updByEnc[string(enc)] = s.name
}

func (w *c53World) addCheckpoint(name string, period int, committee, root, proven, next string) {
	t := &c53Tree{seed: "cp-" + name, leaves: map[uint64]merkle.Value{
		params.StateIndexSyncCommittee(""):     merkle.Value(w.root[proven]),
		params.StateIndexNextSyncCommittee(""): merkle.Value(w.root[next]),
	}}
	b := &types.BootstrapData{
		Header:          types.Header{Slot: c53PeriodStart(period) + 200, StateRoot: common.Hash(t.node(1))},
		Committee:       w.comm[committee],
		CommitteeRoot:   w.root[root],
		CommitteeBranch: t.branch(params.StateIndexSyncCommittee("")),
	}
	w.cps[name] = &c53Checkpoint{Name: name, Period: period, Committee: committee, Root: root, Proven: proven, Next: next, b: b}
}

func c53Build() *c53World {
	w := &c53World{
		cfg:      new(params.ChainConfig),
		comm:     map[string]*types.SerializedSyncCommittee{},
		root:     map[string]common.Hash{},
		commEnc:  map[string][]byte{},
		rootEnc:  map[string][]byte{},
		upd:      map[string]*c53Upd{},
		updByEnc: map[string]string{},
		cps:      map[string]*c53Checkpoint{},
	}
	w.cfg.GenesisValidatorsRoot = common.Hash(c53H("c53-genesis-validators"))
	w.cfg.AddFork("GENESIS", 0, []byte{0})
	// committees: G = genuine chain, A = alternative chain that the genuine committee of period 1 also signed
	// (a properly signed fork), F = the attacker's own committees (never properly signed).
	var ids []string
	for p := 0; p <= c53MaxP; p++ {
		ids = append(ids, fmt.Sprintf("G%d", p), fmt.Sprintf("F%d", p))
	}
	ids = append(ids, "A2", "A3")
	seenRoot := map[common.Hash]string{}
	for _, id := range ids {
		c := new(types.SerializedSyncCommittee)
		for i := 0; i < len(c); i += 32 {
			h := c53H("c53-committee", id, i)
			copy(c[i:], h[:])
		}
		w.comm[id] = c
		w.root[id] = c.Root()
		if prev, dup := seenRoot[w.root[id]]; dup {
			panic("committees " + prev + " and " + id + " share a root")
		}
		seenRoot[w.root[id]] = id
		w.commEnc[id], _ = rlp.EncodeToBytes(c)
		w.rootEnc[id], _ = rlp.EncodeToBytes(w.root[id])
	}
	g := func(p int) string { return fmt.Sprintf("G%d", p) }
	f := func(p int) string { return fmt.Sprintf("F%d", p) }
	for p := 0; p < c53MaxP; p++ {
		n := func(s string) string { return fmt.Sprintf("%s%d", s, p) }
		// properly signed genuine updates with different scores
		w.addUpdate(c53UpdSpec{name: n("g"), period: p, signer: g(p), sigPeriod: p, next: g(p + 1), proven: g(p + 1), count: 400})
		w.addUpdate(c53UpdSpec{name: n("g+"), period: p, signer: g(p), sigPeriod: p, next: g(p + 1), proven: g(p + 1), count: 440})
		w.addUpdate(c53UpdSpec{name: n("gmin"), period: p, signer: g(p), sigPeriod: p, next: g(p + 1), proven: g(p + 1), count: c53Thr})
		// genuine committee, genuine next committee, but one signer short of the threshold
		w.addUpdate(c53UpdSpec{name: n("glow"), period: p, signer: g(p), sigPeriod: p, next: g(p + 1), proven: g(p + 1), count: c53Thr - 1, forged: true})
		// forged family: all try to introduce the attacker's committee F(p+1)
		w.addUpdate(c53UpdSpec{name: n("fsig"), period: p, signer: f(p), sigPeriod: p, next: f(p + 1), proven: f(p + 1), count: 512, forged: true})
		w.addUpdate(c53UpdSpec{name: n("flow"), period: p, signer: g(p), sigPeriod: p, next: f(p + 1), proven: f(p + 1), count: c53Thr - 1, forged: true})
		w.addUpdate(c53UpdSpec{name: n("fbranch"), period: p, signer: g(p), sigPeriod: p, next: f(p + 1), proven: g(p + 1), count: 400, forged: true})
		w.addUpdate(c53UpdSpec{name: n("finfl"), period: p, signer: g(p), sigPeriod: p, next: f(p + 1), proven: f(p + 1), count: c53Thr, inflate: true, forged: true})
		if p > 0 {
			// header of period p, signature slot in period p-1 signed by the genuine committee of p-1
			w.addUpdate(c53UpdSpec{name: n("fslot"), period: p, signer: g(p - 1), sigPeriod: p - 1, next: f(p + 1), proven: f(p + 1), count: 512, forged: true})
			// header and signature slot of period p, signed by the genuine committee of another period
			w.addUpdate(c53UpdSpec{name: n("fwrongp"), period: p, signer: g(p - 1), sigPeriod: p, next: f(p + 1), proven: f(p + 1), count: 512, forged: true})
		}
	}
	// score product: {non-finalized, finalized (valid finality branch)} x signer count {1, thr-1, thr, 2/3-1, 2/3, all}
	// x next committee {genuine, other}. Below the threshold the other committee is the attacker's F (such an update
	// must never be stored, finalized header or not); from the threshold on it is the alternative A2 that the genuine
	// committee then has properly signed. Full product at period 1, finalized sub-threshold attacker updates everywhere.
	for _, name := range c53ScoreOps(true) {
		sp := c53ParseScore(name)
		if _, exists := w.upd[name]; exists {
			continue
		}
		next := g(sp.period + 1)
		if sp.other {
			next = f(sp.period + 1)
			if sp.count >= c53Thr {
				next = "A2"
			}
		}
		w.addUpdate(c53UpdSpec{name: name, period: sp.period, signer: g(sp.period), sigPeriod: sp.period, next: next, proven: next,
			count: sp.count, finalized: sp.fin, forged: sp.count < c53Thr})
	}
	// period-pair product: attested header in period P, signature slot in period Q in {P-1, P+1, P+2} (and Q == P signed
	// by the next period's committee) x signing committee {genuine of P, genuine of Q, attacker's of Q} x
	// {threshold-1, all signers, all signers + finalized header} x next committee {genuine, attacker}. A signature slot
	// outside the header's period makes the update improper whoever signed it: none may ever be stored, at the tip or
	// inside the chain.
	for _, name := range c53CrossOps() {
		x := c53ParseCross(name)
		signer := map[string]string{"P": g(x.p), "Q": g(x.q), "A": f(x.q), "N": g(x.p + 1)}[x.signer]
		next := g(x.p + 1)
		if x.other {
			next = f(x.p + 1)
		}
		w.addUpdate(c53UpdSpec{name: name, period: x.p, signer: signer, sigPeriod: x.q, next: next, proven: next, count: x.count, finalized: x.fin, forged: true})
	}
	w.addUpdate(c53UpdSpec{name: "gfin1", period: 1, signer: "G1", sigPeriod: 1, next: "G2", proven: "G2", count: 400, finalized: true})
	w.addUpdate(c53UpdSpec{name: "gfinlow1", period: 1, signer: "G1", sigPeriod: 1, next: "G2", proven: "G2", count: 320, finalized: true}) // below supermajority: not "finalized"
	w.addUpdate(c53UpdSpec{name: "glate3", period: 3, signer: "G3", sigPeriod: 3, next: "G4", proven: "G4", count: 400, future: true})
	// the properly signed alternative chain: G1 also signed A2, A2 signed A3
	w.addUpdate(c53UpdSpec{name: "a1", period: 1, signer: "G1", sigPeriod: 1, next: "A2", proven: "A2", count: 400})
	w.addUpdate(c53UpdSpec{name: "a+1", period: 1, signer: "G1", sigPeriod: 1, next: "A2", proven: "A2", count: 420})
	w.addUpdate(c53UpdSpec{name: "afin1", period: 1, signer: "G1", sigPeriod: 1, next: "A2", proven: "A2", count: 400, finalized: true})
	w.addUpdate(c53UpdSpec{name: "a2", period: 2, signer: "A2", sigPeriod: 2, next: "A3", proven: "A3", count: 400})
	// update of the genuine committee G2 is not valid on top of A2 and vice versa (covered by g2 / a2 in both states)

	w.addCheckpoint("cp1", 1, "G1", "G1", "G1", "G2")
	w.addCheckpoint("cp2", 2, "G2", "G2", "G2", "G3")
	w.addCheckpoint("cpA2", 2, "A2", "A2", "A2", "A3")          // trusted checkpoint on the alternative chain
	w.addCheckpoint("cpbadroot1", 1, "F1", "G1", "G1", "G2")    // attacker's committee with the genuine root and proof
	w.addCheckpoint("cpbadbranch1", 1, "F1", "F1", "G1", "G2")  // attacker's committee and root, proof of the genuine one

	// signed headers for VerifySignedHeader / HeadTracker.validate, grouped by signature period
	for p := 0; p <= c53MaxP; p++ {
		slot := c53PeriodStart(p) + 3000
		hdr := types.Header{Slot: slot, StateRoot: common.Hash(c53H("c53-head-state", p))}
		add := func(name string, h types.Header, sigSlot uint64, signer string, count int, intact bool, sh types.SignedHeader) {
			w.heads[p] = append(w.heads[p], &c53Head{Name: fmt.Sprintf("%s@%d", name, p), SigPeriod: p, Signer: signer, Count: count,
				Intact: intact, Future: h.Slot >= c53NowSlot, sh: sh})
		}
		signers := []string{g(p), f(p)}
		if p > 0 {
			signers = append(signers, g(p-1))
		}
		if p < c53MaxP {
			signers = append(signers, g(p+1))
		}
		if _, ok := w.comm[fmt.Sprintf("A%d", p)]; ok {
			signers = append(signers, fmt.Sprintf("A%d", p))
		}
		for _, s := range signers {
			for _, count := range []int{c53Thr - 1, c53Thr, 512} {
				add(fmt.Sprintf("%s/%d", s, count), hdr, slot+1, s, count, true, w.sign(hdr, s, slot+1, count))
			}
		}
		// bitmask claims threshold signers, signature made by threshold-1
		infl := w.sign(hdr, g(p), slot+1, c53Thr-1)
		infl.Signature.Signers = c53Bitmask(c53Thr)
		add("inflated", hdr, slot+1, g(p), c53Thr, false, infl)
		// header changed after signing
		tam := w.sign(hdr, g(p), slot+1, 512)
		tam.Header.StateRoot[0] ^= 1
		add("tampered", tam.Header, slot+1, g(p), 512, false, tam)
		// last header of the previous period signed in this period by this period's committee (legit per spec)
		if p > 0 {
			prev := types.Header{Slot: c53PeriodStart(p) - 1, StateRoot: common.Hash(c53H("c53-head-state-prev", p))}
			add("prevhdr", prev, c53PeriodStart(p), g(p), 512, true, w.sign(prev, g(p), c53PeriodStart(p), 512))
			add("prevhdr-oldcommittee", prev, c53PeriodStart(p), g(p-1), 512, true, w.sign(prev, g(p-1), c53PeriodStart(p), 512))
		}
		// a header of this period that is still in the future
		fut := types.Header{Slot: c53PeriodStart(p) + 6000, StateRoot: common.Hash(c53H("c53-head-state-fut", p))}
		add("late", fut, fut.Slot+1, g(p), 512, true, w.sign(fut, g(p), fut.Slot+1, 512))
	}
	return w
}

type c53ScoreSpec struct {
	fin    bool
	count  int
	other  bool
	period int
}

var c53ScoreCounts = []int{1, c53Thr - 1, c53Thr, params.SyncCommitteeSupermajority - 1, params.SyncCommitteeSupermajority, params.SyncCommitteeSize}

// c53ScoreName names the update with the given score attributes; three combinations already exist under older names.
func c53ScoreName(sp c53ScoreSpec) string {
	if !sp.fin && sp.count == c53Thr-1 {
		if sp.other {
			return fmt.Sprintf("flow%d", sp.period)
		}
		return fmt.Sprintf("glow%d", sp.period)
	}
	if !sp.fin && sp.count == c53Thr && !sp.other {
		return fmt.Sprintf("gmin%d", sp.period)
	}
	k, n := "N", "G"
	if sp.fin {
		k = "F"
	}
	if sp.other {
		n = "X"
	}
	return fmt.Sprintf("s%s%d%s@%d", k, sp.count, n, sp.period)
}

func c53ParseScore(name string) (sp c53ScoreSpec) {
	for _, x := range c53ScoreSpecs(true) {
		if c53ScoreName(x) == name {
			return x
		}
	}
	panic("c53: not a score update: " + name)
}

// c53ScoreSpecs: the full product at period 1; at the other periods finalized updates signed by 1 and threshold-1
// members proving the attacker's committee (thorough: also proving the genuine one).
func c53ScoreSpecs(thorough bool) (out []c53ScoreSpec) {
	for _, fin := range []bool{false, true} {
		for _, count := range c53ScoreCounts {
			if !thorough && !fin && (count == params.SyncCommitteeSupermajority-1 || count == params.SyncCommitteeSupermajority) {
				continue // the 2/3 boundary only matters together with a finalized header
			}
			for _, other := range []bool{false, true} {
				out = append(out, c53ScoreSpec{fin, count, other, 1})
			}
		}
	}
	for _, p := range []int{0, 2, 3} {
		for _, count := range []int{1, c53Thr - 1} {
			out = append(out, c53ScoreSpec{true, count, true, p})
			if thorough {
				out = append(out, c53ScoreSpec{true, count, false, p})
			}
		}
	}
	return out
}

func c53ScoreOps(thorough bool) (names []string) {
	for _, sp := range c53ScoreSpecs(thorough) {
		names = append(names, c53ScoreName(sp))
	}
	return names
}

type c53CrossSpec struct {
	p, q   int
	signer string // P: genuine committee of the header period, Q: of the signature period, A: attacker's of Q, N: genuine of P+1 (with Q == P)
	count  int
	fin    bool
	other  bool
}

func c53CrossSpecs() (out []c53CrossSpec) {
	for p := 0; p < c53MaxP; p++ {
		for _, q := range []int{p - 1, p, p + 1, p + 2} {
			if q < 0 || q > c53MaxP {
				continue
			}
			signers := []string{"P", "Q", "A"}
			if q == p {
				signers = []string{"N"} // same-period pairs with the own / previous / attacker committee exist already
			}
			for _, sg := range signers {
				for _, v := range []struct {
					count int
					fin   bool
				}{{c53Thr - 1, false}, {params.SyncCommitteeSize, false}, {params.SyncCommitteeSize, true}} {
					for _, other := range []bool{false, true} {
						out = append(out, c53CrossSpec{p, q, sg, v.count, v.fin, other})
					}
				}
			}
		}
	}
	return out
}

func c53CrossName(x c53CrossSpec) string {
	k, n := "N", "G"
	if x.fin {
		k = "F"
	}
	if x.other {
		n = "X"
	}
	return fmt.Sprintf("x%d/%d:%s:%s%d%s", x.p, x.q, x.signer, k, x.count, n)
}

func c53CrossOps() (names []string) {
	for _, x := range c53CrossSpecs() {
		names = append(names, c53CrossName(x))
	}
	return names
}

func c53ParseCross(name string) c53CrossSpec {
	for _, x := range c53CrossSpecs() {
		if c53CrossName(x) == name {
			return x
		}
	}
	panic("c53: not a period-pair update: " + name)
}

// ---------------------------------------------------------------------------
// reference model: three maps period -> identifier

type c53Model struct {
	fixed map[int]string // committee id whose root is fixed
	comm  map[int]string // committee id
	upd   map[int]string // update name
}

func c53NewModel() *c53Model {
	return &c53Model{fixed: map[int]string{}, comm: map[int]string{}, upd: map[int]string{}}
}

func c53Range(m map[int]string) (lo, hi int) { // hi exclusive; (0,0) when empty
	first := true
	for p := range m {
		if first || p < lo {
			lo = p
		}
		if first || p+1 > hi {
			hi = p + 1
		}
		first = false
	}
	return
}

func c53CanExpand(m map[int]string, p int) bool {
	if len(m) == 0 {
		return true
	}
	lo, hi := c53Range(m)
	return p+1 >= lo && p <= hi
}

func c53DeleteFrom(m map[int]string, from int) {
	for p := range m {
		if p >= from {
			delete(m, p)
		}
	}
}

func c53MapString(m map[int]string) string {
	var ps []int
	for p := range m {
		ps = append(ps, p)
	}
	sort.Ints(ps)
	var sb strings.Builder
	for _, p := range ps {
		fmt.Fprintf(&sb, "%d:%s ", p, m[p])
	}
	return sb.String()
}

func (m *c53Model) String() string {
	return "fixed[" + c53MapString(m.fixed) + "] committees[" + c53MapString(m.comm) + "] updates[" + c53MapString(m.upd) + "]"
}

// rootID is the committee whose root is known for the period: fixed, or proven by the update of the previous period.
func (m *c53Model) rootID(w *c53World, p int) string {
	if id, ok := m.fixed[p]; ok {
		return id
	}
	if u, ok := m.upd[p-1]; ok {
		return w.upd[u].Next
	}
	return ""
}

func (m *c53Model) rollback(p int) {
	c53DeleteFrom(m.comm, p)
	c53DeleteFrom(m.fixed, p)
	c53DeleteFrom(m.upd, p-1)
}

func (m *c53Model) reset() { m.rollback(0) }

func (m *c53Model) addFixed(w *c53World, p int, id string) bool {
	if id == "" {
		return false
	}
	old := m.rootID(w, p)
	if !c53CanExpand(m.fixed, p) {
		// a root that is not adjacent to the fixed range can only be fixed if the update chain already proves it;
		// then everything in between becomes fixed as well
		if old != id {
			return false
		}
		_, hi := c53Range(m.fixed)
		for q := hi; q < p; q++ {
			m.fixed[q] = m.rootID(w, q)
		}
	}
	if old != "" && old != id {
		m.rollback(p)
	}
	m.fixed[p] = id
	return true
}

func (m *c53Model) addCommittee(w *c53World, p int, id string) bool {
	if !c53CanExpand(m.comm, p) {
		return false
	}
	if r := m.rootID(w, p); r == "" || r != id {
		return false
	}
	m.comm[p] = id
	return true
}

// deleteFixedFrom is written from the documented consistency constraints: the update chain survives only if its
// first period is still fixed; a committee survives only if its root is still fixed or proven by a surviving update.
func (m *c53Model) deleteFixedFrom(w *c53World, p int) {
	c53DeleteFrom(m.fixed, p)
	if len(m.upd) > 0 {
		lo, _ := c53Range(m.upd)
		if _, ok := m.fixed[lo]; !ok {
			m.upd = map[int]string{}
		}
	}
	if len(m.comm) > 0 {
		lo, hi := c53Range(m.comm)
		for q := lo; q < hi; q++ {
			_, fixed := m.fixed[q]
			_, proven := m.upd[q-1]
			if !fixed && !proven {
				c53DeleteFrom(m.comm, q)
				break
			}
		}
	}
}

func (m *c53Model) checkpointInit(w *c53World, cp *c53Checkpoint) bool {
	if !cp.validateOK() {
		return false
	}
	m.deleteFixedFrom(w, cp.Period+2)
	if !m.addFixed(w, cp.Period, cp.Root) {
		m.reset()
		m.addFixed(w, cp.Period, cp.Root)
	}
	if !m.addFixed(w, cp.Period+1, cp.Next) {
		m.reset()
		return false
	}
	if !m.addCommittee(w, cp.Period, cp.Committee) {
		m.reset()
		return false
	}
	return true
}

func c53Better(a, b *c53Upd) bool { // a strictly better than b
	af := a.Finalized && a.Count >= params.SyncCommitteeSupermajority
	bf := b.Finalized && b.Count >= params.SyncCommitteeSupermajority
	if af != bf {
		return af
	}
	return a.Count > b.Count
}

// insertUpdate models "update.Validate() then CommitteeChain.InsertUpdate(update, next)" (the production pipeline:
// api.LightAPI validates, sync.ForwardUpdateSync inserts). next is a committee id or "" for nil.
func (m *c53Model) insertUpdate(w *c53World, u *c53Upd, next string) bool {
	if !u.validateOK() {
		return false
	}
	p := u.Period
	if !c53CanExpand(m.upd, p) {
		return false
	}
	if _, ok := m.comm[p]; !ok {
		return false
	}
	if u.Count < c53Thr && !(u.Finalized && u.Count >= params.SyncCommitteeSupermajority) {
		return false
	}
	old := m.rootID(w, p+1)
	reorg := old != "" && old != u.Next
	if ou, ok := m.upd[p]; ok && !c53Better(u, w.upd[ou]) {
		return !reorg // nothing changes; an error only if the update wanted to reorg
	}
	if _, fixed := m.fixed[p+1]; fixed && reorg {
		return false
	}
	if u.Future || !u.Intact || m.comm[u.SigPeriod] != u.Signer {
		return false
	}
	_, have := m.comm[p+1]
	need := !have || reorg
	if need && (next == "" || next != u.Next) {
		return false
	}
	if reorg {
		m.rollback(p + 1)
	}
	if need {
		m.comm[p+1] = next
	}
	m.upd[p] = u.Name
	return true
}

// ---------------------------------------------------------------------------
// system under exploration

type c53Op struct {
	name string
	kind string // fix, addc, cp, ins, delfix, reset, reload, verify
	p    int
	id   string // committee id / update name / checkpoint name
	next string // committee supplied with an update ("" = nil)
}

// c53AlwaysRejected: deliveries whose successor state is by the property always the state itself.
func c53AlwaysRejected(w *c53World, o c53Op) bool {
	switch o.kind {
	case "ins":
		return w.upd[o.id].Forged
	case "addc":
		return strings.HasPrefix(o.id, "F")
	case "cp":
		return !w.cps[o.id].validateOK()
	case "fix":
		return o.id == ""
	}
	return false
}

func c53Alphabet(w *c53World, lazyVerify bool, full bool, scores bool) []c53Op {
	var ops []c53Op
	add := func(o c53Op) { ops = append(ops, o) }
	for _, cp := range []string{"cp1", "cp2"} {
		add(c53Op{name: "checkpoint(" + cp + ")", kind: "cp", id: cp})
	}
	for p := 0; p <= c53MaxP; p++ {
		add(c53Op{name: fmt.Sprintf("fix(%d,G)", p), kind: "fix", p: p, id: fmt.Sprintf("G%d", p)})
	}
	for p := 0; p <= c53MaxP; p++ {
		add(c53Op{name: fmt.Sprintf("addCommittee(%d,G)", p), kind: "addc", p: p, id: fmt.Sprintf("G%d", p)})
	}
	insert := func(u, next string) {
		n := next
		if n == "" {
			n = "nil"
		}
		add(c53Op{name: fmt.Sprintf("insert(%s,%s)", u, n), kind: "ins", id: u, next: next})
	}
	for p := 0; p < c53MaxP; p++ {
		insert(fmt.Sprintf("g%d", p), fmt.Sprintf("G%d", p+1))
		insert(fmt.Sprintf("g%d", p), "")
		insert(fmt.Sprintf("g+%d", p), fmt.Sprintf("G%d", p+1))
	}
	insert("a2", "A3")
	if full || !scores {
		// (400/420-signer and finalized-400 variants; in the quick eager runs the score product at period 1 already
		// contains non-finalized 300/512 and finalized 300/341/342/512 updates for both next committees)
		insert("a+1", "A2")
		insert("a1", "A2")
		insert("afin1", "A2")
		insert("gfin1", "G2")
	}
	add(c53Op{name: "fix(2,A)", kind: "fix", p: 2, id: "A2"})
	add(c53Op{name: "addCommittee(2,A)", kind: "addc", p: 2, id: "A2"})
	add(c53Op{name: "checkpoint(cpA2)", kind: "cp", id: "cpA2"})
	for p := 1; p <= 3; p++ {
		add(c53Op{name: fmt.Sprintf("deleteFixedFrom(%d)", p), kind: "delfix", p: p})
	}
	add(c53Op{name: "reset", kind: "reset"})
	// forged / invalid deliveries: none may ever change the chain
	for p := 0; p < c53MaxP; p++ {
		for _, fam := range []string{"fsig", "flow", "fbranch", "finfl", "fslot", "fwrongp", "glow"} {
			name := fmt.Sprintf("%s%d", fam, p)
			if u, ok := w.upd[name]; ok {
				insert(name, u.Next)
			}
		}
		insert(fmt.Sprintf("g%d", p), fmt.Sprintf("F%d", p+1)) // genuine update delivered with the attacker's committee
	}
	for p := 0; p <= c53MaxP; p++ {
		add(c53Op{name: fmt.Sprintf("addCommittee(%d,F)", p), kind: "addc", p: p, id: fmt.Sprintf("F%d", p)})
	}
	add(c53Op{name: "checkpoint(cpbadroot1)", kind: "cp", id: "cpbadroot1"})
	add(c53Op{name: "checkpoint(cpbadbranch1)", kind: "cp", id: "cpbadbranch1"})
	add(c53Op{name: "fix(1,zero)", kind: "fix", p: 1, id: ""})
	insert("glate3", "G4")
	if scores {
		for _, name := range c53CrossOps() {
			insert(name, w.upd[name].Next)
		}
		have := map[string]bool{}
		for _, o := range ops {
			have[o.name] = true
		}
		for _, name := range c53ScoreOps(full) {
			if n := fmt.Sprintf("insert(%s,%s)", name, w.upd[name].Next); !have[n] {
				insert(name, w.upd[name].Next)
			}
		}
	}
	if full {
		for p := 0; p < c53MaxP; p++ {
			if p != 1 || !scores {
				insert(fmt.Sprintf("gmin%d", p), fmt.Sprintf("G%d", p+1))
			}
			insert(fmt.Sprintf("g+%d", p), "")
		}
		insert("gfinlow1", "G2")
		insert("a+1", "")
		insert("a2", "")
		add(c53Op{name: "addCommittee(3,A)", kind: "addc", p: 3, id: "A3"})
		add(c53Op{name: "reload", kind: "reload"})
	}
	if lazyVerify {
		for p := 0; p <= c53MaxP; p++ {
			add(c53Op{name: fmt.Sprintf("verify(%d)", p), kind: "verify", p: p})
		}
	}
	return ops
}

type c53Sys struct {
	r     *mc.R
	w     *c53World
	ops   []c53Op
	lazy  bool // verification only by explicit verify ops (committee cache becomes part of the state)
	db    *memorydb.Database
	chain *CommitteeChain
	ht    *HeadTracker
	m     *c53Model
	final bool   // the next Apply is the transition being explored (mc.Explore calls Enabled right before it, and
	// before every op when replaying a counterexample); prefix replays skip the expensive observations
	last  string // outcome class of the last applied op
	batch []c53Op // deliveries that must be rejected in every state (eager runs: offered after every transition)
	nBatch int64
	acc   int64  // headers accepted / rejected in the last observation
	rej   int64
}

func c53NewSys(r *mc.R, w *c53World, ops []c53Op, lazy bool) *c53Sys {
	s := &c53Sys{r: r, w: w, ops: ops, lazy: lazy, db: memorydb.New(), m: c53NewModel()}
	s.open()
	return s
}

func (s *c53Sys) open() {
	s.chain = newCommitteeChain(s.db, s.w.cfg, c53Thr, true, dummyVerifier{}, &mclock.Simulated{}, func() int64 { return c53NowNanos })
	s.ht = NewHeadTracker(s.chain, c53Thr, nil)
}

func (s *c53Sys) Enabled(op int) bool { s.final = true; return true }

func c53ErrClass(err error) string {
	if err == nil {
		return "ok"
	}
	return "err:" + err.Error()
}

// exec runs one operation on the real chain and on the model and compares result class and model discipline.
func (s *c53Sys) exec(op c53Op, final bool) error {
	w := s.w
	before := s.m.String()
	var (
		err      error // result of the real code
		expectOK bool
		forged   bool // the delivery must be rejected and must not change anything, whatever the state
	)
	switch op.kind {
	case "fix":
		var root common.Hash
		if op.id != "" {
			root = w.root[op.id]
		}
		s.chain.chainmu.Lock()
		err = s.chain.addFixedCommitteeRoot(uint64(op.p), root)
		s.chain.chainmu.Unlock()
		expectOK = s.m.addFixed(w, op.p, op.id)
	case "addc":
		s.chain.chainmu.Lock()
		err = s.chain.addCommittee(uint64(op.p), w.comm[op.id])
		s.chain.chainmu.Unlock()
		expectOK = s.m.addCommittee(w, op.p, op.id)
		forged = strings.HasPrefix(op.id, "F")
	case "cp":
		cp := w.cps[op.id]
		err = s.chain.CheckpointInit(*cp.b)
		expectOK = s.m.checkpointInit(w, cp)
		forged = !cp.validateOK()
	case "delfix":
		s.chain.chainmu.Lock()
		err = s.chain.deleteFixedCommitteeRootsFrom(uint64(op.p))
		s.chain.chainmu.Unlock()
		s.m.deleteFixedFrom(w, op.p)
		expectOK = true
	case "reset":
		s.chain.Reset()
		s.m.reset()
		expectOK = true
	case "reload":
		s.open()
		expectOK = true
	case "ins":
		u := w.upd[op.id]
		var next *types.SerializedSyncCommittee
		if op.next != "" {
			next = w.comm[op.next]
		}
		verr := u.u.Validate()
		if (verr == nil) != u.validateOK() {
			return fmt.Errorf("%s: LightClientUpdate.Validate()=%v, the update was built with signature-period-matches=%v next-root-proven=%v",
				op.name, verr, u.SigPeriod == u.Period, u.Next == u.Proven)
		}
		if verr != nil {
			err = verr
		} else {
			err = s.chain.InsertUpdate(u.u, next)
		}
		expectOK = s.m.insertUpdate(w, u, op.next)
		forged = u.Forged
	case "batch":
		// every delivery that must be rejected in every state (forged updates, attacker committees, invalid
		// checkpoints) is offered in turn: each must fail and leave ranges and change counter alone; the caller then
		// compares database, ranges and caches with the model. Same checks as one self-loop operation per delivery,
		// but the prefix is replayed once per state instead of once per delivery.
		if !final {
			return nil
		}
		for _, b := range s.batch {
			c := s.chain
			fr, cr, ur, cc := c.fixedCommitteeRoots.periods, c.committees.periods, c.updates.periods, c.changeCounter
			if e := s.exec(b, true); e != nil {
				return e
			}
			if fr != c.fixedCommitteeRoots.periods || cr != c.committees.periods || ur != c.updates.periods || cc != c.changeCounter {
				return fmt.Errorf("rejected delivery %s changed the chain (ranges / change counter)", b.name)
			}
			s.nBatch++
		}
		s.last = "rejected-deliveries"
		return nil
	case "verify":
		if !final {
			s.chain.VerifySignedHeader(s.w.heads[op.p][0].sh)
			return nil
		}
		if e := s.observe(op.p); e != nil {
			return fmt.Errorf("%s: %v", op.name, e)
		}
		s.last = "verify"
		return nil
	}
	s.last = op.kind + ":" + c53ErrClass(err)
	if forged {
		s.last = "forged-" + s.last
		// A forged delivery must never change anything. It normally fails; the one documented exception is an
		// update that neither beats the stored update of its period nor contradicts the known next root: InsertUpdate
		// answers nil ("a better or equal update already exists; no changes") before looking at the signature.
		if s.m.String() != before {
			return fmt.Errorf("harness: model accepts forged delivery %s", op.name)
		}
		if err == nil && !expectOK {
			return fmt.Errorf("%s: forged / improperly signed delivery was accepted (no error)", op.name)
		}
		if err == nil && op.kind != "ins" {
			return fmt.Errorf("%s: forged delivery was accepted (no error)", op.name)
		}
	}
	if (err == nil) != expectOK {
		return fmt.Errorf("%s: real result %v, model expects success=%v (model before: %s)", op.name, err, expectOK, before)
	}
	if err != nil && op.kind != "cp" && s.m.String() != before {
		// (a CheckpointInit that fails after validation resets the chain: documented in the code, safe)
		return fmt.Errorf("harness: model changed on a failing op %s", op.name)
	}
	return nil
}

func (s *c53Sys) Apply(opi int) error {
	op := s.ops[opi]
	s.acc, s.rej, s.nBatch = 0, 0, 0
	final := s.final
	s.final = false
	if e := s.exec(op, final); e != nil {
		return e
	}
	if op.kind == "verify" {
		if final {
			return s.check(op.name)
		}
		return nil
	}
	if !final {
		// prefix replay: this transition was fully checked when it was first explored; only keep the
		// deserialized-committee cache in the state the eager run defines (every stored period verified once)
		if !s.lazy {
			for p := 0; p <= c53MaxP; p++ {
				s.chain.VerifySignedHeader(s.w.heads[p][0].sh)
			}
		}
		return nil
	}
	if e := s.check(op.name); e != nil {
		return e
	}
	if !s.lazy {
		for p := 0; p <= c53MaxP; p++ {
			if e := s.observe(p); e != nil {
				return fmt.Errorf("after %s: %v", op.name, e)
			}
		}
		// verification must not have changed anything but the deserialized-committee cache
		if e := s.check(op.name + "+verify"); e != nil {
			return e
		}
	}
	return nil
}

// observe verifies every prepared signed header whose signature slot is in period p, through the chain and through
// a HeadTracker, and compares with the model (committee of that period == signer, signature intact, not future).
func (s *c53Sys) observe(p int) error {
	for _, h := range s.w.heads[p] {
		ok, _, err := s.chain.VerifySignedHeader(h.sh)
		stored, have := s.m.comm[h.SigPeriod]
		expOK := !h.Future && have && h.Intact && stored == h.Signer
		expErr := !h.Future && !have
		if ok != expOK || (err != nil) != expErr {
			return fmt.Errorf("VerifySignedHeader(%s)=(%v,%v): header signed by %s (%d signers, intact=%v, future=%v), committee of period %d in the chain: %q",
				h.Name, ok, err, h.Signer, h.Count, h.Intact, h.Future, h.SigPeriod, stored)
		}
		if ok && (strings.HasPrefix(h.Signer, "F") || !h.Intact) {
			return fmt.Errorf("VerifySignedHeader(%s) accepted a header not signed by a legit committee", h.Name)
		}
		accepted, _ := s.ht.validate(h.sh, types.SignedHeader{})
		if expAcc := expOK && h.Count >= c53Thr; accepted != expAcc {
			return fmt.Errorf("HeadTracker.validate(%s)=%v: header signed by %d members of %s, threshold %d, committee of period %d in the chain: %q",
				h.Name, accepted, h.Count, h.Signer, c53Thr, h.SigPeriod, stored)
		}
		if accepted {
			s.acc++
		} else {
			s.rej++
		}
	}
	return nil
}

type c53Real struct {
	fixed, comm, upd map[int]string
	cache            []int // periods with a cached deserialized committee
}

// read reads the real state white-box: period ranges, database content and caches.
func (s *c53Sys) read() (*c53Real, error) {
	w := s.w
	c := s.chain
	R := &c53Real{fixed: map[int]string{}, comm: map[int]string{}, upd: map[int]string{}}
	load := func(prefix []byte, pr periodRange, what string, identify func(v []byte) string, into map[int]string) error {
		it := s.db.NewIterator(prefix, nil)
		defer it.Release()
		n := 0
		for it.Next() {
			k := it.Key()
			if len(k) != len(prefix)+8 {
				return fmt.Errorf("%s: malformed database key %x", what, k)
			}
			p := binary.BigEndian.Uint64(k[len(prefix):])
			if !pr.contains(p) {
				return fmt.Errorf("%s: database has an entry at period %d outside the in-memory range [%d,%d)", what, p, pr.Start, pr.End)
			}
			id := identify(it.Value())
			if id == "" {
				return fmt.Errorf("%s: entry at period %d is none of the artefacts handed to the chain", what, p)
			}
			into[int(p)] = id
			n++
		}
		if uint64(n) != pr.End-pr.Start {
			return fmt.Errorf("%s: in-memory range [%d,%d) but %d database entries", what, pr.Start, pr.End, n)
		}
		return nil
	}
	byEnc := func(encs map[string][]byte) func(v []byte) string {
		return func(v []byte) string {
			var ids []string
			for id := range encs {
				ids = append(ids, id)
			}
			sort.Strings(ids)
			for _, id := range ids {
				if bytes.Equal(encs[id], v) {
					return id
				}
			}
			return ""
		}
	}
	if err := load(rawdb.FixedCommitteeRootKey, c.fixedCommitteeRoots.periods, "fixed roots", byEnc(w.rootEnc), R.fixed); err != nil {
		return nil, err
	}
	if err := load(rawdb.SyncCommitteeKey, c.committees.periods, "committees", byEnc(w.commEnc), R.comm); err != nil {
		return nil, err
	}
	if err := load(rawdb.BestUpdateKey, c.updates.periods, "updates", func(v []byte) string { return w.updByEnc[string(v)] }, R.upd); err != nil {
		return nil, err
	}
	// in-memory caches must agree with the database
	for p := 0; p <= c53MaxP+1; p++ {
		if v, ok := c.committees.cache.Peek(uint64(p)); ok {
			if id, have := R.comm[p]; !have || !bytes.Equal(v[:], w.comm[id][:]) {
				return nil, fmt.Errorf("committee store caches a committee at period %d that is not the stored one (%q)", p, id)
			}
		}
		if v, ok := c.updates.cache.Peek(uint64(p)); ok {
			enc, _ := rlp.EncodeToBytes(v)
			if name, have := R.upd[p]; !have || !bytes.Equal(enc, w.upd[name].enc) {
				return nil, fmt.Errorf("update store caches an update at period %d that is not the stored one (%q)", p, name)
			}
		}
		if v, ok := c.fixedCommitteeRoots.cache.Peek(uint64(p)); ok {
			if id, have := R.fixed[p]; !have || v != w.root[id] {
				return nil, fmt.Errorf("fixed root store caches a root at period %d that is not the stored one (%q)", p, id)
			}
		}
		if v, ok := c.committeeCache.Peek(uint64(p)); ok {
			id, have := R.comm[p]
			dc, isDummy := v.(dummySyncCommittee)
			if !have || !isDummy || !bytes.Equal(dc[:], w.comm[id][:32]) {
				return nil, fmt.Errorf("stale deserialized committee cached at period %d (stored committee: %q)", p, id)
			}
			R.cache = append(R.cache, p)
		}
	}
	return R, nil
}

// check asserts the safety invariants on the real state (independently of the model) and then real == model.
func (s *c53Sys) check(after string) error {
	w := s.w
	R, err := s.read()
	if err != nil {
		return fmt.Errorf("after %s: %v", after, err)
	}
	fail := func(f string, a ...any) error {
		return fmt.Errorf("after %s: %s [real: fixed[%s] committees[%s] updates[%s]]", after, fmt.Sprintf(f, a...),
			c53MapString(R.fixed), c53MapString(R.comm), c53MapString(R.upd))
	}
	for p, id := range R.comm {
		if strings.HasPrefix(id, "F") {
			return fail("the chain contains the attacker's committee %s", id)
		}
		fixedID, isFixed := R.fixed[p]
		provenBy, isProven := R.upd[p-1]
		if !(isFixed && fixedID == id) && !(isProven && w.upd[provenBy].Next == id) {
			return fail("committee %s at period %d is neither fixed nor proven by the update of period %d", id, p, p-1)
		}
		if isFixed && fixedID != id {
			return fail("committee %s at period %d contradicts the fixed root of %s", id, p, fixedID)
		}
	}
	for p, name := range R.upd {
		u := w.upd[name]
		if u.Forged || !u.validateOK() || !u.Intact || u.Future || u.Period != p {
			return fail("the chain stores the invalid update %s at period %d", name, p)
		}
		if u.Count < c53Thr {
			return fail("stored update %s has %d signers, threshold %d", name, u.Count, c53Thr)
		}
		if R.comm[p] != u.Signer {
			return fail("stored update %s is signed by %s but the committee of period %d is %q", name, u.Signer, p, R.comm[p])
		}
		if R.comm[p+1] != u.Next {
			return fail("stored update %s proves %s but the committee of period %d is %q", name, u.Next, p+1, R.comm[p+1])
		}
		if f, ok := R.fixed[p+1]; ok && f != u.Next {
			return fail("stored update %s proves %s but the fixed root of period %d is %s", name, u.Next, p+1, f)
		}
	}
	if len(R.upd) > 0 {
		lo, hi := c53Range(R.upd)
		if _, ok := R.fixed[lo]; !ok {
			return fail("first update period %d has no fixed root", lo)
		}
		clo, chi := c53Range(R.comm)
		if clo > lo || chi <= hi {
			return fail("committees missing in the update range")
		}
	}
	if len(R.comm) > 0 {
		lo, _ := c53Range(R.comm)
		if _, ok := R.fixed[lo]; !ok {
			return fail("first committee period %d has no fixed root", lo)
		}
	}
	real := "fixed[" + c53MapString(R.fixed) + "] committees[" + c53MapString(R.comm) + "] updates[" + c53MapString(R.upd) + "]"
	if real != s.m.String() {
		return fail("real state differs from the model %s", s.m.String())
	}
	return nil
}

func (s *c53Sys) Key() string {
	k := s.m.String()
	R, err := s.read()
	if err != nil {
		return k + "|unreadable:" + err.Error()
	}
	// white-box part: real period ranges/contents and the deserialized-committee cache (in the eager run the cache
	// is always "every stored, non-future period", in the lazy run it depends on which verify ops ran)
	k += "|real fixed[" + c53MapString(R.fixed) + "] committees[" + c53MapString(R.comm) + "] updates[" + c53MapString(R.upd) + "]" + fmt.Sprintf(" cache%v", R.cache)
	// after a reload the store caches are empty: behaviourally equivalent (read-through), not part of the key
	return k
}

func c53Explore(r *mc.R, name string, lazy, full bool, depth int, init ...string) {
	w := c53GetWorld()
	ops := c53Alphabet(w, lazy, full, !lazy)
	var batch []c53Op
	if !lazy {
		// eager runs: always-rejected deliveries are offered after every transition instead of being explored as
		// operations with a self-loop (in the lazy run they stay operations: they touch the committee cache)
		var keep []c53Op
		for _, o := range ops {
			if c53AlwaysRejected(w, o) {
				batch = append(batch, o)
			} else {
				keep = append(keep, o)
			}
		}
		ops = append(keep, c53Op{name: "offer-all-always-rejected-deliveries", kind: "batch"})
		r.Bound(name+".rejected_deliveries_per_state", len(batch))
	} else {
		// lazy run: of the always-rejected deliveries only the attacker-signed updates stay (they reach signature
		// verification and so touch the committee cache); all others are offered in every state by the eager runs
		var keep []c53Op
		for _, o := range ops {
			if !c53AlwaysRejected(w, o) || strings.HasPrefix(o.id, "fsig") {
				keep = append(keep, o)
			}
		}
		ops = keep
	}
	names := make([]string, len(ops))
	for i, o := range ops {
		names[i] = o.name
	}
	r.Bound(name+".ops", len(ops))
	var initOps []int
	for _, n := range init {
		found := -1
		for i, o := range ops {
			if o.name == n {
				found = i
			}
		}
		if found < 0 {
			panic("c53: unknown initial op " + n)
		}
		initOps = append(initOps, found)
	}
	if len(init) > 0 {
		r.Bound(name+".initial_state", strings.Join(init, ";"))
	}
	r.Explore(mc.Config{
		Name:  name,
		Ops:   names,
		Depth: depth,
		New: func() mc.Sys {
			s := c53NewSys(r, w, ops, lazy)
			s.batch = batch
			for _, o := range initOps {
				s.final = true // the initial prefix is fully checked as well
				if err := s.Apply(o); err != nil {
					panic(fmt.Sprintf("c53: initial op %s: %v", ops[o].name, err))
				}
			}
			s.last, s.acc, s.rej = "", 0, 0
			return s
		},
		Close: func(x mc.Sys) {
			s := x.(*c53Sys)
			if s.last != "" {
				r.Outcome(s.last)
			}
			if s.nBatch > 0 {
				r.OutcomeN("always-rejected-delivery:rejected", s.nBatch)
				r.Eval(s.nBatch)
			}
			if s.acc+s.rej > 0 {
				r.OutcomeN("header-accepted", s.acc)
				r.OutcomeN("header-rejected", s.rej)
			}
		},
	})
}

func TestVerif_C53(t *testing.T) {
	mc.Run(t, "C53", func(r *mc.R) {
		r.Rule("BFS over all sequences (up to the depth bound, de-duplicated by model state [+ deserialized-committee cache in the lazy run]) of: " +
			"CheckpointInit (genuine, alternative-chain, 2 forged), addFixedCommitteeRoot(p) p=0..4 (+alternative root, zero root), addCommittee(p) genuine/alternative/attacker, " +
			"Validate+InsertUpdate of genuine updates (3 scores, finalized, with/without/with the wrong next committee, future), of a properly signed alternative chain (reorg candidates: equal/better/finalized score) " +
			"the score product at period 1 {non-finalized, finalized with valid finality branch} x signers {1, thr-1, thr, 341, 342, 512} x next committee {genuine, attacker F below the threshold / alternative A2 from the threshold on}, finalized 1- and thr-1-signer attacker updates at every period, " +
			"the period-pair product (header period P, signature-slot period in {P-1, P, P+1, P+2}) x signing committee {genuine of P, of the signature period, of P+1, attacker} x {thr-1, 512, 512+finalized} x next {genuine, attacker}, " +
			"and of 7 forged families per period (attacker-signed, threshold-1 signers, wrong merkle branch, inflated bitmask, signature slot in another period, wrong period's committee, low-signer genuine), " +
			"deleteFixedCommitteeRootsFrom, Reset [, reload], in any order incl. descending periods; after every op (eager run) or as explicit ops verify(p) (lazy run) a matrix of ~20 signed headers per period " +
			"(genuine/attacker/alternative/neighbour-period committee x {thr-1,thr,512} signers, inflated, tampered, period-boundary, future) is verified through VerifySignedHeader and HeadTracker.validate")
		r.Assume("signatures are the package's dummy scheme (signature = committee-id XOR signing-root || bitmask): BLS itself is not exercised")
		r.Assume("updates reach InsertUpdate only after LightClientUpdate.Validate() succeeded (production pipeline api.LightAPI -> sync.ForwardUpdateSync); Validate itself is executed and checked")
		r.Assume("the trusted source (harness) supplies only roots of properly signed committees (G or A), never the attacker's")
		r.Assume("reference model = three period->id maps transcribed from the documented CommitteeChain constraints; safety invariants are additionally asserted on the database content without the model")
		r.Bound("periods", c53MaxP+1)
		r.Bound("threshold", c53Thr)
		c53Explore(r, "eager", false, r.Thorough(), mc.Pick(r, 5, 7))
		if !r.Expired() {
			// from a synced chain (root 1 fixed, committees 1..3, updates 1..2): deeper reorg / rollback / un-fix histories
			c53Explore(r, "synced", false, r.Thorough(), mc.Pick(r, 3, 5),
				"fix(1,G)", "addCommittee(1,G)", "insert(g1,G2)", "insert(g2,G3)")
		}
		if !r.Expired() {
			c53Explore(r, "lazy", true, r.Thorough(), mc.Pick(r, 4, 6))
		}
	})
}
