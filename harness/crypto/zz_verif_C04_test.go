//go:build verif

package crypto

import (
	"bytes"
	"encoding/binary"
	"fmt"
	"io"
	"testing"

	"github.com/ethereum/go-ethereum/common"
	"github.com/ethereum/go-ethereum/internal/verif/mc"
	xsha3 "golang.org/x/crypto/sha3"
)

// ---------------------------------------------------------------------------
// Reference 1: Keccak written from the specification (Keccak reference v3.0 /
// FIPS 202 section 3), sharing no table with the code under test: the rotation
// offsets come from the (x,y) -> (y,2x+3y) walk and the round constants from the
// degree-8 LFSR.

var (
	c04Rho [25]uint   // rotation offset of lane x+5y
	c04RC  [24]uint64 // iota round constants
)

func init() {
	x, y := 1, 0
	for t := 0; t < 24; t++ {
		c04Rho[x+5*y] = uint(((t + 1) * (t + 2) / 2) % 64)
		x, y = y, (2*x+3*y)%5
	}
	lfsr := func(t int) uint64 { // rc(t) of FIPS 202 algorithm 5
		r := uint(1)
		for i := 0; i < t%255; i++ {
			r <<= 1
			if r&0x100 != 0 {
				r ^= 0x171
			}
		}
		return uint64(r & 1)
	}
	for i := 0; i < 24; i++ {
		for j := 0; j <= 6; j++ {
			c04RC[i] |= lfsr(j+7*i) << ((1 << uint(j)) - 1)
		}
	}
}

func c04Rotl(v uint64, n uint) uint64 {
	if n == 0 {
		return v
	}
	return v<<n | v>>(64-n)
}

// c04RefF1600 is Keccak-f[1600]: 24 rounds of theta, rho, pi, chi, iota.
func c04RefF1600(a *[25]uint64) {
	for round := 0; round < 24; round++ {
		var c, d [5]uint64
		for x := 0; x < 5; x++ {
			c[x] = a[x] ^ a[x+5] ^ a[x+10] ^ a[x+15] ^ a[x+20]
		}
		for x := 0; x < 5; x++ {
			d[x] = c[(x+4)%5] ^ c04Rotl(c[(x+1)%5], 1)
		}
		for i := 0; i < 25; i++ {
			a[i] ^= d[i%5]
		}
		var b [25]uint64
		for x := 0; x < 5; x++ {
			for y := 0; y < 5; y++ {
				b[y+5*((2*x+3*y)%5)] = c04Rotl(a[x+5*y], c04Rho[x+5*y])
			}
		}
		for x := 0; x < 5; x++ {
			for y := 0; y < 5; y++ {
				a[x+5*y] = b[x+5*y] ^ (^b[(x+1)%5+5*y] & b[(x+2)%5+5*y])
			}
		}
		a[0] ^= c04RC[round]
	}
}

// c04RefSponge is legacy Keccak[c=512] (rate 136, pad10*1 with the legacy
// domain byte 0x01) squeezed to outLen bytes, on whole messages only.
func c04RefSponge(msg []byte, outLen int) []byte {
	const rate = 136
	p := append([]byte{}, msg...)
	p = append(p, 0x01)
	for len(p)%rate != 0 {
		p = append(p, 0)
	}
	p[len(p)-1] |= 0x80
	var a [25]uint64
	for off := 0; off < len(p); off += rate {
		for i := 0; i < rate/8; i++ {
			a[i] ^= binary.LittleEndian.Uint64(p[off+8*i:])
		}
		c04RefF1600(&a)
	}
	var out []byte
	for {
		for i := 0; i < rate/8; i++ {
			out = binary.LittleEndian.AppendUint64(out, a[i])
		}
		if len(out) >= outLen {
			return out[:outLen]
		}
		c04RefF1600(&a)
	}
}

// Reference 2: golang.org/x/crypto/sha3 legacy Keccak-256 (pure Go permutation
// in v0.48.0), one-shot only.
func c04XStream(msg []byte, outLen int) []byte {
	h := xsha3.NewLegacyKeccak256()
	h.Write(msg)
	out := make([]byte, outLen)
	io.ReadFull(h.(io.Reader), out)
	return out
}

// ---------------------------------------------------------------------------

const c04Rate = 136

func c04Pattern(id, n int) []byte {
	out := make([]byte, n)
	switch id {
	case 0: // non-periodic: 32-bit LCG, high byte
		x := uint32(0x2545F491)
		for i := range out {
			x = x*1664525 + 1013904223
			out[i] = byte(x >> 24)
		}
	case 1:
		for i := range out {
			out[i] = 0xff
		}
	case 2: // all zero
	}
	return out
}

var c04PatNames = []string{"lcg", "ff", "00"}

type c04Case struct {
	Kind string `json:"kind"`
	Pat  string `json:"pat"`
	N    int    `json:"n"`
	I    int    `json:"i"`
	J    int    `json:"j"`
}

// c04Stop ends the enumeration early once the verdict is already a failure.
func c04Stop(r *mc.R) bool {
	if r.Violations() > 40 {
		r.NotExhaustive("stopped early after more than 40 violations")
		return true
	}
	return false
}

func c04Near(n int) bool {
	for _, m := range []int{c04Rate, 2 * c04Rate, 3 * c04Rate} {
		if n >= m-3 && n <= m+3 {
			return true
		}
	}
	return false
}

// TestVerif_C04_API checks the client-facing entry points of package crypto
// (Keccak256, Keccak256Hash, HashData, NewKeccakState) against the references.
// The pooled hashers behind Keccak256/Keccak256Hash are reused across all cases
// of a worker, so state left over from a previous call of a different length
// would show up as a wrong digest.
func TestVerif_C04_API(t *testing.T) {
	mc.Run(t, "C04", func(r *mc.R) {
		maxN := mc.Pick(r, 3*c04Rate+8, 5*c04Rate+8)
		full3 := mc.Pick(r, c04Rate+8, 2*c04Rate+8)
		r.Rule("patterns{lcg,ff,00} x every length n in 0..maxN: Keccak256 and Keccak256Hash with the message passed as 0/1 argument, " +
			"as every 2-split (two arguments) and, for n<=full3 or n within 3 of a rate multiple, as every 3-split (three arguments); " +
			"HashData on one long-lived KeccakState; NewKeccakState Write/Read/Reset/Sum over every 2-split; " +
			"one case = one (kind,pattern,n,i,j); distinct = distinct (kind,n,i,j)")
		r.Bound("max_len", maxN)
		r.Bound("full_3split_len", full3)
		r.Bound("patterns", len(c04PatNames))
		r.Assume("reference = Keccak transcribed from the specification in the harness; second reference golang.org/x/crypto/sha3.NewLegacyKeccak256; " +
			"they must agree with each other on every whole message")

		ref := make([][][]byte, len(c04PatNames))
		pats := make([][]byte, len(c04PatNames))
		for p := range c04PatNames {
			pats[p] = c04Pattern(p, maxN)
			ref[p] = make([][]byte, maxN+1)
		}
		r.Parallel(len(c04PatNames)*(maxN+1), func(k int) {
			p, n := k/(maxN+1), k%(maxN+1)
			a := c04RefSponge(pats[p][:n], 64)
			b := c04XStream(pats[p][:n], 64)
			if !bytes.Equal(a, b) {
				r.Violation(fmt.Sprintf("reference-mismatch:%s:%d", c04PatNames[p], n),
					fmt.Sprintf("the two references disagree on pattern %s length %d: spec %x x/crypto %x", c04PatNames[p], n, a, b), nil)
			}
			ref[p][n] = a
		})
		if r.Violations() > 0 || r.Expired() {
			return
		}
		r.Case(c04Case{Kind: "no-arguments"}, func() error {
			if got := Keccak256(); !bytes.Equal(got, ref[0][0][:32]) {
				return fmt.Errorf("Keccak256() = %x, reference %x", got, ref[0][0][:32])
			}
			if got := Keccak256Hash(); !bytes.Equal(got[:], ref[0][0][:32]) {
				return fmt.Errorf("Keccak256Hash() = %x, reference %x", got, ref[0][0][:32])
			}
			return nil
		})

		r.Parallel(len(c04PatNames)*(maxN+1), func(k int) {
			p, n := k%len(c04PatNames), k/len(c04PatNames)
			pn := c04PatNames[p]
			msg := pats[p][:n]
			want := ref[p][n][:32]
			long := NewKeccakState()
			var n2, n3, nst int64
			if c04Stop(r) {
				return
			}

			r.Case(c04Case{Kind: "one-argument", Pat: pn, N: n}, func() error {
				if got := Keccak256(msg); !bytes.Equal(got, want) {
					return fmt.Errorf("Keccak256(%s[:%d]) = %x, reference %x", pn, n, got, want)
				}
				if got := Keccak256Hash(msg); got != common.BytesToHash(want) {
					return fmt.Errorf("Keccak256Hash(%s[:%d]) = %x, reference %x", pn, n, got, want)
				}
				// HashData on a state that was left squeezing, absorbing and fresh
				for round := 0; round < 3; round++ {
					if got := HashData(long, msg); got != common.BytesToHash(want) {
						return fmt.Errorf("HashData(%s[:%d]) round %d = %x, reference %x", pn, n, round, got, want)
					}
					if round == 1 {
						long.Reset()
						long.Write(msg[:n/2])
					}
				}
				return nil
			})
			r.DistinctHash(mc.Hash64(fmt.Sprintf("1/%d", n)))

			for i := 0; i <= n; i++ {
				r.Case(c04Case{Kind: "two-arguments", Pat: pn, N: n, I: i}, func() error {
					if got := Keccak256(msg[:i], msg[i:]); !bytes.Equal(got, want) {
						return fmt.Errorf("Keccak256(m[:%d],m[%d:%d]) = %x, reference %x", i, i, n, got, want)
					}
					if got := Keccak256Hash(msg[:i], msg[i:]); got != common.BytesToHash(want) {
						return fmt.Errorf("Keccak256Hash(m[:%d],m[%d:%d]) = %x, reference %x", i, i, n, got, want)
					}
					return nil
				})
				n2++
				r.Case(c04Case{Kind: "keccakstate", Pat: pn, N: n, I: i}, func() error {
					st := NewKeccakState()
					st.Write(msg[:i])
					if got := st.Sum(nil); !bytes.Equal(got, ref[p][i][:32]) {
						return fmt.Errorf("KeccakState Write(%d);Sum = %x, reference %x", i, got, ref[p][i][:32])
					}
					st.Write(msg[i:])
					var out [64]byte
					st.Read(out[:20])
					st.Read(out[20:])
					if !bytes.Equal(out[:], ref[p][n]) {
						return fmt.Errorf("KeccakState Write(%d);Write(%d);Read(20);Read(44) = %x, reference %x", i, n-i, out, ref[p][n])
					}
					st.Reset()
					st.Write(msg[i:])
					st.Write(msg[:i]) // rotated message: compare with x/crypto directly
					rot := append(append([]byte{}, msg[i:]...), msg[:i]...)
					if got, w := st.Sum(nil), c04XStream(rot, 32); !bytes.Equal(got, w) {
						return fmt.Errorf("KeccakState after Reset: rotated message at %d = %x, reference %x", i, got, w)
					}
					return nil
				})
				nst++
				r.DistinctHash(mc.Hash64(fmt.Sprintf("2/%d/%d", n, i)))
			}
			if n <= full3 || c04Near(n) {
				for i := 0; i <= n && !c04Stop(r); i++ {
					for j := i; j <= n; j++ {
						r.Case(c04Case{Kind: "three-arguments", Pat: pn, N: n, I: i, J: j}, func() error {
							if got := Keccak256(msg[:i], msg[i:j], msg[j:]); !bytes.Equal(got, want) {
								return fmt.Errorf("Keccak256(m[:%d],m[%d:%d],m[%d:%d]) = %x, reference %x", i, i, j, j, n, got, want)
							}
							if (i+j)%5 == 0 { // the two entry points share the pool; Hash variant on a fifth of the splits
								if got := Keccak256Hash(msg[:i], msg[i:j], msg[j:]); got != common.BytesToHash(want) {
									return fmt.Errorf("Keccak256Hash(m[:%d],m[%d:%d],m[%d:%d]) = %x, reference %x", i, i, j, j, n, got, want)
								}
							}
							return nil
						})
						n3++
						r.DistinctHash(uint64(n)<<40 | uint64(i)<<20 | uint64(j) | 1<<59)
					}
				}
			}
			r.OutcomeN("two_argument_splits", n2)
			r.OutcomeN("three_argument_splits", n3)
			r.OutcomeN("keccakstate_sequences", nst)
			r.OutcomeN(fmt.Sprintf("messages_with_%d_full_blocks", n/c04Rate), 1)
			if n%97 == 5 && p == 0 {
				r.Sample(map[string]any{"pattern": pn, "n": n, "digest": fmt.Sprintf("%x", want)})
			}
		})
	})
}
