//go:build verif

package kzg4844

import (
	"bytes"
	"encoding/binary"
	"fmt"
	"math/big"
	"testing"

	"github.com/ethereum/go-ethereum/internal/verif/mc"
)

var (
	// BLS12-381 scalar field modulus and base field modulus (EIP-4844 / draft-irtf-cfrg-pairing-friendly-curves)
	c05BLSr, _ = new(big.Int).SetString("73eda753299d7d483339d80809a1d80553bda402fffe5bfeffffffff00000001", 16)
	c05BLSp, _ = new(big.Int).SetString("1a0111ea397fe69a4b1ba7b6434bacd764774b84f38512bf6730d2a0f6b0f6241eabfffeb153ffffb9feffffffffaaab", 16)
)

func c05KStop(r *mc.R) bool {
	if r.Violations() > 40 {
		r.NotExhaustive("stopped early after more than 40 violations")
		return true
	}
	return false
}

type c05KCase struct {
	Op   string `json:"op"`
	Blob string `json:"blob,omitempty"`
	Pt   string `json:"point,omitempty"`
	Mut  string `json:"mut,omitempty"`
}

func c05fe(v *big.Int) (out [32]byte) { v.FillBytes(out[:]); return }

func c05Blobs() (names []string, blobs []*Blob) {
	add := func(n string, f func(i int) *big.Int) {
		b := new(Blob)
		for i := 0; i < 4096; i++ {
			fe := c05fe(f(i))
			copy(b[32*i:], fe[:])
		}
		names, blobs = append(names, n), append(blobs, b)
	}
	add("zero", func(i int) *big.Int { return new(big.Int) })
	add("one-hot", func(i int) *big.Int {
		if i == 0 {
			return big.NewInt(1)
		}
		return new(big.Int)
	})
	add("pattern", func(i int) *big.Int {
		var b [31]byte
		x := uint64(i)*0x9e3779b97f4a7c15 + 0x1234567
		for k := 0; k < 3; k++ {
			binary.BigEndian.PutUint64(b[8*k:], x)
			x = x*6364136223846793005 + 1442695040888963407
		}
		return new(big.Int).SetBytes(b[:])
	})
	add("all-r-minus-1", func(i int) *big.Int { return new(big.Int).Sub(c05BLSr, big.NewInt(1)) })
	return
}

// c05G1Mutations returns encodings derived from a valid compressed G1 point. must=true marks the ones that
// are not valid encodings of a subgroup point under the EIP-4844 / ZCash serialization rules (both backends must reject);
// the others are valid encodings of a different point (decision left to the proof equation; only agreement is required).
func c05G1Mutations(orig [48]byte, other [48]byte) (names []string, vals [][48]byte, must []bool) {
	add := func(n string, v [48]byte, m bool) {
		names, vals, must = append(names, n), append(vals, v), append(must, m)
	}
	inf := [48]byte{0: 0xc0}
	isInf := orig == inf
	add("swapped-with-other-field", other, false)
	add("infinity", inf, false)
	neg := orig
	neg[0] ^= 0x20
	add("sort-bit-flipped", neg, isInf) // on infinity the sort bit must be clear
	unc := orig
	unc[0] &^= 0x80
	add("compression-flag-cleared", unc, true)
	if !isInf {
		fi := orig
		fi[0] |= 0x40
		add("infinity-flag-set-on-finite-point", fi, true)
	} else {
		fi := orig
		fi[47] = 1
		add("infinity-with-nonzero-body", fi, true)
	}
	var xp [48]byte
	c05BLSp.FillBytes(xp[:])
	xp[0] |= 0x80
	add("x-equals-p", xp, true)
	var ff [48]byte
	for i := range ff {
		ff[i] = 0xff
	}
	add("all-ff", ff, true)
	add("all-zero", [48]byte{}, true)
	for x := byte(1); x <= 6; x++ { // small x: either no point (x^3+4 non-residue) or a point outside the prime-order subgroup
		v := [48]byte{0: 0x80, 47: x}
		add(fmt.Sprintf("small-x-%d", x), v, true)
		v[0] |= 0x20
		add(fmt.Sprintf("small-x-%d-odd", x), v, true)
	}
	last := orig
	last[47] ^= 1
	add("last-bit-flipped", last, false) // another x: usually not on the curve or outside the subgroup, but not known here
	return
}

func c05ScalarMutations(orig [32]byte) (names []string, vals [][32]byte, must []bool) {
	add := func(n string, v *big.Int, m bool) {
		names, vals, must = append(names, n), append(vals, c05fe(v)), append(must, m)
	}
	o := new(big.Int).SetBytes(orig[:])
	add("plus-1", new(big.Int).Mod(new(big.Int).Add(o, big.NewInt(1)), c05BLSr), false)
	add("plus-r(non-canonical-same-residue)", new(big.Int).Add(o, c05BLSr), true)
	add("equals-r", c05BLSr, true)
	add("r-plus-1", new(big.Int).Add(c05BLSr, big.NewInt(1)), true)
	add("all-ff", new(big.Int).Sub(new(big.Int).Lsh(big.NewInt(1), 256), big.NewInt(1)), true)
	add("zero", new(big.Int), false)
	add("r-minus-1", new(big.Int).Sub(c05BLSr, big.NewInt(1)), false)
	return
}

// TestVerif_C05_KZG runs the two KZG backends (go-eth-kzg and c-kzg-4844) side by
// side on genuine and corrupted inputs. The functions behind the UseCKZG switch are
// called directly, so both are exercised regardless of the global setting.
func TestVerif_C05_KZG(t *testing.T) {
	mc.Run(t, "C05", func(r *mc.R) {
		if !ckzgAvailable {
			r.Violation("setup-ckzg-not-linked", "the c-kzg backend is not compiled in: this step must be built with cgo and -tags ckzg, otherwise there is nothing to compare", nil)
			return
		}
		r.Rule("blobs {zero, one-hot, pattern, all r-1} x evaluation points {0,1 (in the domain),2,r-1,pattern}: commitments, proofs, claims, blob proofs and cell proofs must be byte-identical; " +
			"VerifyProof on the genuine tuple and on every single-field substitution (scalars: +1, +r, r, r+1, 2^256-1, 0, r-1; G1 fields: swapped, infinity, sort bit, compression flag, infinity flag, x=p, " +
			"all-ff, all-zero, 12 small-x encodings, last bit); VerifyBlobProof likewise incl. blobs with a non-canonical element at index 0/7/4095; VerifyCellProofs genuine, permuted, wrong commitment, " +
			"wrong counts; one case = one call on both backends; distinct = distinct (op,blob,point,substitution)")
		r.Assume("oracle = agreement of the two backends on accept/reject and on computed bytes + genuine tuples must verify + encodings that are invalid under the EIP-4844 " +
			"serialization rules (non-canonical scalar, bad flags, x>=p, point absent or outside the subgroup) must be rejected")
		if err := UseCKZG(true); err != nil {
			r.Violation("setup-UseCKZG", err.Error(), nil)
			return
		}
		UseCKZG(false)

		bnames, blobs := c05Blobs()
		rm1 := new(big.Int).Sub(c05BLSr, big.NewInt(1))
		pts := []Point{c05fe(new(big.Int)), c05fe(big.NewInt(1)), c05fe(big.NewInt(2)), c05fe(rm1), c05fe(new(big.Int).SetBytes(bytes.Repeat([]byte{0x5a}, 31)))}
		pnames := []string{"0", "1", "2", "r-1", "pattern"}
		if r.Quick() {
			pts, pnames = []Point{pts[1], pts[2], pts[3]}, []string{"1", "2", "r-1"}
		}
		r.Bound("blobs", len(blobs))
		r.Bound("points", len(pts))

		commits := make([]Commitment, len(blobs))
		bproofs := make([]Proof, len(blobs))
		type opened struct {
			proof Proof
			claim Claim
			ok    bool
		}
		opens := make([][]opened, len(blobs))
		r.Parallel(len(blobs), func(bi int) {
			opens[bi] = make([]opened, len(pts))
			// go-eth-kzg results are computed outside the cases (later cases and their replays are built from them);
			// the cases compare them with c-kzg.
			c1, ce1 := gokzgBlobToCommitment(blobs[bi])
			commits[bi] = c1
			bp1, be1 := gokzgComputeBlobProof(blobs[bi], c1)
			bproofs[bi] = bp1
			r.Case(c05KCase{Op: "commit+blobproof", Blob: bnames[bi]}, func() error {
				c2, e2 := ckzgBlobToCommitment(blobs[bi])
				if ce1 != nil || e2 != nil || c1 != c2 {
					return fmt.Errorf("BlobToCommitment(%s): gokzg (%x,%v) ckzg (%x,%v)", bnames[bi], c1, ce1, c2, e2)
				}
				p2, e2 := ckzgComputeBlobProof(blobs[bi], c1)
				if be1 != nil || e2 != nil || bp1 != p2 {
					return fmt.Errorf("ComputeBlobProof(%s): gokzg (%x,%v) ckzg (%x,%v)", bnames[bi], bp1, be1, p2, e2)
				}
				if e := gokzgVerifyBlobProof(blobs[bi], c1, bp1); e != nil {
					return fmt.Errorf("gokzg rejects the genuine blob proof: %v", e)
				}
				if e := ckzgVerifyBlobProof(blobs[bi], c1, bp1); e != nil {
					return fmt.Errorf("ckzg rejects the genuine blob proof: %v", e)
				}
				return nil
			})
			r.Distinct("commit/" + bnames[bi])
			r.Outcome("commitment_and_blob_proof_identical")
			for pi, z := range pts {
				p1, y1, e1 := gokzgComputeProof(blobs[bi], z)
				opens[bi][pi] = opened{p1, y1, e1 == nil}
				r.Case(c05KCase{Op: "computeproof", Blob: bnames[bi], Pt: pnames[pi]}, func() error {
					p2, y2, e2 := ckzgComputeProof(blobs[bi], z)
					if e1 != nil || e2 != nil || p1 != p2 || y1 != y2 {
						return fmt.Errorf("ComputeProof(%s, z=%s): gokzg (%x,%x,%v) ckzg (%x,%x,%v)", bnames[bi], pnames[pi], p1, y1, e1, p2, y2, e2)
					}
					return nil
				})
				r.Distinct("open/" + bnames[bi] + "/" + pnames[pi])
				r.Outcome("proof_and_claim_identical")
			}
		})
		if r.Violations() > 0 && !r.Replaying() {
			return
		}

		// ---- VerifyProof: genuine and substituted
		type vjob struct {
			bi, pi int
			mut    string
			c      Commitment
			z      Point
			y      Claim
			p      Proof
			must   string // "accept", "reject", "" (agreement only)
		}
		var vjobs []vjob
		for bi := range blobs {
			for pi := range pts {
				o := opens[bi][pi]
				base := vjob{bi: bi, pi: pi, c: commits[bi], z: pts[pi], y: o.claim, p: o.proof}
				g := base
				g.mut, g.must = "genuine", "accept"
				vjobs = append(vjobs, g)
				mustStr := func(m bool) string {
					if m {
						return "reject"
					}
					return ""
				}
				ns, vs, ms := c05ScalarMutations(pts[pi])
				for i := range ns {
					j := base
					j.mut, j.z, j.must = "point:"+ns[i], vs[i], mustStr(ms[i])
					if j.z != base.z {
						vjobs = append(vjobs, j)
					}
				}
				ns, vs, ms = c05ScalarMutations(o.claim)
				for i := range ns {
					j := base
					j.mut, j.y, j.must = "claim:"+ns[i], vs[i], mustStr(ms[i])
					if j.y != base.y {
						vjobs = append(vjobs, j)
					}
				}
				gn, gv, gm := c05G1Mutations(commits[bi], o.proof)
				for i := range gn {
					j := base
					j.mut, j.c, j.must = "commitment:"+gn[i], gv[i], mustStr(gm[i])
					if j.c != base.c {
						vjobs = append(vjobs, j)
					}
				}
				gn, gv, gm = c05G1Mutations(o.proof, commits[bi])
				for i := range gn {
					j := base
					j.mut, j.p, j.must = "proof:"+gn[i], gv[i], mustStr(gm[i])
					if j.p != base.p {
						vjobs = append(vjobs, j)
					}
				}
			}
		}
		r.Bound("verifyproof_cases", len(vjobs))
		r.Parallel(len(vjobs), func(i int) {
			j := vjobs[i]
			if c05KStop(r) {
				return
			}
			var acc bool
			r.Case(c05KCase{Op: "verifyproof", Blob: bnames[j.bi], Pt: pnames[j.pi], Mut: j.mut}, func() error {
				e1 := gokzgVerifyProof(j.c, j.z, j.y, j.p)
				e2 := ckzgVerifyProof(j.c, j.z, j.y, j.p)
				acc = e1 == nil
				if (e1 == nil) != (e2 == nil) {
					return fmt.Errorf("VerifyProof(%s, z=%s, %s): gokzg err=%v, ckzg err=%v (commitment %x point %x claim %x proof %x)", bnames[j.bi], pnames[j.pi], j.mut, e1, e2, j.c, j.z, j.y, j.p)
				}
				if j.must == "accept" && e1 != nil {
					return fmt.Errorf("genuine proof rejected: %v", e1)
				}
				if j.must == "reject" && e1 == nil {
					return fmt.Errorf("VerifyProof accepted an invalid encoding (%s): commitment %x point %x claim %x proof %x", j.mut, j.c, j.z, j.y, j.p)
				}
				return nil
			})
			r.Distinct(fmt.Sprintf("vp/%d/%d/%s", j.bi, j.pi, j.mut))
			if acc {
				r.Outcome("verifyproof_accepted")
			} else {
				r.Outcome("verifyproof_rejected")
			}
			if i%151 == 0 {
				r.Sample(map[string]any{"op": "verifyproof", "blob": bnames[j.bi], "point": pnames[j.pi], "mut": j.mut, "accepted": acc})
			}
		})

		// ---- VerifyBlobProof: genuine and substituted, incl. invalid blobs
		type bjob struct {
			bi   int
			mut  string
			blob *Blob
			c    Commitment
			p    Proof
			must string
		}
		var bjobs []bjob
		for bi := range blobs {
			base := bjob{bi: bi, blob: blobs[bi], c: commits[bi], p: bproofs[bi]}
			gn, gv, gm := c05G1Mutations(commits[bi], bproofs[bi])
			for i := range gn {
				j := base
				j.mut, j.c = "commitment:"+gn[i], gv[i]
				if gm[i] {
					j.must = "reject"
				}
				if j.c != base.c {
					bjobs = append(bjobs, j)
				}
			}
			gn, gv, gm = c05G1Mutations(bproofs[bi], commits[bi])
			for i := range gn {
				j := base
				j.mut, j.p = "proof:"+gn[i], gv[i]
				if gm[i] {
					j.must = "reject"
				}
				if j.p != base.p {
					bjobs = append(bjobs, j)
				}
			}
			for _, idx := range []int{0, 7, 4095} {
				for _, bad := range []struct {
					n string
					v *big.Int
				}{{"r", c05BLSr}, {"r+1", new(big.Int).Add(c05BLSr, big.NewInt(1))}, {"2^256-1", new(big.Int).Sub(new(big.Int).Lsh(big.NewInt(1), 256), big.NewInt(1))}} {
					nb := new(Blob)
					*nb = *blobs[bi]
					fe := c05fe(bad.v)
					copy(nb[32*idx:], fe[:])
					j := base
					j.mut, j.blob, j.must = fmt.Sprintf("blob[%d]=%s", idx, bad.n), nb, "reject"
					bjobs = append(bjobs, j)
				}
				nb := new(Blob)
				*nb = *blobs[bi]
				nb[32*idx+31] ^= 1
				j := base
				j.mut, j.blob = fmt.Sprintf("blob[%d]^=1", idx), nb
				bjobs = append(bjobs, j)
			}
		}
		r.Bound("verifyblobproof_cases", len(bjobs))
		r.Parallel(len(bjobs), func(i int) {
			j := bjobs[i]
			if c05KStop(r) {
				return
			}
			var acc bool
			r.Case(c05KCase{Op: "verifyblobproof", Blob: bnames[j.bi], Mut: j.mut}, func() error {
				e1 := gokzgVerifyBlobProof(j.blob, j.c, j.p)
				e2 := ckzgVerifyBlobProof(j.blob, j.c, j.p)
				acc = e1 == nil
				if (e1 == nil) != (e2 == nil) {
					return fmt.Errorf("VerifyBlobProof(%s, %s): gokzg err=%v, ckzg err=%v", bnames[j.bi], j.mut, e1, e2)
				}
				if j.must == "reject" && e1 == nil {
					return fmt.Errorf("VerifyBlobProof accepted an invalid input (%s)", j.mut)
				}
				// computing on an invalid blob must fail on both sides as well
				if j.blob != blobs[j.bi] && j.must == "reject" {
					_, c1 := gokzgBlobToCommitment(j.blob)
					_, c2 := ckzgBlobToCommitment(j.blob)
					_, _, o1 := gokzgComputeProof(j.blob, Point{31: 2})
					_, _, o2 := ckzgComputeProof(j.blob, Point{31: 2})
					if c1 == nil || c2 == nil || o1 == nil || o2 == nil {
						return fmt.Errorf("a blob with a non-canonical field element (%s) was accepted: BlobToCommitment gokzg err=%v ckzg err=%v, ComputeProof gokzg err=%v ckzg err=%v", j.mut, c1, c2, o1, o2)
					}
				}
				return nil
			})
			r.Distinct(fmt.Sprintf("vbp/%d/%s", j.bi, j.mut))
			if acc {
				r.Outcome("verifyblobproof_accepted")
			} else {
				r.Outcome("verifyblobproof_rejected")
			}
		})
		// ComputeProof with non-canonical evaluation points
		for _, bad := range []*big.Int{c05BLSr, new(big.Int).Add(c05BLSr, big.NewInt(1)), new(big.Int).Sub(new(big.Int).Lsh(big.NewInt(1), 256), big.NewInt(1))} {
			r.Case(c05KCase{Op: "computeproof-noncanonical-point", Blob: "pattern", Pt: bad.Text(16)}, func() error {
				_, _, e1 := gokzgComputeProof(blobs[2], c05fe(bad))
				_, _, e2 := ckzgComputeProof(blobs[2], c05fe(bad))
				if e1 == nil || e2 == nil {
					return fmt.Errorf("ComputeProof accepted the non-canonical point %x: gokzg err=%v ckzg err=%v", bad, e1, e2)
				}
				return nil
			})
			r.Outcome("computeproof_rejected_point")
		}
		if c05KStop(r) || r.Expired() {
			return
		}

		// ---- cell proofs (EIP-7594): one blob in the quick tier
		cellBlobs := []int{2}
		if r.Thorough() {
			cellBlobs = []int{0, 1, 2, 3}
		}
		r.Bound("cell_proof_blobs", len(cellBlobs))
		r.Parallel(len(cellBlobs), func(ci int) {
			bi := cellBlobs[ci]
			p1, e1 := gokzgComputeCellProofs(blobs[bi]) // outside the case, see above
			var proofs []Proof
			if e1 == nil && len(p1) == CellProofsPerBlob {
				proofs = p1
			}
			r.Case(c05KCase{Op: "computecellproofs", Blob: bnames[bi]}, func() error {
				p2, e2 := ckzgComputeCellProofs(blobs[bi])
				if e1 != nil || e2 != nil || len(p1) != CellProofsPerBlob || len(p2) != CellProofsPerBlob {
					return fmt.Errorf("ComputeCellProofs(%s): gokzg (%d,%v) ckzg (%d,%v)", bnames[bi], len(p1), e1, len(p2), e2)
				}
				for i := range p1 {
					if p1[i] != p2[i] {
						return fmt.Errorf("ComputeCellProofs(%s)[%d]: gokzg %x ckzg %x", bnames[bi], i, p1[i], p2[i])
					}
				}
				return nil
			})
			r.Outcome("cell_proofs_identical")
			if proofs == nil {
				return
			}
			swapped := append([]Proof{}, proofs...)
			swapped[5], swapped[6] = swapped[6], swapped[5]
			badEnc := append([]Proof{}, proofs...)
			badEnc[127][0] &^= 0x80
			other := commits[(bi+1)%len(commits)]
			badBlob := *blobs[bi]
			fe := c05fe(c05BLSr)
			copy(badBlob[32*4095:], fe[:])
			for _, tc := range []struct {
				mut     string
				blobs   []Blob
				commits []Commitment
				proofs  []Proof
				must    string
			}{
				{"genuine", []Blob{*blobs[bi]}, []Commitment{commits[bi]}, proofs, "accept"},
				{"proofs-5-6-swapped", []Blob{*blobs[bi]}, []Commitment{commits[bi]}, swapped, ""},
				{"proof-127-compression-flag-cleared", []Blob{*blobs[bi]}, []Commitment{commits[bi]}, badEnc, "reject"},
				{"other-commitment", []Blob{*blobs[bi]}, []Commitment{other}, proofs, ""},
				{"blob[4095]=r", []Blob{badBlob}, []Commitment{commits[bi]}, proofs, "reject"},
				{"127-proofs", []Blob{*blobs[bi]}, []Commitment{commits[bi]}, proofs[:127], "reject"},
				{"no-proofs", []Blob{*blobs[bi]}, []Commitment{commits[bi]}, nil, "reject"},
				{"two-commitments-one-blob", []Blob{*blobs[bi]}, []Commitment{commits[bi], commits[bi]}, proofs, "reject"},
				{"two-blobs-one-commitment", []Blob{*blobs[bi], *blobs[bi]}, []Commitment{commits[bi]}, proofs, "reject"},
			} {
				var acc bool
				r.Case(c05KCase{Op: "verifycellproofs", Blob: bnames[bi], Mut: tc.mut}, func() error {
					e1 := gokzgVerifyCellProofBatch(tc.blobs, tc.commits, tc.proofs)
					e2 := ckzgVerifyCellProofBatch(tc.blobs, tc.commits, tc.proofs)
					acc = e1 == nil
					if (e1 == nil) != (e2 == nil) {
						return fmt.Errorf("VerifyCellProofs(%s, %s): gokzg err=%v, ckzg err=%v", bnames[bi], tc.mut, e1, e2)
					}
					if tc.must == "accept" && e1 != nil {
						return fmt.Errorf("genuine cell proofs rejected: %v", e1)
					}
					if tc.must == "reject" && e1 == nil {
						return fmt.Errorf("VerifyCellProofs accepted the malformed input %s", tc.mut)
					}
					return nil
				})
				r.Distinct("cells/" + bnames[bi] + "/" + tc.mut)
				if acc {
					r.Outcome("verifycellproofs_accepted")
				} else {
					r.Outcome("verifycellproofs_rejected")
				}
			}
		})
	})
}
