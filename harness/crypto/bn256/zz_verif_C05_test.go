//go:build verif

package bn256

import (
	"bytes"
	"encoding/hex"
	"fmt"
	"math/big"
	"testing"

	gnarkbn "github.com/consensys/gnark-crypto/ecc/bn254"
	cf "github.com/ethereum/go-ethereum/crypto/bn256/cloudflare"
	gk "github.com/ethereum/go-ethereum/crypto/bn256/gnark"
	gg "github.com/ethereum/go-ethereum/crypto/bn256/google"
	"github.com/ethereum/go-ethereum/internal/verif/mc"
)

// c05BN adapts one BN254 implementation to the byte-level operations of the
// EIP-196/197 precompiles: every operation takes encoded points, decodes them
// with the backend's Unmarshal (reject => error) and returns encoded results.
type c05BN struct {
	name    string
	g1      func(b []byte) (any, error)
	g1bytes func(p any) []byte
	add     func(a, b any) any
	mul     func(a any, k *big.Int) any
	g2      func(b []byte) (any, error)
	g2bytes func(p any) []byte
	pairing func(a, b []any) bool
}

func c05Backends() []c05BN {
	return []c05BN{
		{
			name: "gnark",
			g1: func(b []byte) (any, error) {
				p := new(gk.G1)
				_, err := p.Unmarshal(b)
				return p, err
			},
			g1bytes: func(p any) []byte { return p.(*gk.G1).Marshal() },
			add:     func(a, b any) any { r := new(gk.G1); r.Add(a.(*gk.G1), b.(*gk.G1)); return r },
			mul:     func(a any, k *big.Int) any { r := new(gk.G1); r.ScalarMult(a.(*gk.G1), k); return r },
			g2: func(b []byte) (any, error) {
				p := new(gk.G2)
				_, err := p.Unmarshal(b)
				return p, err
			},
			g2bytes: func(p any) []byte { return p.(*gk.G2).Marshal() },
			pairing: func(a, b []any) bool {
				as, bs := make([]*gk.G1, len(a)), make([]*gk.G2, len(b))
				for i := range a {
					as[i], bs[i] = a[i].(*gk.G1), b[i].(*gk.G2)
				}
				return gk.PairingCheck(as, bs)
			},
		},
		{
			name: "cloudflare",
			g1: func(b []byte) (any, error) {
				p := new(cf.G1)
				_, err := p.Unmarshal(b)
				return p, err
			},
			g1bytes: func(p any) []byte { return p.(*cf.G1).Marshal() },
			add:     func(a, b any) any { return new(cf.G1).Add(a.(*cf.G1), b.(*cf.G1)) },
			mul:     func(a any, k *big.Int) any { return new(cf.G1).ScalarMult(a.(*cf.G1), k) },
			g2: func(b []byte) (any, error) {
				p := new(cf.G2)
				_, err := p.Unmarshal(b)
				return p, err
			},
			g2bytes: func(p any) []byte { return p.(*cf.G2).Marshal() },
			pairing: func(a, b []any) bool {
				as, bs := make([]*cf.G1, len(a)), make([]*cf.G2, len(b))
				for i := range a {
					as[i], bs[i] = a[i].(*cf.G1), b[i].(*cf.G2)
				}
				return cf.PairingCheck(as, bs)
			},
		},
		{
			name: "google",
			g1: func(b []byte) (any, error) {
				p := new(gg.G1)
				_, err := p.Unmarshal(b)
				return p, err
			},
			g1bytes: func(p any) []byte { return p.(*gg.G1).Marshal() },
			add:     func(a, b any) any { return new(gg.G1).Add(a.(*gg.G1), b.(*gg.G1)) },
			mul:     func(a any, k *big.Int) any { return new(gg.G1).ScalarMult(a.(*gg.G1), k) },
			g2: func(b []byte) (any, error) {
				p := new(gg.G2)
				_, err := p.Unmarshal(b)
				return p, err
			},
			g2bytes: func(p any) []byte { return p.(*gg.G2).Marshal() },
			pairing: func(a, b []any) bool {
				as, bs := make([]*gg.G1, len(a)), make([]*gg.G2, len(b))
				for i := range a {
					as[i], bs[i] = a[i].(*gg.G1), b[i].(*gg.G2)
				}
				return gg.PairingCheck(as, bs)
			},
		},
	}
}

var (
	c05P, _ = new(big.Int).SetString("21888242871839275222246405745257275088696311157297823662689037894645226208583", 10)
	c05N, _ = new(big.Int).SetString("21888242871839275222246405745257275088548364400416034343698204186575808495617", 10)
)

func c05Pad(v *big.Int) []byte { return v.FillBytes(make([]byte, 32)) }

func c05Cat(parts ...[]byte) []byte {
	var out []byte
	for _, p := range parts {
		out = append(out, p...)
	}
	return out
}

type c05Pt struct {
	name  string
	b     []byte
	valid bool     // expected acceptance (EIP-196/197: canonical coordinates, on curve, G2 in the order-n subgroup)
	k     *big.Int // discrete log w.r.t. the generator when valid (nil if unknown)
}

type c05Case struct {
	Op string   `json:"op"`
	A  string   `json:"a,omitempty"`
	B  string   `json:"b,omitempty"`
	K  string   `json:"k,omitempty"`
	L  []string `json:"list,omitempty"`
}

func c05Stop(r *mc.R) bool {
	if r.Violations() > 40 {
		r.NotExhaustive("stopped early after more than 40 violations")
		return true
	}
	return false
}

// TestVerif_C05_BN254 runs the three BN254 implementations (gnark = the one the
// client links, cloudflare, google) on the same encoded inputs and requires equal
// accept/reject decisions and equal result bytes; group laws with known discrete
// logs give an expectation that does not come from any of the three.
func TestVerif_C05_BN254(t *testing.T) {
	mc.Run(t, "C05", func(r *mc.R) {
		bks := c05Backends()
		r.Rule("G1 alphabet (infinity, kG for k in {1..5,(n-1)/2,(n+1)/2,n-3,n-2,n-1}, off-curve, non-canonical x/y (>=p), 2^256-1, short input) and G2 alphabet (infinity, kH for the same k, off-twist, " +
			"on-twist point outside the order-n subgroup, non-canonical coordinates, short input): Unmarshal/Marshal of every element; Add over all pairs of G1 elements; ScalarMult over all G1 elements x " +
			"scalars {0,1,2,n-1,n,n+1,2^256-1}; PairingCheck over the empty list, all single pairs, all 2-element lists (quick: reduced valid alphabet; thorough: full) and invalid-member lists; " +
			"one case = one operation on one input tuple run on the 3 backends; distinct = distinct (op,input)")
		r.Assume("oracle = agreement of three independently written implementations + expectations from the group laws: k1*G+k2*G=(k1+k2 mod n)*G, s*(k*G)=(s*k mod n)*G, " +
			"prod e(a_i*G, b_i*H) = 1 iff sum a_i*b_i = 0 mod n; acceptance expectation from EIP-196/197")

		sub := func(a *big.Int, k int64) *big.Int { return new(big.Int).Sub(a, big.NewInt(k)) }
		one, two := big.NewInt(1), big.NewInt(2)
		g1gen := c05Cat(c05Pad(one), c05Pad(two))
		hx := func(s string) []byte { b, _ := hex.DecodeString(s); return b }
		g2gen := c05Cat(hx("198e9393920d483a7260bfb731fb5d25f1aa493335a9e71297e485b7aef312c2"), hx("1800deef121f1e76426a00665e5c4479674322d4f75edadd46debd5cd992f6ed"),
			hx("090689d0585ff075ec9e99ad690c3395bc4b313370b38ef355acdadcd122975b"), hx("12c85ea5db8c6deb4aab71808dcb408fe3d1e7690c43d37b4ce6cc0166fa7daa"))

		// multiples of the generators, computed by every backend that can and required to agree
		halfN := new(big.Int).Rsh(c05N, 1) // (n-1)/2
		ks := []*big.Int{one, two, big.NewInt(3), big.NewInt(4), big.NewInt(5), halfN, new(big.Int).Add(halfN, one), sub(c05N, 3), sub(c05N, 2), sub(c05N, 1)}
		var g1pts, g2pts []c05Pt
		g1pts = append(g1pts, c05Pt{"inf", make([]byte, 64), true, new(big.Int)})
		g2pts = append(g2pts, c05Pt{"inf", make([]byte, 128), true, new(big.Int)})
		for _, k := range ks {
			name := k.String() + "G"
			if k.BitLen() > 16 {
				name = fmt.Sprintf("(n-%d)G", new(big.Int).Sub(c05N, k))
				if k.BitLen() < 254 {
					name = fmt.Sprintf("((n-1)/2+%d)G", new(big.Int).Sub(k, halfN))
				}
			}
			// computed outside the cases so that a replay of any later case sees the same alphabet
			var enc, enc2 [][]byte
			var setupErr error
			if e := mc.Safely(func() error {
				for _, bk := range bks {
					p, err := bk.g1(g1gen)
					if err != nil {
						return fmt.Errorf("%s rejects the G1 generator: %v", bk.name, err)
					}
					enc = append(enc, bk.g1bytes(bk.mul(p, k)))
				}
				cg := new(cf.G2)
				if _, err := cg.Unmarshal(g2gen); err != nil {
					return fmt.Errorf("cloudflare rejects the G2 generator: %v", err)
				}
				gp := new(gg.G2)
				if _, err := gp.Unmarshal(g2gen); err != nil {
					return fmt.Errorf("google rejects the G2 generator: %v", err)
				}
				enc2 = append(enc2, new(cf.G2).ScalarMult(cg, k).Marshal(), new(gg.G2).ScalarMult(gp, k).Marshal())
				var ga gnarkbn.G2Affine
				_, _, _, g2 := gnarkbn.Generators()
				ga.ScalarMultiplication(&g2, k)
				x1, x0, y1, y0 := ga.X.A1.Bytes(), ga.X.A0.Bytes(), ga.Y.A1.Bytes(), ga.Y.A0.Bytes()
				enc2 = append(enc2, c05Cat(x1[:], x0[:], y1[:], y0[:]))
				return nil
			}); e != nil {
				setupErr = e
			}
			r.Case(c05Case{Op: "setup-multiples", K: k.String()}, func() error {
				if setupErr != nil {
					return setupErr
				}
				if !bytes.Equal(enc[0], enc[1]) || !bytes.Equal(enc[0], enc[2]) {
					return fmt.Errorf("%s*G: gnark %x cloudflare %x google %x", k, enc[0], enc[1], enc[2])
				}
				if !bytes.Equal(enc2[0], enc2[1]) || !bytes.Equal(enc2[0], enc2[2]) {
					return fmt.Errorf("%s*H: cloudflare %x google %x gnark-crypto %x", k, enc2[0], enc2[1], enc2[2])
				}
				return nil
			})
			if setupErr == nil && len(enc) == 3 && len(enc2) == 3 {
				g1pts = append(g1pts, c05Pt{name, enc[0], true, k})
				g2pts = append(g2pts, c05Pt{strings1(name), enc2[0], true, k})
			}
		}
		if r.Violations() > 0 {
			return
		}
		nValidG1, nValidG2 := len(g1pts), len(g2pts)

		// invalid / malformed G1 encodings
		maxw := bytes.Repeat([]byte{0xff}, 32)
		pPlus := func(k int64) []byte { return c05Pad(new(big.Int).Add(c05P, big.NewInt(k))) }
		g1pts = append(g1pts,
			c05Pt{"off-curve(1,3)", c05Cat(c05Pad(one), c05Pad(big.NewInt(3))), false, nil},
			c05Pt{"(0,1)", c05Cat(c05Pad(new(big.Int)), c05Pad(one)), false, nil},
			c05Pt{"(1,0)", c05Cat(c05Pad(one), c05Pad(new(big.Int))), false, nil},
			c05Pt{"x=p+1,y=2", c05Cat(pPlus(1), c05Pad(two)), false, nil},
			c05Pt{"x=1,y=p+2", c05Cat(c05Pad(one), pPlus(2)), false, nil},
			c05Pt{"x=p,y=p", c05Cat(pPlus(0), pPlus(0)), false, nil},
			c05Pt{"x=0,y=p", c05Cat(c05Pad(new(big.Int)), pPlus(0)), false, nil},
			c05Pt{"x=p,y=0", c05Cat(pPlus(0), c05Pad(new(big.Int))), false, nil},
			c05Pt{"all-ff", c05Cat(maxw, maxw), false, nil},
			c05Pt{"x=1,y=ff", c05Cat(c05Pad(one), maxw), false, nil},
			c05Pt{"short-63", g1gen[:63], false, nil},
			c05Pt{"empty", nil, false, nil},
		)
		// sqrt(3): a point with x = 0, if it exists
		if y := new(big.Int).ModSqrt(big.NewInt(3), c05P); y != nil {
			g1pts = append(g1pts, c05Pt{"(0,sqrt3)", c05Cat(c05Pad(new(big.Int)), c05Pad(y)), true, nil})
		}
		// G2
		neg := func(b []byte) []byte {
			v := new(big.Int).SetBytes(b)
			if v.Sign() == 0 {
				return c05Pad(v)
			}
			return c05Pad(new(big.Int).Sub(c05P, v))
		}
		addP := func(b []byte) []byte { return c05Pad(new(big.Int).Add(new(big.Int).SetBytes(b), c05P)) }
		w := func(i int) []byte { return g2gen[32*i : 32*i+32] }
		g2pts = append(g2pts,
			c05Pt{"off-twist(y1+1)", c05Cat(w(0), w(1), c05Pad(new(big.Int).Add(new(big.Int).SetBytes(w(2)), one)), w(3)), false, nil},
			c05Pt{"swapped-x", c05Cat(w(1), w(0), w(2), w(3)), false, nil},
			c05Pt{"x1+p", c05Cat(addP(w(0)), w(1), w(2), w(3)), false, nil},
			c05Pt{"x0+p", c05Cat(w(0), addP(w(1)), w(2), w(3)), false, nil},
			c05Pt{"y1+p", c05Cat(w(0), w(1), addP(w(2)), w(3)), false, nil},
			c05Pt{"y0+p", c05Cat(w(0), w(1), w(2), addP(w(3))), false, nil},
			c05Pt{"all-p", c05Cat(pPlus(0), pPlus(0), pPlus(0), pPlus(0)), false, nil},
			c05Pt{"all-ff", c05Cat(maxw, maxw, maxw, maxw), false, nil},
			c05Pt{"x-zero,y=H.y", c05Cat(make([]byte, 64), w(2), w(3)), false, nil},
			c05Pt{"x=H.x,y-zero", c05Cat(w(0), w(1), make([]byte, 64)), false, nil},
			c05Pt{"G1-bytes-twice", c05Cat(g1gen, g1gen), false, nil},
			c05Pt{"short-127", g2gen[:127], false, nil},
			c05Pt{"empty", nil, false, nil},
		)
		_ = neg
		// points on the twist that are not in the order-n subgroup (the twist has a cofactor): produced by gnark-crypto's
		// map-to-curve without cofactor clearing; only used as inputs, all three backends must reject them.
		for u := uint64(1); u <= 6; u++ {
			var e gnarkbn.E2
			e.A0.SetUint64(u)
			e.A1.SetUint64(u * 7)
			q := gnarkbn.MapToCurve2(&e)
			if q.IsOnCurve() && !q.IsInSubGroup() {
				x1, x0, y1, y0 := q.X.A1.Bytes(), q.X.A0.Bytes(), q.Y.A1.Bytes(), q.Y.A0.Bytes()
				g2pts = append(g2pts, c05Pt{fmt.Sprintf("on-twist-not-in-subgroup-%d", u), c05Cat(x1[:], x0[:], y1[:], y0[:]), false, nil})
			}
		}
		r.Bound("g1_alphabet", len(g1pts))
		r.Bound("g2_alphabet", len(g2pts))
		nonSub := 0
		for _, p := range g2pts {
			if len(p.name) > 8 && p.name[:8] == "on-twist" {
				nonSub++
			}
		}
		r.Bound("g2_points_outside_subgroup", nonSub)
		if nonSub == 0 {
			r.Violation("setup-no-non-subgroup-point", "could not construct a twist point outside the subgroup", nil)
			return
		}
		scalars := []*big.Int{new(big.Int), one, two, sub(c05N, 1), c05N, new(big.Int).Add(c05N, one), sub(new(big.Int).Lsh(one, 256), 1)}

		mulG := func(k *big.Int) []byte { // expected encoding of k*G from the alphabet, if k is one of the known multiples
			k = new(big.Int).Mod(k, c05N)
			for _, p := range g1pts[:nValidG1] {
				if p.k.Cmp(k) == 0 {
					return p.b
				}
			}
			return nil
		}

		// ---- Unmarshal / Marshal
		for gi, pts := range [][]c05Pt{g1pts, g2pts} {
			for _, p := range pts {
				r.Case(c05Case{Op: fmt.Sprintf("unmarshal-G%d", gi+1), A: p.name}, func() error {
					for _, bk := range bks {
						var obj any
						var err error
						if gi == 0 {
							obj, err = bk.g1(p.b)
						} else {
							obj, err = bk.g2(p.b)
						}
						if (err == nil) != p.valid {
							return fmt.Errorf("%s: Unmarshal(%s = %x) err=%v; expected accept=%v", bk.name, p.name, p.b, err, p.valid)
						}
						if err == nil {
							var out []byte
							if gi == 0 {
								out = bk.g1bytes(obj)
							} else {
								out = bk.g2bytes(obj)
							}
							if !bytes.Equal(out, p.b) {
								return fmt.Errorf("%s: Marshal(Unmarshal(%s)) = %x, input %x", bk.name, p.name, out, p.b)
							}
						}
					}
					return nil
				})
				r.Distinct(fmt.Sprintf("u%d/%s", gi, p.name))
				if p.valid {
					r.Outcome("unmarshal_accepted")
				} else {
					r.Outcome("unmarshal_rejected")
				}
			}
		}
		if c05Stop(r) {
			return
		}

		// ---- Add over all pairs
		type pair struct{ a, b int }
		var pairs []pair
		for a := range g1pts {
			for b := range g1pts {
				pairs = append(pairs, pair{a, b})
			}
		}
		r.Parallel(len(pairs), func(i int) {
			pa, pb := g1pts[pairs[i].a], g1pts[pairs[i].b]
			r.Case(c05Case{Op: "add", A: pa.name, B: pb.name}, func() error {
				var outs [][]byte
				for _, bk := range bks {
					x, e1 := bk.g1(pa.b)
					y, e2 := bk.g1(pb.b)
					if (e1 == nil && e2 == nil) != (pa.valid && pb.valid) {
						return fmt.Errorf("%s: add(%s,%s): decode errors %v/%v", bk.name, pa.name, pb.name, e1, e2)
					}
					if e1 != nil || e2 != nil {
						outs = append(outs, nil)
						continue
					}
					outs = append(outs, bk.g1bytes(bk.add(x, y)))
				}
				if !bytes.Equal(outs[0], outs[1]) || !bytes.Equal(outs[0], outs[2]) {
					return fmt.Errorf("add(%s,%s): gnark %x cloudflare %x google %x", pa.name, pb.name, outs[0], outs[1], outs[2])
				}
				if pa.k != nil && pb.k != nil {
					if want := mulG(new(big.Int).Add(pa.k, pb.k)); want != nil && !bytes.Equal(outs[0], want) {
						return fmt.Errorf("add(%s,%s) = %x; group law gives %x", pa.name, pb.name, outs[0], want)
					}
				}
				return nil
			})
			r.Distinct("add/" + pa.name + "/" + pb.name)
			if pa.valid && pb.valid {
				r.Outcome("add_computed")
			} else {
				r.Outcome("add_rejected_input")
			}
		})

		// ---- ScalarMult
		type pm struct{ a, s int }
		var pms []pm
		for a := range g1pts {
			for s := range scalars {
				pms = append(pms, pm{a, s})
			}
		}
		r.Parallel(len(pms), func(i int) {
			pa, s := g1pts[pms[i].a], scalars[pms[i].s]
			r.Case(c05Case{Op: "scalarmult", A: pa.name, K: s.String()}, func() error {
				var outs [][]byte
				for _, bk := range bks {
					x, e1 := bk.g1(pa.b)
					if e1 != nil {
						outs = append(outs, nil)
						continue
					}
					outs = append(outs, bk.g1bytes(bk.mul(x, new(big.Int).Set(s))))
				}
				if !bytes.Equal(outs[0], outs[1]) || !bytes.Equal(outs[0], outs[2]) {
					return fmt.Errorf("scalarmult(%s,%s): gnark %x cloudflare %x google %x", pa.name, s, outs[0], outs[1], outs[2])
				}
				if pa.k != nil {
					if want := mulG(new(big.Int).Mul(pa.k, s)); want != nil && !bytes.Equal(outs[0], want) {
						return fmt.Errorf("scalarmult(%s,%s) = %x; group law gives %x", pa.name, s, outs[0], want)
					}
				}
				return nil
			})
			r.Distinct("mul/" + pa.name + "/" + s.String())
			if pa.valid {
				r.Outcome("scalarmult_computed")
			} else {
				r.Outcome("scalarmult_rejected_input")
			}
		})
		if c05Stop(r) {
			return
		}

		// ---- ScalarMult on the ladder-boundary scalar family x small multiples of G (ecMul flow), against the reference
		fam := c05ScalarFamily(5, 3) // (q*n+j)*2^s+t must fit 256 bits and n ~ 0.19*2^256, so only q*2^s <= 5 survives: the family is complete in both tiers
		r.Bound("ladder_scalar_family", len(fam))
		baseKs := []int64{0, 1, 2, 3, 4, 5, 6, 7, 8, 1234567}
		r.Bound("ladder_base_points_g1", len(baseKs))
		genRef := &c05Aff{big.NewInt(1), big.NewInt(2)}
		baseEnc := make([][]byte, len(baseKs))
		baseRef := make([]*c05Aff, len(baseKs))
		for i, k := range baseKs {
			baseRef[i] = c05RefMul(big.NewInt(k), genRef)
			baseEnc[i] = c05RefEnc(baseRef[i])
		}
		r.Parallel(len(fam)*len(baseKs), func(i int) {
			if c05Stop(r) {
				return
			}
			s, bi := fam[i/len(baseKs)], i%len(baseKs)
			want := c05RefKG(new(big.Int).Mul(s, big.NewInt(baseKs[bi])))
			r.Case(c05Case{Op: "scalarmult-ladder", A: fmt.Sprintf("%dG", baseKs[bi]), K: s.Text(16)}, func() error {
				for _, bk := range bks {
					x, err := bk.g1(baseEnc[bi])
					if err != nil {
						return fmt.Errorf("%s rejects %dG (%x): %v", bk.name, baseKs[bi], baseEnc[bi], err)
					}
					if got := bk.g1bytes(bk.mul(x, new(big.Int).Set(s))); !bytes.Equal(got, want) {
						return fmt.Errorf("%s: %x * %dG = %x; reference ((k*b) mod n)*G = %x", bk.name, s, baseKs[bi], got, want)
					}
				}
				return nil
			})
			r.DistinctHash(mc.Hash64(fmt.Sprintf("lad/%d/%s", bi, s.Text(16))))
			if s.Cmp(c05N) > 0 {
				r.Outcome("ladder_scalar_above_n")
			} else {
				r.Outcome("ladder_scalar_up_to_n")
			}
		})

		// ---- operation chains on live (not re-encoded) G1 values, against the reference
		type chain struct {
			name string
			// run builds the result with one backend; dec decodes an encoding, and the reference result is ref
			run func(bk c05BN, dec func([]byte) any) any
			ref *c05Aff
		}
		negEnc := func(a *c05Aff) []byte {
			if a == nil {
				return make([]byte, 64)
			}
			return c05RefEnc(&c05Aff{a.x, new(big.Int).Sub(c05P, a.y)})
		}
		chainScalars := []*big.Int{big.NewInt(1), big.NewInt(2), big.NewInt(3), big.NewInt(7), big.NewInt(1234567), sub(c05N, 1), new(big.Int).Add(c05N, two), sub(new(big.Int).Lsh(one, 256), 1)}
		var chains []chain
		for bi := range baseKs {
			P, Penc := baseRef[bi], baseEnc[bi]
			pn := fmt.Sprintf("%dG", baseKs[bi])
			for _, k := range chainScalars {
				k := k
				kP := c05RefMul(new(big.Int).Mod(k, c05N), P)
				kPenc := c05RefEnc(kP)
				kn := k.Text(16)
				chains = append(chains,
					chain{"Add(Mul(" + pn + "," + kn + "), fresh(k*P))", func(bk c05BN, dec func([]byte) any) any { return bk.add(bk.mul(dec(Penc), k), dec(kPenc)) }, c05RefAdd(kP, kP)},
					chain{"Add(fresh(k*P), Mul(" + pn + "," + kn + "))", func(bk c05BN, dec func([]byte) any) any { return bk.add(dec(kPenc), bk.mul(dec(Penc), k)) }, c05RefAdd(kP, kP)},
					chain{"x=Mul(" + pn + "," + kn + "); Add(x,x)", func(bk c05BN, dec func([]byte) any) any { x := bk.mul(dec(Penc), k); return bk.add(x, x) }, c05RefAdd(kP, kP)},
					chain{"Add(Mul(" + pn + "," + kn + "), Mul(" + pn + "," + kn + "))", func(bk c05BN, dec func([]byte) any) any { return bk.add(bk.mul(dec(Penc), k), bk.mul(dec(Penc), k)) }, c05RefAdd(kP, kP)},
					chain{"Add(Mul(" + pn + "," + kn + "), fresh(-k*P))", func(bk c05BN, dec func([]byte) any) any { return bk.add(bk.mul(dec(Penc), k), dec(negEnc(kP))) }, nil},
					chain{"Add(Mul(" + pn + "," + kn + "), " + pn + ")", func(bk c05BN, dec func([]byte) any) any { return bk.add(bk.mul(dec(Penc), k), dec(Penc)) }, c05RefAdd(kP, P)},
					chain{"Mul(Mul(" + pn + "," + kn + "),2)", func(bk c05BN, dec func([]byte) any) any { return bk.mul(bk.mul(dec(Penc), k), big.NewInt(2)) }, c05RefAdd(kP, kP)},
					chain{"Mul(Add(Mul(" + pn + "," + kn + ")," + pn + "),n+2)", func(bk c05BN, dec func([]byte) any) any {
						return bk.mul(bk.add(bk.mul(dec(Penc), k), dec(Penc)), new(big.Int).Add(c05N, big.NewInt(2)))
					}, c05RefMul(big.NewInt(2), c05RefAdd(kP, P))},
				)
			}
			for bj := range baseKs {
				Q, Qenc := baseRef[bj], baseEnc[bj]
				qn := fmt.Sprintf("%dG", baseKs[bj])
				PQ := c05RefAdd(P, Q)
				PQenc := c05RefEnc(PQ)
				chains = append(chains,
					chain{"t=Add(" + pn + "," + qn + "); Add(t,t)", func(bk c05BN, dec func([]byte) any) any { t := bk.add(dec(Penc), dec(Qenc)); return bk.add(t, t) }, c05RefAdd(PQ, PQ)},
					chain{"Add(Add(" + pn + "," + qn + "), fresh(P+Q))", func(bk c05BN, dec func([]byte) any) any { return bk.add(bk.add(dec(Penc), dec(Qenc)), dec(PQenc)) }, c05RefAdd(PQ, PQ)},
					chain{"Add(fresh(P+Q), Add(" + pn + "," + qn + "))", func(bk c05BN, dec func([]byte) any) any { return bk.add(dec(PQenc), bk.add(dec(Penc), dec(Qenc))) }, c05RefAdd(PQ, PQ)},
					chain{"Add(Add(" + pn + "," + qn + "), fresh(-(P+Q)))", func(bk c05BN, dec func([]byte) any) any { return bk.add(bk.add(dec(Penc), dec(Qenc)), dec(negEnc(PQ))) }, nil},
					chain{"u=Add(Add(" + pn + "," + qn + ")," + pn + "); Add(u,u)", func(bk c05BN, dec func([]byte) any) any {
						u := bk.add(bk.add(dec(Penc), dec(Qenc)), dec(Penc))
						return bk.add(u, u)
					}, c05RefMul(big.NewInt(2), c05RefAdd(PQ, P))},
				)
			}
			chains = append(chains, chain{"Add(Mul(" + pn + ",3), Add(Add(" + pn + "," + pn + ")," + pn + "))", func(bk c05BN, dec func([]byte) any) any {
				return bk.add(bk.mul(dec(Penc), big.NewInt(3)), bk.add(bk.add(dec(Penc), dec(Penc)), dec(Penc)))
			}, c05RefMul(big.NewInt(6), P)})
		}
		r.Bound("live_chains_g1", len(chains))
		r.Parallel(len(chains), func(i int) {
			if c05Stop(r) {
				return
			}
			ch := chains[i]
			want := c05RefEnc(ch.ref)
			r.Case(c05Case{Op: "chain-G1", A: ch.name}, func() error {
				for _, bk := range bks {
					dec := func(b []byte) any {
						p, err := bk.g1(b)
						if err != nil {
							panic(fmt.Sprintf("%s rejects %x: %v", bk.name, b, err))
						}
						return p
					}
					if got := bk.g1bytes(ch.run(bk, dec)); !bytes.Equal(got, want) {
						return fmt.Errorf("%s: %s = %x; reference %x", bk.name, ch.name, got, want)
					}
				}
				return nil
			})
			r.Distinct("chain/" + ch.name)
			if ch.ref == nil {
				r.Outcome("chain_g1_infinity")
			} else {
				r.Outcome("chain_g1_point")
			}
		})

		// ---- the same on G2 where the implementations expose group operations (cloudflare, google, gnark-crypto)
		g2bks := c05G2Backends()
		g2Ks := mc.Pick(r, []int64{0, 1, 2, 3, 7}, []int64{0, 1, 2, 3, 4, 5, 6, 7, 8, 1234567})
		g2fam := fam
		if r.Quick() { // G2 arithmetic of the big.Int backend is ~10x slower: quick keeps q*n+j and the 1-bit shifts
			g2fam = c05ScalarFamily(2, 1)
		}
		r.Bound("ladder_scalar_family_g2", len(g2fam))
		r.Bound("ladder_base_points_g2", len(g2Ks))
		g2base := make([][]byte, len(g2Ks))
		for i, k := range g2Ks { // encodings of k*H from gnark-crypto (k <= n: outside the degenerate family)
			g2base[i] = g2bks[2].enc(g2bks[2].mul(g2bks[2].dec(g2gen), big.NewInt(k)))
		}
		r.Parallel(len(g2fam)*len(g2Ks), func(i int) {
			if c05Stop(r) {
				return
			}
			s, bi := g2fam[i/len(g2Ks)], i%len(g2Ks)
			red := new(big.Int).Mod(new(big.Int).Mul(s, big.NewInt(g2Ks[bi])), c05N)
			r.Case(c05Case{Op: "scalarmult-ladder-G2", A: fmt.Sprintf("%dH", g2Ks[bi]), K: s.Text(16)}, func() error {
				var outs [][]byte
				for _, bk := range g2bks {
					got := bk.enc(bk.mul(bk.dec(g2base[bi]), new(big.Int).Set(s)))
					// group law inside the same implementation: k*(b*H) = ((k*b) mod n)*H
					if law := bk.enc(bk.mul(bk.dec(g2gen), red)); !bytes.Equal(got, law) {
						return fmt.Errorf("%s: %x * %dH = %x, but ((k*b) mod n)*H = %x in the same backend", bk.name, s, g2Ks[bi], got, law)
					}
					outs = append(outs, got)
				}
				if !bytes.Equal(outs[0], outs[1]) || !bytes.Equal(outs[0], outs[2]) {
					return fmt.Errorf("%x * %dH: cloudflare %x google %x gnark-crypto %x", s, g2Ks[bi], outs[0], outs[1], outs[2])
				}
				return nil
			})
			r.DistinctHash(mc.Hash64(fmt.Sprintf("lad2/%d/%s", bi, s.Text(16))))
			r.Outcome("ladder_g2")
		})
		type chain2 struct {
			name string
			run  func(bk c05G2) any
			k    *big.Int // expected result = (k mod n)*H
		}
		var chains2 []chain2
		g2Scalars := []*big.Int{big.NewInt(1), big.NewInt(2), big.NewInt(7), sub(c05N, 1), new(big.Int).Add(c05N, two)}
		for bi, b := range g2Ks {
			Benc := g2base[bi]
			bn := fmt.Sprintf("%dH", b)
			for _, k := range g2Scalars {
				k := k
				kb := new(big.Int).Mod(new(big.Int).Mul(k, big.NewInt(b)), c05N)
				kn := k.Text(16)
				fresh := func(bk c05G2, m *big.Int) any {
					return bk.dec(g2bks[2].enc(g2bks[2].mul(g2bks[2].dec(g2gen), new(big.Int).Mod(m, c05N))))
				}
				chains2 = append(chains2,
					chain2{"Add(Mul(" + bn + "," + kn + "), fresh(k*P))", func(bk c05G2) any { return bk.add(bk.mul(bk.dec(Benc), k), fresh(bk, kb)) }, new(big.Int).Lsh(kb, 1)},
					chain2{"Add(fresh(k*P), Mul(" + bn + "," + kn + "))", func(bk c05G2) any { return bk.add(fresh(bk, kb), bk.mul(bk.dec(Benc), k)) }, new(big.Int).Lsh(kb, 1)},
					chain2{"x=Mul(" + bn + "," + kn + "); Add(x,x)", func(bk c05G2) any { x := bk.mul(bk.dec(Benc), k); return bk.add(x, x) }, new(big.Int).Lsh(kb, 1)},
					chain2{"Add(Mul(" + bn + "," + kn + "), fresh(-k*P))", func(bk c05G2) any { return bk.add(bk.mul(bk.dec(Benc), k), fresh(bk, new(big.Int).Neg(kb))) }, new(big.Int)},
					chain2{"t=Add(Mul(" + bn + "," + kn + ")," + bn + "); Add(t,t)", func(bk c05G2) any { t := bk.add(bk.mul(bk.dec(Benc), k), bk.dec(Benc)); return bk.add(t, t) },
						new(big.Int).Lsh(new(big.Int).Add(kb, big.NewInt(b)), 1)},
					chain2{"Mul(Add(Mul(" + bn + "," + kn + ")," + bn + "),n+2)", func(bk c05G2) any {
						return bk.mul(bk.add(bk.mul(bk.dec(Benc), k), bk.dec(Benc)), new(big.Int).Add(c05N, big.NewInt(2)))
					}, new(big.Int).Lsh(new(big.Int).Add(kb, big.NewInt(b)), 1)},
				)
			}
		}
		r.Bound("live_chains_g2", len(chains2))
		r.Parallel(len(chains2), func(i int) {
			if c05Stop(r) {
				return
			}
			ch := chains2[i]
			r.Case(c05Case{Op: "chain-G2", A: ch.name}, func() error {
				want := g2bks[2].enc(g2bks[2].mul(g2bks[2].dec(g2gen), new(big.Int).Mod(ch.k, c05N))) // one reduced scalar mult of H
				for _, bk := range g2bks {
					if got := bk.enc(ch.run(bk)); !bytes.Equal(got, want) {
						return fmt.Errorf("%s: %s = %x; (%v mod n)*H = %x", bk.name, ch.name, got, ch.k, want)
					}
				}
				return nil
			})
			r.Distinct("chain2/" + ch.name)
			r.Outcome("chain_g2")
		})
		if c05Stop(r) {
			return
		}

		// ---- PairingCheck
		type plist struct {
			g1, g2 []int
		}
		var lists []plist
		lists = append(lists, plist{})
		q1, q2 := nValidG1, nValidG2
		if r.Quick() { // reduced valid alphabet for 2-element lists: inf, G, 2G, (n-1)G  x  inf, H, 2H, (n-1)H
			q1, q2 = 4, 4
		}
		pick := func(n, q int) []int {
			if q >= n {
				out := make([]int, n)
				for i := range out {
					out[i] = i
				}
				return out
			}
			return []int{0, 1, 2, n - 1}
		}
		i1, i2 := pick(nValidG1, q1), pick(nValidG2, q2)
		for a := 0; a < nValidG1; a++ {
			for b := 0; b < nValidG2; b++ {
				lists = append(lists, plist{[]int{a}, []int{b}})
			}
		}
		for _, a := range i1 {
			for _, b := range i2 {
				for _, c := range i1 {
					for _, d := range i2 {
						lists = append(lists, plist{[]int{a, c}, []int{b, d}})
					}
				}
			}
		}
		// three-element lists: (G,H),(2G,H),((n-3)G... ) only with known logs from the alphabet
		ix := func(k int64) int { // index of k*G (k>0) or (n+k)*G (k<0); same positions in the G2 alphabet
			want := big.NewInt(k)
			if k < 0 {
				want.Add(want, c05N)
			}
			for i, p := range g1pts[:nValidG1] {
				if p.k.Cmp(want) == 0 {
					return i
				}
			}
			panic("multiple not in alphabet")
		}
		lists = append(lists, plist{[]int{ix(1), ix(2), ix(-1)}, []int{ix(1), ix(1), ix(3)}}, // 1+2-3 = 0
			plist{[]int{ix(1), ix(1), ix(-2)}, []int{ix(1), ix(1), ix(1)}},   // 1+1-2 = 0
			plist{[]int{ix(3), ix(3), ix(3)}, []int{ix(1), ix(2), ix(3)}},    // 18
			plist{[]int{ix(1), ix(2), ix(3)}, []int{ix(-1), ix(-1), ix(-1)}}, // -6
			plist{[]int{ix(2), ix(5), ix(-3)}, []int{ix(5), ix(-2), ix(0)}})  // 10-10+0 = 0
		// lists with one invalid member (must be rejected at decode by all)
		for a := nValidG1; a < len(g1pts); a++ {
			lists = append(lists, plist{[]int{1, a}, []int{1, 1}})
		}
		for b := nValidG2; b < len(g2pts); b++ {
			lists = append(lists, plist{[]int{1, 1}, []int{1, b}})
		}
		r.Bound("pairing_lists", len(lists))
		r.Parallel(len(lists), func(i int) {
			l := lists[i]
			var names []string
			sum := new(big.Int)
			known, valid := true, true
			for j := range l.g1 {
				a, b := g1pts[l.g1[j]], g2pts[l.g2[j]]
				names = append(names, a.name+"*"+b.name)
				if !a.valid || !b.valid {
					valid = false
				}
				if a.k == nil || b.k == nil {
					known = false
				} else {
					sum.Add(sum, new(big.Int).Mul(a.k, b.k))
				}
			}
			r.Case(c05Case{Op: "pairingcheck", L: names}, func() error {
				var res []string
				for _, bk := range bks {
					var as, bs []any
					rej := false
					for j := range l.g1 {
						x, e1 := bk.g1(g1pts[l.g1[j]].b)
						y, e2 := bk.g2(g2pts[l.g2[j]].b)
						if e1 != nil || e2 != nil {
							rej = true
							break
						}
						as, bs = append(as, x), append(bs, y)
					}
					if rej {
						res = append(res, "reject")
						continue
					}
					res = append(res, fmt.Sprint(bk.pairing(as, bs)))
				}
				if res[0] != res[1] || res[0] != res[2] {
					return fmt.Errorf("pairingcheck%v: gnark %s cloudflare %s google %s", names, res[0], res[1], res[2])
				}
				want := "reject"
				if valid && known {
					want = fmt.Sprint(new(big.Int).Mod(sum, c05N).Sign() == 0)
				}
				if (valid && known || !valid) && res[0] != want {
					return fmt.Errorf("pairingcheck%v = %s; bilinearity gives %s", names, res[0], want)
				}
				return nil
			})
			r.Distinct(fmt.Sprint("pair/", names))
			switch {
			case !valid:
				r.Outcome("pairing_rejected_input")
			case new(big.Int).Mod(sum, c05N).Sign() == 0:
				r.Outcome("pairing_true")
			default:
				r.Outcome("pairing_false")
			}
			if i%97 == 3 {
				r.Sample(map[string]any{"op": "pairingcheck", "list": names})
			}
		})
	})
}

func strings1(g1name string) string { // "3G" -> "3H"
	if len(g1name) > 0 && g1name[len(g1name)-1] == 'G' {
		return g1name[:len(g1name)-1] + "H"
	}
	return g1name
}

// ---------------------------------------------------------------------------
// Independent G1 reference: affine arithmetic on y^2 = x^3 + 3 over F_p with
// math/big (no code shared with any backend). nil = point at infinity.

type c05Aff struct{ x, y *big.Int }

func c05RefAdd(a, b *c05Aff) *c05Aff {
	if a == nil {
		return b
	}
	if b == nil {
		return a
	}
	var l *big.Int
	if a.x.Cmp(b.x) == 0 {
		if new(big.Int).Mod(new(big.Int).Add(a.y, b.y), c05P).Sign() == 0 {
			return nil
		}
		l = new(big.Int).Mul(a.x, a.x)
		l.Mul(l, big.NewInt(3))
		l.Mul(l, new(big.Int).ModInverse(new(big.Int).Lsh(a.y, 1), c05P))
	} else {
		l = new(big.Int).Sub(b.y, a.y)
		d := new(big.Int).Sub(b.x, a.x)
		d.Mod(d, c05P)
		l.Mul(l, new(big.Int).ModInverse(d, c05P))
	}
	l.Mod(l, c05P)
	x := new(big.Int).Mul(l, l)
	x.Sub(x, a.x).Sub(x, b.x).Mod(x, c05P)
	y := new(big.Int).Sub(a.x, x)
	y.Mul(y, l).Sub(y, a.y).Mod(y, c05P)
	return &c05Aff{x, y}
}

func c05RefMul(k *big.Int, a *c05Aff) *c05Aff {
	var acc *c05Aff
	for i := k.BitLen() - 1; i >= 0; i-- {
		acc = c05RefAdd(acc, acc)
		if k.Bit(i) == 1 {
			acc = c05RefAdd(acc, a)
		}
	}
	return acc
}

func c05RefEnc(a *c05Aff) []byte {
	if a == nil {
		return make([]byte, 64)
	}
	return c05Cat(c05Pad(a.x), c05Pad(a.y))
}

// c05RefKG is (k mod n)*G encoded, from the reference.
func c05RefKG(k *big.Int) []byte {
	return c05RefEnc(c05RefMul(new(big.Int).Mod(k, c05N), &c05Aff{big.NewInt(1), big.NewInt(2)}))
}

// c05G2 adapts a G2 implementation that exposes group operations (the gnark wrapper of
// the client has none, so gnark-crypto's G2Affine is used directly as the third party).
type c05G2 struct {
	name string
	dec  func(b []byte) any
	enc  func(p any) []byte
	add  func(a, b any) any
	mul  func(a any, k *big.Int) any
}

func c05G2Backends() []c05G2 {
	return []c05G2{
		{"cloudflare",
			func(b []byte) any { p := new(cf.G2); p.Unmarshal(b); return p },
			func(p any) []byte { return p.(*cf.G2).Marshal() },
			func(a, b any) any { return new(cf.G2).Add(a.(*cf.G2), b.(*cf.G2)) },
			func(a any, k *big.Int) any { return new(cf.G2).ScalarMult(a.(*cf.G2), k) }},
		{"google",
			func(b []byte) any { p := new(gg.G2); p.Unmarshal(b); return p },
			func(p any) []byte { return p.(*gg.G2).Marshal() },
			func(a, b any) any { return new(gg.G2).Add(a.(*gg.G2), b.(*gg.G2)) },
			func(a any, k *big.Int) any { return new(gg.G2).ScalarMult(a.(*gg.G2), k) }},
		{"gnark-crypto",
			func(b []byte) any {
				p := new(gnarkbn.G2Affine)
				p.X.A1.SetBytes(b[0:32])
				p.X.A0.SetBytes(b[32:64])
				p.Y.A1.SetBytes(b[64:96])
				p.Y.A0.SetBytes(b[96:128])
				return p
			},
			func(p any) []byte {
				q := p.(*gnarkbn.G2Affine)
				x1, x0, y1, y0 := q.X.A1.Bytes(), q.X.A0.Bytes(), q.Y.A1.Bytes(), q.Y.A0.Bytes()
				return c05Cat(x1[:], x0[:], y1[:], y0[:])
			},
			func(a, b any) any { return new(gnarkbn.G2Affine).Add(a.(*gnarkbn.G2Affine), b.(*gnarkbn.G2Affine)) },
			func(a any, k *big.Int) any {
				return new(gnarkbn.G2Affine).ScalarMultiplication(a.(*gnarkbn.G2Affine), k)
			}},
	}
}

// c05ScalarFamily returns the scalars at which a double-and-add ladder (or a windowed / GLV variant) meets its
// degenerate additions: q*n+j around every multiple of the group order that fits 256 bits, the same values shifted
// left by 1..maxShift bits with every fill of the low bits (a ladder prefix equal to q*n+j), and the edges of the
// 256-bit range.
func c05ScalarFamily(maxQShift int, maxShift uint) []*big.Int {
	seen := map[string]bool{}
	var out []*big.Int
	lim := new(big.Int).Lsh(big.NewInt(1), 256)
	put := func(v *big.Int) {
		if v.Sign() < 0 || v.Cmp(lim) >= 0 || seen[v.String()] {
			return
		}
		seen[v.String()] = true
		out = append(out, v)
	}
	for q := int64(0); q <= 5; q++ {
		for j := int64(-3); j <= 3; j++ {
			put(new(big.Int).Add(new(big.Int).Mul(c05N, big.NewInt(q)), big.NewInt(j)))
		}
	}
	for q := int64(1); q <= int64(maxQShift); q++ {
		for j := int64(0); j <= 3; j++ {
			base := new(big.Int).Add(new(big.Int).Mul(c05N, big.NewInt(q)), big.NewInt(j))
			for sh := uint(1); sh <= maxShift; sh++ {
				for t := int64(0); t < 1<<sh; t++ {
					put(new(big.Int).Add(new(big.Int).Lsh(base, sh), big.NewInt(t)))
				}
			}
		}
	}
	half := new(big.Int).Rsh(c05N, 1)
	for _, v := range []*big.Int{half, new(big.Int).Add(half, big.NewInt(1)), new(big.Int).Lsh(big.NewInt(1), 255), new(big.Int).Add(new(big.Int).Lsh(big.NewInt(1), 255), big.NewInt(1)),
		new(big.Int).Sub(lim, big.NewInt(2)), new(big.Int).Sub(lim, big.NewInt(1)), new(big.Int).Lsh(big.NewInt(1), 128), new(big.Int).Sub(new(big.Int).Lsh(big.NewInt(1), 128), big.NewInt(1))} {
		put(v)
	}
	return out
}
