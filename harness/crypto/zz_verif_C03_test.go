//go:build verif

package crypto

import (
	"bytes"
	"crypto/ecdsa"
	"crypto/hmac"
	"crypto/sha256"
	"encoding/hex"
	"fmt"
	"math/big"
	"sort"
	"strings"
	"sync"
	"testing"

	"github.com/ethereum/go-ethereum/internal/verif/mc"
)

// ---------------------------------------------------------------------------
// Reference: secp256k1 ECDSA with public-key recovery written from SEC 1 v2
// (4.1.3 signing, 4.1.4 verification, 4.1.6 recovery), SEC 2 (curve constants)
// and RFC 6979 (deterministic nonce, HMAC-SHA256; the message hash enters the
// HMAC key as bits2octets(h) = int2octets(h mod n), RFC 6979 section 2.3.4/3.2.d)
// on math/big with its own Jacobian point arithmetic. It shares no code with
// libsecp256k1 (cgo backend) nor with decred/secp256k1 (pure Go backend).

func c03Hex(s string) *big.Int {
	v, ok := new(big.Int).SetString(s, 16)
	if !ok {
		panic("bad constant")
	}
	return v
}

var (
	c03P     = c03Hex("FFFFFFFFFFFFFFFFFFFFFFFFFFFFFFFFFFFFFFFFFFFFFFFFFFFFFFFEFFFFFC2F")
	c03N     = c03Hex("FFFFFFFFFFFFFFFFFFFFFFFFFFFFFFFEBAAEDCE6AF48A03BBFD25E8CD0364141")
	c03Gx    = c03Hex("79BE667EF9DCBBAC55A06295CE870B07029BFCDB2DCE28D959F2815B16F81798")
	c03Gy    = c03Hex("483ADA7726A3C4655DA4FBFC0E1108A8FD17B448A68554199C47D08FFB10D4B8")
	c03HalfN = new(big.Int).Rsh(c03N, 1)
	c03Two56 = new(big.Int).Lsh(big.NewInt(1), 256)
)

// c03J is a point in Jacobian coordinates; z == 0 is the point at infinity.
type c03J struct{ x, y, z *big.Int }

func c03Mod(v *big.Int) *big.Int { return v.Mod(v, c03P) }

func c03Inf() c03J { return c03J{big.NewInt(1), big.NewInt(1), big.NewInt(0)} }

func c03Affine(x, y *big.Int) c03J {
	return c03J{new(big.Int).Set(x), new(big.Int).Set(y), big.NewInt(1)}
}

func c03Double(p c03J) c03J {
	if p.z.Sign() == 0 || p.y.Sign() == 0 {
		return c03Inf()
	}
	a := c03Mod(new(big.Int).Mul(p.x, p.x))
	b := c03Mod(new(big.Int).Mul(p.y, p.y))
	c := c03Mod(new(big.Int).Mul(b, b))
	d := new(big.Int).Add(p.x, b)
	d.Mul(d, d).Sub(d, a).Sub(d, c).Lsh(d, 1)
	c03Mod(d)
	e := new(big.Int).Mul(a, big.NewInt(3))
	f := c03Mod(new(big.Int).Mul(e, e))
	x3 := new(big.Int).Sub(f, new(big.Int).Lsh(d, 1))
	c03Mod(x3)
	y3 := new(big.Int).Sub(d, x3)
	y3.Mul(y3, e).Sub(y3, new(big.Int).Lsh(c, 3))
	c03Mod(y3)
	z3 := new(big.Int).Mul(p.y, p.z)
	z3.Lsh(z3, 1)
	c03Mod(z3)
	return c03J{x3, y3, z3}
}

func c03Add(p, q c03J) c03J {
	if p.z.Sign() == 0 {
		return q
	}
	if q.z.Sign() == 0 {
		return p
	}
	z1z1 := c03Mod(new(big.Int).Mul(p.z, p.z))
	z2z2 := c03Mod(new(big.Int).Mul(q.z, q.z))
	u1 := c03Mod(new(big.Int).Mul(p.x, z2z2))
	u2 := c03Mod(new(big.Int).Mul(q.x, z1z1))
	s1 := c03Mod(new(big.Int).Mul(p.y, c03Mod(new(big.Int).Mul(z2z2, q.z))))
	s2 := c03Mod(new(big.Int).Mul(q.y, c03Mod(new(big.Int).Mul(z1z1, p.z))))
	if u1.Cmp(u2) == 0 {
		if s1.Cmp(s2) == 0 {
			return c03Double(p)
		}
		return c03Inf()
	}
	h := c03Mod(new(big.Int).Sub(u2, u1))
	r := c03Mod(new(big.Int).Sub(s2, s1))
	h2 := c03Mod(new(big.Int).Mul(h, h))
	h3 := c03Mod(new(big.Int).Mul(h2, h))
	u1h2 := c03Mod(new(big.Int).Mul(u1, h2))
	x3 := new(big.Int).Mul(r, r)
	x3.Sub(x3, h3).Sub(x3, new(big.Int).Lsh(u1h2, 1))
	c03Mod(x3)
	y3 := new(big.Int).Sub(u1h2, x3)
	y3.Mul(y3, r).Sub(y3, new(big.Int).Mul(s1, h3))
	c03Mod(y3)
	z3 := new(big.Int).Mul(h, p.z)
	z3.Mul(z3, q.z)
	c03Mod(z3)
	return c03J{x3, y3, z3}
}

func c03Mul(k *big.Int, p c03J) c03J {
	acc := c03Inf()
	for i := k.BitLen() - 1; i >= 0; i-- {
		acc = c03Double(acc)
		if k.Bit(i) == 1 {
			acc = c03Add(acc, p)
		}
	}
	return acc
}

// c03ToAffine returns (x, y, false) or (nil, nil, true) for infinity.
func c03ToAffine(p c03J) (*big.Int, *big.Int, bool) {
	if p.z.Sign() == 0 {
		return nil, nil, true
	}
	zi := new(big.Int).ModInverse(p.z, c03P)
	zi2 := c03Mod(new(big.Int).Mul(zi, zi))
	x := c03Mod(new(big.Int).Mul(p.x, zi2))
	y := c03Mod(new(big.Int).Mul(p.y, c03Mod(new(big.Int).Mul(zi2, zi))))
	return x, y, false
}

func c03OnCurve(x, y *big.Int) bool {
	if x.Sign() < 0 || y.Sign() < 0 || x.Cmp(c03P) >= 0 || y.Cmp(c03P) >= 0 {
		return false
	}
	l := c03Mod(new(big.Int).Mul(y, y))
	r := new(big.Int).Mul(x, x)
	r.Mul(r, x).Add(r, big.NewInt(7))
	return l.Cmp(c03Mod(r)) == 0
}

// c03Lift returns the y with the requested parity for x, or nil.
func c03Lift(x *big.Int, odd bool) *big.Int {
	if x.Cmp(c03P) >= 0 {
		return nil
	}
	rhs := new(big.Int).Mul(x, x)
	rhs.Mul(rhs, x).Add(rhs, big.NewInt(7))
	c03Mod(rhs)
	y := new(big.Int).ModSqrt(rhs, c03P)
	if y == nil {
		return nil
	}
	if (y.Bit(0) == 1) != odd {
		y.Sub(c03P, y)
	}
	return y
}

func c03G() c03J { return c03Affine(c03Gx, c03Gy) }

func c03Pad32(v *big.Int) []byte { return v.FillBytes(make([]byte, 32)) }

func c03PubBytes(x, y *big.Int) []byte {
	return append(append([]byte{4}, c03Pad32(x)...), c03Pad32(y)...)
}

// c03RefSign: RFC 6979 nonce over (key || hash), low-s normalised, recovery id.
func c03RefSign(hash []byte, d *big.Int) []byte {
	mac := func(k []byte, parts ...[]byte) []byte {
		m := hmac.New(sha256.New, k)
		for _, p := range parts {
			m.Write(p)
		}
		return m.Sum(nil)
	}
	e := new(big.Int).SetBytes(hash)
	e.Mod(e, c03N)
	x := c03Pad32(d)
	h1 := c03Pad32(e) // bits2octets
	v := bytes.Repeat([]byte{1}, 32)
	k := make([]byte, 32)
	k = mac(k, v, []byte{0}, x, h1)
	v = mac(k, v)
	k = mac(k, v, []byte{1}, x, h1)
	v = mac(k, v)
	for {
		v = mac(k, v)
		nonce := new(big.Int).SetBytes(v)
		if nonce.Sign() > 0 && nonce.Cmp(c03N) < 0 {
			rx, ry, _ := c03ToAffine(c03Mul(nonce, c03G()))
			r := new(big.Int).Mod(rx, c03N)
			s := new(big.Int).Mul(r, d)
			s.Add(s, e).Mul(s, new(big.Int).ModInverse(nonce, c03N)).Mod(s, c03N)
			if r.Sign() != 0 && s.Sign() != 0 {
				recid := byte(ry.Bit(0))
				if rx.Cmp(c03N) >= 0 {
					recid |= 2
				}
				if s.Cmp(c03HalfN) > 0 {
					s.Sub(c03N, s)
					recid ^= 1
				}
				return append(append(c03Pad32(r), c03Pad32(s)...), recid)
			}
		}
		k = mac(k, v, []byte{0})
		v = mac(k, v)
	}
}

// c03RefRecover implements SEC 1 4.1.6 with the recovery id convention of
// libsecp256k1 / Ethereum (bit 0 = parity of R.y, bit 1 = R.x overflowed n).
// It returns the 65-byte uncompressed key or nil when recovery must fail.
func c03RefRecover(hash, sig []byte) []byte {
	if len(hash) != 32 || len(sig) != 65 || sig[64] > 3 {
		return nil
	}
	r := new(big.Int).SetBytes(sig[:32])
	s := new(big.Int).SetBytes(sig[32:64])
	if r.Sign() == 0 || s.Sign() == 0 || r.Cmp(c03N) >= 0 || s.Cmp(c03N) >= 0 {
		return nil
	}
	x := new(big.Int).Set(r)
	if sig[64]&2 != 0 {
		x.Add(x, c03N)
	}
	y := c03Lift(x, sig[64]&1 == 1)
	if y == nil {
		return nil
	}
	e := new(big.Int).SetBytes(hash)
	e.Mod(e, c03N)
	ri := new(big.Int).ModInverse(r, c03N)
	u1 := new(big.Int).Mul(e, ri)
	u1.Neg(u1).Mod(u1, c03N)
	u2 := new(big.Int).Mul(s, ri)
	u2.Mod(u2, c03N)
	q := c03Add(c03Mul(u1, c03G()), c03Mul(u2, c03Affine(x, y)))
	qx, qy, inf := c03ToAffine(q)
	if inf {
		return nil
	}
	return c03PubBytes(qx, qy)
}

// c03RefParsePub accepts compressed (02/03), uncompressed (04) and hybrid
// (06/07, parity must match) encodings of a curve point, as libsecp256k1's
// secp256k1_ec_pubkey_parse does.
func c03RefParsePub(pub []byte) (x, y *big.Int) {
	switch {
	case len(pub) == 33 && (pub[0] == 2 || pub[0] == 3):
		x = new(big.Int).SetBytes(pub[1:])
		y = c03Lift(x, pub[0] == 3)
		if y == nil {
			return nil, nil
		}
		return x, y
	case len(pub) == 65 && (pub[0] == 4 || pub[0] == 6 || pub[0] == 7):
		x = new(big.Int).SetBytes(pub[1:33])
		y = new(big.Int).SetBytes(pub[33:])
		if !c03OnCurve(x, y) {
			return nil, nil
		}
		if pub[0] != 4 && (y.Bit(0) == 1) != (pub[0] == 7) {
			return nil, nil
		}
		return x, y
	}
	return nil, nil
}

// c03RefVerify is SEC 1 4.1.4 plus the lower-S requirement of the client.
func c03RefVerify(pub, hash, sig []byte) bool {
	if len(hash) != 32 || len(sig) != 64 {
		return false
	}
	qx, qy := c03RefParsePub(pub)
	if qx == nil {
		return false
	}
	r := new(big.Int).SetBytes(sig[:32])
	s := new(big.Int).SetBytes(sig[32:])
	if r.Sign() == 0 || s.Sign() == 0 || r.Cmp(c03N) >= 0 || s.Cmp(c03N) >= 0 || s.Cmp(c03HalfN) > 0 {
		return false
	}
	e := new(big.Int).SetBytes(hash)
	e.Mod(e, c03N)
	w := new(big.Int).ModInverse(s, c03N)
	u1 := new(big.Int).Mul(e, w)
	u1.Mod(u1, c03N)
	u2 := new(big.Int).Mul(r, w)
	u2.Mod(u2, c03N)
	x, _, inf := c03ToAffine(c03Add(c03Mul(u1, c03G()), c03Mul(u2, c03Affine(qx, qy))))
	if inf {
		return false
	}
	return x.Mod(x, c03N).Cmp(r) == 0
}

// ---------------------------------------------------------------------------

type c03Case struct {
	Op   string `json:"op"`
	Cls  string `json:"class,omitempty"`
	Hash string `json:"hash,omitempty"`
	Sig  string `json:"sig,omitempty"`
	Key  string `json:"key,omitempty"`
	Pub  string `json:"pub,omitempty"`
}

func c03Backend() string {
	// signature_cgo.go and signature_nocgo.go are selected by the cgo build tag; the curve type tells them apart.
	return fmt.Sprintf("%T", S256())
}

func c03Stop(r *mc.R) bool {
	if r.Violations() > 40 {
		r.NotExhaustive("stopped early after more than 40 violations")
		return true
	}
	return false
}

// TestVerif_C03_Backend runs the secp256k1 entry points of package crypto, as
// built (cgo: libsecp256k1, CGO_ENABLED=0: decred), over one fixed corpus and
// compares every result with the reference above. The check is run once per
// build variant; both variants must therefore equal the same expectation table.
func TestVerif_C03_Backend(t *testing.T) {
	mc.Run(t, "C03", func(r *mc.R) {
		r.Bound("backend_curve_type", c03Backend())
		r.Rule("Sign: keys x hashes (exact 65 bytes vs RFC 6979 reference) + invalid keys/hash lengths; Ecrecover/SigToPub: full product " +
			"hashes x r-set x s-set x v-set (boundary values 0,1,n-1,n,n+1,p-n-1,p-n,p,2^256-1, half-order, and r/s of real signatures and their high-s twins) + wrong lengths; " +
			"VerifySignature: real signatures x public-key encodings (compressed, uncompressed, hybrid, wrong parity, off-curve, x>=p, bad prefix/length) x (r,s) substitutions; " +
			"DecompressPubkey/CompressPubkey/UnmarshalPubkey/ToECDSA on the same point set; one case = one call; distinct = distinct (op,input)")
		r.Assume("reference = SEC 1 / RFC 6979 transcription on math/big inside the harness (own Jacobian arithmetic), self-checked against n*G = infinity, 2G and the key-1 address")
		r.Assume("agreement of the two backends is established transitively: each build variant is compared with the same reference table; " +
			"error values are compared as accept/reject only (the backends word their errors differently)")

		// reference self-check
		r.Case(c03Case{Op: "reference-selfcheck"}, func() error {
			if !c03OnCurve(c03Gx, c03Gy) {
				return fmt.Errorf("G not on curve")
			}
			if _, _, inf := c03ToAffine(c03Mul(c03N, c03G())); !inf {
				return fmt.Errorf("n*G is not infinity")
			}
			x2, _, _ := c03ToAffine(c03Mul(big.NewInt(2), c03G()))
			if x2.Cmp(c03Hex("C6047F9441ED7D6D3045406E95C07CD85C778E4B8CEF3CA7ABAC09B95C709EE5")) != 0 {
				return fmt.Errorf("2G.x = %x", x2)
			}
			a, b, _ := c03ToAffine(c03Add(c03Mul(big.NewInt(5), c03G()), c03Mul(new(big.Int).Sub(c03N, big.NewInt(3)), c03G())))
			if a.Cmp(x2) != 0 || !c03OnCurve(a, b) {
				return fmt.Errorf("5G + (n-3)G != 2G")
			}
			addr := Keccak256(c03PubBytes(c03Gx, c03Gy)[1:])[12:]
			if hex.EncodeToString(addr) != "7e5f4552091a69125d5dfcb7b8c2659029395bdf" {
				return fmt.Errorf("address of key 1 = %x", addr)
			}
			return nil
		})
		if r.Violations() > 0 {
			return
		}

		sub := func(a *big.Int, k int64) *big.Int { return new(big.Int).Sub(a, big.NewInt(k)) }
		add := func(a *big.Int, k int64) *big.Int { return new(big.Int).Add(a, big.NewInt(k)) }
		sh := func(s string) []byte { h := sha256.Sum256([]byte(s)); return h[:] }

		// keys
		keys := []*big.Int{big.NewInt(1), big.NewInt(2), sub(c03N, 1), sub(c03N, 2), new(big.Int).Set(c03HalfN),
			new(big.Int).SetBytes(sh("verif-C03-key-a")), new(big.Int).SetBytes(sh("verif-C03-key-b"))}
		for _, k := range keys {
			k.Mod(k, c03N)
		}
		if r.Quick() {
			keys = keys[:6]
		}
		// hashes
		hashes := [][]byte{make([]byte, 32), c03Pad32(big.NewInt(1)), c03Pad32(sub(c03N, 1)), c03Pad32(c03N), c03Pad32(add(c03N, 1)),
			bytes.Repeat([]byte{0xff}, 32), sh("verif-C03-msg-a"), sh("verif-C03-msg-b")}
		r.Bound("keys", len(keys))
		r.Bound("hashes", len(hashes))

		var digestMu sync.Mutex
		var lines []string
		record := func(s string) {
			digestMu.Lock()
			lines = append(lines, s)
			digestMu.Unlock()
		}

		// ---- keys: ToECDSA / public key derivation / compress / decompress
		type kp struct {
			d    *big.Int
			prv  *ecdsa.PrivateKey
			x, y *big.Int
		}
		kps := make([]kp, len(keys))
		for i, d := range keys {
			x, y, _ := c03ToAffine(c03Mul(d, c03G()))
			kps[i] = kp{d: d, x: x, y: y}
			prv, err := ToECDSA(c03Pad32(d)) // outside the case: later cases (and replays of them) need the key
			kps[i].prv = prv
			r.Case(c03Case{Op: "ToECDSA", Key: hex.EncodeToString(c03Pad32(d))}, func() error {
				if err != nil {
					return fmt.Errorf("ToECDSA(%x): %v", d, err)
				}
				if prv.X.Cmp(x) != 0 || prv.Y.Cmp(y) != 0 {
					return fmt.Errorf("public key of %x = (%x,%x), reference (%x,%x)", d, prv.X, prv.Y, x, y)
				}
				if got := FromECDSAPub(&prv.PublicKey); !bytes.Equal(got, c03PubBytes(x, y)) {
					return fmt.Errorf("FromECDSAPub = %x", got)
				}
				wantC := append([]byte{2 + byte(y.Bit(0))}, c03Pad32(x)...)
				if got := CompressPubkey(&prv.PublicKey); !bytes.Equal(got, wantC) {
					return fmt.Errorf("CompressPubkey = %x, reference %x", got, wantC)
				}
				return nil
			})
			r.Distinct("key/" + d.Text(16))
			r.Outcome("key_derivation")
		}
		for _, bad := range []*big.Int{big.NewInt(0), c03N, add(c03N, 1), sub(c03Two56, 1)} {
			r.Case(c03Case{Op: "ToECDSA-invalid", Key: bad.Text(16)}, func() error {
				if _, err := ToECDSA(c03Pad32(bad)); err == nil {
					return fmt.Errorf("ToECDSA accepted the out-of-range key %x", bad)
				}
				// Sign with a hand-built out-of-range key must fail as well
				prv := &ecdsa.PrivateKey{D: bad, PublicKey: ecdsa.PublicKey{Curve: S256(), X: c03Gx, Y: c03Gy}}
				if sig, err := Sign(hashes[6], prv); err == nil {
					return fmt.Errorf("Sign accepted the out-of-range key %x: %x", bad, sig)
				}
				return nil
			})
			r.Outcome("invalid_key_rejected")
		}
		if r.Violations() > 0 {
			return
		}

		// ---- Sign
		type rsv struct {
			hash []byte
			sig  []byte
			k    int
		}
		sigs := make([]rsv, len(kps)*len(hashes))
		// one case per hash (all keys inside), so that a divergence that depends on the hash value has one stable key
		r.Parallel(len(hashes), func(hi int) {
			h := hashes[hi]
			cls := "hash-lt-n"
			if new(big.Int).SetBytes(h).Cmp(c03N) >= 0 {
				cls = "hash-ge-n"
			}
			for k := range kps {
				sigs[k*len(hashes)+hi] = rsv{h, c03RefSign(h, kps[k].d), k}
			}
			r.Case(c03Case{Op: "Sign", Cls: cls, Hash: hex.EncodeToString(h)}, func() error {
				var bad []string
				for k := range kps {
					want := sigs[k*len(hashes)+hi].sig
					got, err := Sign(h, kps[k].prv)
					if err != nil {
						return fmt.Errorf("Sign(%x, key %x) failed: %v", h, kps[k].d, err)
					}
					record(fmt.Sprintf("sign|%x|%x|%x", h, kps[k].d, got))
					if !bytes.Equal(got, want) {
						bad = append(bad, fmt.Sprintf("Sign(%x, key %x) = %x, RFC 6979 reference %x", h, kps[k].d, got, want))
					}
					// whatever was produced must be a valid canonical signature of the key
					if pub, err := Ecrecover(h, got); err != nil || !bytes.Equal(pub, c03PubBytes(kps[k].x, kps[k].y)) {
						return fmt.Errorf("Sign(%x, key %x) = %x does not recover the signing key (%x, %v)", h, kps[k].d, got, pub, err)
					}
				}
				if len(bad) > 0 {
					return fmt.Errorf("%d of %d keys: %s", len(bad), len(kps), strings.Join(bad, "; "))
				}
				return nil
			})
			r.Eval(int64(len(kps) - 1))
			for k := range kps {
				r.Distinct(fmt.Sprintf("sign/%x/%d", h, k))
				r.Outcome(fmt.Sprintf("sign_recid_%d", sigs[k*len(hashes)+hi].sig[64]))
			}
		})
		for _, l := range []int{0, 31, 33, 64} {
			r.Case(c03Case{Op: "Sign-bad-hash-length", Hash: fmt.Sprint(l)}, func() error {
				if sig, err := Sign(make([]byte, l), kps[0].prv); err == nil {
					return fmt.Errorf("Sign accepted a %d-byte hash: %x", l, sig)
				}
				return nil
			})
			r.Outcome("sign_bad_length_rejected")
		}
		if c03Stop(r) {
			return
		}

		// ---- Ecrecover / SigToPub grid
		// real signatures used as r/s donors: keys x hashes subset
		var donors []rsv
		for i, s := range sigs {
			if (i%len(hashes) == 6 || i%len(hashes) == 2) && (r.Thorough() || s.k < 4) {
				donors = append(donors, s)
			}
		}
		big32 := func(b []byte) *big.Int { return new(big.Int).SetBytes(b) }
		pn := new(big.Int).Sub(c03P, c03N)
		rset := []*big.Int{big.NewInt(0), big.NewInt(1), big.NewInt(2), sub(pn, 1), pn, sub(c03N, 1), c03N, add(c03N, 1), c03P, sub(c03Two56, 1)}
		sset := []*big.Int{big.NewInt(0), big.NewInt(1), big.NewInt(2), c03HalfN, add(c03HalfN, 1), sub(c03N, 1), c03N, add(c03N, 1), sub(c03Two56, 1)}
		for _, d := range donors {
			rset = append(rset, big32(d.sig[:32]))
			sset = append(sset, big32(d.sig[32:64]), new(big.Int).Sub(c03N, big32(d.sig[32:64])))
		}
		vset := []byte{0, 1, 2, 3}
		vbad := []byte{4, 5, 6, 7, 8, 26, 27, 28, 29, 30, 31, 128, 229, 230, 232, 255}
		rhashes := [][]byte{hashes[6], hashes[2], hashes[0], hashes[5]}
		if r.Thorough() {
			rhashes = hashes
		}
		r.Bound("recover_r_values", len(rset))
		r.Bound("recover_s_values", len(sset))
		r.Bound("recover_v_values", len(vset)+len(vbad))
		r.Bound("recover_hashes", len(rhashes))
		type rc struct {
			h    []byte
			r, s *big.Int
		}
		var grid []rc
		for _, h := range rhashes {
			for _, rv := range rset {
				for _, sv := range sset {
					grid = append(grid, rc{h, rv, sv})
				}
			}
		}
		r.Parallel(len(grid), func(i int) {
			if c03Stop(r) {
				return
			}
			g := grid[i]
			var oc [4]int64
			for _, v := range vset {
				sig := append(append(c03Pad32(g.r), c03Pad32(g.s)...), v)
				want := c03RefRecover(g.h, sig)
				r.Case(c03Case{Op: "Ecrecover", Hash: hex.EncodeToString(g.h), Sig: hex.EncodeToString(sig)}, func() error {
					got, err := Ecrecover(g.h, append([]byte{}, sig...))
					pk, err2 := SigToPub(g.h, append([]byte{}, sig...))
					if err != nil {
						record(fmt.Sprintf("rec|%x|%x|ERR", g.h, sig))
					} else {
						record(fmt.Sprintf("rec|%x|%x|%x", g.h, sig, got))
					}
					if (err == nil) != (err2 == nil) {
						return fmt.Errorf("Ecrecover err=%v but SigToPub err=%v", err, err2)
					}
					if want == nil {
						if err == nil {
							return fmt.Errorf("Ecrecover(hash %x, r %x, s %x, v %d) returned key %x; the reference rejects this signature", g.h, g.r, g.s, v, got)
						}
						return nil
					}
					if err != nil {
						return fmt.Errorf("Ecrecover(hash %x, r %x, s %x, v %d) failed (%v); reference recovers %x", g.h, g.r, g.s, v, err, want)
					}
					if !bytes.Equal(got, want) {
						return fmt.Errorf("Ecrecover(hash %x, r %x, s %x, v %d) = %x, reference %x", g.h, g.r, g.s, v, got, want)
					}
					if !bytes.Equal(FromECDSAPub(pk), want) {
						return fmt.Errorf("SigToPub = %x, reference %x", FromECDSAPub(pk), want)
					}
					return nil
				})
				if want == nil {
					oc[0]++
				} else {
					oc[1]++
				}
				r.DistinctHash(mc.Hash64(string(g.h) + string(sig)))
			}
			r.OutcomeN("recover_rejected", oc[0])
			r.OutcomeN("recover_key_returned", oc[1])
			if i%211 == 0 {
				r.Sample(map[string]any{"op": "Ecrecover", "hash": hex.EncodeToString(g.h), "r": g.r.Text(16), "s": g.s.Text(16)})
			}
		})
		// recovery ids outside 0..3: one case per id value over the whole (hash,r,s) grid; all must be rejected
		r.Parallel(len(vbad), func(vi int) {
			v := vbad[vi]
			r.Case(c03Case{Op: "Ecrecover-invalid-recovery-id", Cls: fmt.Sprintf("v=%d", v)}, func() error {
				var bad []string
				for _, g := range grid {
					sig := append(append(c03Pad32(g.r), c03Pad32(g.s)...), v)
					got, err := Ecrecover(g.h, append([]byte{}, sig...))
					_, err2 := SigToPub(g.h, append([]byte{}, sig...))
					if err == nil {
						record(fmt.Sprintf("rec|%x|%x|%x", g.h, sig, got))
					} else {
						record(fmt.Sprintf("rec|%x|%x|ERR", g.h, sig))
					}
					if err == nil || err2 == nil {
						if len(bad) < 3 {
							bad = append(bad, fmt.Sprintf("Ecrecover(hash %x, r %x, s %x, v %d) returned key %x", g.h, g.r, g.s, v, got))
						} else {
							bad = append(bad, "")
						}
					}
				}
				if len(bad) > 0 {
					return fmt.Errorf("recovery id %d must be rejected (valid ids are 0..3) but %d of %d grid signatures were accepted, e.g. %s", v, len(bad), len(grid), strings.Join(bad[:min(3, len(bad))], "; "))
				}
				return nil
			})
			r.Eval(int64(len(grid) - 1))
			r.OutcomeN("recover_invalid_id_cases", int64(len(grid)))
			r.Distinct(fmt.Sprintf("badv/%d", v))
		})
		// every real signature recovers its own key (inverse), the high-s twin with flipped v as well
		for _, s := range sigs {
			want := c03PubBytes(kps[s.k].x, kps[s.k].y)
			twin := append([]byte{}, s.sig...)
			copy(twin[32:64], c03Pad32(new(big.Int).Sub(c03N, big32(s.sig[32:64]))))
			twin[64] ^= 1
			for ti, sg := range [][]byte{s.sig, twin} {
				r.Case(c03Case{Op: "Sign-then-Ecrecover", Hash: hex.EncodeToString(s.hash), Sig: hex.EncodeToString(sg)}, func() error {
					got, err := Ecrecover(s.hash, sg)
					if err != nil || !bytes.Equal(got, want) {
						return fmt.Errorf("Ecrecover(%x, %x) = %x, %v; signer key %x", s.hash, sg, got, err, want)
					}
					if ref := c03RefRecover(s.hash, sg); !bytes.Equal(ref, want) {
						return fmt.Errorf("reference recovery disagrees with reference signing: %x", ref)
					}
					// verification: canonical accepted, high-s twin rejected
					ok := VerifySignature(want, s.hash, sg[:64])
					if ok != (ti == 0) {
						return fmt.Errorf("VerifySignature(canonical=%v) = %v", ti == 0, ok)
					}
					return nil
				})
				r.Outcome("sign_recover_roundtrip")
			}
		}
		for _, l := range [][2]int{{32, 64}, {32, 66}, {32, 0}, {31, 65}, {33, 65}, {0, 65}} {
			r.Case(c03Case{Op: "Ecrecover-bad-length", Hash: fmt.Sprint(l[0]), Sig: fmt.Sprint(l[1])}, func() error {
				h := make([]byte, l[0])
				sg := make([]byte, l[1])
				copy(h, sigs[6].hash)
				copy(sg, sigs[6].sig)
				if got, err := Ecrecover(h, sg); err == nil {
					return fmt.Errorf("Ecrecover accepted hash length %d / signature length %d: %x", l[0], l[1], got)
				}
				if _, err := SigToPub(h, sg); err == nil {
					return fmt.Errorf("SigToPub accepted hash length %d / signature length %d", l[0], l[1])
				}
				return nil
			})
			r.Outcome("recover_bad_length_rejected")
		}
		if c03Stop(r) {
			return
		}

		// ---- public key encodings
		type penc struct {
			name string
			b    []byte
		}
		encodings := func(x, y *big.Int) []penc {
			xb, yb := c03Pad32(x), c03Pad32(y)
			par := byte(y.Bit(0))
			cat := func(p byte, parts ...[]byte) []byte {
				out := []byte{p}
				for _, q := range parts {
					out = append(out, q...)
				}
				return out
			}
			negY := c03Pad32(new(big.Int).Sub(c03P, y))
			offY := c03Pad32(new(big.Int).Mod(add(y, 1), c03P))
			xPlusP := new(big.Int).Add(x, c03P)
			res := []penc{
				{"uncompressed", cat(4, xb, yb)},
				{"compressed", cat(2+par, xb)},
				{"compressed-other-parity", cat(3-par, xb)},
				{"hybrid", cat(6+par, xb, yb)},
				{"hybrid-wrong-parity", cat(7-par, xb, yb)},
				{"uncompressed-negated-y", cat(4, xb, negY)},
				{"uncompressed-off-curve", cat(4, xb, offY)},
				{"uncompressed-prefix-00", cat(0, xb, yb)},
				{"uncompressed-prefix-05", cat(5, xb, yb)},
				{"compressed-prefix-04", cat(4, xb)},
				{"compressed-prefix-00", cat(0, xb)},
				{"raw-64", append(append([]byte{}, xb...), yb...)},
				{"length-0", []byte{}},
				{"length-1", []byte{4}},
				{"length-66", cat(4, xb, yb, []byte{0})},
				{"length-34", cat(2+par, xb, []byte{0})},
				{"all-zero-65", make([]byte, 65)},
				{"uncompressed-zero-point", cat(4, make([]byte, 64))},
				{"compressed-x-zero", cat(2, make([]byte, 32))},
				{"compressed-x-eq-p", cat(2, c03Pad32(c03P))},
				{"compressed-x-max", cat(3, bytes.Repeat([]byte{0xff}, 32))},
			}
			if xPlusP.Cmp(c03Two56) < 0 { // x+p still fits 32 bytes: a non-canonical encoding of the same residue
				res = append(res, penc{"compressed-x-plus-p", cat(2+par, c03Pad32(xPlusP))},
					penc{"uncompressed-x-plus-p", cat(4, c03Pad32(xPlusP), yb)})
			}
			return res
		}
		// x values with no point on the curve: smallest x >= 1 whose x^3+7 is a non-residue
		noPointX := big.NewInt(1)
		for c03Lift(noPointX, false) != nil {
			noPointX = add(noPointX, 1)
		}
		r.Bound("smallest_x_without_point", noPointX.String())

		for ki := range kps {
			x, y := kps[ki].x, kps[ki].y
			encs := encodings(x, y)
			if ki == 0 {
				encs = append(encs, penc{"compressed-x-not-on-curve", append([]byte{2}, c03Pad32(noPointX)...)},
					penc{"compressed-x-not-on-curve-odd", append([]byte{3}, c03Pad32(noPointX)...)})
				// x = p-n-1+n style small-x points: x = 1 is on the curve for secp256k1
				if y1 := c03Lift(big.NewInt(1), false); y1 != nil {
					encs = append(encs, penc{"compressed-x-one", append([]byte{2}, c03Pad32(big.NewInt(1))...)})
				}
			}
			for _, e := range encs {
				wx, wy := c03RefParsePub(e.b)
				r.Case(c03Case{Op: "pubkey-parse:" + e.name, Pub: hex.EncodeToString(e.b)}, func() error {
					// DecompressPubkey: exactly the 33-byte compressed form
					pk, err := DecompressPubkey(e.b)
					wantDec := wx != nil && len(e.b) == 33
					if (err == nil) != wantDec {
						return fmt.Errorf("DecompressPubkey(%s %x): err=%v, reference accept=%v", e.name, e.b, err, wantDec)
					}
					if err == nil && (pk.X.Cmp(wx) != 0 || pk.Y.Cmp(wy) != 0) {
						return fmt.Errorf("DecompressPubkey(%x) = (%x,%x), reference (%x,%x)", e.b, pk.X, pk.Y, wx, wy)
					}
					// UnmarshalPubkey: exactly the 65-byte 04 form
					pk2, err2 := UnmarshalPubkey(e.b)
					wantUn := wx != nil && len(e.b) == 65 && e.b[0] == 4
					if (err2 == nil) != wantUn {
						return fmt.Errorf("UnmarshalPubkey(%s %x): err=%v, reference accept=%v", e.name, e.b, err2, wantUn)
					}
					if err2 == nil && (pk2.X.Cmp(wx) != 0 || pk2.Y.Cmp(wy) != 0) {
						return fmt.Errorf("UnmarshalPubkey(%x) = (%x,%x)", e.b, pk2.X, pk2.Y)
					}
					record(fmt.Sprintf("pub|%x|%v|%v", e.b, err == nil, err2 == nil))
					return nil
				})
				r.Distinct("pub/" + hex.EncodeToString(e.b))
				if wx != nil {
					r.Outcome("pubkey_encoding_valid")
				} else {
					r.Outcome("pubkey_encoding_invalid")
				}
			}
		}
		if c03Stop(r) {
			return
		}

		// ---- VerifySignature: real signatures x encodings, and (r,s) substitutions against the true key
		type vc struct {
			name string
			pub  []byte
			h    []byte
			sig  []byte
		}
		var vcases []vc
		for _, d := range donors {
			x, y := kps[d.k].x, kps[d.k].y
			for _, e := range encodings(x, y) {
				vcases = append(vcases, vc{e.name, e.b, d.hash, d.sig[:64]})
			}
			ox, oy := kps[(d.k+1)%len(kps)].x, kps[(d.k+1)%len(kps)].y
			vcases = append(vcases, vc{"other-key", c03PubBytes(ox, oy), d.hash, d.sig[:64]})
			vcases = append(vcases, vc{"other-hash", c03PubBytes(x, y), hashes[7], d.sig[:64]})
			pub := c03PubBytes(x, y)
			rv, sv := big32(d.sig[:32]), big32(d.sig[32:64])
			rsub := []*big.Int{big.NewInt(0), big.NewInt(1), sub(c03N, 1), c03N, add(rv, 1), new(big.Int).Add(rv, c03N), sub(c03Two56, 1)}
			ssub := []*big.Int{big.NewInt(0), big.NewInt(1), c03HalfN, add(c03HalfN, 1), new(big.Int).Sub(c03N, sv), c03N, new(big.Int).Add(sv, c03N), sub(c03Two56, 1)}
			for _, a := range rsub {
				if a.Cmp(c03Two56) >= 0 {
					continue
				}
				vcases = append(vcases, vc{"r-substituted", pub, d.hash, append(c03Pad32(a), d.sig[32:64]...)})
			}
			for _, b := range ssub {
				if b.Cmp(c03Two56) >= 0 {
					continue
				}
				vcases = append(vcases, vc{"s-substituted", pub, d.hash, append(append([]byte{}, d.sig[:32]...), c03Pad32(b)...)})
			}
			vcases = append(vcases, vc{"sig-65-bytes", pub, d.hash, d.sig}, vc{"sig-63-bytes", pub, d.hash, d.sig[:63]})
		}
		r.Bound("verify_cases", len(vcases))
		r.Parallel(len(vcases), func(i int) {
			c := vcases[i]
			want := c03RefVerify(c.pub, c.h, c.sig)
			r.Case(c03Case{Op: "VerifySignature:" + c.name, Hash: hex.EncodeToString(c.h), Sig: hex.EncodeToString(c.sig), Pub: hex.EncodeToString(c.pub)}, func() error {
				got := VerifySignature(c.pub, c.h, c.sig)
				record(fmt.Sprintf("ver|%x|%x|%x|%v", c.pub, c.h, c.sig, got))
				if got != want {
					return fmt.Errorf("VerifySignature(pub %s %x, hash %x, sig %x) = %v, reference %v", c.name, c.pub, c.h, c.sig, got, want)
				}
				return nil
			})
			r.DistinctHash(mc.Hash64("v" + string(c.pub) + string(c.h) + string(c.sig)))
			if want {
				r.Outcome("verify_true")
			} else {
				r.Outcome("verify_false")
			}
		})

		// digest of every observed result, for side-by-side comparison of the two build variants in the evidence
		sort.Strings(lines)
		sum := sha256.Sum256([]byte(strings.Join(lines, "\n")))
		r.Bound("results_digest_sha256", hex.EncodeToString(sum[:]))
		r.Bound("results_recorded", len(lines))
	})
}
