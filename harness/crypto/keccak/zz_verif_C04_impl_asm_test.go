//go:build verif && amd64 && !purego && gc

package keccak

// c04Impl names the keccakF1600 implementation compiled into this build (same
// build constraint as keccakf_amd64.go).
const c04Impl = "keccakf_amd64.s (assembly)"
