//go:build verif

package keccak

import (
	"bytes"
	"encoding/binary"
	"fmt"
	"hash"
	"io"
	"os"
	"testing"

	"github.com/ethereum/go-ethereum/internal/verif/mc"
	xsha3 "golang.org/x/crypto/sha3"
)

// ---------------------------------------------------------------------------
// Reference 1: Keccak written from the specification (Keccak reference v3.0 /
// FIPS 202 section 3), sharing no table with the code under test: the rotation
// offsets come from the (x,y) -> (y,2x+3y) walk and the round constants from the
// degree-8 LFSR.

var (
	c04Rho [25]uint   // rotation offset of lane x+5y
	c04RC  [24]uint64 // iota round constants
)

func init() {
	x, y := 1, 0
	for t := 0; t < 24; t++ {
		c04Rho[x+5*y] = uint(((t + 1) * (t + 2) / 2) % 64)
		x, y = y, (2*x+3*y)%5
	}
	lfsr := func(t int) uint64 { // rc(t) of FIPS 202 algorithm 5
		r := uint(1)
		for i := 0; i < t%255; i++ {
			r <<= 1
			if r&0x100 != 0 {
				r ^= 0x171
			}
		}
		return uint64(r & 1)
	}
	for i := 0; i < 24; i++ {
		for j := 0; j <= 6; j++ {
			c04RC[i] |= lfsr(j+7*i) << ((1 << uint(j)) - 1)
		}
	}
}

func c04Rotl(v uint64, n uint) uint64 {
	if n == 0 {
		return v
	}
	return v<<n | v>>(64-n)
}

// c04RefF1600 is Keccak-f[1600]: 24 rounds of theta, rho, pi, chi, iota.
func c04RefF1600(a *[25]uint64) {
	for round := 0; round < 24; round++ {
		var c, d [5]uint64
		for x := 0; x < 5; x++ {
			c[x] = a[x] ^ a[x+5] ^ a[x+10] ^ a[x+15] ^ a[x+20]
		}
		for x := 0; x < 5; x++ {
			d[x] = c[(x+4)%5] ^ c04Rotl(c[(x+1)%5], 1)
		}
		for i := 0; i < 25; i++ {
			a[i] ^= d[i%5]
		}
		var b [25]uint64
		for x := 0; x < 5; x++ {
			for y := 0; y < 5; y++ {
				b[y+5*((2*x+3*y)%5)] = c04Rotl(a[x+5*y], c04Rho[x+5*y])
			}
		}
		for x := 0; x < 5; x++ {
			for y := 0; y < 5; y++ {
				a[x+5*y] = b[x+5*y] ^ (^b[(x+1)%5+5*y] & b[(x+2)%5+5*y])
			}
		}
		a[0] ^= c04RC[round]
	}
}

// c04RefSponge is legacy Keccak[c=512] (rate 136, pad10*1 with the legacy
// domain byte 0x01) squeezed to outLen bytes, on whole messages only.
func c04RefSponge(msg []byte, outLen int) []byte {
	const rate = 136
	p := append([]byte{}, msg...)
	p = append(p, 0x01)
	for len(p)%rate != 0 {
		p = append(p, 0)
	}
	p[len(p)-1] |= 0x80
	var a [25]uint64
	for off := 0; off < len(p); off += rate {
		for i := 0; i < rate/8; i++ {
			a[i] ^= binary.LittleEndian.Uint64(p[off+8*i:])
		}
		c04RefF1600(&a)
	}
	var out []byte
	for {
		for i := 0; i < rate/8; i++ {
			out = binary.LittleEndian.AppendUint64(out, a[i])
		}
		if len(out) >= outLen {
			return out[:outLen]
		}
		c04RefF1600(&a)
	}
}

// Reference 2: golang.org/x/crypto/sha3 legacy Keccak-256 (pure Go permutation
// in v0.48.0), one-shot only.
func c04XStream(msg []byte, outLen int) []byte {
	h := xsha3.NewLegacyKeccak256()
	h.Write(msg)
	out := make([]byte, outLen)
	io.ReadFull(h.(io.Reader), out)
	return out
}

// ---------------------------------------------------------------------------

const c04Rate = 136

type c04Reader interface {
	hash.Hash
	Read([]byte) (int, error)
}

func c04Pattern(id, n int) []byte {
	out := make([]byte, n)
	switch id {
	case 0: // non-periodic: 32-bit LCG, high byte
		x := uint32(0x2545F491)
		for i := range out {
			x = x*1664525 + 1013904223
			out[i] = byte(x >> 24)
		}
	case 1:
		for i := range out {
			out[i] = 0xff
		}
	case 2: // all zero
	}
	return out
}

var c04PatNames = []string{"lcg", "ff", "00"}

type c04Case struct {
	Kind string `json:"kind"`
	Pat  string `json:"pat"`
	N    int    `json:"n"`
	I    int    `json:"i"`
	J    int    `json:"j"`
}

// c04Stop ends the enumeration early once the verdict is already a failure (keeps
// failing runs and their replays short); the run is then reported as not exhaustive.
func c04Stop(r *mc.R) bool {
	if r.Violations() > 40 {
		r.NotExhaustive("stopped early after more than 40 violations")
		return true
	}
	return false
}

func c04Near(n int) bool {
	for _, m := range []int{c04Rate, 2 * c04Rate, 3 * c04Rate} {
		if n >= m-3 && n <= m+3 {
			return true
		}
	}
	return false
}

// TestVerif_C04 checks the vendored sponge (package-level white-box) against the
// two references for every length, every write splitting and the interleavings
// of Sum/Reset/Read, and the permutation in use (amd64 assembly, or the generic
// one under the purego tag) against the specification permutation on sparse and
// dense states.
func TestVerif_C04(t *testing.T) {
	mc.Run(t, "C04", func(r *mc.R) {
		maxN := mc.Pick(r, 3*c04Rate+8, 5*c04Rate+8)
		full3 := mc.Pick(r, c04Rate+64, 3*c04Rate+8) // every 3-split up to this length
		maxRead := mc.Pick(r, 2*c04Rate+28, 3*c04Rate+8)
		// The sponge code is the same in the assembly and the purego build; the purego step therefore repeats only
		// the whole-message and 2-split part of the sponge enumeration (which drives the generic permutation through
		// the sponge) and the full permutation comparison.
		reduced := os.Getenv("C04_REDUCED_SPONGE") == "1"
		r.Bound("sponge_enumeration", map[bool]string{false: "full", true: "oneshot+2-splits+reset only"}[reduced])
		r.Rule("sponge: patterns{lcg,ff,00} x every length n in 0..maxN; per (pattern,n): every 2-split with Sum after each " +
			"write (on a fresh and on a reused+Reset state), every 3-split (n<=full3 or n within 3 of a rate multiple), Reset after " +
			"every prefix, Reset after Read; Read: for n in a boundary set, every output length L<=maxRead in every 2-split of the " +
			"output; one case = one (kind,pattern,n,i,j); distinct = distinct (kind,n,i,j) tuples, i.e. distinct length/split control paths, each run under the 3 patterns. permutation: zero, 1600 single-bit, " +
			"complemented single-bit, all two-bit states within a lane, cross-lane two-bit states, and two dense chains")
		r.Bound("max_len", maxN)
		r.Bound("full_3split_len", full3)
		r.Bound("max_read_len", maxRead)
		r.Bound("patterns", len(c04PatNames))
		r.Bound("permutation_under_test", c04Impl)
		r.Assume("reference = Keccak transcribed from the specification in the harness (LFSR round constants, walk-derived rho offsets); " +
			"second reference golang.org/x/crypto/sha3.NewLegacyKeccak256 (pure Go); both must agree with each other on every whole message")
		r.Assume("input values are three byte patterns per length; sponge control flow depends only on lengths and split points; " +
			"the permutation is value-checked separately on sparse and dense states")

		// API constants
		r.Case(c04Case{Kind: "sizes"}, func() error {
			h := NewLegacyKeccak256()
			if h.Size() != 32 || h.BlockSize() != c04Rate {
				return fmt.Errorf("Size=%d BlockSize=%d", h.Size(), h.BlockSize())
			}
			return nil
		})

		// reference digests and squeeze streams for every prefix length of every pattern
		ref := make([][][]byte, len(c04PatNames))
		pats := make([][]byte, len(c04PatNames))
		for p := range c04PatNames {
			pats[p] = c04Pattern(p, maxN)
			ref[p] = make([][]byte, maxN+1)
		}
		r.Parallel(len(c04PatNames)*(maxN+1), func(k int) {
			p, n := k/(maxN+1), k%(maxN+1)
			a := c04RefSponge(pats[p][:n], maxRead)
			b := c04XStream(pats[p][:n], maxRead)
			if !bytes.Equal(a, b) {
				r.Violation(fmt.Sprintf("reference-mismatch:%s:%d", c04PatNames[p], n),
					fmt.Sprintf("the two references disagree on pattern %s length %d: spec %x.. x/crypto %x..", c04PatNames[p], n, a[:32], b[:32]), nil)
			}
			ref[p][n] = a
		})
		if r.Violations() > 0 || r.Expired() {
			return
		}

		readSet := map[int]bool{}
		for _, n := range []int{0, 1, 31, 32, 33, 55, 134, 135, 136, 137, 271, 272, 273, maxN} {
			readSet[n] = true
		}

		r.Parallel(len(c04PatNames)*(maxN+1), func(k int) {
			p, n := k%len(c04PatNames), k/len(c04PatNames)
			pn := c04PatNames[p]
			msg := pats[p][:n]
			want := ref[p][n][:32]
			reused := NewLegacyKeccak256().(c04Reader)
			var oc [8]int64
			prefix := []byte{0xAA, 0xBB, 0xCC}
			if c04Stop(r) {
				return
			}

			// whole message, one write
			r.Case(c04Case{Kind: "oneshot", Pat: pn, N: n}, func() error {
				h := NewLegacyKeccak256()
				if w, err := h.Write(msg); w != n || err != nil {
					return fmt.Errorf("Write returned (%d,%v)", w, err)
				}
				if got := h.Sum(nil); !bytes.Equal(got, want) {
					return fmt.Errorf("Keccak256(%s[:%d]) = %x, reference %x", pn, n, got, want)
				}
				return nil
			})
			r.DistinctHash(mc.Hash64(fmt.Sprintf("o/%d", n)))
			oc[n/c04Rate&7]++

			// every 2-split, Sum after each write; fresh state and reused state
			for i := 0; i <= n; i++ {
				for variant := 0; variant < 2; variant++ {
					kind := "split2-fresh"
					if variant == 1 {
						kind = "split2-reused"
					}
					r.Case(c04Case{Kind: kind, Pat: pn, N: n, I: i}, func() error {
						var h c04Reader
						if variant == 0 {
							h = NewLegacyKeccak256().(c04Reader)
						} else {
							h = reused
							h.Reset()
						}
						h.Write(msg[:i])
						if got := h.Sum(nil); !bytes.Equal(got, ref[p][i][:32]) {
							return fmt.Errorf("after Write(%d): Sum=%x, reference of the prefix %x", i, got, ref[p][i][:32])
						}
						h.Write(msg[i:])
						got := h.Sum(append([]byte{}, prefix...))
						if !bytes.Equal(got[:3], prefix) || !bytes.Equal(got[3:], want) {
							return fmt.Errorf("Write(%d);Sum;Write(%d);Sum(prefix)=%x, reference %x", i, n-i, got, want)
						}
						if got2 := h.Sum(nil); !bytes.Equal(got2, want) {
							return fmt.Errorf("second Sum differs: %x, reference %x (Sum disturbed the state)", got2, want)
						}
						var out [32]byte
						if rn, err := h.Read(out[:]); rn != 32 || err != nil || !bytes.Equal(out[:], want) {
							return fmt.Errorf("Read(32) after Sum = %x (%d,%v), reference %x", out, rn, err, want)
						}
						return nil
					})
				}
				r.DistinctHash(mc.Hash64(fmt.Sprintf("2/%d/%d", n, i)))
			}

			// Reset after every prefix, then the whole message
			for i := 0; i <= n; i++ {
				r.Case(c04Case{Kind: "reset-midstream", Pat: pn, N: n, I: i}, func() error {
					h := reused
					h.Reset()
					h.Write(msg[:i])
					h.Reset()
					h.Write(msg)
					if got := h.Sum(nil); !bytes.Equal(got, want) {
						return fmt.Errorf("Write(%d);Reset;Write(%d);Sum=%x, reference %x", i, n, got, want)
					}
					return nil
				})
				// Reset after squeezing: prefix i hashed with Read, then whole message
				r.Case(c04Case{Kind: "reset-after-read", Pat: pn, N: n, I: i}, func() error {
					h := reused
					h.Reset()
					h.Write(msg[:i])
					var out [32]byte
					h.Read(out[:])
					if !bytes.Equal(out[:], ref[p][i][:32]) {
						return fmt.Errorf("Write(%d);Read(32)=%x, reference %x", i, out, ref[p][i][:32])
					}
					h.Reset()
					h.Write(msg)
					h.Read(out[:])
					if !bytes.Equal(out[:], want) {
						return fmt.Errorf("Write(%d);Read;Reset;Write(%d);Read=%x, reference %x", i, n, out, want)
					}
					return nil
				})
				r.DistinctHash(mc.Hash64(fmt.Sprintf("r/%d/%d", n, i)))
			}

			// every 3-split
			if !reduced && (n <= full3 || c04Near(n)) {
				for i := 0; i <= n && !c04Stop(r); i++ {
					for j := i; j <= n; j++ {
						r.Case(c04Case{Kind: "split3", Pat: pn, N: n, I: i, J: j}, func() error {
							h := reused
							h.Reset()
							h.Write(msg[:i])
							h.Write(msg[i:j])
							h.Write(msg[j:])
							var out [32]byte
							h.Read(out[:])
							if !bytes.Equal(out[:], want) {
								return fmt.Errorf("Write(%d);Write(%d);Write(%d);Read=%x, reference %x", i, j-i, n-j, out, want)
							}
							return nil
						})
						r.DistinctHash(uint64(n)<<40 | uint64(i)<<20 | uint64(j) | 1<<59)
						if i%c04Rate == 0 || j%c04Rate == 0 {
							oc[4]++
						} else if i/c04Rate != j/c04Rate {
							oc[5]++
						} else {
							oc[6]++
						}
					}
				}
			}

			// Read in two pieces of every total length
			if readSet[n] && !reduced {
				stream := ref[p][n]
				out := make([]byte, maxRead)
				for l := 0; l <= maxRead && !c04Stop(r); l++ {
					for i := 0; i <= l; i++ {
						r.Case(c04Case{Kind: "read-split", Pat: pn, N: n, I: i, J: l}, func() error {
							h := reused
							h.Reset()
							h.Write(msg)
							for x := range out[:l] {
								out[x] = 0x5c
							}
							a, e1 := h.Read(out[:i])
							b, e2 := h.Read(out[i:l])
							if a != i || b != l-i || e1 != nil || e2 != nil {
								return fmt.Errorf("Read returned (%d,%v) (%d,%v)", a, e1, b, e2)
							}
							if !bytes.Equal(out[:l], stream[:l]) {
								return fmt.Errorf("Read(%d);Read(%d) after %d bytes = %x, reference stream %x", i, l-i, n, out[:l], stream[:l])
							}
							return nil
						})
						r.DistinctHash(uint64(n)<<40 | uint64(i)<<20 | uint64(l) | 1<<58)
					}
					oc[7] += int64(l + 1)
				}
			}
			r.OutcomeN("oneshot_absorbs_0_full_blocks", oc[0])
			r.OutcomeN("oneshot_absorbs_1_full_block", oc[1])
			r.OutcomeN("oneshot_absorbs_2_full_blocks", oc[2])
			r.OutcomeN("oneshot_absorbs_3plus_full_blocks", oc[3])
			r.OutcomeN("split3_cut_on_block_boundary", oc[4])
			r.OutcomeN("split3_cuts_in_different_blocks", oc[5])
			r.OutcomeN("split3_cuts_in_same_block", oc[6])
			r.OutcomeN("read_splits", oc[7])
			if n%97 == 5 && p == 0 {
				r.Sample(map[string]any{"pattern": pn, "n": n, "digest": fmt.Sprintf("%x", want)})
			}
		})
		if r.Expired() || c04Stop(r) {
			return
		}
		c04Permutation(r)
	})
}

// c04Permutation compares keccakF1600 (the function the sponge calls: assembly on
// amd64, generic Go under purego / other architectures) with c04RefF1600.
func c04Permutation(r *mc.R) {
	check := func(kind string, i, j int, st [25]uint64) [25]uint64 {
		want := st
		c04RefF1600(&want)
		r.Case(c04Case{Kind: kind, I: i, J: j}, func() error {
			got := st
			keccakF1600(&got)
			if got != want {
				return fmt.Errorf("keccakF1600(%s %d,%d) = %x, specification %x", kind, i, j, got, want)
			}
			return nil
		})
		return want
	}
	var zero [25]uint64
	check("perm-zero", 0, 0, zero)
	r.DistinctHash(mc.Hash64("perm-zero"))
	crossBits := mc.Pick(r, []int{0, 1, 31, 32, 62, 63}, nil)
	if crossBits == nil {
		for b := 0; b < 64; b++ {
			crossBits = append(crossBits, b)
		}
	}
	r.Bound("perm_cross_lane_bit_positions", len(crossBits))
	chain := mc.Pick(r, 20000, 200000)
	r.Bound("perm_dense_chain_len", chain)
	r.Parallel(25+2, func(lane int) {
		if lane >= 25 {
			// dense states: orbit of the reference permutation from two seeds
			var st [25]uint64
			if lane == 26 {
				for i := range st {
					st[i] = ^uint64(0)
				}
			}
			for k := 0; k < chain; k++ {
				if k&1023 == 0 && (r.Expired() || c04Stop(r)) {
					return
				}
				st = check("perm-dense", lane-25, k, st)
				r.DistinctHash(st[0] ^ st[7] ^ 3)
			}
			r.OutcomeN("perm_dense", int64(chain))
			return
		}
		var s, l, c int64
		for b := 0; b < 64 && !c04Stop(r); b++ {
			var st [25]uint64
			st[lane] = 1 << uint(b)
			check("perm-1bit", lane, b, st)
			for i := range st {
				st[i] = ^uint64(0)
			}
			st[lane] ^= 1 << uint(b)
			check("perm-1bit-complement", lane, b, st)
			s += 2
			r.DistinctHash(uint64(lane)<<8 | uint64(b) | 1<<57)
			for b2 := b + 1; b2 < 64; b2++ {
				var st [25]uint64
				st[lane] = 1<<uint(b) | 1<<uint(b2)
				check("perm-2bit-lane", lane*64+b, lane*64+b2, st)
				r.DistinctHash(uint64(lane)<<16 | uint64(b)<<8 | uint64(b2) | 1<<56)
				l++
			}
		}
		for lane2 := lane + 1; lane2 < 25; lane2++ {
			if r.Expired() || c04Stop(r) {
				return
			}
			for _, b := range crossBits {
				for _, b2 := range crossBits {
					var st [25]uint64
					st[lane] = 1 << uint(b)
					st[lane2] = 1 << uint(b2)
					check("perm-2bit-cross", lane*64+b, lane2*64+b2, st)
					r.DistinctHash(uint64(lane*64+b)<<16 | uint64(lane2*64+b2) | 1<<55)
					c++
				}
			}
		}
		r.OutcomeN("perm_single_bit_and_complement", s)
		r.OutcomeN("perm_two_bit_same_lane", l)
		r.OutcomeN("perm_two_bit_cross_lane", c)
	})
}
