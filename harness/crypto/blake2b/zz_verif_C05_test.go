//go:build verif && amd64 && !gccgo && !appengine

package blake2b

import (
	"encoding/binary"
	"encoding/hex"
	"fmt"
	"math/bits"
	"testing"

	"github.com/ethereum/go-ethereum/internal/verif/mc"
)

// c05Sigma is the message schedule of RFC 7693 section 2.7, typed from the RFC.
var c05Sigma = [10][16]int{
	{0, 1, 2, 3, 4, 5, 6, 7, 8, 9, 10, 11, 12, 13, 14, 15},
	{14, 10, 4, 8, 9, 15, 13, 6, 1, 12, 0, 2, 11, 7, 5, 3},
	{11, 8, 12, 0, 5, 2, 15, 13, 10, 14, 3, 6, 7, 1, 9, 4},
	{7, 9, 3, 1, 13, 12, 11, 14, 2, 6, 5, 10, 4, 0, 15, 8},
	{9, 0, 5, 7, 2, 4, 10, 15, 14, 1, 11, 12, 6, 8, 3, 13},
	{2, 12, 6, 10, 0, 11, 8, 3, 4, 13, 7, 5, 15, 14, 1, 9},
	{12, 5, 1, 15, 14, 13, 4, 10, 0, 7, 6, 3, 9, 2, 8, 11},
	{13, 11, 7, 14, 12, 1, 3, 9, 5, 0, 15, 4, 8, 6, 2, 10},
	{6, 15, 14, 9, 11, 3, 0, 8, 12, 2, 13, 7, 1, 4, 10, 5},
	{10, 2, 8, 4, 7, 6, 1, 5, 15, 11, 9, 14, 3, 12, 13, 0},
}

var c05IV = [8]uint64{0x6a09e667f3bcc908, 0xbb67ae8584caa73b, 0x3c6ef372fe94f82b, 0xa54ff53a5f1d36f1,
	0x510e527fade682d1, 0x9b05688c2b3e6c1f, 0x1f83d9abfb41bd6b, 0x5be0cd19137e2179}

// c05RefF is the compression function F of RFC 7693 section 3.2 with the round
// count as a parameter (EIP-152), written from the RFC text.
func c05RefF(h *[8]uint64, m *[16]uint64, t0, t1 uint64, final bool, rounds uint64) {
	var v [16]uint64
	copy(v[:8], h[:])
	copy(v[8:], c05IV[:])
	v[12] ^= t0
	v[13] ^= t1
	if final {
		v[14] = ^v[14]
	}
	g := func(a, b, c, d int, x, y uint64) {
		v[a] = v[a] + v[b] + x
		v[d] = bits.RotateLeft64(v[d]^v[a], -32)
		v[c] = v[c] + v[d]
		v[b] = bits.RotateLeft64(v[b]^v[c], -24)
		v[a] = v[a] + v[b] + y
		v[d] = bits.RotateLeft64(v[d]^v[a], -16)
		v[c] = v[c] + v[d]
		v[b] = bits.RotateLeft64(v[b]^v[c], -63)
	}
	for i := uint64(0); i < rounds; i++ {
		s := &c05Sigma[i%10]
		g(0, 4, 8, 12, m[s[0]], m[s[1]])
		g(1, 5, 9, 13, m[s[2]], m[s[3]])
		g(2, 6, 10, 14, m[s[4]], m[s[5]])
		g(3, 7, 11, 15, m[s[6]], m[s[7]])
		g(0, 5, 10, 15, m[s[8]], m[s[9]])
		g(1, 6, 11, 12, m[s[10]], m[s[11]])
		g(2, 7, 8, 13, m[s[12]], m[s[13]])
		g(3, 4, 9, 14, m[s[14]], m[s[15]])
	}
	for i := 0; i < 8; i++ {
		h[i] ^= v[i] ^ v[i+8]
	}
}

func c05FStop(r *mc.R) bool {
	if r.Violations() > 40 {
		r.NotExhaustive("stopped early after more than 40 violations")
		return true
	}
	return false
}

type c05FCase struct {
	Op     string `json:"op"`
	Rounds uint64 `json:"rounds"`
	Final  bool   `json:"final"`
	H      string `json:"h"`
	M      string `json:"m"`
	T      string `json:"t"`
}

// TestVerif_C05_Blake2bF compares every implementation of the BLAKE2b compression
// function that this CPU can run (AVX2, AVX, SSE4 assembly, generic Go), called
// directly and through the exported F under each CPU-feature dispatch row, with
// the RFC 7693 transcription above.
func TestVerif_C05_Blake2bF(t *testing.T) {
	mc.Run(t, "C05", func(r *mc.R) {
		type impl struct {
			name string
			ok   bool
			f    func(h *[8]uint64, m *[16]uint64, c0, c1 uint64, flag uint64, rounds uint64)
		}
		haveAVX2, haveAVX, haveSSE4 := useAVX2, useAVX, useSSE4 // as detected by init()
		impls := []impl{{"generic", true, fGeneric}, {"sse4", haveSSE4, fSSE4}, {"avx", haveAVX, fAVX}, {"avx2", haveAVX2, fAVX2}}
		var names []string
		for _, im := range impls {
			if im.ok {
				names = append(names, im.name)
			}
		}
		r.Bound("implementations_run", names)
		if len(names) < 2 {
			r.NotExhaustive("this CPU runs only the generic implementation")
		}
		// dispatch rows of f(): the first enabled flag wins
		type row struct {
			name            string
			avx2, avx, sse4 bool
		}
		rows := []row{{"dispatch-generic", false, false, false}}
		if haveSSE4 {
			rows = append(rows, row{"dispatch-sse4", false, false, true})
		}
		if haveAVX {
			rows = append(rows, row{"dispatch-avx", false, true, haveSSE4})
		}
		if haveAVX2 {
			rows = append(rows, row{"dispatch-avx2", true, haveAVX, haveSSE4})
		}
		r.Bound("dispatch_rows", len(rows))

		smallRounds := []uint64{}
		for i := uint64(0); i <= 25; i++ {
			smallRounds = append(smallRounds, i)
		}
		bigRounds := mc.Pick(r, []uint64{99, 100, 101, 1<<16 + 3}, []uint64{99, 100, 101, 1<<16 + 3, 1<<22 + 7})
		r.Bound("rounds_small", "0..25")
		r.Bound("rounds_large", bigRounds)
		r.Rule("rounds {0..25} x final{0,1} x h in 5 patterns x m in 5 patterns x t in 6 patterns, plus large round counts on a sub-grid; each case runs generic/SSE4/AVX/AVX2 directly " +
			"and the exported F under every dispatch row (flags set and restored), all compared with the RFC 7693 transcription; distinct = distinct (rounds,final,h,m,t)")
		r.Assume("reference = RFC 7693 section 3.2 transcription with the EIP-152 round parameter, self-checked against the EIP-152 test vector 5 (12 rounds) and vector 4 (0 rounds)")

		// patterns
		var hs [][8]uint64
		var ms [][16]uint64
		hs = append(hs, [8]uint64{}, [8]uint64{^uint64(0), ^uint64(0), ^uint64(0), ^uint64(0), ^uint64(0), ^uint64(0), ^uint64(0), ^uint64(0)})
		var hc, hr [8]uint64
		for i := range hc {
			hc[i] = uint64(i+1) * 0x0101010101010101
			hr[i] = c05IV[i]
		}
		hr[0] ^= 0x01010040 // RFC 7693 appendix A: BLAKE2b-512, no key
		var hbit [8]uint64
		hbit[7] = 1 << 63
		hs = append(hs, hc, hr, hbit)
		ms = append(ms, [16]uint64{})
		var mo, mc2, mr, mbit [16]uint64
		for i := range mo {
			mo[i] = ^uint64(0)
			mc2[i] = uint64(i)<<56 | uint64(i*3+1)
		}
		mr[0] = 0x636261 // "abc"
		mbit[15] = 1 << 63
		ms = append(ms, mo, mc2, mr, mbit)
		ts := [][2]uint64{{0, 0}, {3, 0}, {128, 0}, {^uint64(0), 0}, {0, 1}, {^uint64(0), ^uint64(0)}}

		// reference self-check: EIP-152 vectors
		r.Case(c05FCase{Op: "reference-selfcheck"}, func() error {
			h := hr
			m := mr
			c05RefF(&h, &m, 3, 0, true, 12)
			var out [64]byte
			for i, v := range h {
				binary.LittleEndian.PutUint64(out[8*i:], v)
			}
			if hex.EncodeToString(out[:]) != "ba80a53f981c4d0d6a2797b69f12f6e94c212f14685ac4b74b12bb6fdbffa2d17d87c5392aab792dc252d5de4533cc9518d38aa8dbf1925ab92386edd4009923" {
				return fmt.Errorf("reference F(12 rounds, abc) = %x", out)
			}
			h = hr
			c05RefF(&h, &m, 3, 0, true, 0)
			for i, v := range h {
				binary.LittleEndian.PutUint64(out[8*i:], v)
			}
			if hex.EncodeToString(out[:]) != "08c9bcf367e6096a3ba7ca8485ae67bb2bf894fe72f36e3cf1361d5f3af54fa5d282e6ad7f520e511f6c3e2b8c68059b9442be0454267ce079217e1319cde05b" {
				return fmt.Errorf("reference F(0 rounds, abc) = %x", out)
			}
			return nil
		})
		if r.Violations() > 0 {
			return
		}

		type job struct {
			rounds     uint64
			final      bool
			hi, mi, ti int
		}
		var jobs []job
		for _, rd := range smallRounds {
			for _, fin := range []bool{false, true} {
				for hi := range hs {
					for mi := range ms {
						for ti := range ts {
							jobs = append(jobs, job{rd, fin, hi, mi, ti})
						}
					}
				}
			}
		}
		for _, rd := range bigRounds {
			for _, fin := range []bool{false, true} {
				for _, c := range [][3]int{{3, 3, 1}, {1, 1, 5}, {2, 2, 2}} {
					jobs = append(jobs, job{rd, fin, c[0], c[1], c[2]})
				}
			}
		}
		r.Bound("cases", len(jobs))

		// 1. direct calls (parallel; no shared state)
		r.Parallel(len(jobs), func(i int) {
			if c05FStop(r) {
				return
			}
			j := jobs[i]
			want := hs[j.hi]
			m := ms[j.mi]
			c05RefF(&want, &m, ts[j.ti][0], ts[j.ti][1], j.final, j.rounds)
			c := c05FCase{Op: "direct", Rounds: j.rounds, Final: j.final, H: fmt.Sprint(j.hi), M: fmt.Sprint(j.mi), T: fmt.Sprint(j.ti)}
			r.Case(c, func() error {
				flag := uint64(0)
				if j.final {
					flag = ^uint64(0)
				}
				for _, im := range impls {
					if !im.ok {
						continue
					}
					h := hs[j.hi]
					mm := ms[j.mi]
					im.f(&h, &mm, ts[j.ti][0], ts[j.ti][1], flag, j.rounds)
					if h != want {
						return fmt.Errorf("%s: F(rounds=%d final=%v h#%d m#%d t=%v) = %x, RFC 7693 reference %x", im.name, j.rounds, j.final, j.hi, j.mi, ts[j.ti], h, want)
					}
					if mm != ms[j.mi] {
						return fmt.Errorf("%s modified the message block", im.name)
					}
				}
				return nil
			})
			r.DistinctHash(mc.Hash64(fmt.Sprint(j)))
			if j.rounds%10 == 0 {
				r.Outcome("rounds_multiple_of_10")
			} else if j.rounds > 10 {
				r.Outcome("rounds_wrapping_schedule")
			} else {
				r.Outcome("rounds_below_10")
			}
			if i%977 == 0 {
				r.Sample(map[string]any{"rounds": j.rounds, "final": j.final, "h": j.hi, "m": j.mi, "t": ts[j.ti], "out": fmt.Sprintf("%x", want)})
			}
		})

		// 2. exported F under each dispatch row (package flags: sequential, restored afterwards)
		defer func(a, b, c bool) { useAVX2, useAVX, useSSE4 = a, b, c }(useAVX2, useAVX, useSSE4)
		for _, rw := range rows {
			useAVX2, useAVX, useSSE4 = rw.avx2, rw.avx, rw.sse4
			for _, j := range jobs {
				if j.rounds > 1<<16+3 || c05FStop(r) {
					continue
				}
				if r.Expired() {
					return
				}
				want := hs[j.hi]
				m := ms[j.mi]
				c05RefF(&want, &m, ts[j.ti][0], ts[j.ti][1], j.final, j.rounds)
				c := c05FCase{Op: rw.name, Rounds: j.rounds, Final: j.final, H: fmt.Sprint(j.hi), M: fmt.Sprint(j.mi), T: fmt.Sprint(j.ti)}
				r.Case(c, func() error {
					h := hs[j.hi]
					F(&h, ms[j.mi], ts[j.ti], j.final, uint32(j.rounds))
					if h != want {
						return fmt.Errorf("F under %s (rounds=%d final=%v h#%d m#%d t=%v) = %x, RFC 7693 reference %x", rw.name, j.rounds, j.final, j.hi, j.mi, ts[j.ti], h, want)
					}
					return nil
				})
			}
			r.Outcome(rw.name)
		}
	})
}
