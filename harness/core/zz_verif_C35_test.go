//go:build verif

package core

import (
	"errors"
	"fmt"
	"math/big"
	"testing"

	"github.com/ethereum/go-ethereum/common"
	"github.com/ethereum/go-ethereum/core/types"
	"github.com/ethereum/go-ethereum/internal/verif/mc"
	"github.com/ethereum/go-ethereum/params"
	"github.com/holiman/uint256"
)

// ---------------------------------------------------------------------------
// Reference: intrinsic gas (Yellow Paper g0 + EIP-2 / EIP-2028 / EIP-2930 /
// EIP-3860 / EIP-7702) and calldata floor (EIP-7623) transcribed into math/big
// with literal constants; for the Amsterdam rule set of this tree the formulas
// of EIP-2780 (resource-based base cost), EIP-7976 (floor 64 gas per byte) and
// EIP-7981 (access-list data charged at the floor rate) with the constants this
// tree pins for those draft EIPs. No call into the code under test, no params.

type c35Fork struct {
	Name  string
	Rules params.Rules
	// features derived by hand for the reference (not read from Rules)
	homestead, istanbul, berlin, shanghai, prague, amsterdam bool
}

func c35Forks() []c35Fork {
	fr := params.Rules{}
	hs := fr
	hs.IsHomestead, hs.IsEIP150, hs.IsEIP155, hs.IsEIP158 = true, true, true, true
	by := hs
	by.IsByzantium, by.IsConstantinople, by.IsPetersburg = true, true, true
	ist := by
	ist.IsIstanbul = true
	ber := ist
	ber.IsBerlin, ber.IsEIP2929 = true, true
	lon := ber
	lon.IsLondon = true
	sh := lon
	sh.IsMerge, sh.IsShanghai = true, true
	ca := sh
	ca.IsCancun = true
	pr := ca
	pr.IsPrague = true
	os := pr
	os.IsOsaka = true
	am := os
	am.IsAmsterdam = true
	return []c35Fork{
		{"frontier", fr, false, false, false, false, false, false},
		{"homestead", hs, true, false, false, false, false, false},
		{"byzantium", by, true, false, false, false, false, false},
		{"istanbul", ist, true, true, false, false, false, false},
		{"berlin", ber, true, true, true, false, false, false},
		{"london", lon, true, true, true, false, false, false},
		{"shanghai", sh, true, true, true, true, false, false},
		{"cancun", ca, true, true, true, true, false, false},
		{"prague", pr, true, true, true, true, true, false},
		{"osaka", os, true, true, true, true, true, false},
		{"amsterdam", am, true, true, true, true, true, true},
	}
}

type c35Tx struct {
	zeros, nonzeros int
	addrs, keys     int // access list: addresses, total storage keys
	hasAL           bool
	auths           int
	hasAuth         bool
	create          bool
	self            bool // to == from
	hasValue        bool
}

func c35Big(v int64) *big.Int { return big.NewInt(v) }

// c35RefBase2780: EIP-2780 base cost as pinned in this tree: TX_BASE_COST 12000
// (sender), recipient touch COLD_ACCOUNT_ACCESS 3000 (none for a self transfer,
// CREATE_ACCESS 12000 for a creation), TX_VALUE_COST 6000 for a value-bearing
// call to another account.
func c35RefBase2780(tx c35Tx) *big.Int {
	g := c35Big(12000)
	switch {
	case tx.create:
		g.Add(g, c35Big(12000))
	case tx.self:
	default:
		g.Add(g, c35Big(3000))
	}
	if tx.hasValue && !tx.create && !tx.self {
		g.Add(g, c35Big(6000))
	}
	return g
}

func c35RefIntrinsic(f c35Fork, tx c35Tx) *big.Int {
	mul := func(n int, c int64) *big.Int { return new(big.Int).Mul(c35Big(int64(n)), c35Big(c)) }
	var g *big.Int
	switch {
	case f.amsterdam:
		g = c35RefBase2780(tx)
	case tx.create && f.homestead:
		g = c35Big(53000) // G_transaction + G_txcreate (EIP-2)
	default:
		g = c35Big(21000)
	}
	// calldata: G_txdatazero 4, G_txdatanonzero 68 (16 since EIP-2028)
	nz := int64(68)
	if f.istanbul {
		nz = 16
	}
	g.Add(g, mul(tx.zeros, 4))
	g.Add(g, mul(tx.nonzeros, nz))
	// EIP-3860: 2 gas per 32-byte word of init code
	if tx.create && f.shanghai {
		words := (tx.zeros + tx.nonzeros + 31) / 32
		g.Add(g, mul(words, 2))
	}
	// EIP-2930 access list
	if tx.hasAL {
		if f.amsterdam {
			g.Add(g, mul(tx.addrs, 2900))
			g.Add(g, mul(tx.keys, 2000))
			// EIP-7981: access-list bytes (20 per address, 32 per key) x 4 tokens x 16 gas
			g.Add(g, mul(tx.addrs*20+tx.keys*32, 4*16))
		} else {
			g.Add(g, mul(tx.addrs, 2400))
			g.Add(g, mul(tx.keys, 1900))
		}
	}
	// EIP-7702: PER_EMPTY_ACCOUNT_COST 25000 per authorization tuple
	if tx.hasAuth {
		if f.amsterdam {
			g.Add(g, mul(tx.auths, 7816))
		} else {
			g.Add(g, mul(tx.auths, 25000))
		}
	}
	return g
}

// c35RefFloor: EIP-7623: 21000 + 10 * (zero_bytes + 4*nonzero_bytes). Amsterdam
// (EIP-7976/7981): base(EIP-2780) + 16 * 4 * (len(calldata) + access-list bytes).
func c35RefFloor(f c35Fork, tx c35Tx) *big.Int {
	if f.amsterdam {
		bytes := int64(tx.zeros + tx.nonzeros)
		if tx.hasAL {
			bytes += int64(tx.addrs*20 + tx.keys*32)
		}
		g := c35RefBase2780(tx)
		return g.Add(g, new(big.Int).Mul(c35Big(bytes), c35Big(64)))
	}
	tokens := int64(tx.zeros) + 4*int64(tx.nonzeros)
	return new(big.Int).Add(c35Big(21000), new(big.Int).Mul(c35Big(tokens), c35Big(10)))
}

// ---------------------------------------------------------------------------
// input construction

var c35NZ = []byte{0x01, 0xff, 0x80, 0x7f, 0x10}

// c35Data builds calldata with exactly z zero and nz non-zero bytes; layout 0:
// zeros first, 1: non-zeros first, 2: interleaved.
func c35Data(z, nz, layout int) []byte {
	out := make([]byte, 0, z+nz)
	switch layout {
	case 0:
		out = append(out, make([]byte, z)...)
		for i := 0; i < nz; i++ {
			out = append(out, c35NZ[i%len(c35NZ)])
		}
	case 1:
		for i := 0; i < nz; i++ {
			out = append(out, c35NZ[i%len(c35NZ)])
		}
		out = append(out, make([]byte, z)...)
	default:
		a, b := z, nz
		for a > 0 || b > 0 {
			if a > 0 {
				out = append(out, 0)
				a--
			}
			if b > 0 {
				out = append(out, c35NZ[b%len(c35NZ)])
				b--
			}
		}
	}
	return out
}

// c35AL builds an access list with the given key counts per address.
func c35AL(shape []int) types.AccessList {
	al := types.AccessList{}
	for i, k := range shape {
		t := types.AccessTuple{Address: common.Address{byte(i + 1)}}
		for j := 0; j < k; j++ {
			t.StorageKeys = append(t.StorageKeys, common.Hash{byte(i), byte(j)})
		}
		al = append(al, t)
	}
	return al
}

type c35IGCase struct {
	Part   string `json:"part"`
	Fork   string `json:"fork"`
	Zeros  int    `json:"zeros"`
	NonZ   int    `json:"nonzeros"`
	Layout int    `json:"layout"`
	AL     []int  `json:"access_list_keys_per_address"` // nil = no access list
	Auths  int    `json:"auths"`                        // -1 = nil list
	To     string `json:"to"`                           // create | self | other
	Value  string `json:"value"`                        // nil | 0 | 1 | max
}

func TestVerif_C35(t *testing.T) {
	mc.Run(t, "C35", func(r *mc.R) {
		forks := c35Forks()
		sizes := []int{0, 1, 2, 3, 31, 32, 33, 1000}
		type dataShape struct{ z, nz, layout int }
		var datas []dataShape
		for _, z := range sizes {
			for _, nz := range sizes {
				for layout := 0; layout < 3; layout++ {
					if layout > 0 && (z == 0 || nz == 0) {
						continue
					}
					if layout == 2 && z+nz > 70 {
						continue
					}
					datas = append(datas, dataShape{z, nz, layout})
				}
			}
		}
		// init-code size limits (EIP-3860 49152; Amsterdam 131072) and word boundaries around them
		for _, n := range []int{49151, 49152, 49153, 131071, 131072, 131073} {
			datas = append(datas, dataShape{0, n, 0}, dataShape{n, 0, 0}, dataShape{n / 2, n - n/2, 0})
		}
		if r.Thorough() {
			for _, n := range []int{63, 64, 65, 95, 96, 97, 24575, 24576, 24577, 1 << 20} {
				datas = append(datas, dataShape{0, n, 0}, dataShape{n, 0, 0}, dataShape{n / 3, n - n/3, 1})
			}
		}
		alShapes := [][]int{nil, {}, {0}, {1}, {3}, {0, 0, 0}, {1, 1, 1}, {3, 3, 3}, {0, 3, 1}, {2, 0, 0, 5}}
		authCounts := []int{-1, 0, 1, 2, 3}
		tos := []string{"create", "self", "other"}
		values := []string{"nil", "0", "1", "max"}
		r.Rule("[intrinsic] every fork rule set {frontier, homestead, byzantium, istanbul, berlin, london, shanghai, cancun, prague, osaka, amsterdam} x calldata with (zeros, nonzeros) in " +
			"{0,1,2,3,31,32,33,1000}^2 in up to 3 byte layouts + init-code limit sizes 49151..49153 and 131071..131073 x access-list shapes {none, empty, [0],[1],[3],[0,0,0],[1,1,1],[3,3,3],[0,3,1],[2,0,0,5]} (Berlin+) " +
			"x authorization lists {none, 0,1,2,3 entries} (Prague+) x to in {create, self, other} x value in {nil,0,1,2^256-1}: IntrinsicGas and (Prague+) FloorDataGas == reference formulas in math/big; " +
			"distinct = distinct (fork, tx shape) ; outcomes by fork family")
		r.Bound("forks", len(forks))
		r.Bound("data_shapes", len(datas))
		r.Assume("reference = Yellow Paper g0 + EIP-2/2028/2930/3860/7702/7623 with literal constants; for Amsterdam the EIP-2780/7976/7981 formulas with the draft constants pinned by this tree (12000/3000/12000/6000, 2900/2000, 16x4 per byte, 7816 per authorization)")
		r.Assume("access lists are passed only for Berlin+ rule sets and authorization lists only for Prague+ (typed transactions do not exist earlier); uint64 overflow (ErrGasUintOverflow) needs > 2^57 bytes of input and is outside the enumerable domain: the reference is computed unbounded and any error return is a violation")
		from := common.Address{0xaa, 0x01}
		other := common.Address{0xbb, 0x02}
		maxV := new(uint256.Int).SetAllOne()
		r.Parallel(len(datas), func(di int) {
			d := datas[di]
			data := c35Data(d.z, d.nz, d.layout)
			keep := append([]byte{}, data...)
			counts := map[string]int64{}
			for _, f := range forks {
				for _, shape := range alShapes {
					if shape != nil && !f.berlin {
						continue
					}
					var al types.AccessList
					keys := 0
					if shape != nil {
						al = c35AL(shape)
						for _, k := range shape {
							keys += k
						}
					}
					for _, na := range authCounts {
						if na >= 0 && !f.prague {
							continue
						}
						// keep the product bounded: big data only with the small access-list/auth shapes
						if len(data) > 2000 && (len(shape) > 1 || na > 1) {
							continue
						}
						var auths []types.SetCodeAuthorization
						if na >= 0 {
							auths = make([]types.SetCodeAuthorization, na)
						}
						for _, to := range tos {
							for _, val := range values {
								if !f.amsterdam && val != "nil" && val != "1" {
									continue // value/from/to only matter under EIP-2780; two values suffice elsewhere
								}
								if r.Expired() {
									return
								}
								tx := c35Tx{zeros: d.z, nonzeros: d.nz, addrs: len(shape), keys: keys, hasAL: shape != nil,
									auths: max(na, 0), hasAuth: na >= 0, create: to == "create", self: to == "self", hasValue: val == "1" || val == "max"}
								var toP *common.Address
								switch to {
								case "self":
									a := from
									toP = &a
								case "other":
									a := other
									toP = &a
								}
								var v *uint256.Int
								switch val {
								case "0":
									v = new(uint256.Int)
								case "1":
									v = uint256.NewInt(1)
								case "max":
									v = maxV.Clone()
								}
								c := c35IGCase{"intrinsic", f.Name, d.z, d.nz, d.layout, shape, na, to, val}
								r.Case(c, func() error {
									want := c35RefIntrinsic(f, tx)
									got, err := IntrinsicGas(data, al, auths, from, toP, v, f.Rules)
									if err != nil {
										if errors.Is(err, ErrGasUintOverflow) && !want.IsUint64() {
											return nil
										}
										return fmt.Errorf("IntrinsicGas error %v, reference %s", err, want)
									}
									if !want.IsUint64() || got != want.Uint64() {
										return fmt.Errorf("IntrinsicGas=%d, reference %s", got, want)
									}
									if f.prague {
										wantF := c35RefFloor(f, tx)
										gotF, err := FloorDataGas(f.Rules, from, toP, v, data, al)
										if err != nil {
											return fmt.Errorf("FloorDataGas error %v, reference %s", err, wantF)
										}
										if !wantF.IsUint64() || gotF != wantF.Uint64() {
											return fmt.Errorf("FloorDataGas=%d, reference %s", gotF, wantF)
										}
									}
									return nil
								})
								counts[f.Name]++
								r.DistinctHash(mc.Hash64(fmt.Sprintf("ig|%s|%d|%d|%d|%v%v|%d|%s|%s", f.Name, d.z, d.nz, d.layout, shape == nil, shape, na, to, val)))
							}
						}
					}
				}
			}
			for i := range data {
				if data[i] != keep[i] {
					r.Violation(fmt.Sprintf("data-mutated|%d|%d|%d", d.z, d.nz, d.layout), "IntrinsicGas/FloorDataGas modified the calldata", nil)
					break
				}
			}
			for _, f := range forks {
				r.OutcomeN("intrinsic_"+f.Name, counts[f.Name])
			}
			if di%23 == 0 {
				r.Sample(c35IGCase{"intrinsic", "prague", d.z, d.nz, d.layout, []int{0, 3, 1}, 1, "other", "1"})
			}
		})
	})
}
