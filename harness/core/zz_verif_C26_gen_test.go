//go:build verif

package core

// C26: enumerated spaces (see zz_verif_C26_test.go for the differential driver).

import (
	"crypto/ecdsa"
	"encoding/json"
	"fmt"
	"math/big"
	"os"
	"strings"
	"sync"
	"testing"

	"github.com/ethereum/go-ethereum/common"
	"github.com/ethereum/go-ethereum/core/types"
	"github.com/ethereum/go-ethereum/crypto"
	"github.com/ethereum/go-ethereum/internal/verif/mc"
	"github.com/ethereum/go-ethereum/internal/verif/progx"
	"github.com/ethereum/go-ethereum/internal/verif/refevm"
	"github.com/holiman/uint256"
)

var (
	c26Origin = progx.AddrOrigin
	c26A      = progx.AddrA
	c26EOA    = common.HexToAddress("0x00000000000000000000000000000000000e0a01") // funded externally owned account
	c26None   = common.HexToAddress("0x00000000000000000000000000000000000dead0") // does not exist
	c26Sender2 = common.HexToAddress("0x000000000000000000000000000000000000e0a2") // second sender (envelope part)
)

const c26Ample = 1_000_000

func c26B(i int) common.Address {
	return common.HexToAddress(fmt.Sprintf("0x0000000000000000000000000000000000b0b0%02x", i))
}

func c26D(i int) common.Address {
	return common.HexToAddress(fmt.Sprintf("0x0000000000000000000000000000000000d0d0%02x", i))
}

func c26Slot(i int64) common.Hash { return common.BigToHash(big.NewInt(i)) }

func c26P() *progx.Prog { return progx.New() }

// c26Callees is the fixed callee alphabet B0..B8.
func c26Callees() [][]byte {
	P := c26P
	return [][]byte{
		/* B0 */ P().Op(progx.STOP).Bytes(),
		/* B1 */ P().Sstore(0, 1).Op(progx.CALLER).Push(0).Op(progx.MSTORE).Return(0, 32).Bytes(),
		/* B2 */ P().Sstore(1, 0).Push(0xbad).Push(0).Op(progx.MSTORE).Revert(0, 32).Bytes(),
		/* B3 */ P().Op(progx.INVALID).Bytes(),
		/* B4 */ P().Sstore(1, 0).Push(0xb4).Push(0).Push(0).Op(progx.LOG1).Tstore(0, 7).
			Op(progx.CALLVALUE).Push(0).Op(progx.MSTORE).Op(progx.ADDRESS).Push(32).Op(progx.MSTORE).Return(0, 64).Bytes(),
		/* B5 */ P().Op(progx.GAS).Push(0).Op(progx.MSTORE).Return(0, 32).Bytes(),
		/* B6 */ P().Push(0).Push(0).Push(0).Push(0).Push(1).PushAddr(c26EOA).Push(0).Op(progx.CALL).Push(0).Op(progx.MSTORE).Return(0, 32).Bytes(),
		/* B7 */ P().Push(0).Op(progx.TLOAD).Push(0).Op(progx.MSTORE).Push(1).Op(progx.SLOAD).Push(32).Op(progx.MSTORE).Return(0, 64).Bytes(),
		/* B8 */ P().Op(progx.CALLER, progx.SELFDESTRUCT).Bytes(),
		/* B9 */ c26Toucher().Revert(0, 0).Bytes(),
		/* B10 */ c26Toucher().Op(progx.STOP).Bytes(),
		/* B11 */ c26Toucher().Op(progx.INVALID).Bytes(),
		/* B12 */ P().Op(progx.STOP).Bytes(),
		/* B13 */ P().CallKind(progx.CALL, c26B(10), nil, 0).Op(progx.POP).Revert(0, 0).Bytes(),
		/* B14 */ P().Create(progx.CREATE, c26Inits()["ok"], 0, 0).Op(progx.POP).Revert(0, 0).Bytes(),
		/* B15 */ P().Create(progx.CREATE, c26Inits()["ok"], 0, 0).Op(progx.POP, progx.STOP).Bytes(),
	}
}

// c26Toucher: BALANCE(c26None), SLOAD(5), EXTCODESIZE(collision target 7): warms one account that does not exist, one
// own storage slot and one existing account.
func c26Toucher() *progx.Prog {
	return c26P().PushAddr(c26None).Op(progx.BALANCE, progx.POP).Push(5).Op(progx.SLOAD, progx.POP).PushAddr(c26Collide(7)).Op(progx.EXTCODESIZE, progx.POP)
}

// c26World is the pre-state: sender, contract A running `code` (balance 1000, slots 1=1, 2=2), callees
// B0..B8 (balance 10, slot 1=1), a funded EOA; c26None and the coinbase do not exist.
func c26World(code []byte) refevm.World {
	w := refevm.World{}
	eth := new(big.Int).Exp(big.NewInt(10), big.NewInt(18), nil)
	w[c26Origin] = &refevm.Account{Nonce: 5, Balance: new(big.Int).Set(eth), Storage: map[common.Hash]common.Hash{}}
	w[c26A] = &refevm.Account{Nonce: 1, Balance: big.NewInt(1000), Code: code, Storage: map[common.Hash]common.Hash{
		c26Slot(1): c26Slot(1), c26Slot(2): c26Slot(2)}}
	for i, c := range c26Callees() {
		w[c26B(i)] = &refevm.Account{Nonce: 1, Balance: big.NewInt(10), Code: c, Storage: map[common.Hash]common.Hash{c26Slot(1): c26Slot(1)}}
	}
	w[c26EOA] = &refevm.Account{Balance: big.NewInt(1), Storage: map[common.Hash]common.Hash{}}
	// pre-allocated CREATE2 targets of A (collisions): nonce only, code (storage only: see c26EIP7610)
	w[c26Collide(7)] = &refevm.Account{Nonce: 1, Balance: new(big.Int), Storage: map[common.Hash]common.Hash{}}
	w[c26Collide(8)] = &refevm.Account{Nonce: 1, Balance: new(big.Int), Code: []byte{0x00}, Storage: map[common.Hash]common.Hash{}}
	// EIP-7702 delegated accounts: D1 -> B5 (gas reporter), D2 -> D1 (chain: not followed), D3 -> precompile 0x04 (runs as empty code), D4 -> B1
	for i, t := range []common.Address{c26B(5), c26D(1), common.BytesToAddress([]byte{4}), c26B(1)} {
		w[c26D(i+1)] = &refevm.Account{Nonce: 1, Balance: big.NewInt(1), Code: append([]byte{0xef, 0x01, 0x00}, t[:]...), Storage: map[common.Hash]common.Hash{}}
	}
	return w
}

// c26CallTx is the default transaction: EIP-1559, fee cap 20, tip 3 (base fee 7: price 10), to contract A.
func c26CallTx(gas uint64, value int64, data []byte) *refevm.Tx {
	to := c26A
	return &refevm.Tx{Type: refevm.TxDynamic, From: c26Origin, To: &to, Nonce: 5, Value: big.NewInt(value), Gas: gas,
		MaxFee: big.NewInt(20), MaxTip: big.NewInt(3), Data: data}
}

type c26Stats struct {
	mu sync.Mutex
	oc map[string]int64
}

func (s *c26Stats) add(k string) { s.mu.Lock(); s.oc[k]++; s.mu.Unlock() }

func c26Classify(res []*refevm.Result) string {
	r := res[len(res)-1]
	switch {
	case r.Rejected != "":
		return "rejected:" + r.Rejected
	case r.Status:
		return "success"
	case r.GasSpent == 0:
		return "failed"
	default:
		return "failed(revert/halt)"
	}
}

// c26RefOnly applies one transaction to the pre-state on the reference side only.
func c26RefOnly(f c26Fork, pre *c26Pre, tx *refevm.Tx) *refevm.Result {
	blk := &refevm.Block{Env: f.env(c26BlockGas), World: pre.world.Copy()}
	if pre.codeA != nil {
		blk.World.SetCode(progx.AddrA, pre.codeA)
	}
	return blk.Apply(tx)
}

// c26GasGrid runs one single-transaction program at ample gas, takes the reference's pre-refund gas need N and
// then runs gas limits N-1, N, N+1; every run is a compared case.
func c26GasGrid(r *mc.R, st *c26Stats, f c26Fork, pre *c26Pre, desc map[string]any, mk func(gas uint64) *refevm.Tx) {
	run := func(gas uint64, tag string) *refevm.Result {
		var out *refevm.Result
		c := map[string]any{}
		for k, v := range desc {
			c[k] = v
		}
		c["fork"], c["gas"] = f.name, gas
		r.Case(c, func() error {
			res, err := c26RunBlock(f, pre, c26BlockGas, []*refevm.Tx{mk(gas)})
			if len(res) > 0 {
				out = res[0]
				st.add(tag + ":" + c26Classify(res))
				r.DistinctHash(mc.Hash64(fmt.Sprintf("%s|%v|%s|%d|%x|%d", f.name, out.Status, out.Rejected, out.GasUsed, mc.Hash64(string(out.Output)), len(out.Logs))))
			}
			return err
		})
		if out != nil && gas == c26Ample {
			r.Sample(c)
		}
		return out
	}
	amp := run(c26Ample, "ample")
	if amp == nil {
		// replay mode skipped the case (or the comparison stopped early): take the boundary from a reference-only run
		amp = c26RefOnly(f, pre, mk(c26Ample))
	}
	if amp.Rejected != "" {
		return
	}
	n := amp.GasSpent
	if n == c26Ample { // consumed everything: no boundary to probe
		return
	}
	if lite, _ := desc["lite"].(bool); lite {
		return // longest sequences of the tier: ample gas only
	}
	run(n-1, "need-1")
	run(n, "need")
	if r.Thorough() {
		run(n+1, "need+1")
	}
}

func TestVerif_C26(t *testing.T) {
	mc.Run(t, "C26", func(r *mc.R) {
		st := &c26Stats{oc: map[string]int64{}}
		r.Rule("each case = one block of 1-2 transactions applied by go-ethereum (TransactionToMessage+ApplyMessage+Finalise+MakeReceipt+IntermediateRoot) and by the " +
			"reference model at one fork of {Cancun,Prague,Osaka}; spaces: units = all sequences of <=L units of the unit alphabet x gas{need-1,need,(need+1),ample}; " +
			"twotx = ordered unit pairs as two transactions of one block; opgrid = every operand tuple over the value alphabet per opcode + PUSH/DUP/SWAP/JUMP programs x gas grid; " +
			"envelope = tx type x recipient x data x access list x value x fee parameters x gas{intrinsic,floor,need +-1, ample} + single-fault cases; " +
			"distinct = distinct observed behaviours (fork, status/rejection, gas used, output hash, #logs)")
		r.Bound("forks", []string{"Cancun", "Prague", "Osaka"})
		r.Bound("ample_gas", c26Ample)
		r.Assume("oracle = internal/verif/refevm, a naive big-integer interpreter + transaction envelope written from the Yellow Paper and the EIP texts (EELS is not installed); no code shared with core/vm or core/state_transition.go")
		r.Assume("sender recovery is bypassed (fixed-sender Signer); block context is built directly (no header / system calls / withdrawals / requests)")
		r.Assume("pre-states contain no EIP-161-empty accounts and no accounts with nonce 0, no code and non-empty storage (EIP-7610 targets: go-ethereum hard-codes the 28 mainnet ones and deploys onto synthetic ones where the specification collides; strict cases in c26EIP7610, off by default); no precompile execution")
		part := os.Getenv("VERIF_C26_PART") // debugging aid: run one part only
		if r.Replaying() {
			var d struct {
				Part string `json:"part"`
			}
			if json.Unmarshal(r.ReplayDescriptor(), &d) == nil && d.Part != "" {
				part = d.Part
				if part == "special" {
					part = "opgrid"
				}
			}
		}
		for _, p := range []struct {
			name string
			run  func(*mc.R, *c26Stats)
		}{{"eip7610", c26EIP7610}, {"units", c26Sequences}, {"warm", c26Warm}, {"twotx", c26TwoTx}, {"opgrid", c26OpGrids}, {"setcode", c26SetCode}, {"envelope", c26Envelope}} {
			if (part == "" || part == p.name) && !r.Expired() {
				p.run(r, st)
			}
		}
		for k, v := range st.oc {
			r.OutcomeN(k, v)
		}
	})
}

// ---------------------------------------------------------------------------
// Part 1: transaction envelope

var (
	c26Sender3 = common.HexToAddress("0x000000000000000000000000000000000000e0a3") // "sender" that has code (EIP-3607)
)

func c26EnvWorld() refevm.World {
	w := c26World(c26Callees()[1])
	w[c26Sender3] = &refevm.Account{Nonce: 5, Balance: big.NewInt(1e18), Code: []byte{0x00}, Storage: map[common.Hash]common.Hash{}}
	return w
}

type c26Fee struct {
	name     string
	cap, tip int64 // legacy: cap = gas price
}

func c26Bytes(n int, b byte) []byte {
	out := make([]byte, n)
	for i := range out {
		out[i] = b
	}
	return out
}

func c26Envelope(r *mc.R, st *c26Stats) {
	type rcpt struct {
		name string
		to   *common.Address
		data [][]byte
	}
	addr := func(a common.Address) *common.Address { return &a }
	callData := [][]byte{nil, c26Bytes(32, 0), {1, 2, 3, 4}, append(c26Bytes(7, 0), c26Bytes(100, 0xee)...), c26Bytes(300, 0x11)}
	P := c26P
	initData := [][]byte{
		nil,
		P().Push(0).Push(0).Op(progx.MSTORE8).Return(0, 1).Bytes(),                 // deploys 0x00
		P().Sstore(0, 1).Sstore(0, 0).Return(0, 0).Bytes(),                         // refund inside creation, deploys nothing
		P().Revert(0, 0).Bytes(),                                                   //
		P().Push(0xef).Push(0).Op(progx.MSTORE8).Return(0, 1).Bytes(),              // EIP-3541
		append(P().Push(0).Push(0).Op(progx.MSTORE8).Return(0, 64).Bytes(), c26Bytes(90, 0)...), // zero padding: floor vs intrinsic
	}
	rcpts := []rcpt{
		{"eoa", addr(c26EOA), callData},
		{"none", addr(c26None), callData},
		{"B1-sstore", addr(c26B(1)), callData},
		{"B4-clear", addr(c26B(4)), callData},
		{"B2-revert", addr(c26B(2)), callData[:3]},
		{"create", nil, initData},
	}
	als := [][]refevm.AccessTuple{
		nil,
		{{Address: c26A}},
		{{Address: c26B(4), Keys: []common.Hash{c26Slot(1)}}},
		{{Address: c26B(1), Keys: []common.Hash{c26Slot(0), c26Slot(1)}}, {Address: c26EOA}},
	}
	fees := map[int][]c26Fee{
		refevm.TxLegacy:  {{"p10", 10, 0}, {"p7", 7, 0}, {"p6-low", 6, 0}},
		refevm.TxAccess:  {{"p10", 10, 0}, {"p7", 7, 0}, {"p6-low", 6, 0}},
		refevm.TxDynamic: {{"c20t3", 20, 3}, {"c7t0", 7, 0}, {"c8t5", 8, 5}, {"c6t0-low", 6, 0}, {"c20t21", 20, 21}, {"c7t7", 7, 7}},
	}
	forks := c26Forks()
	type shard struct {
		f    c26Fork
		typ  int
		rc   rcpt
		kind string
	}
	var shards []shard
	for _, f := range forks {
		for _, typ := range []int{refevm.TxLegacy, refevm.TxAccess, refevm.TxDynamic} {
			for _, rc := range rcpts {
				shards = append(shards, shard{f, typ, rc, "grid"})
			}
		}
		shards = append(shards, shard{f: f, kind: "faults"})
	}
	r.Bound("envelope.shards", len(shards))
	mkTx := func(typ int, fee c26Fee, to *common.Address, data []byte, al []refevm.AccessTuple, value int64, gas uint64) *refevm.Tx {
		t := &refevm.Tx{Type: typ, From: c26Origin, To: to, Nonce: 5, Value: big.NewInt(value), Gas: gas, Data: data}
		if typ == refevm.TxDynamic {
			t.MaxFee, t.MaxTip = big.NewInt(fee.cap), big.NewInt(fee.tip)
		} else {
			t.GasPrice = big.NewInt(fee.cap)
		}
		if typ != refevm.TxLegacy {
			t.AccessList = al
		}
		return t
	}
	r.Parallel(len(shards), func(si int) {
		sh := shards[si]
		pre := c26NewPre(c26EnvWorld())
		f := sh.f
		one := func(c map[string]any, blockGas uint64, txs ...*refevm.Tx) []*refevm.Result {
			var out []*refevm.Result
			c["part"], c["fork"] = "envelope", f.name
			r.Case(c, func() error {
				res, err := c26RunBlock(f, pre, blockGas, txs)
				out = res
				if len(res) > 0 {
					st.add("env:" + c26Classify(res))
					last := res[len(res)-1]
					r.DistinctHash(mc.Hash64(fmt.Sprintf("%s|%v|%s|%d|%d", f.name, last.Status, last.Rejected, last.GasUsed, len(txs))))
				}
				return err
			})
			return out
		}
		if sh.kind == "grid" {
			ais := []int{0, 1, 2, 3}
			if r.Quick() {
				ais = []int{0, 3}
			}
			if sh.typ == refevm.TxLegacy {
				ais = []int{0}
			}
			for di, data := range sh.rc.data {
				for _, ai := range ais {
					for _, value := range []int64{0, 1} {
						for _, fee := range fees[sh.typ] {
							desc := func(gas uint64) map[string]any {
								return map[string]any{"type": sh.typ, "to": sh.rc.name, "data": di, "al": ai, "value": value, "fee": fee.name, "gas": gas}
							}
							probe := mkTx(sh.typ, fee, sh.rc.to, data, als[ai], value, c26Ample)
							ig, fl := refevm.IntrinsicGas(probe), refevm.FloorGas(probe)
							var ref *refevm.Result
							if res := one(desc(c26Ample), c26BlockGas, probe); len(res) == 1 {
								ref = res[0]
							} else {
								ref = c26RefOnly(f, pre, probe) // replay mode skipped the case
							}
							if ref.Rejected != "" {
								continue // fee-parameter fault: the gas limit grid adds nothing
							}
							gases := []uint64{ig - 1, ig, ig + 1, fl - 1, fl, fl + 1}
							{
								n := ref.GasSpent
								gases = append(gases, n-1, n, n+1)
								if r.Quick() {
									gases = []uint64{ig - 1, ig, fl - 1, fl, n - 1, n}
								}
								if di == 0 && ai == 0 && value == 0 {
									r.Sample(desc(c26Ample))
								}
							}
							seen := map[uint64]bool{c26Ample: true}
							for _, g := range gases {
								if seen[g] {
									continue
								}
								seen[g] = true
								one(desc(g), c26BlockGas, mkTx(sh.typ, fee, sh.rc.to, data, als[ai], value, g))
							}
						}
					}
				}
			}
			return
		}
		// single-fault and boundary cases
		def := c26Fee{"c20t3", 20, 3}
		b1 := addr(c26B(1))
		for _, nonce := range []uint64{0, 4, 5, 6, 1 << 40} {
			t := mkTx(refevm.TxDynamic, def, b1, nil, nil, 0, 100000)
			t.Nonce = nonce
			one(map[string]any{"fault": "nonce", "nonce": nonce}, c26BlockGas, t)
		}
		// EIP-2681 nonce 2^64-1 and exact-balance grid need their own pre-states
		for _, typ := range []int{refevm.TxLegacy, refevm.TxDynamic} {
			for _, value := range []int64{0, 1000} {
				for _, delta := range []int64{-1, 0, 1} {
					// balance = gas*cap + value + delta
					w := c26EnvWorld()
					gas := uint64(60000)
					w[c26Sender2] = &refevm.Account{Nonce: 0, Balance: big.NewInt(int64(gas)*20 + value + delta), Storage: map[common.Hash]common.Hash{}}
					p2 := c26NewPre(w)
					fee := def
					if typ == refevm.TxLegacy {
						fee = c26Fee{"p20", 20, 0}
					}
					t := mkTx(typ, fee, b1, nil, nil, value, gas)
					t.From, t.Nonce = c26Sender2, 0
					c := map[string]any{"part": "envelope", "fork": f.name, "fault": "balance", "type": typ, "value": value, "delta": delta}
					r.Case(c, func() error {
						res, err := c26RunBlock(f, p2, c26BlockGas, []*refevm.Tx{t})
						if len(res) > 0 {
							st.add("env:" + c26Classify(res))
						}
						return err
					})
				}
			}
		}
		{
			w := c26EnvWorld()
			w[c26Sender2] = &refevm.Account{Nonce: ^uint64(0), Balance: big.NewInt(1e18), Storage: map[common.Hash]common.Hash{}}
			p2 := c26NewPre(w)
			t := mkTx(refevm.TxDynamic, def, b1, nil, nil, 0, 100000)
			t.From, t.Nonce = c26Sender2, ^uint64(0)
			c := map[string]any{"part": "envelope", "fork": f.name, "fault": "nonce-max"}
			r.Case(c, func() error {
				res, err := c26RunBlock(f, p2, c26BlockGas, []*refevm.Tx{t})
				if len(res) > 0 {
					st.add("env:" + c26Classify(res))
				}
				return err
			})
		}
		// EIP-3607
		{
			t := mkTx(refevm.TxDynamic, def, b1, nil, nil, 0, 100000)
			t.From = c26Sender3
			one(map[string]any{"fault": "sender-has-code"}, c26BlockGas, t)
		}
		// EIP-7825 (Osaka): 2^24 is the largest gas limit
		for _, g := range []uint64{1<<24 - 1, 1 << 24, 1<<24 + 1, 20_000_000} {
			one(map[string]any{"fault": "tx-gas-cap", "gas": g}, c26BlockGas, mkTx(refevm.TxDynamic, def, b1, nil, nil, 0, g))
		}
		// EIP-3860 at transaction level
		for _, n := range []int{49151, 49152, 49153} {
			for _, to := range []*common.Address{nil, b1} {
				one(map[string]any{"fault": "initcode-size", "len": n, "create": to == nil}, c26BlockGas, mkTx(refevm.TxDynamic, def, to, c26Bytes(n, 0), nil, 0, 3_000_000))
			}
		}
		// block gas limit: first transaction uses 21000 of a 100000 block; the second one fits iff gas <= 79000
		for _, g2 := range []uint64{78999, 79000, 79001, 100000} {
			t1 := mkTx(refevm.TxDynamic, def, addr(c26EOA), nil, nil, 1, 60000)
			t2 := mkTx(refevm.TxDynamic, def, b1, nil, nil, 0, g2)
			t2.Nonce = 6
			one(map[string]any{"fault": "block-gas", "gas2": g2}, 100000, t1, t2)
		}
		for _, g := range []uint64{99999, 100000, 100001} {
			one(map[string]any{"fault": "block-gas-single", "gas": g}, 100000, mkTx(refevm.TxDynamic, def, b1, nil, nil, 0, g))
		}
		// blob transactions: fee debit and rejection reasons only
		vh := func(i byte) common.Hash { return common.Hash{0: 0x01, 31: i} }
		blob := func(n int, maxBlobFee int64, mod func(t *refevm.Tx)) *refevm.Tx {
			t := mkTx(refevm.TxDynamic, def, b1, []byte{1}, als[2], 1, 200000)
			t.Type = refevm.TxBlob
			t.MaxBlobFee = big.NewInt(maxBlobFee)
			t.BlobHashes = []common.Hash{}
			for i := 0; i < n; i++ {
				t.BlobHashes = append(t.BlobHashes, vh(byte(i)))
			}
			if mod != nil {
				mod(t)
			}
			return t
		}
		for _, n := range []int{0, 1, 2, 6, 7} {
			for _, mbf := range []int64{2, 3, 4} {
				one(map[string]any{"fault": "blob", "blobs": n, "maxBlobFee": mbf}, c26BlockGas, blob(n, mbf, nil))
			}
		}
		one(map[string]any{"fault": "blob-version"}, c26BlockGas, blob(2, 3, func(t *refevm.Tx) { t.BlobHashes[1][0] = 0x02 }))
		for _, delta := range []int64{-1, 0} {
			// balance = gas*cap + value + blobs*2^17*maxBlobFee + delta
			w := c26EnvWorld()
			t := blob(2, 5, nil)
			need := int64(t.Gas)*20 + 1 + 2*(1<<17)*5 + delta
			w[c26Sender2] = &refevm.Account{Nonce: 0, Balance: big.NewInt(need), Storage: map[common.Hash]common.Hash{}}
			p2 := c26NewPre(w)
			t.From, t.Nonce = c26Sender2, 0
			c := map[string]any{"part": "envelope", "fork": f.name, "fault": "blob-balance", "delta": delta}
			r.Case(c, func() error {
				res, err := c26RunBlock(f, p2, c26BlockGas, []*refevm.Tx{t})
				if len(res) > 0 {
					st.add("env:" + c26Classify(res))
				}
				return err
			})
		}
	})
}

// ---------------------------------------------------------------------------
// Part 2: per-opcode argument grids and single-instruction programs

func c26Pow2(n uint) *big.Int { return new(big.Int).Lsh(big.NewInt(1), n) }

// value alphabets: small (6), medium (= DESIGN 2.6 alphabet V, 10), large (16)
func c26Vals(size string) []*big.Int {
	m := progx.Values()
	max := new(big.Int).Sub(c26Pow2(256), big.NewInt(1))
	switch size {
	case "s":
		return []*big.Int{big.NewInt(0), big.NewInt(1), big.NewInt(0x20), big.NewInt(0xff), c26Pow2(64), max}
	case "m":
		return m
	}
	return append(m, big.NewInt(3), big.NewInt(31), big.NewInt(0x80), big.NewInt(256),
		new(big.Int).Sub(c26Pow2(255), big.NewInt(1)), new(big.Int).Sub(max, big.NewInt(1)))
}

var c26Pattern = []byte{0x01, 0x02, 0x03, 0x04, 0x05, 0x06, 0x07, 0x08, 0x09, 0x0a, 0x0b, 0x0c, 0x0d, 0x0e, 0x0f, 0x10,
	0x11, 0x12, 0x13, 0x14, 0x15, 0x16, 0x17, 0x18, 0x19, 0x1a, 0x1b, 0x1c, 0x1d, 0x1e, 0x1f, 0x80}

var c26Calldata = append(append([]byte{}, c26Pattern...), 0xca, 0x11, 0x00, 0xda, 0x7a, 0x00, 0x00, 0xff)

type c26Op struct {
	name   string
	op     byte
	arity  int
	result bool
	dyn    bool        // gas or effect depends on operands / state: full gas grid for every tuple
	extra  []*big.Int  // additional values for the first operand
	pre    string      // "" or "call": prologue performs CALL(B1) first (fills the return data buffer)
	alpha  string      // force alphabet
}

func c26Ops() []c26Op {
	x := progx.ADD // silence unused in case of edits
	_ = x
	bh := []*big.Int{big.NewInt(c26Number), big.NewInt(c26Number - 1), big.NewInt(c26Number - 256), big.NewInt(c26Number - 257)}
	addrs := []*big.Int{new(big.Int).SetBytes(c26B(1).Bytes()), new(big.Int).SetBytes(c26None.Bytes()), new(big.Int).SetBytes(c26EOA.Bytes()),
		new(big.Int).SetBytes(c26Origin.Bytes()), new(big.Int).SetBytes(c26Coinbase.Bytes()), big.NewInt(0x0a), big.NewInt(0x0b), big.NewInt(0x11), big.NewInt(0x12), big.NewInt(0x100),
		new(big.Int).Add(c26Pow2(160), new(big.Int).SetBytes(c26B(1).Bytes()))}
	return []c26Op{
		// nullary
		{name: "ADDRESS", op: progx.ADDRESS, result: true}, {name: "ORIGIN", op: progx.ORIGIN, result: true},
		{name: "CALLER", op: progx.CALLER, result: true}, {name: "CALLVALUE", op: progx.CALLVALUE, result: true},
		{name: "CALLDATASIZE", op: progx.CALLDATASIZE, result: true}, {name: "CODESIZE", op: progx.CODESIZE, result: true},
		{name: "GASPRICE", op: progx.GASPRICE, result: true}, {name: "RETURNDATASIZE", op: progx.RETURNDATASIZE, result: true},
		{name: "RETURNDATASIZE/call", op: progx.RETURNDATASIZE, result: true, pre: "call"},
		{name: "COINBASE", op: progx.COINBASE, result: true}, {name: "TIMESTAMP", op: progx.TIMESTAMP, result: true},
		{name: "NUMBER", op: progx.NUMBER, result: true}, {name: "PREVRANDAO", op: progx.PREVRANDAO, result: true},
		{name: "GASLIMIT", op: progx.GASLIMIT, result: true}, {name: "CHAINID", op: progx.CHAINID, result: true},
		{name: "SELFBALANCE", op: progx.SELFBALANCE, result: true}, {name: "BASEFEE", op: progx.BASEFEE, result: true},
		{name: "BLOBBASEFEE", op: progx.BLOBBASEFEE, result: true}, {name: "PC", op: progx.PC, result: true},
		{name: "MSIZE", op: progx.MSIZE, result: true}, {name: "GAS", op: progx.GAS, result: true, dyn: true},
		{name: "PUSH0", op: progx.PUSH0, result: true}, {name: "JUMPDEST", op: progx.JUMPDEST},
		{name: "STOP", op: progx.STOP}, {name: "INVALID", op: progx.INVALID},
		{name: "undefined-0c", op: 0x0c}, {name: "undefined-4b/SLOTNUM", op: 0x4b}, {name: "undefined-e6/DUPN", op: 0xe6},
		// unary
		{name: "ISZERO", op: progx.ISZERO, arity: 1, result: true}, {name: "NOT", op: progx.NOT, arity: 1, result: true},
		{name: "CLZ", op: progx.CLZ, arity: 1, result: true}, {name: "POP", op: progx.POP, arity: 1},
		{name: "BALANCE", op: progx.BALANCE, arity: 1, result: true, dyn: true, extra: addrs},
		{name: "EXTCODESIZE", op: progx.EXTCODESIZE, arity: 1, result: true, dyn: true, extra: addrs},
		{name: "EXTCODEHASH", op: progx.EXTCODEHASH, arity: 1, result: true, dyn: true, extra: addrs},
		{name: "CALLDATALOAD", op: progx.CALLDATALOAD, arity: 1, result: true, extra: []*big.Int{big.NewInt(8), big.NewInt(39), big.NewInt(40), big.NewInt(41)}},
		{name: "BLOCKHASH", op: progx.BLOCKHASH, arity: 1, result: true, extra: bh},
		{name: "BLOBHASH", op: progx.BLOBHASH, arity: 1, result: true},
		{name: "MLOAD", op: progx.MLOAD, arity: 1, result: true, dyn: true},
		{name: "SLOAD", op: progx.SLOAD, arity: 1, result: true, dyn: true},
		{name: "TLOAD", op: progx.TLOAD, arity: 1, result: true},
		{name: "SELFDESTRUCT", op: progx.SELFDESTRUCT, arity: 1, dyn: true, extra: addrs},
		// binary
		{name: "ADD", op: progx.ADD, arity: 2, result: true}, {name: "MUL", op: progx.MUL, arity: 2, result: true},
		{name: "SUB", op: progx.SUB, arity: 2, result: true}, {name: "DIV", op: progx.DIV, arity: 2, result: true},
		{name: "SDIV", op: progx.SDIV, arity: 2, result: true}, {name: "MOD", op: progx.MOD, arity: 2, result: true},
		{name: "SMOD", op: progx.SMOD, arity: 2, result: true}, {name: "EXP", op: progx.EXP, arity: 2, result: true, dyn: true},
		{name: "SIGNEXTEND", op: progx.SIGNEXTEND, arity: 2, result: true, alpha: "l"},
		{name: "LT", op: progx.LT, arity: 2, result: true}, {name: "GT", op: progx.GT, arity: 2, result: true},
		{name: "SLT", op: progx.SLT, arity: 2, result: true}, {name: "SGT", op: progx.SGT, arity: 2, result: true},
		{name: "EQ", op: progx.EQ, arity: 2, result: true}, {name: "AND", op: progx.AND, arity: 2, result: true},
		{name: "OR", op: progx.OR, arity: 2, result: true}, {name: "XOR", op: progx.XOR, arity: 2, result: true},
		{name: "BYTE", op: progx.BYTE, arity: 2, result: true, alpha: "l"}, {name: "SHL", op: progx.SHL, arity: 2, result: true, alpha: "l"},
		{name: "SHR", op: progx.SHR, arity: 2, result: true, alpha: "l"}, {name: "SAR", op: progx.SAR, arity: 2, result: true, alpha: "l"},
		{name: "KECCAK256", op: progx.KECCAK256, arity: 2, result: true, dyn: true},
		{name: "MSTORE", op: progx.MSTORE, arity: 2, dyn: true}, {name: "MSTORE8", op: progx.MSTORE8, arity: 2, dyn: true},
		{name: "SSTORE", op: progx.SSTORE, arity: 2, dyn: true}, {name: "TSTORE", op: progx.TSTORE, arity: 2},
		{name: "LOG0", op: progx.LOG0, arity: 2, dyn: true}, {name: "RETURN", op: progx.RETURN, arity: 2, dyn: true},
		{name: "REVERT", op: progx.REVERT, arity: 2, dyn: true},
		// ternary
		{name: "ADDMOD", op: progx.ADDMOD, arity: 3, result: true}, {name: "MULMOD", op: progx.MULMOD, arity: 3, result: true},
		{name: "CALLDATACOPY", op: progx.CALLDATACOPY, arity: 3, dyn: true}, {name: "CODECOPY", op: progx.CODECOPY, arity: 3, dyn: true},
		{name: "RETURNDATACOPY", op: progx.RETURNDATACOPY, arity: 3, dyn: true},
		{name: "RETURNDATACOPY/call", op: progx.RETURNDATACOPY, arity: 3, dyn: true, pre: "call"},
		{name: "MCOPY", op: progx.MCOPY, arity: 3, dyn: true}, {name: "LOG1", op: progx.LOG1, arity: 3, dyn: true},
		// quaternary and more: small alphabet
		{name: "EXTCODECOPY", op: progx.EXTCODECOPY, arity: 4, dyn: true, alpha: "xs", extra: addrs[:3]},
		{name: "LOG2", op: progx.LOG2, arity: 4, dyn: true, alpha: "xs"},
		{name: "LOG4", op: progx.LOG4, arity: 6, dyn: true, alpha: "xxs"},
	}
}

// c26OpProgram: seed memory word 0 with a pattern, optionally CALL(B1), push the operands (first operand on top),
// execute op, append the result to memory (MSIZE MSTORE), return all of memory.
func c26OpProgram(o c26Op, args []*big.Int) []byte {
	p := c26P()
	p.Op(progx.PUSH32).Raw(c26Pattern).Op(progx.PUSH0, progx.MSTORE)
	if o.pre == "call" {
		p.CallKind(progx.CALL, c26B(1), nil, 0).Op(progx.POP)
	}
	for i := len(args) - 1; i >= 0; i-- {
		p.PushBig(args[i])
	}
	p.Op(o.op)
	if o.result {
		p.Op(progx.MSIZE, progx.MSTORE)
	}
	p.Op(progx.MSIZE, progx.PUSH0, progx.RETURN)
	return p.Bytes()
}

func c26Tuples(alpha [][]*big.Int, fn func(args []*big.Int)) {
	args := make([]*big.Int, len(alpha))
	var rec func(i int)
	rec = func(i int) {
		if i == len(alpha) {
			fn(args)
			return
		}
		for _, v := range alpha[i] {
			args[i] = v
			rec(i + 1)
		}
	}
	rec(0)
}

type c26Prog struct {
	name string
	code []byte
	dyn  bool
}

// c26Special: PUSH1..32 (complete and truncated), DUP1..16, SWAP1..16 (with exactly enough and one too few items),
// stack limit, JUMP / JUMPI destinations, a loop.
func c26Special() []c26Prog {
	var out []c26Prog
	tail := []byte{progx.MSIZE, progx.MSTORE, progx.MSIZE, progx.PUSH0, progx.RETURN}
	for n := 1; n <= 32; n++ {
		imm := make([]byte, n)
		for i := range imm {
			imm[i] = byte(0xa0 + i)
		}
		out = append(out, c26Prog{name: fmt.Sprintf("PUSH%d", n), code: progx.Concat([]byte{progx.PushOp(n)}, imm, tail)})
		out = append(out, c26Prog{name: fmt.Sprintf("PUSH%d-truncated", n), code: progx.Concat([]byte{progx.PUSH0, progx.PUSH0, progx.SSTORE, progx.PushOp(n)}, imm[:n/2])})
		// the immediate contains JUMPDEST bytes: jumping into it is invalid
		out = append(out, c26Prog{name: fmt.Sprintf("JUMP-into-PUSH%d", n), code: progx.Concat([]byte{progx.PUSH1, 3 + byte(n), progx.JUMP, progx.PushOp(n)}, c26Bytes(n, progx.JUMPDEST), []byte{progx.PUSH1, 1}, tail)})
		out = append(out, c26Prog{name: fmt.Sprintf("JUMP-after-PUSH%d", n), code: progx.Concat([]byte{progx.PUSH1, 4 + byte(n), progx.JUMP, progx.PushOp(n)}, c26Bytes(n, progx.JUMPDEST), []byte{progx.JUMPDEST, progx.PUSH1, 1}, tail)})
	}
	dump := func(k int) []byte {
		var b []byte
		for i := 0; i < k; i++ {
			b = append(b, progx.MSIZE, progx.MSTORE)
		}
		return append(b, progx.MSIZE, progx.PUSH0, progx.RETURN)
	}
	for n := 1; n <= 16; n++ {
		for _, have := range []int{n - 1, n, n + 1, 17} {
			p := c26P()
			for i := 0; i < have; i++ {
				p.Push(uint64(0x11 * (i + 1)))
			}
			d := progx.Concat(p.Bytes(), []byte{0x7f + byte(n)}, dump(have+1))
			out = append(out, c26Prog{name: fmt.Sprintf("DUP%d/%d", n, have), code: d})
			s := progx.Concat(p.Bytes(), []byte{0x8f + byte(n)}, dump(have))
			out = append(out, c26Prog{name: fmt.Sprintf("SWAP%d/%d", n, have), code: s})
		}
	}
	for _, k := range []int{1023, 1024, 1025} {
		out = append(out, c26Prog{name: fmt.Sprintf("stack-%d", k), code: progx.Concat(c26Bytes(k, progx.PUSH0), []byte{progx.PUSH0, progx.PUSH0, progx.SSTORE})})
		out = append(out, c26Prog{name: fmt.Sprintf("stack-dup-%d", k), code: progx.Concat([]byte{progx.PUSH0}, c26Bytes(k-1, progx.DUP1), []byte{progx.PUSH1, 1, progx.PUSH0, progx.SSTORE})})
	}
	// jumps: layout  PUSHx dest ; [PUSH cond]; JUMP/JUMPI ; INVALID... ; JUMPDEST at 0x10 ; PUSH1 7 ; tail
	jump := func(name string, dest *big.Int, cond *big.Int) {
		p := c26P()
		if cond != nil {
			p.PushBig(cond)
		}
		p.PushBig(dest)
		if cond != nil {
			p.Op(progx.JUMPI)
		} else {
			p.Op(progx.JUMP)
		}
		p.Push(9).Op(progx.PUSH0, progx.SSTORE) // fall-through marker
		for p.Len() < 0x50 {
			p.Op(progx.STOP)
		}
		p.Op(progx.JUMPDEST).Push(7).Op(tail...)
		out = append(out, c26Prog{name: name, code: p.Bytes()})
	}
	dests := map[string]*big.Int{"valid": big.NewInt(0x50), "not-jumpdest": big.NewInt(0x51), "zero": big.NewInt(0), "past-end": big.NewInt(0x1000),
		"2^32+valid": new(big.Int).Add(c26Pow2(32), big.NewInt(0x50)), "2^64+valid": new(big.Int).Add(c26Pow2(64), big.NewInt(0x50)),
		"2^255+valid": new(big.Int).Add(c26Pow2(255), big.NewInt(0x50)), "max": new(big.Int).Sub(c26Pow2(256), big.NewInt(1))}
	for _, dn := range []string{"valid", "not-jumpdest", "zero", "past-end", "2^32+valid", "2^64+valid", "2^255+valid", "max"} {
		jump("JUMP-"+dn, dests[dn], nil)
		for cn, c := range map[string]*big.Int{"c0": big.NewInt(0), "c1": big.NewInt(1), "c2^64": c26Pow2(64), "c2^255": c26Pow2(255)} {
			jump("JUMPI-"+dn+"-"+cn, dests[dn], c)
		}
	}
	// countdown loop: PUSH1 3; JUMPDEST(2); PUSH1 1; SWAP1; SUB; DUP1; PUSH1 2; JUMPI; store
	out = append(out, c26Prog{name: "loop3", code: progx.Concat([]byte{progx.PUSH1, 3, progx.JUMPDEST, progx.PUSH1, 1, progx.SWAP1, progx.SUB, progx.DUP1, progx.PUSH1, 2, progx.JUMPI, progx.PUSH1, 0x2a}, tail)})
	out = append(out, c26Prog{name: "empty-code", code: []byte{}})
	return out
}

func c26OpGrids(r *mc.R, st *c26Stats) {
	ops := c26Ops()
	forks := c26Forks()
	unary, binary, ternary := "l", mc.Pick(r, "m", "l"), mc.Pick(r, "s", "m")
	r.Bound("opgrid.alphabet_unary", len(c26Vals(unary)))
	r.Bound("opgrid.alphabet_binary", len(c26Vals(binary)))
	r.Bound("opgrid.alphabet_ternary", len(c26Vals(ternary)))
	r.Bound("opgrid.opcodes", len(ops))
	special := c26Special()
	r.Bound("opgrid.special_programs", len(special))
	type shard struct {
		f  c26Fork
		op int // index into ops, or -1: special programs
	}
	var shards []shard
	for _, f := range forks {
		for i := range ops {
			shards = append(shards, shard{f, i})
		}
		shards = append(shards, shard{f, -1})
	}
	r.Parallel(len(shards), func(si int) {
		sh := shards[si]
		base := c26NewPre(c26World([]byte{0}))
		if sh.op < 0 {
			for _, sp := range special {
				pre := base.withCode(sp.code)
				c26GasGrid(r, st, sh.f, pre, map[string]any{"part": "special", "prog": sp.name}, func(gas uint64) *refevm.Tx {
					return c26CallTx(gas, 1, nil)
				})
			}
			return
		}
		o := ops[sh.op]
		var alpha [][]*big.Int
		for i := 0; i < o.arity; i++ {
			size := map[int]string{1: unary, 2: binary, 3: ternary}[o.arity]
			if o.alpha != "" {
				size = o.alpha
			}
			var vals []*big.Int
			switch size {
			case "xs":
				vals = []*big.Int{big.NewInt(0), big.NewInt(1), big.NewInt(0x21), c26Pow2(64)}
			case "xxs":
				vals = []*big.Int{big.NewInt(0), big.NewInt(0x21)}
			default:
				vals = c26Vals(size)
			}
			if i == 0 && o.extra != nil {
				if o.arity == 1 {
					vals = append(append([]*big.Int{}, vals...), o.extra...)
				} else {
					vals = o.extra
				}
			}
			alpha = append(alpha, vals)
		}
		first := true
		c26Tuples(alpha, func(args []*big.Int) {
			if r.Expired() {
				return
			}
			code := c26OpProgram(o, args)
			pre := base.withCode(code)
			as := make([]string, len(args))
			for i, a := range args {
				as[i] = "0x" + a.Text(16)
			}
			desc := map[string]any{"part": "opgrid", "op": o.name, "args": as}
			// calldata only where it is read: with non-zero calldata the EIP-7623 floor exceeds the cost of short programs
			var data []byte
			if o.op == progx.CALLDATALOAD || o.op == progx.CALLDATASIZE || o.op == progx.CALLDATACOPY {
				data = c26Calldata
			}
			mk := func(gas uint64) *refevm.Tx { return c26CallTx(gas, 1, data) }
			if o.dyn || first {
				c26GasGrid(r, st, sh.f, pre, desc, mk)
			} else {
				desc["fork"], desc["gas"] = sh.f.name, c26Ample
				r.Case(desc, func() error {
					res, err := c26RunBlock(sh.f, pre, c26BlockGas, []*refevm.Tx{mk(c26Ample)})
					if len(res) > 0 {
						st.add("ample:" + c26Classify(res))
						r.DistinctHash(mc.Hash64(fmt.Sprintf("%s|%v|%d|%x", sh.f.name, res[0].Status, res[0].GasUsed, mc.Hash64(string(res[0].Output)))))
					}
					return err
				})
			}
			first = false
		})
	})
}

// ---------------------------------------------------------------------------
// Part 3: unit sequences

type c26Unit struct {
	name string
	emit func(p *progx.Prog, res uint64) // res: memory offset where the unit may store its one-word result
	// emitCtx (instead of emit): the unit depends on / updates the generation-time knowledge about the creations
	// contract A has performed so far in the program (creator nonce, would-be address of the latest creation).
	emitCtx func(p *progx.Prog, res uint64, ctx *c26Ctx)
}

// c26Ctx is what the generator knows while laying out a program for contract A: A's nonce (1 in the pre-state,
// incremented by every CREATE/CREATE2 that gets past the balance check) and the would-be address of the latest
// creation unit, whether or not that creation succeeds at run time. Nested executions (self-call) may make the
// run-time nonce differ; the computed address is then simply another constant.
type c26Ctx struct {
	nonce uint64
	last  *common.Address
}

func c26NewCtx() *c26Ctx { return &c26Ctx{nonce: 1} }

// target: address of the latest creation, or the address the next CREATE will get if there was none yet.
func (c *c26Ctx) target() common.Address {
	if c.last != nil {
		return *c.last
	}
	return refevm.CreateAddress(c26A, c.nonce)
}

func (u c26Unit) gen(p *progx.Prog, res uint64, ctx *c26Ctx) {
	if u.emitCtx != nil {
		u.emitCtx(p, res, ctx)
	} else {
		u.emit(p, res)
	}
}

func c26Inits() map[string][]byte {
	P := c26P
	return map[string][]byte{
		"ok":      P().Push(0).Push(0).Op(progx.MSTORE8).Return(0, 1).Bytes(),
		"sstore":  P().Sstore(0, 1).Op(progx.CALLVALUE).Push(0).Op(progx.MSTORE).Return(0, 32).Bytes(),
		"revert":  P().Push(0xbad).Push(0).Op(progx.MSTORE).Revert(0, 32).Bytes(),
		"invalid": P().Op(progx.INVALID).Bytes(),
		"oog":     P().Push(1).PushBig(c26Pow2(64)).Op(progx.MSTORE).Bytes(), // memory expansion nobody can pay
		"ef":      P().Push(0xef).Push(0).Op(progx.MSTORE8).Return(0, 1).Bytes(),
		"empty":   {},
		"suicide": P().Op(progx.CALLER, progx.SELFDESTRUCT).Bytes(),
	}
}

func c26Salt(i byte) (s [32]byte) { s[31] = i; return }

// pre-allocated CREATE2 targets of contract A (init code "ok"): salt 7 -> account with nonce 1, salt 8 -> account with
// code. Creating onto them collides. (salt 9 -> account with storage only, EIP-7610: only in part c26EIP7610.)
func c26Collide(i byte) common.Address { return refevm.Create2Address(c26A, c26Salt(i), c26Inits()["ok"]) }

func c26Units() []c26Unit {
	var us []c26Unit
	add := func(name string, emit func(p *progx.Prog, res uint64)) { us = append(us, c26Unit{name: name, emit: emit}) }
	addCtx := func(name string, emit func(p *progx.Prog, res uint64, ctx *c26Ctx)) {
		us = append(us, c26Unit{name: name, emitCtx: emit})
	}
	store := func(p *progx.Prog, res uint64) { p.Push(res).Op(progx.MSTORE) }
	u64 := func(v uint64) *uint64 { return &v }
	// storage
	for _, kv := range [][2]uint64{{0, 1}, {0, 0}, {1, 0}, {1, 2}, {1, 1}} {
		kv := kv
		add(fmt.Sprintf("SSTORE(%d,%d)", kv[0], kv[1]), func(p *progx.Prog, res uint64) { p.Sstore(kv[0], kv[1]) })
	}
	for _, k := range []uint64{0, 1} {
		k := k
		add(fmt.Sprintf("SLOAD(%d)", k), func(p *progx.Prog, res uint64) { p.Push(k).Op(progx.SLOAD); store(p, res) })
	}
	add("TSTORE(0,5)", func(p *progx.Prog, res uint64) { p.Tstore(0, 5) })
	add("TLOAD(0)", func(p *progx.Prog, res uint64) { p.Push(0).Op(progx.TLOAD); store(p, res) })
	// logs and memory
	add("LOG0(0,0)", func(p *progx.Prog, res uint64) { p.Push(0).Push(0).Op(progx.LOG0) })
	add("LOG1(0,32)", func(p *progx.Prog, res uint64) { p.Push(0xaa).Push(32).Push(0).Op(progx.LOG1) })
	add("LOG3(3,5)", func(p *progx.Prog, res uint64) { p.Push(3).Push(2).Push(1).Push(5).Push(3).Op(progx.LOG3) })
	add("MSTORE(0,pattern)", func(p *progx.Prog, res uint64) { p.Op(progx.PUSH32).Raw(c26Pattern).Push(0).Op(progx.MSTORE) })
	add("MSTORE(0x1000,1)", func(p *progx.Prog, res uint64) { p.Push(1).Push(0x1000).Op(progx.MSTORE) })
	add("MCOPY(0x21,0,0x20)", func(p *progx.Prog, res uint64) { p.Push(0x20).Push(0).Push(0x21).Op(progx.MCOPY) })
	add("KECCAK(0,0x40)", func(p *progx.Prog, res uint64) { p.Push(0x40).Push(0).Op(progx.KECCAK256); store(p, res) })
	add("GAS", func(p *progx.Prog, res uint64) { p.Op(progx.GAS); store(p, res) })
	// account access
	acct := func(name string, op byte, a common.Address) {
		add(name, func(p *progx.Prog, res uint64) { p.PushAddr(a).Op(op); store(p, res) })
	}
	acct("BALANCE(B1)", progx.BALANCE, c26B(1))
	acct("BALANCE(none)", progx.BALANCE, c26None)
	acct("BALANCE(eoa)", progx.BALANCE, c26EOA)
	acct("EXTCODESIZE(B4)", progx.EXTCODESIZE, c26B(4))
	acct("EXTCODEHASH(B5)", progx.EXTCODEHASH, c26B(5))
	acct("EXTCODEHASH(none)", progx.EXTCODEHASH, c26None)
	add("SELFBALANCE", func(p *progx.Prog, res uint64) { p.Op(progx.SELFBALANCE); store(p, res) })
	add("EXTCODECOPY(B1,0,0,8)", func(p *progx.Prog, res uint64) { p.Push(8).Push(0).Push(0).PushAddr(c26B(1)).Op(progx.EXTCODECOPY) })
	// calls: in = mem[0:4], out = mem[0x20:0x40]; success flag stored
	call := func(name string, op byte, a common.Address, gas *uint64, value uint64) {
		add(name, func(p *progx.Prog, res uint64) {
			p.Push(0x20).Push(0x20).Push(4).Push(0)
			if op == progx.CALL || op == progx.CALLCODE {
				p.Push(value)
			}
			p.PushAddr(a)
			if gas == nil {
				p.Op(progx.GAS)
			} else {
				p.Push(*gas)
			}
			p.Op(op)
			store(p, res)
		})
	}
	for i := 0; i <= 8; i++ {
		call(fmt.Sprintf("CALL(B%d)", i), progx.CALL, c26B(i), nil, 0)
	}
	call("CALL(B1,v=1)", progx.CALL, c26B(1), nil, 1)
	call("CALL(B4,v=1)", progx.CALL, c26B(4), nil, 1)
	call("CALL(B5,gas=0,v=1)", progx.CALL, c26B(5), u64(0), 1)
	call("CALL(B5,gas=0)", progx.CALL, c26B(5), u64(0), 0)
	call("CALL(B5,gas=30000)", progx.CALL, c26B(5), u64(30000), 0)
	call("CALL(B1,gas=22000)", progx.CALL, c26B(1), u64(22000), 0)
	call("CALL(none,v=1)", progx.CALL, c26None, nil, 1)
	call("CALL(none)", progx.CALL, c26None, nil, 0)
	call("CALL(eoa,v=1)", progx.CALL, c26EOA, nil, 1)
	call("CALL(B0,v=5000)", progx.CALL, c26B(0), nil, 5000)
	call("CALL(self,gas=40000)", progx.CALL, c26A, u64(40000), 0)
	for _, i := range []int{1, 4, 5, 6, 7} {
		call(fmt.Sprintf("STATICCALL(B%d)", i), progx.STATICCALL, c26B(i), nil, 0)
	}
	for _, i := range []int{1, 2, 4, 7, 8} {
		call(fmt.Sprintf("DELEGATECALL(B%d)", i), progx.DELEGATECALL, c26B(i), nil, 0)
	}
	call("CALL(D1)", progx.CALL, c26D(1), nil, 0)
	call("CALL(D1,v=1)", progx.CALL, c26D(1), nil, 1)
	call("CALL(D2)", progx.CALL, c26D(2), nil, 0)
	call("CALL(D3)", progx.CALL, c26D(3), nil, 0)
	call("CALL(D4)", progx.CALL, c26D(4), nil, 0)
	call("STATICCALL(D1)", progx.STATICCALL, c26D(1), nil, 0)
	call("DELEGATECALL(D4)", progx.DELEGATECALL, c26D(4), nil, 0)
	call("CALLCODE(D1)", progx.CALLCODE, c26D(1), nil, 0)
	acct("EXTCODESIZE(D1)", progx.EXTCODESIZE, c26D(1))
	acct("EXTCODEHASH(D1)", progx.EXTCODEHASH, c26D(1))
	add("EXTCODECOPY(D1,0,0,32)", func(p *progx.Prog, res uint64) { p.Push(32).Push(0).Push(0).PushAddr(c26D(1)).Op(progx.EXTCODECOPY) })
	call("CALLCODE(B1,v=1)", progx.CALLCODE, c26B(1), nil, 1)
	call("CALLCODE(B4)", progx.CALLCODE, c26B(4), nil, 0)
	add("RETURNDATASIZE", func(p *progx.Prog, res uint64) { p.Op(progx.RETURNDATASIZE); store(p, res) })
	add("RETURNDATACOPY(all)", func(p *progx.Prog, res uint64) { p.Op(progx.RETURNDATASIZE).Push(0).Push(res).Op(progx.RETURNDATACOPY) })
	add("RETURNDATACOPY(oob)", func(p *progx.Prog, res uint64) { p.Op(progx.RETURNDATASIZE).Push(1).Push(res).Op(progx.RETURNDATACOPY) })
	// creations; the new address (or 0) is stored. Every creation records its would-be address in the context.
	inits := c26Inits()
	create := func(name string, op byte, init string, value, salt uint64) {
		code := inits[init]
		addCtx(name, func(p *progx.Prog, res uint64, ctx *c26Ctx) {
			p.Create(op, code, value, salt)
			store(p, res)
			if value > 1001 {
				return // insufficient balance: neither a nonce bump nor an address
			}
			var a common.Address
			if op == progx.CREATE {
				a = refevm.CreateAddress(c26A, ctx.nonce)
			} else {
				a = refevm.Create2Address(c26A, c26Salt(byte(salt)), code)
			}
			ctx.last = &a
			ctx.nonce++
		})
	}
	for _, n := range []string{"ok", "sstore", "revert", "invalid", "oog", "ef", "empty", "suicide"} {
		create("CREATE("+n+")", progx.CREATE, n, 0, 0)
	}
	create("CREATE(sstore,v=1)", progx.CREATE, "sstore", 1, 0)
	create("CREATE(ok,v=5000)", progx.CREATE, "ok", 5000, 0)
	create("CREATE2(ok,salt=0)", progx.CREATE2, "ok", 0, 0)
	create("CREATE2(sstore,salt=1,v=1)", progx.CREATE2, "sstore", 1, 1)
	create("CREATE2(suicide,salt=0)", progx.CREATE2, "suicide", 0, 0)
	create("CREATE2(revert,salt=2)", progx.CREATE2, "revert", 0, 2)
	create("CREATE2(invalid,salt=3)", progx.CREATE2, "invalid", 0, 3)
	create("CREATE2(ok,salt=7,collides-nonce)", progx.CREATE2, "ok", 0, 7)
	create("CREATE2(ok,salt=8,collides-code)", progx.CREATE2, "ok", 0, 8)
	// touching the (would-be) address of the latest creation: warm per EIP-2929 even if the creation failed or collided
	touch := func(name string, f func(p *progx.Prog, a common.Address)) {
		addCtx(name, func(p *progx.Prog, res uint64, ctx *c26Ctx) { f(p, ctx.target()); store(p, res) })
	}
	touch("BALANCE(created)", func(p *progx.Prog, a common.Address) { p.PushAddr(a).Op(progx.BALANCE) })
	touch("EXTCODESIZE(created)", func(p *progx.Prog, a common.Address) { p.PushAddr(a).Op(progx.EXTCODESIZE) })
	touch("EXTCODEHASH(created)", func(p *progx.Prog, a common.Address) { p.PushAddr(a).Op(progx.EXTCODEHASH) })
	touch("EXTCODECOPY(created,0,0,8)", func(p *progx.Prog, a common.Address) {
		p.Push(8).Push(0).Push(0).PushAddr(a).Op(progx.EXTCODECOPY).Op(progx.MSIZE)
	})
	touch("CALL(created)", func(p *progx.Prog, a common.Address) { p.CallKind(progx.CALL, a, nil, 0) })
	touch("STATICCALL(created)", func(p *progx.Prog, a common.Address) { p.CallKind(progx.STATICCALL, a, nil, 0) })
	addCtx("SELFDESTRUCT(created)", func(p *progx.Prog, res uint64, ctx *c26Ctx) { p.PushAddr(ctx.target()).Op(progx.SELFDESTRUCT) })
	// warmth established inside a child frame: B9 touches BALANCE(none) and its slot 5 and reverts, B10 does the same and
	// succeeds, B11 halts, B13 calls B10 and reverts, B14 creates and reverts, B15 creates and succeeds
	for _, i := range []int{9, 10, 11, 13, 14, 15} {
		call(fmt.Sprintf("CALL(B%d)", i), progx.CALL, c26B(i), nil, 0)
	}
	call("STATICCALL(B9)", progx.STATICCALL, c26B(9), nil, 0)
	acct("EXTCODESIZE(created-by-B14)", progx.EXTCODESIZE, refevm.CreateAddress(c26B(14), 1))
	acct("BALANCE(created-by-B15)", progx.BALANCE, refevm.CreateAddress(c26B(15), 1))
	acct("BALANCE(collides-nonce)", progx.BALANCE, c26Collide(7))
	// terminals
	add("STOP", func(p *progx.Prog, res uint64) { p.Op(progx.STOP) })
	add("REVERT(0,32)", func(p *progx.Prog, res uint64) { p.Revert(0, 32) })
	add("INVALID", func(p *progx.Prog, res uint64) { p.Op(progx.INVALID) })
	add("SELFDESTRUCT(eoa)", func(p *progx.Prog, res uint64) { p.PushAddr(c26EOA).Op(progx.SELFDESTRUCT) })
	add("SELFDESTRUCT(none)", func(p *progx.Prog, res uint64) { p.PushAddr(c26None).Op(progx.SELFDESTRUCT) })
	add("SELFDESTRUCT(self)", func(p *progx.Prog, res uint64) { p.PushAddr(c26A).Op(progx.SELFDESTRUCT) })
	return us
}

// c26SeqProgram: units in order (unit i stores its result at 0x40+32*i), then RETURN(0, MSIZE).
func c26SeqProgram(us []c26Unit, seq []int) []byte {
	p := c26P()
	ctx := c26NewCtx()
	for i, u := range seq {
		us[u].gen(p, 0x40+32*uint64(i), ctx)
	}
	p.Op(progx.MSIZE, progx.PUSH0, progx.RETURN)
	return p.Bytes()
}

func c26Sequences(r *mc.R, st *c26Stats) {
	us := c26Units()
	maxLen := mc.Pick(r, 2, 3)
	r.Bound("units.alphabet", len(us))
	r.Bound("units.max_sequence_length", maxLen)
	forks := c26Forks()
	type shard struct {
		f     c26Fork
		first int
	}
	var shards []shard
	for _, f := range forks {
		for i := range us {
			shards = append(shards, shard{f, i})
		}
	}
	r.Parallel(len(shards), func(si int) {
		sh := shards[si]
		base := c26NewPre(c26World([]byte{0}))
		var rec func(seq []int)
		rec = func(seq []int) {
			if r.Expired() {
				return
			}
			names := make([]string, len(seq))
			for i, u := range seq {
				names[i] = us[u].name
			}
			pre := base.withCode(c26SeqProgram(us, seq))
			d := map[string]any{"part": "units", "seq": names}
			if len(seq) >= maxLen && maxLen > 1 {
				d["lite"] = true // longest sequences of the tier: ample gas only
			}
			c26GasGrid(r, st, sh.f, pre, d, func(gas uint64) *refevm.Tx {
				return c26CallTx(gas, 1, []byte{0xde, 0xad, 0xbe, 0xef})
			})
			// nothing after a unit that always ends the frame can execute: such extensions repeat the prefix
			if len(seq) < maxLen && !c26Terminal(us[seq[len(seq)-1]].name) {
				for u := range us {
					rec(append(append([]int{}, seq...), u))
				}
			}
		}
		rec([]int{sh.first})
	})
}

// c26Terminal: units after which the frame never continues (STOP, REVERT, INVALID, SELFDESTRUCT, an always
// out-of-bounds RETURNDATACOPY).
func c26Terminal(name string) bool {
	for _, p := range []string{"STOP", "REVERT(", "INVALID", "SELFDESTRUCT(", "RETURNDATACOPY(oob)"} {
		if strings.HasPrefix(name, p) {
			return true
		}
	}
	return false
}

// ---------------------------------------------------------------------------
// EIP-7610 (creation onto an account with nonce 0, no code and NON-EMPTY STORAGE must fail like a collision).
// go-ethereum at this commit implements the rule through a hard-coded list of the 28 such mainnet accounts
// (core/vm/eip7610.go) instead of looking at the storage, and skips the corresponding execution-spec tests
// (tests/state_test.go: eip7610_create_collision); on a synthetic pre-state it therefore deploys where the specification
// (and the reference) reports a collision. Such accounts cannot come into existence after EIP-161, so the general
// spaces exclude them (recorded as an assumption). This part holds the three strict cases; it is disabled by default
// because it fails on the unchanged tree (reported to the coordinator); VERIF_C26_EIP7610=1 enables it.
func c26EIP7610(r *mc.R, st *c26Stats) {
	if os.Getenv("VERIF_C26_EIP7610") != "1" {
		return
	}
	for _, f := range c26Forks() {
		w := c26World([]byte{0})
		w[c26Collide(9)] = &refevm.Account{Balance: big.NewInt(1), Storage: map[common.Hash]common.Hash{c26Slot(1): c26Slot(1)}}
		code := c26P().Create(progx.CREATE2, c26Inits()["ok"], 0, 9).Push(0).Op(progx.MSTORE).Return(0, 32).Bytes()
		pre := c26NewPre(w).withCode(code)
		c := map[string]any{"part": "eip7610", "fork": f.name, "kind": "CREATE2 onto storage-only account"}
		r.Case(c, func() error {
			res, err := c26RunBlock(f, pre, c26BlockGas, []*refevm.Tx{c26CallTx(c26Ample, 0, nil)})
			if len(res) > 0 {
				st.add("eip7610:" + c26Classify(res))
			}
			return err
		})
	}
}

// ---------------------------------------------------------------------------
// Part 3b: access-set persistence. Sequences over the sub-alphabet of units that establish or observe warmth
// (creations incl. failing and colliding ones, touches of the would-be address, callees that touch and then revert /
// halt / succeed, nested creations in reverted frames), run with an EIP-2930 access list that preloads the addresses
// and slots concerned: whatever a frame does, preloaded entries stay warm; without the list (part 3) warmth added in a
// failed frame is rolled back, while the address of a creation is warm from the moment CREATE is executed.

func c26WarmUnit(name string) bool {
	for _, p := range []string{"CREATE", "BALANCE(created", "EXTCODESIZE(created", "EXTCODEHASH(created", "EXTCODECOPY(created", "CALL(created)", "STATICCALL(created)",
		"SELFDESTRUCT(created)", "CALL(B9)", "CALL(B10)", "CALL(B11)", "CALL(B13)", "CALL(B14)", "CALL(B15)", "STATICCALL(B9)", "BALANCE(none)", "EXTCODEHASH(none)",
		"BALANCE(collides-nonce)", "REVERT(0,32)"} {
		if strings.HasPrefix(name, p) {
			return true
		}
	}
	return false
}

func c26Warm(r *mc.R, st *c26Stats) {
	all := c26Units()
	var us []c26Unit
	for _, u := range all {
		if c26WarmUnit(u.name) {
			us = append(us, u)
		}
	}
	maxLen := mc.Pick(r, 2, 3)
	r.Bound("warm.alphabet", len(us))
	r.Bound("warm.max_sequence_length", maxLen)
	inits := c26Inits()
	al := []refevm.AccessTuple{
		{Address: c26None},
		{Address: refevm.CreateAddress(c26A, 1)},
		{Address: refevm.Create2Address(c26A, c26Salt(2), inits["revert"])},
		{Address: refevm.Create2Address(c26A, c26Salt(3), inits["invalid"])},
		{Address: c26Collide(7)}, {Address: c26Collide(8)},
		{Address: refevm.CreateAddress(c26B(14), 1)},
		{Address: c26B(9), Keys: []common.Hash{c26Slot(5)}},
		{Address: c26B(10), Keys: []common.Hash{c26Slot(5)}},
	}
	type shard struct {
		f     c26Fork
		first int
	}
	var shards []shard
	for _, f := range c26Forks() {
		for i := range us {
			shards = append(shards, shard{f, i})
		}
	}
	r.Parallel(len(shards), func(si int) {
		sh := shards[si]
		base := c26NewPre(c26World([]byte{0}))
		var rec func(seq []int)
		rec = func(seq []int) {
			if r.Expired() {
				return
			}
			names := make([]string, len(seq))
			for i, u := range seq {
				names[i] = us[u].name
			}
			pre := base.withCode(c26SeqProgram(us, seq))
			d := map[string]any{"part": "warm", "seq": names, "accessList": "preloaded"}
			if len(seq) >= maxLen {
				d["lite"] = true
			}
			c26GasGrid(r, st, sh.f, pre, d, func(gas uint64) *refevm.Tx {
				t := c26CallTx(gas, 1, nil)
				t.AccessList = al
				return t
			})
			if len(seq) < maxLen && !c26Terminal(us[seq[len(seq)-1]].name) {
				for u := range us {
					rec(append(append([]int{}, seq...), u))
				}
			}
		}
		rec([]int{sh.first})
	})
}

// ---------------------------------------------------------------------------
// Part 4: two transactions in one block to the same contract: the second one starts with cold access sets, empty
// transient storage and the first one's storage as "original" values. Code: CALLDATASIZE selects unit u1 or u2.

// c26StateChanging: units that can leave a trace for the next transaction (storage, balances, nonces, new accounts).
func c26StateChanging(name string) bool {
	for _, p := range []string{"SSTORE", "TSTORE", "CALL(B1", "CALL(B4", "CALL(B6", "CALL(B8", "CALL(B15", "CALL(none,v", "CALL(eoa", "DELEGATECALL", "CALLCODE", "CREATE", "SELFDESTRUCT", "BALANCE(B1)", "REVERT"} {
		if strings.HasPrefix(name, p) {
			return true
		}
	}
	return false
}

// c26Observing: units whose result or cost depends on what an earlier transaction left behind.
func c26Observing(name string) bool {
	for _, p := range []string{"SLOAD", "TLOAD", "BALANCE", "SELFBALANCE", "EXTCODE", "GAS", "CALL(B5)", "CALL(B7)", "STATICCALL(B7)", "CALL(none)", "CALL(D1)", "CALL(D4)", "CALL(created)", "STATICCALL(created)", "CALL(B9)", "CALL(B10)"} {
		if strings.HasPrefix(name, p) {
			return true
		}
	}
	return false
}

func c26TwoTx(r *mc.R, st *c26Stats) {
	us := c26Units()
	forks := c26Forks()
	type shard struct {
		f  c26Fork
		u1 int
	}
	var shards []shard
	n1 := 0
	for _, f := range forks {
		n1 = 0
		for i := range us {
			if r.Quick() && !c26StateChanging(us[i].name) {
				continue
			}
			n1++
			shards = append(shards, shard{f, i})
		}
	}
	r.Bound("twotx.first_units", n1)
	n2 := 0
	for i := range us {
		if !r.Quick() || c26StateChanging(us[i].name) || c26Observing(us[i].name) {
			n2++
		}
	}
	r.Bound("twotx.second_units", n2)
	r.Parallel(len(shards), func(si int) {
		sh := shards[si]
		base := c26NewPre(c26World([]byte{0}))
		for u2 := range us {
			if r.Expired() {
				return
			}
			if r.Quick() && !c26StateChanging(us[u2].name) && !c26Observing(us[u2].name) {
				continue
			}
			ctx := c26NewCtx() // the second transaction knows what the first one created
			a := c26P()
			us[sh.u1].gen(a, 0x40, ctx)
			a.Op(progx.MSIZE, progx.PUSH0, progx.RETURN)
			b := c26P()
			us[u2].gen(b, 0x40, ctx)
			b.Op(progx.MSIZE, progx.PUSH0, progx.RETURN)
			// CALLDATASIZE PUSH2 dest JUMPI <a> JUMPDEST <b>
			dest := 5 + a.Len()
			code := progx.Concat([]byte{progx.CALLDATASIZE, progx.PUSH2, byte(dest >> 8), byte(dest), progx.JUMPI}, a.Bytes(), []byte{progx.JUMPDEST}, b.Bytes())
			pre := base.withCode(code)
			c := map[string]any{"part": "twotx", "fork": sh.f.name, "u1": us[sh.u1].name, "u2": us[u2].name}
			r.Case(c, func() error {
				t1 := c26CallTx(c26Ample, 1, nil)
				t2 := c26CallTx(c26Ample, 0, []byte{1})
				t2.Nonce = 6
				t2.Type, t2.GasPrice = refevm.TxLegacy, big.NewInt(7) // zero tip: the coinbase must not be created by it
				res, err := c26RunBlock(sh.f, pre, c26BlockGas, []*refevm.Tx{t1, t2})
				if len(res) == 2 {
					st.add("twotx:" + c26Classify(res[:1]) + "+" + c26Classify(res))
					r.DistinctHash(mc.Hash64(fmt.Sprintf("2|%s|%v|%d|%v|%d|%x", sh.f.name, res[0].Status, res[0].GasUsed, res[1].Status, res[1].GasUsed, mc.Hash64(string(res[1].Output)))))
				}
				return err
			})
			if u2 == sh.u1 {
				r.Sample(c)
			}
		}
	})
}


// ---------------------------------------------------------------------------
// Part 5: EIP-7702 set-code transactions (Prague, Osaka): all authorization lists of 1..2 tuples from a tuple
// alphabet x pre-state of the authority x recipient x gas grid.

type c26AuthKind struct {
	name    string
	key     int    // 0 = the sender's key, 1 = X1, 2 = X2
	chain   uint64 // chain id in the tuple
	target  string // "B5", "B1", "zero", "X1"
	nonce   string // "cur", "cur+1", "max"
	sig     string // "valid", "highS", "zero"
}

func c26AuthKinds() []c26AuthKind {
	return []c26AuthKind{
		{"X1->B5", 1, 1, "B5", "cur", "valid"},
		{"X1->B1/chain0", 1, 0, "B1", "cur", "valid"},
		{"X1->B5/nonce+1", 1, 1, "B5", "cur+1", "valid"},
		{"X1->B5/chain2", 1, 2, "B5", "cur", "valid"},
		{"X1->clear", 1, 1, "zero", "cur", "valid"},
		{"X1->B5/highS", 1, 1, "B5", "cur", "highS"},
		{"X1->B5/zerosig", 1, 1, "B5", "cur", "zero"},
		{"X1->B5/noncemax", 1, 1, "B5", "max", "valid"},
		{"S->B5/nonce+1", 0, 1, "B5", "cur+1", "valid"},
		{"S->B5/stale", 0, 1, "B5", "cur", "valid"},
		{"X2->X1", 2, 1, "X1", "cur", "valid"},
		{"X1->X1", 1, 1, "X1", "cur", "valid"},
	}
}

func c26Key(i int) *ecdsa.PrivateKey {
	k, err := crypto.ToECDSA(c26Bytes(32, byte(0x11*(i+1))))
	if err != nil {
		panic(err)
	}
	return k
}

func c26KeyAddr(i int) common.Address { return crypto.PubkeyToAddress(c26Key(i).PublicKey) }

func c26SetCode(r *mc.R, st *c26Stats) {
	kinds := c26AuthKinds()
	maxLen := mc.Pick(r, 2, 3)
	r.Bound("setcode.tuple_alphabet", len(kinds))
	r.Bound("setcode.max_list_length", maxLen)
	S, X1, X2 := c26KeyAddr(0), c26KeyAddr(1), c26KeyAddr(2)
	type variant struct {
		name string
		x1   *refevm.Account
	}
	em := func() map[common.Hash]common.Hash { return map[common.Hash]common.Hash{} }
	variants := []variant{
		{"absent", nil},
		{"eoa", &refevm.Account{Balance: big.NewInt(5), Storage: em()}},
		{"eoa-nonce3", &refevm.Account{Nonce: 3, Balance: big.NewInt(5), Storage: em()}},
		{"delegated-B1", &refevm.Account{Nonce: 1, Balance: big.NewInt(5), Code: append([]byte{0xef, 0x01, 0x00}, c26B(1).Bytes()...), Storage: em()}},
		{"contract", &refevm.Account{Nonce: 1, Balance: big.NewInt(5), Code: []byte{0x00}, Storage: em()}},
	}
	rcpts := []struct {
		name string
		to   common.Address
	}{{"B5", c26B(5)}, {"X1", X1}, {"X2", X2}, {"S", S}}
	var forks []c26Fork
	for _, f := range c26Forks() {
		if f.ref >= refevm.Prague {
			forks = append(forks, f)
		}
	}
	type shard struct {
		f     c26Fork
		v     variant
		first int
	}
	var shards []shard
	for _, f := range forks {
		for _, v := range variants {
			for i := range kinds {
				shards = append(shards, shard{f, v, i})
			}
		}
	}
	secpN := crypto.S256().Params().N
	r.Parallel(len(shards), func(si int) {
		sh := shards[si]
		w := c26World(c26Callees()[1])
		w[S] = &refevm.Account{Nonce: 5, Balance: big.NewInt(1e18), Storage: em()}
		if sh.v.x1 != nil {
			w[X1] = sh.v.x1
		}
		pre := c26NewPre(w)
		curNonce := func(key int) uint64 {
			switch key {
			case 0:
				return 5
			case 1:
				if sh.v.x1 != nil {
					return sh.v.x1.Nonce
				}
			}
			return 0
		}
		build := func(seq []int) ([]refevm.Authorization, []types.SetCodeAuthorization) {
			var ra []refevm.Authorization
			var ga []types.SetCodeAuthorization
			for _, ki := range seq {
				k := kinds[ki]
				var target common.Address
				switch k.target {
				case "B5":
					target = c26B(5)
				case "B1":
					target = c26B(1)
				case "X1":
					target = X1
				}
				nonce := curNonce(k.key)
				switch k.nonce {
				case "cur+1":
					nonce++
				case "max":
					nonce = ^uint64(0)
				}
				auth, err := types.SignSetCode(c26Key(k.key), types.SetCodeAuthorization{ChainID: *uint256.NewInt(k.chain), Address: target, Nonce: nonce})
				if err != nil {
					panic(err)
				}
				signer := c26KeyAddr(k.key)
				authority := &signer
				switch k.sig {
				case "highS": // the other root of the same signature: recoverable, but EIP-7702 (like EIP-2) requires s <= n/2
					s := new(big.Int).Sub(secpN, auth.S.ToBig())
					auth.S = *uint256.MustFromBig(s)
					auth.V ^= 1
					authority = nil
				case "zero":
					auth.R, auth.S = uint256.Int{}, uint256.Int{}
					authority = nil
				}
				ra = append(ra, refevm.Authorization{ChainID: new(big.Int).SetUint64(k.chain), Address: target, Nonce: nonce, Authority: authority})
				ga = append(ga, auth)
			}
			return ra, ga
		}
		var rec func(seq []int)
		rec = func(seq []int) {
			if r.Expired() {
				return
			}
			names := make([]string, len(seq))
			for i, k := range seq {
				names[i] = kinds[k].name
			}
			ra, ga := build(seq)
			for ri, rc := range rcpts {
				for _, value := range []int64{0, 1} {
					if len(seq) > 1 && len(seq) == maxLen && (value != 0 || ri > 1) {
						continue // longest lists of the tier: only recipients B5 and X1, value 0
					}
					to := rc.to
					c26GasGrid(r, st, sh.f, pre, map[string]any{"part": "setcode", "x1": sh.v.name, "auths": names, "to": rc.name, "value": value}, func(gas uint64) *refevm.Tx {
						return &refevm.Tx{Type: refevm.TxSetCode, From: S, To: &to, Nonce: 5, Value: big.NewInt(value), Gas: gas,
							MaxFee: big.NewInt(20), MaxTip: big.NewInt(3), Data: []byte{1}, Auths: ra, Aux: ga}
					})
				}
			}
			if len(seq) < maxLen {
				for k := range kinds {
					rec(append(append([]int{}, seq...), k))
				}
			}
		}
		rec([]int{sh.first})
		if sh.first == 0 {
			// rejection: empty authorization list
			to := c26B(5)
			c := map[string]any{"part": "setcode", "fork": sh.f.name, "x1": sh.v.name, "auths": []string{}}
			r.Case(c, func() error {
				res, err := c26RunBlock(sh.f, pre, c26BlockGas, []*refevm.Tx{{Type: refevm.TxSetCode, From: S, To: &to, Nonce: 5, Value: big.NewInt(0), Gas: 100000,
					MaxFee: big.NewInt(20), MaxTip: big.NewInt(3), Aux: []types.SetCodeAuthorization{}}})
				if len(res) > 0 {
					st.add("setcode:" + c26Classify(res))
				}
				return err
			})
		}
	})
}
