//go:build verif

package rawdb

// C24 — Freezer tables survive crashes without corruption.
//
// Engine E3 "crashx": the real Freezer (NewFreezer / ModifyAncients / TruncateHead /
// TruncateTail / SyncAncient and the whole repair code) runs on the in-memory,
// crash-recording file system internal/verif/vos (the freezer source files are
// re-generated with `os` -> vos and gofrs/flock -> vflock by tools/vinstr).
//
// For every operation sequence up to a depth bound the history is executed once to
// completion while vos records the global file-system event log. Then for every
// event index inside the *last* operation of the sequence (crash points inside
// earlier operations belong to the shorter sequences, which are enumerated too)
// and every admissible loss pattern (see vos/crash.go) a fresh disk image is
// materialised, reopened with the real NewFreezer, and the recovery oracle is
// evaluated against a reference model that only knows what was appended /
// truncated / synced.

import (
	"bytes"
	"encoding/binary"
	"encoding/json"
	"fmt"
	"os"
	"regexp"
	"sort"
	"strings"
	"sync"
	"testing"

	"github.com/ethereum/go-ethereum/ethdb"
	"github.com/ethereum/go-ethereum/internal/verif/mc"
	"github.com/ethereum/go-ethereum/internal/verif/vos"
	"github.com/ethereum/go-ethereum/rlp"
)

const (
	c24MaxTable = 16 // maxTableSize: data files hold 16 bytes, so almost every append crosses a file
	c24Group    = "g"
	c24ContGen  = 200 // generation number of the item appended by the post-recovery usability check
)

type c24Table struct {
	name string
	cfg  freezerTableConfig
}

type c24Config struct {
	name   string
	tables []c24Table // sorted by name
}

func (c c24Config) tableMap() map[string]freezerTableConfig {
	m := map[string]freezerTableConfig{}
	for _, t := range c.tables {
		m[t.name] = t.cfg
	}
	return m
}

func (c c24Config) allGrouped() bool {
	for _, t := range c.tables {
		if t.cfg.tailGroup == "" {
			return false
		}
	}
	return true
}

var c24Configs = []c24Config{
	{"mixed", []c24Table{{"a", freezerTableConfig{noSnappy: false}}, {"b", freezerTableConfig{noSnappy: true, tailGroup: c24Group}}}},
	{"group", []c24Table{{"a", freezerTableConfig{noSnappy: false, tailGroup: c24Group}}, {"b", freezerTableConfig{noSnappy: true, tailGroup: c24Group}}}},
	{"chainlike", []c24Table{{"a", freezerTableConfig{noSnappy: false}}, {"b", freezerTableConfig{noSnappy: true, tailGroup: c24Group}}, {"c", freezerTableConfig{noSnappy: false, tailGroup: c24Group}}}},
}

// ---- operations -------------------------------------------------------------

const (
	c24OpApp1   = iota // append one small item
	c24OpApp2          // append a medium and a large item (the large one exceeds a data file)
	c24OpSync          // SyncAncient
	c24OpTH1           // TruncateHead(head-1)
	c24OpTH2           // TruncateHead(head-2)
	c24OpTT1           // TruncateTail(group, tail+1)
	c24OpTT2           // TruncateTail(group, tail+2)
	c24OpTTOver        // TruncateTail(group, head+1): reset beyond the head (only when every table is in the group)
	c24OpReopen        // clean Close + NewFreezer
	c24OpApp8          // append eight 4-byte items in one batch (used to build the pre-populated start states)
	c24NumOps

	c24THAbsBase = 100 // c24THAbsBase+n: TruncateHead(n)
	c24TTAbsBase = 200 // c24TTAbsBase+n: TruncateTail(group, n)
	c24AllTH     = -1  // alphabet placeholder: TruncateHead(n) for every tail <= n < head
	c24AllTT     = -2  // alphabet placeholder: TruncateTail(group, n) for every tail < n <= head
)

var c24OpNames = [...]string{"app1", "app2", "sync", "th1", "th2", "tt1", "tt2", "ttover", "reopen", "app8"}

func c24OpName(op int) string {
	switch {
	case op == c24AllTH:
		return "th@every-item"
	case op == c24AllTT:
		return "tt@every-item"
	case op >= c24TTAbsBase:
		return fmt.Sprintf("tt@%d", op-c24TTAbsBase)
	case op >= c24THAbsBase:
		return fmt.Sprintf("th@%d", op-c24THAbsBase)
	}
	return c24OpNames[op]
}

// c24Start is a pre-populated start state: a prefix of operations executed (with the real
// API, to completion) before the enumerated sequence.
type c24Start struct {
	name   string
	prefix []int
}

var (
	c24StartEmpty = c24Start{name: ""}
	// per table >= 3 data files with 2-3 items each (the tables differ in item size, so
	// their file boundaries differ: a holds 2 items per file, b 3), everything synced
	c24StartMulti = c24Start{name: "8items-multifile-synced", prefix: []int{c24OpApp8, c24OpSync}}
	// the same with an already truncated tail that is unaligned in table a (item 2 stays
	// hidden inside the new tail file) and aligned in table b, synced again
	c24StartTail = c24Start{name: "8items-multifile-tail3-synced", prefix: []int{c24OpApp8, c24OpSync, c24TTAbsBase + 3, c24OpSync}}
)

type c24Val struct {
	gen  int
	size int
}

// c24Model is the reference model: what a caller of the freezer API knows.
type c24Model struct {
	head, tail uint64            // tail: tail of the group
	gen        int               // number of append operations so far
	latest     map[uint64]c24Val // the latest payload appended at each number (survives truncation until re-appended)
	hi         uint64            // items [lo, hi) were covered by a completed SyncAncient and not truncated since
	lo0, loG   uint64            // lo for non-prunable tables / for tables of the group
	hasObl     bool
}

func (m *c24Model) clone() *c24Model {
	c := *m
	c.latest = make(map[uint64]c24Val, len(m.latest))
	for k, v := range m.latest {
		c.latest[k] = v
	}
	return &c
}

func (m *c24Model) enabled(op int, cfg c24Config) bool {
	switch op {
	case c24OpTH1:
		return m.head >= 1 && m.head-1 >= m.tail
	case c24OpTH2:
		return m.head >= 2 && m.head-2 >= m.tail
	case c24OpTT1:
		return m.tail+1 <= m.head
	case c24OpTT2:
		return m.tail+2 <= m.head
	case c24OpTTOver:
		return cfg.allGrouped()
	}
	if op >= c24TTAbsBase {
		n := uint64(op - c24TTAbsBase)
		return m.tail < n && n <= m.head
	}
	if op >= c24THAbsBase {
		n := uint64(op - c24THAbsBase)
		return m.tail <= n && n < m.head
	}
	return true
}

func c24Payload(ti int, num uint64, v c24Val) []byte {
	b := make([]byte, v.size+ti) // tables differ in item size so that their file boundaries are not aligned
	for i := range b {
		b[i] = byte(1 + (int(num)*37+v.gen*11+ti*5+i*3)%251) // never zero: a zero-filled tail cannot look like data
	}
	return b
}

// c24Sys is a live freezer on a recording vos together with the model.
type c24Sys struct {
	cfg c24Config
	fs  *vos.FS
	f   *Freezer
	m   *c24Model
}

func c24IsMeta(rel string) bool { return strings.HasSuffix(rel, ".meta") }

func c24Dir(fs *vos.FS) string { return fs.Root() + "/fz" }

func c24Open(fs *vos.FS, cfg c24Config) (*Freezer, error) {
	return NewFreezer(c24Dir(fs), "", false, c24MaxTable, cfg.tableMap())
}

func c24NewSys(cfg c24Config, mergeMeta bool) (*c24Sys, error) {
	fs := vos.New()
	fs.SetAtomic(c24IsMeta, mergeMeta)
	f, err := c24Open(fs, cfg)
	if err != nil {
		fs.Release()
		return nil, fmt.Errorf("initial NewFreezer: %v", err)
	}
	return &c24Sys{cfg: cfg, fs: fs, f: f, m: &c24Model{latest: map[uint64]c24Val{}}}, nil
}

func (s *c24Sys) close() {
	if s.f != nil {
		s.f.Close()
	}
	s.fs.Release()
}

func (s *c24Sys) appendItems(sizes []int) error {
	m := s.m
	m.gen++
	start := m.head
	_, err := s.f.ModifyAncients(func(op ethdb.AncientWriteOp) error {
		for i, sz := range sizes {
			n := start + uint64(i)
			for ti, t := range s.cfg.tables {
				if err := op.AppendRaw(t.name, n, c24Payload(ti, n, c24Val{m.gen, sz})); err != nil {
					return err
				}
			}
		}
		return nil
	})
	if err != nil {
		return err
	}
	for i, sz := range sizes {
		m.latest[start+uint64(i)] = c24Val{m.gen, sz}
	}
	m.head += uint64(len(sizes))
	return nil
}

// apply executes op on the real freezer and on the model (the model is updated to
// the state after the completed operation).
func (s *c24Sys) apply(op int) error {
	m := s.m
	switch {
	case op >= c24TTAbsBase:
		return s.truncTail(uint64(op-c24TTAbsBase), op)
	case op >= c24THAbsBase:
		return s.truncHead(uint64(op-c24THAbsBase), op)
	}
	switch op {
	case c24OpApp8:
		return s.appendItems([]int{4, 4, 4, 4, 4, 4, 4, 4})
	case c24OpApp1:
		return s.appendItems([]int{2})
	case c24OpApp2:
		return s.appendItems([]int{7, 18})
	case c24OpSync:
		if err := s.f.SyncAncient(); err != nil {
			return err
		}
		m.hasObl, m.hi, m.lo0, m.loG = true, m.head, 0, m.tail
		if s.cfg.allGrouped() {
			m.lo0 = m.tail
		}
	case c24OpTH1, c24OpTH2:
		n := m.head - 1
		if op == c24OpTH2 {
			n = m.head - 2
		}
		return s.truncHead(n, op)
	case c24OpTT1, c24OpTT2, c24OpTTOver:
		n := m.tail + 1
		if op == c24OpTT2 {
			n = m.tail + 2
		}
		if op == c24OpTTOver {
			n = m.head + 1
		}
		return s.truncTail(n, op)
	case c24OpReopen:
		if err := s.f.Close(); err != nil {
			return err
		}
		s.f = nil
		f, err := c24Open(s.fs, s.cfg)
		if err != nil {
			return err
		}
		s.f = f
		// a clean shutdown syncs everything
		m.hasObl, m.hi, m.lo0, m.loG = true, m.head, 0, m.tail
		if s.cfg.allGrouped() {
			m.lo0 = m.tail
		}
	}
	return s.checkCounters(op)
}

func (s *c24Sys) checkCounters(op int) error {
	m := s.m
	if h, _ := s.f.Ancients(); h != m.head {
		return fmt.Errorf("after %s: Ancients()=%d, model head %d", c24OpName(op), h, m.head)
	}
	if t, _ := s.f.Tail(c24Group); t != m.tail {
		return fmt.Errorf("after %s: Tail()=%d, model tail %d", c24OpName(op), t, m.tail)
	}
	return nil
}

func (s *c24Sys) truncHead(n uint64, op int) error {
	m := s.m
	old, err := s.f.TruncateHead(n)
	if err != nil {
		return err
	}
	if old != m.head {
		return fmt.Errorf("TruncateHead returned previous head %d, model %d", old, m.head)
	}
	m.head = n
	if m.hi > n {
		m.hi = n
	}
	return s.checkCounters(op)
}

func (s *c24Sys) truncTail(n uint64, op int) error {
	m := s.m
	old, err := s.f.TruncateTail(c24Group, n)
	if err != nil {
		return err
	}
	if old != m.tail {
		return fmt.Errorf("TruncateTail returned previous tail %d, model %d", old, m.tail)
	}
	m.tail = n
	if m.head < n {
		m.head = n
	}
	if m.loG < n {
		m.loG = n
	}
	if s.cfg.allGrouped() && m.lo0 < n {
		m.lo0 = n
	}
	return s.checkCounters(op)
}

// ---- crash context and oracle ----------------------------------------------

// c24Ctx is what the reference model allows / demands at one crash point.
type c24Ctx struct {
	accept map[uint64][]c24Val // admissible payloads per item number
	hasObl bool
	hi     uint64
	lo0    uint64
	loG    uint64
	maxH   uint64
}

func c24MakeCtx(before, after *c24Model, completed bool) *c24Ctx {
	c := &c24Ctx{accept: map[uint64][]c24Val{}}
	for n, v := range after.latest {
		c.accept[n] = append(c.accept[n], v)
	}
	c.maxH = after.head
	if !completed {
		for n, v := range before.latest {
			if len(c.accept[n]) == 0 || c.accept[n][0] != v {
				c.accept[n] = append(c.accept[n], v)
			}
		}
		if before.head > c.maxH {
			c.maxH = before.head
		}
		// obligations: what was synced before and is not being truncated by the running operation
		c.hasObl = before.hasObl
		c.hi, c.lo0, c.loG = before.hi, before.lo0, before.loG
		if after.hasObl {
			if after.hi < c.hi {
				c.hi = after.hi
			}
			if after.lo0 > c.lo0 {
				c.lo0 = after.lo0
			}
			if after.loG > c.loG {
				c.loG = after.loG
			}
		}
	} else {
		c.hasObl = after.hasObl
		c.hi, c.lo0, c.loG = after.hi, after.lo0, after.loG
	}
	return c
}

func (c *c24Ctx) key() string {
	ns := make([]uint64, 0, len(c.accept))
	for n := range c.accept {
		ns = append(ns, n)
	}
	sort.Slice(ns, func(i, j int) bool { return ns[i] < ns[j] })
	var sb strings.Builder
	for _, n := range ns {
		fmt.Fprintf(&sb, "%d:%v,", n, c.accept[n])
	}
	fmt.Fprintf(&sb, "|%v,%d,%d,%d", c.hasObl, c.hi, c.lo0, c.loG)
	return sb.String()
}

// c24Observe reads everything the freezer exposes and checks it against ctx.
// It returns a canonical summary of the observable state.
func c24Observe(f *Freezer, cfg c24Config, ctx *c24Ctx) (string, error) {
	head, _ := f.Ancients()
	var sb strings.Builder
	fmt.Fprintf(&sb, "head=%d", head)
	for ti, t := range cfg.tables {
		var tail uint64
		if t.cfg.tailGroup != "" {
			var err error
			if tail, err = f.Tail(t.cfg.tailGroup); err != nil {
				return "", fmt.Errorf("Tail(%q): %v", t.cfg.tailGroup, err)
			}
		}
		tab := f.tables[t.name]
		if got := tab.items.Load(); got != head {
			return "", fmt.Errorf("table %s holds %d items but the freezer head is %d: tables do not share one range", t.name, got, head)
		}
		if got := tab.itemHidden.Load(); got != tail {
			return "", fmt.Errorf("table %s has tail %d but its group reports tail %d", t.name, got, tail)
		}
		if tail > head {
			return "", fmt.Errorf("table %s: tail %d above head %d", t.name, tail, head)
		}
		fmt.Fprintf(&sb, ";%s[%d", t.name, tail)
		var singles [][]byte
		for n := tail; n < head; n++ {
			blob, err := f.Ancient(t.name, n)
			if err != nil {
				return "", fmt.Errorf("table %s: item %d inside [tail=%d, head=%d) is unreadable: %v", t.name, n, tail, head, err)
			}
			ok := -1
			for _, v := range ctx.accept[n] {
				if bytes.Equal(blob, c24Payload(ti, n, v)) {
					ok = v.gen
				}
			}
			if ok < 0 {
				return "", fmt.Errorf("table %s: item %d reads 0x%x which is not what was appended at that position (admissible generations %v)", t.name, n, blob, ctx.accept[n])
			}
			fmt.Fprintf(&sb, ",%d", ok)
			singles = append(singles, blob)
		}
		sb.WriteString("]")
		if head > tail {
			all, err := f.AncientRange(t.name, tail, head-tail, 0)
			if err != nil || len(all) != len(singles) {
				return "", fmt.Errorf("table %s: AncientRange(%d,%d) = %d items, err %v", t.name, tail, head-tail, len(all), err)
			}
			for i := range all {
				if !bytes.Equal(all[i], singles[i]) {
					return "", fmt.Errorf("table %s: AncientRange item %d differs from Ancient", t.name, tail+uint64(i))
				}
			}
		}
		if _, err := f.Ancient(t.name, head); err == nil {
			return "", fmt.Errorf("table %s: item %d at the head is readable", t.name, head)
		}
		// durability: everything covered by a completed sync and not truncated afterwards
		if ctx.hasObl {
			lo := ctx.lo0
			if t.cfg.tailGroup != "" {
				lo = ctx.loG
			}
			if lo < ctx.hi && (tail > lo || head < ctx.hi) {
				return "", fmt.Errorf("table %s: items [%d,%d) were covered by a completed sync and not truncated, but only [%d,%d) survived", t.name, lo, ctx.hi, tail, head)
			}
		}
	}
	return sb.String(), nil
}

// c24Recover reopens the image with the real recovery code and evaluates the oracle.
// post de-duplicates the work after the first recovery: the second reopen and the
// usability check are a function of the recovered disk state and the context only.
func c24Recover(fs *vos.FS, cfg c24Config, ctx *c24Ctx, cont bool, post *sync.Map) (outcome string, err error) {
	f, err := c24Open(fs, cfg)
	if err != nil {
		return "", fmt.Errorf("reopen after crash failed: %v", err)
	}
	sum1, err := c24Observe(f, cfg, ctx)
	if err != nil {
		f.Close()
		return "", err
	}
	head, _ := f.Ancients()
	if err := f.Close(); err != nil {
		return "", fmt.Errorf("close after recovery: %v", err)
	}
	outcome = fmt.Sprintf("lost_from_head=%d", ctx.maxH-head)
	fp1 := fs.Fingerprint()
	if post != nil {
		if _, dup := post.LoadOrStore(mc.Hash64(cfg.name+"|"+fp1+"|"+ctx.key()), struct{}{}); dup {
			return outcome, nil
		}
	}
	// second reopen must be a no-op
	f2, err := c24Open(fs, cfg)
	if err != nil {
		return "", fmt.Errorf("second reopen failed: %v", err)
	}
	sum2, err := c24Observe(f2, cfg, ctx)
	if err != nil {
		f2.Close()
		return "", fmt.Errorf("second reopen: %v", err)
	}
	if sum1 != sum2 {
		f2.Close()
		return "", fmt.Errorf("second reopen is not a no-op: %s then %s", sum1, sum2)
	}
	if err := f2.Close(); err != nil {
		return "", fmt.Errorf("close after second reopen: %v", err)
	}
	if fp2 := fs.Fingerprint(); fp2 != fp1 {
		return "", fmt.Errorf("second reopen modified the files; now:\n%s", fs.Dump())
	}
	if !cont {
		return outcome, nil
	}
	// the recovered freezer must be usable: append one item, sync, read everything back, restart
	f3, err := c24Open(fs, cfg)
	if err != nil {
		return "", fmt.Errorf("third reopen failed: %v", err)
	}
	v := c24Val{c24ContGen, 5}
	ctx2 := &c24Ctx{accept: map[uint64][]c24Val{}, hasObl: ctx.hasObl, hi: ctx.hi, lo0: ctx.lo0, loG: ctx.loG}
	for n, a := range ctx.accept {
		ctx2.accept[n] = a
	}
	ctx2.accept[head] = []c24Val{v}
	_, err = f3.ModifyAncients(func(op ethdb.AncientWriteOp) error {
		for ti, t := range cfg.tables {
			if err := op.AppendRaw(t.name, head, c24Payload(ti, head, v)); err != nil {
				return err
			}
		}
		return nil
	})
	if err != nil {
		f3.Close()
		return "", fmt.Errorf("append after recovery failed: %v", err)
	}
	if err := f3.SyncAncient(); err != nil {
		f3.Close()
		return "", fmt.Errorf("sync after recovery failed: %v", err)
	}
	sum3, err := c24Observe(f3, cfg, ctx2)
	if err != nil {
		f3.Close()
		return "", fmt.Errorf("after append on the recovered freezer: %v", err)
	}
	if err := f3.Close(); err != nil {
		return "", fmt.Errorf("close: %v", err)
	}
	f4, err := c24Open(fs, cfg)
	if err != nil {
		return "", fmt.Errorf("reopen after append on the recovered freezer failed: %v", err)
	}
	sum4, err := c24Observe(f4, cfg, ctx2)
	f4.Close()
	if err != nil {
		return "", fmt.Errorf("reopen after append on the recovered freezer: %v", err)
	}
	if sum3 != sum4 {
		return "", fmt.Errorf("clean restart changed the content: %s then %s", sum3, sum4)
	}
	return outcome, nil
}

// ---- harvesting -------------------------------------------------------------

// c24Run is one completed execution of a sequence with the event-log span of its last operation.
type c24Run struct {
	sys    *c24Sys
	from   int // number of events before the last operation
	to     int // number of events after it
	before *c24Model
	sig    string
}

// c24Sig is the order in which the tables' files are touched by events[from:to].
func c24Sig(evs []vos.Event) string {
	var sb strings.Builder
	last := ""
	for _, e := range evs {
		base := e.Name[strings.LastIndexByte(e.Name, '/')+1:]
		t := base
		if i := strings.IndexByte(base, '.'); i > 0 {
			t = base[:i]
		}
		if len(t) != 1 {
			continue // temporary files
		}
		if t != last {
			sb.WriteString(t)
			last = t
		}
	}
	return sb.String()
}

// c24Execute runs ops on a fresh system. An empty ops list means: the crash points are
// those of the initial NewFreezer on an empty directory.
func c24Execute(cfg c24Config, start c24Start, ops []int, mergeMeta bool) (*c24Run, error) {
	s, err := c24NewSys(cfg, mergeMeta)
	if err != nil {
		return nil, err
	}
	for i, op := range start.prefix {
		if err := s.apply(op); err != nil {
			s.close()
			return nil, fmt.Errorf("start state %s: op %d (%s) failed: %v", start.name, i, c24OpName(op), err)
		}
	}
	run := &c24Run{sys: s, before: s.m.clone()}
	if len(ops) > 0 {
		run.from = s.fs.NumEvents()
	}
	run.to = s.fs.NumEvents()
	for i, op := range ops {
		run.before = s.m.clone()
		run.from = s.fs.NumEvents()
		if err := s.apply(op); err != nil {
			s.close()
			return nil, fmt.Errorf("op %d (%s) failed without any crash: %v", i, c24OpName(op), err)
		}
		run.to = s.fs.NumEvents()
	}
	run.sig = c24Sig(s.fs.Events()[run.from:run.to])
	return run, nil
}

// c24Variants executes the sequence repeatedly until the different table orders of
// the last operation (the freezer iterates over a Go map of tables) have been seen.
func c24Variants(cfg c24Config, start c24Start, ops []int, tries int, mergeMeta bool) ([]*c24Run, error) {
	seen := map[string]*c24Run{}
	for i := 0; i < tries; i++ {
		run, err := c24Execute(cfg, start, ops, mergeMeta)
		if err != nil {
			for _, r := range seen {
				r.sys.close()
			}
			return nil, err
		}
		if _, ok := seen[run.sig]; ok {
			run.sys.close()
		} else {
			seen[run.sig] = run
		}
		// a single loop over the table map has n! orders; the open/reopen paths have several loops
		want := 1
		if len(run.sig) > 1 {
			want = 2
			if len(cfg.tables) > 2 {
				want = 6
			}
		}
		if len(seen) >= want && !(len(ops) == 0 || ops[len(ops)-1] == c24OpReopen) {
			break
		}
		if len(seen) >= 4 {
			break
		}
	}
	var out []*c24Run
	for _, r := range seen {
		out = append(out, r)
	}
	sort.Slice(out, func(i, j int) bool { return out[i].sig < out[j].sig })
	return out, nil
}

type c24Case struct {
	Cfg    string      `json:"cfg"`
	Start  string      `json:"start_state,omitempty"`
	Ops    []string    `json:"ops"`
	Order  string      `json:"table_order"`
	K      int         `json:"crash_after_event"`
	Event  string      `json:"last_event"`
	Loss   vos.Pattern `json:"loss"`
	Nested *c24Nested  `json:"nested,omitempty"`
}

type c24Nested struct {
	Order string      `json:"recovery_table_order"`
	K     int         `json:"crash_after_recovery_event"`
	Event string      `json:"last_event"`
	Loss  vos.Pattern `json:"loss"`
}

// c24Findings groups failing cases by root-cause class (the normalised first line of
// the oracle message) and keeps the smallest example of each class; one violation per
// class is reported at the end of the run, keyed by the class.
type c24Findings struct {
	mu    sync.Mutex
	class map[string]*c24Finding
}

type c24Finding struct {
	n    int64
	c    c24Case
	cj   string
	desc string
}

var c24Digits = regexp.MustCompile(`[0-9]+`)
var c24Hex = regexp.MustCompile(`\b0x[0-9a-f]*\b|\b[0-9a-f]{6,}\b`)
var c24Tab = regexp.MustCompile(`table [a-c]\b`)

func c24Class(err error) string {
	line := err.Error()
	if i := strings.IndexByte(line, '\n'); i >= 0 {
		line = line[:i]
	}
	if i := strings.Index(line, " (admissible"); i >= 0 {
		line = line[:i]
	}
	line = c24Hex.ReplaceAllString(line, "X")
	line = c24Tab.ReplaceAllString(line, "table T")
	line = c24Digits.ReplaceAllString(line, "N")
	if len(line) > 160 {
		line = line[:160]
	}
	return line
}

func (fd *c24Findings) add(c c24Case, err error, tags string) {
	cl := c24Class(err)
	cl = strings.TrimPrefix(cl, "after a second crash during recovery: ")
	if tags == "tail-of-one-table-above-head-of-another" && !strings.Contains(cl, "truncation below tail") {
		tags = "" // that precondition only explains the cross-table alignment error
	}
	if tags != "" {
		// the image satisfies the precondition of an established defect: file it there
		cl = "{" + tags + "} recovery fails"
	}
	b, _ := json.Marshal(c)
	fd.mu.Lock()
	defer fd.mu.Unlock()
	f := fd.class[cl]
	if f == nil {
		f = &c24Finding{}
		fd.class[cl] = f
	}
	f.n++
	better := f.n == 1 || len(c.Ops) < len(f.c.Ops) || (len(c.Ops) == len(f.c.Ops) && (c.Nested == nil) && f.c.Nested != nil) ||
		(len(c.Ops) == len(f.c.Ops) && (c.Nested == nil) == (f.c.Nested == nil) && (len(b) < len(f.cj) || len(b) == len(f.cj) && string(b) < f.cj))
	if better {
		f.c, f.cj, f.desc = c, string(b), err.Error()
	}
}

func (fd *c24Findings) report(r *mc.R) {
	fd.mu.Lock()
	defer fd.mu.Unlock()
	var cls []string
	for cl := range fd.class {
		cls = append(cls, cl)
	}
	sort.Strings(cls)
	for _, cl := range cls {
		f := fd.class[cl]
		r.OutcomeN("VIOLATING:"+cl, f.n)
		r.Violation("C24/"+cl, fmt.Sprintf("%d failing crash images in this class; smallest example %s\n%s", f.n, f.cj, f.desc), f.c)
	}
}

// c24Diagnose inspects a crash image (before recovery) for the preconditions of the
// defects of the unchanged tree that this check has established (see the C24 report);
// failures on such images are filed under the precondition so that they can be
// tracked as known findings without masking anything else.
func c24Diagnose(img *vos.FS, cfg c24Config) string {
	files := img.Files()
	var tags []string
	add := func(t string) {
		for _, x := range tags {
			if x == t {
				return
			}
		}
		tags = append(tags, t)
	}
	var (
		maxTail  uint64
		minItems = ^uint64(0)
	)
	for _, t := range cfg.tables {
		ext := "cidx"
		if t.cfg.noSnappy {
			ext = "ridx"
		}
		idx, okI := files["fz/"+t.name+"."+ext]
		meta, okM := files["fz/"+t.name+".meta"]
		if okI && len(idx) > 0 && len(idx) < indexEntrySize {
			add("index-file-shorter-than-one-entry")
		}
		if !okM || len(meta) == 0 || !okI || len(idx) < indexEntrySize {
			minItems = 0
			continue
		}
		var o struct {
			Version uint16
			Tail    uint64
			Offset  uint64
		}
		if err := rlp.Decode(bytes.NewReader(meta), &o); err != nil {
			add("metadata-undecodable")
			continue
		}
		usable := uint64(len(idx) - len(idx)%indexEntrySize)
		if o.Offset < usable && o.Offset >= indexEntrySize {
			usable = o.Offset
		}
		deleted := uint64(binary.BigEndian.Uint32(idx[2:6]))
		flushed := deleted + usable/indexEntrySize - 1
		if o.Tail > flushed {
			add("virtual-tail-beyond-flushed-items")
		}
		if o.Tail > maxTail {
			maxTail = o.Tail
		}
		if deleted > maxTail {
			maxTail = deleted
		}
		if flushed < minItems {
			minItems = flushed
		}
	}
	if maxTail > minItems && len(tags) == 0 {
		// the tail persisted by one table lies above what another table retains after the crash
		add("tail-of-one-table-above-head-of-another")
	}
	sort.Strings(tags)
	return strings.Join(tags, ",")
}

// c24Eval runs one case (honouring replay selection) and files a failure under its class.
func c24Eval(r *mc.R, fd *c24Findings, c c24Case, img *vos.FS, cfg c24Config, fn func() error) {
	r.Case(c, func() error {
		tags := c24Diagnose(img, cfg) // evaluated on the crash image before recovery touches it
		if err := mc.Safely(fn); err != nil {
			fd.add(c, err, tags)
		}
		return nil
	})
}

type c24Params struct {
	full       bool // full (R,L) grid for torn appends
	productCap int
	maxDev     int
	nested     bool
	cont       bool
	mergeMeta  bool
	tries      int
	post       *sync.Map
}

func c24OpList(ops []int) []string {
	out := make([]string, len(ops))
	for i, o := range ops {
		out[i] = c24OpName(o)
	}
	return out
}

// c24ExploreSeq enumerates all crash images of the last operation of ops.
func c24ExploreSeq(r *mc.R, cfg c24Config, start c24Start, ops []int, p c24Params, seen *sync.Map, fd *c24Findings) {
	runs, err := c24Variants(cfg, start, ops, p.tries, p.mergeMeta)
	if err != nil {
		fd.add(c24Case{Cfg: cfg.name, Start: start.name, Ops: c24OpList(ops), Order: "no-crash"}, fmt.Errorf("without any crash: %v", err), "")
		return
	}
	defer func() {
		for _, run := range runs {
			run.sys.close()
		}
	}()
	for _, run := range runs {
		evs := run.sys.fs.Events()
		after := run.sys.m
		for k := run.from + 1; k <= run.to; k++ {
			if r.Expired() {
				return
			}
			completed := k == run.to
			ctx := c24MakeCtx(run.before, after, completed)
			ckey := ctx.key()
			cp := run.sys.fs.CrashAt(k, p.full)
			if _, dup := seen.LoadOrStore(mc.Hash64("cp|"+cfg.name+"|"+cp.Key()+"|"+ckey), struct{}{}); dup && !r.Replaying() {
				r.Outcome("duplicate_crash_state_skipped")
				continue
			}
			pats, _ := cp.Patterns(vos.EnumOpt{ProductCap: p.productCap, MaxDev: p.maxDev})
			for pi, pt := range pats {
				img := cp.Build(pt)
				fp := img.Fingerprint()
				h := mc.Hash64(cfg.name + "|" + fp + "|" + ckey)
				if _, dup := seen.LoadOrStore(h, struct{}{}); dup && !r.Replaying() {
					img.Release()
					r.Outcome("duplicate_image_skipped")
					continue
				}
				c := c24Case{Cfg: cfg.name, Start: start.name, Ops: c24OpList(ops), Order: run.sig, K: k, Event: evs[k-1].String(), Loss: pt}
				var outcome string
				c24Eval(r, fd, c, img, cfg, func() error {
					o, err := c24Recover(img, cfg, ctx, p.cont, p.post)
					if err != nil {
						return fmt.Errorf("%v\ncrash image:\n%s", err, c24ImageDump(cp, pt))
					}
					outcome = o
					return nil
				})
				img.Release()
				r.DistinctHash(h)
				if outcome != "" {
					r.Outcome(outcome)
				}
				if pi == 0 {
					r.Sample(c)
				}
				// crash during the recovery itself (bound: one nested crash), from the two baseline images
				if p.nested && len(pt.Pick) == 0 || p.nested && c24AllLost(cp, pt) {
					c24Nest(r, cfg, cp, pt, c, ctx, p, seen, fd)
				}
			}
		}
	}
}

func c24AllLost(cp *vos.CrashPoint, pt vos.Pattern) bool {
	if pt.NS != 0 && pt.NS != len(cp.Pending) {
		return false
	}
	for _, l := range pt.Pick {
		if l != "lost" {
			return false
		}
	}
	ns := cp.Namespace(pt.NS)
	for n, ino := range ns {
		if cp.LostIndex(ino) != 0 {
			if _, ok := pt.Pick[n]; !ok {
				return false
			}
		}
	}
	return true
}

func c24ImageDump(cp *vos.CrashPoint, pt vos.Pattern) string {
	img := cp.Build(pt)
	defer img.Release()
	return img.Dump() + "sync state at the crash point:\n" + cp.Describe()
}

// c24Nest crashes the recovery of one image at every event and recovers again.
func c24Nest(r *mc.R, cfg c24Config, cp *vos.CrashPoint, pt vos.Pattern, outer c24Case, ctx *c24Ctx, p c24Params, seen *sync.Map, fd *c24Findings) {
	type rec struct {
		fs  *vos.FS
		n   int
		sig string
	}
	recs := map[string]rec{}
	tries := 3
	if r.Replaying() {
		tries = 24
	}
	for i := 0; i < tries; i++ {
		img := cp.Build(pt)
		var f *Freezer
		err := mc.Safely(func() (e error) { f, e = c24Open(img, cfg); return })
		if err != nil {
			img.Release()
			return // already reported by the first-level case
		}
		n := img.NumEvents() // events of the recovery, before Close (a crashed process does not close)
		sig := c24Sig(img.Events()[:n])
		f.Close()
		if _, ok := recs[sig]; ok {
			img.Release()
			continue
		}
		recs[sig] = rec{img, n, sig}
		if len(recs) >= 2 {
			break
		}
	}
	sigs := make([]string, 0, len(recs))
	for s := range recs {
		sigs = append(sigs, s)
	}
	sort.Strings(sigs)
	for _, s := range sigs {
		rc := recs[s]
		evs := rc.fs.Events()
		for k2 := 1; k2 <= rc.n; k2++ {
			cp2 := rc.fs.CrashAt(k2, false)
			pats, _ := cp2.Patterns(vos.EnumOpt{ProductCap: 0, MaxDev: 0})
			for _, pt2 := range pats {
				img2 := cp2.Build(pt2)
				h := mc.Hash64(cfg.name + "|" + img2.Fingerprint() + "|" + ctx.key())
				if _, dup := seen.LoadOrStore(h, struct{}{}); dup && !r.Replaying() {
					img2.Release()
					r.Outcome("duplicate_image_skipped")
					continue
				}
				c := outer
				c.Nested = &c24Nested{Order: rc.sig, K: k2, Event: evs[k2-1].String(), Loss: pt2}
				var outcome string
				c24Eval(r, fd, c, img2, cfg, func() error {
					o, err := c24Recover(img2, cfg, ctx, p.cont, p.post)
					if err != nil {
						return fmt.Errorf("after a second crash during recovery: %v\nfirst crash image:\n%s\nsecond crash image:\n%s", err, c24ImageDump(cp, pt), c24ImageDump(cp2, pt2))
					}
					outcome = o
					return nil
				})
				img2.Release()
				r.DistinctHash(h)
				if outcome != "" {
					r.Outcome("nested_" + outcome)
				}
			}
		}
		rc.fs.Release()
	}
}

// c24Sequences lists every enabled operation sequence of length <= depth from the start
// state; the first operation is drawn from first, the later ones from rest. The
// placeholders c24AllTH / c24AllTT expand to a truncation at every item index.
func c24Sequences(cfg c24Config, start c24Start, first, rest []int, depth int) [][]int {
	var out [][]int
	expand := func(m *c24Model, alphabet []int) []int {
		var ops []int
		for _, op := range alphabet {
			switch op {
			case c24AllTH:
				for n := m.tail; n < m.head; n++ {
					ops = append(ops, c24THAbsBase+int(n))
				}
			case c24AllTT:
				for n := m.tail + 1; n <= m.head; n++ {
					ops = append(ops, c24TTAbsBase+int(n))
				}
			default:
				ops = append(ops, op)
			}
		}
		return ops
	}
	var rec func(m *c24Model, seq []int)
	rec = func(m *c24Model, seq []int) {
		out = append(out, append([]int{}, seq...))
		if len(seq) == depth {
			return
		}
		alphabet := rest
		if len(seq) == 0 {
			alphabet = first
		}
		for _, op := range expand(m, alphabet) {
			if !m.enabled(op, cfg) {
				continue
			}
			m2 := m.clone()
			c24ModelApply(m2, op)
			rec(m2, append(seq, op))
		}
	}
	m0 := &c24Model{latest: map[uint64]c24Val{}}
	for _, op := range start.prefix {
		c24ModelApply(m0, op)
	}
	rec(m0, nil)
	sort.SliceStable(out, func(i, j int) bool { return len(out[i]) < len(out[j]) })
	return out
}

// c24ModelApply advances only the counters needed for enabledness.
func c24ModelApply(m *c24Model, op int) {
	switch {
	case op >= c24TTAbsBase:
		m.tail = uint64(op - c24TTAbsBase)
		if m.head < m.tail {
			m.head = m.tail
		}
		return
	case op >= c24THAbsBase:
		m.head = uint64(op - c24THAbsBase)
		return
	}
	switch op {
	case c24OpApp1:
		m.head++
	case c24OpApp2:
		m.head += 2
	case c24OpApp8:
		m.head += 8
	case c24OpTH1:
		m.head--
	case c24OpTH2:
		m.head -= 2
	case c24OpTT1:
		m.tail++
	case c24OpTT2:
		m.tail += 2
	case c24OpTTOver:
		m.tail = m.head + 1
		m.head = m.tail
	}
}

// c24ReplayTarget returns the case of the replay file (VERIF_REPLAY), if any, so that a
// replay only harvests the one sequence it needs.
func c24ReplayTarget() *c24Case {
	p := os.Getenv("VERIF_REPLAY")
	if p == "" {
		return nil
	}
	raw, err := os.ReadFile(p)
	if err != nil {
		return nil
	}
	var f struct {
		Replay *c24Case `json:"replay"`
	}
	if json.Unmarshal(raw, &f) != nil {
		return nil
	}
	return f.Replay
}

// c24Space is one enumerated family of histories.
type c24Space struct {
	cfg    c24Config
	start  c24Start
	first  []int // alphabet of the first operation
	rest   []int // alphabet of the later operations
	minLen int
	depth  int
}

func c24RunSpace(r *mc.R, sp c24Space, p c24Params, seen *sync.Map, fd *c24Findings) {
	cfg := sp.cfg
	all := c24Sequences(cfg, sp.start, sp.first, sp.rest, sp.depth)
	var seqs [][]int
	for _, sq := range all {
		if len(sq) >= sp.minLen && (len(sq) > 0 || len(sp.start.prefix) == 0) {
			seqs = append(seqs, sq)
		}
	}
	if tgt := c24ReplayTarget(); tgt != nil && r.Replaying() {
		var keep [][]int
		for _, sq := range seqs {
			if cfg.name == tgt.Cfg && sp.start.name == tgt.Start && fmt.Sprint(c24OpList(sq)) == fmt.Sprint(tgt.Ops) {
				keep = append(keep, sq)
			}
		}
		seqs = keep
	}
	sname := sp.start.name
	if sname == "" {
		sname = "empty"
	}
	stage := fmt.Sprintf("%s/%s.len%d-%d", cfg.name, sname, sp.minLen, sp.depth)
	r.Bound(stage+".sequences", len(seqs))
	r.Bound(stage+".torn_grid_full", p.full)
	r.Bound(stage+".nested", p.nested)
	r.Bound(stage+".alphabet_first_op", c24OpList(sp.first))
	if sp.depth > 1 {
		r.Bound(stage+".alphabet_later_ops", c24OpList(sp.rest))
	}
	// longest sequences first: better load balance
	order := make([]int, len(seqs))
	for i := range order {
		order[i] = len(seqs) - 1 - i
	}
	r.Parallel(len(seqs), func(i int) {
		c24ExploreSeq(r, cfg, sp.start, seqs[order[i]], p, seen, fd)
	})
}

// c24TornMetaProbe is informational (it never raises a violation): it drops the assumption
// that the two write calls of a *.meta rewrite (rlp.Encode emits the list header and the
// payload separately) are one atomic unit and stops the process between them, with nothing
// else lost, on a history where the encoded length of the metadata changes (flush offset
// crossing 127/128 bytes in both directions). The outcome histogram records whether
// NewFreezer can still open the directory.
func c24TornMetaProbe(r *mc.R) {
	cfg := c24Configs[1]
	s, err := c24NewSys(cfg, false)
	if err != nil {
		r.Outcome("INFO torn-meta probe: setup failed")
		return
	}
	defer s.close()
	sizes := make([]int, 22)
	for i := range sizes {
		sizes[i] = 2
	}
	if err := s.appendItems(sizes); err != nil {
		return
	}
	if err := s.f.SyncAncient(); err != nil {
		return
	}
	if _, err := s.f.TruncateHead(1); err != nil {
		return
	}
	evs := s.fs.Events()
	for k := 1; k <= len(evs); k++ {
		e := evs[k-1]
		if e.Kind != vos.EvWrite || !c24IsMeta(e.Name) {
			continue
		}
		cp := s.fs.CrashAt(k, false)
		img := cp.Build(vos.Pattern{NS: len(cp.Pending)})
		tag := c24Diagnose(img, cfg)
		err := mc.Safely(func() error {
			f, err := c24Open(img, cfg)
			if err == nil {
				f.Close()
			}
			return err
		})
		r.Eval(1)
		switch {
		case err == nil:
			r.Outcome("INFO torn-meta probe (process stops after a *.meta write call, nothing lost): reopen ok")
		default:
			r.Outcome(fmt.Sprintf("INFO torn-meta probe (process stops between the two write calls of a *.meta rewrite, nothing lost) [%s]: NewFreezer fails: %s", tag, c24Class(err)))
		}
		img.Release()
	}
}

func TestVerif_C24(t *testing.T) {
	mc.Run(t, "C24", func(r *mc.R) {
		r.Rule("every enabled operation sequence up to the depth bound over {append 1 small, append medium+large, SyncAncient, TruncateHead(-1/-2), " +
			"TruncateTail(+1/+2/beyond head), clean reopen} on a real Freezer with maxTableSize=16 (compressed + raw tables, with and without tail group) is run once on the " +
			"recording file system; for every file-system event of the last operation (both table iteration orders) and every loss pattern " +
			"(per file: any prefix of the unsynced operations, unsynced appends cut at every byte with or without zero-filled extension, metadata rewrite old-or-new; " +
			"pending create/remove/rename kept as any prefix) the image is materialised, reopened with NewFreezer and checked; distinct = distinct (image, model context) pairs")
		r.Assume("crash model as in vos/crash.go: file data up to the last fsync of that file is durable; later writes/truncates of a file survive as any prefix, appends torn at any byte, optionally zero-extended; files are independent")
		r.Assume("the freezer's own assumption is honoured: the in-place rewrite of the <=32 byte *.meta file (two write calls issued by rlp.Encode) is atomic, old or new")
		r.Assume("namespace operations are ordered and durable at the next fsync of any file/directory (journalled metadata); a crash keeps any prefix of the pending ones; rename is atomic")
		r.Assume("reference model: latest payload appended per number, [lo,hi) covered by a completed SyncAncient/clean Close and not truncated since; payload bytes are never zero")
		seen := &sync.Map{}
		fd := &c24Findings{class: map[string]*c24Finding{}}
		defer fd.report(r)
		p := c24Params{full: false, productCap: 100, maxDev: 1, nested: true, cont: true, mergeMeta: true, tries: 24, post: &sync.Map{}}
		r.Bound("maxTableSize", c24MaxTable)
		r.Bound("nested_crash", "recovery of the all-kept and all-lost images is itself crashed at every event (baseline loss patterns), bound 1")
		full := []int{c24OpApp1, c24OpApp2, c24OpSync, c24OpTH1, c24OpTH2, c24OpTT1, c24OpTT2, c24OpTTOver, c24OpReopen}
		if !r.Replaying() {
			c24TornMetaProbe(r)
		}
		// histories from the pre-populated start states: the first operation ranges over the
		// whole alphabet with head and tail truncation at EVERY item index (file-aligned and
		// unaligned targets), the second one over a small continuation alphabet
		ext := []int{c24OpApp1, c24OpApp2, c24OpSync, c24AllTH, c24AllTT, c24OpReopen}
		cont := []int{c24OpApp1, c24OpApp2, c24OpSync, c24OpTH1, c24OpTT1, c24OpReopen}
		r.Bound("start_states", []string{"empty", c24StartMulti.name + " (8 four-byte items appended in one batch, SyncAncient: table a 4 data files x 2 items, table b 3 files x 3/3/2 items)",
			c24StartTail.name + " (the same, then TruncateTail(3) + SyncAncient: item 2 hidden inside the tail file of table a, file-aligned in table b)"})
		if r.Quick() {
			r.Bound("loss_patterns", "torn appends cut at every byte R, plus zero-filled extension to the written end when R is the start of an unsynced write; full product per crash point when <= 100 images, else all-kept/all-lost baselines with one deviating file")
			c24RunSpace(r, c24Space{c24Configs[0], c24StartEmpty, full, full, 0, 3}, p, seen, fd)
			c24RunSpace(r, c24Space{c24Configs[1], c24StartEmpty, full, full, 0, 3}, p, seen, fd)
			ps := p
			ps.nested = false
			for _, st := range []c24Start{c24StartMulti, c24StartTail} {
				c24RunSpace(r, c24Space{c24Configs[0], st, ext, cont, 1, 2}, ps, seen, fd)
				c24RunSpace(r, c24Space{c24Configs[1], st, ext, cont, 1, 2}, ps, seen, fd)
			}
			return
		}
		// thorough stage 1: histories <= 3 with the complete (R,L) grid and a larger product cap, plus a chain-like 3-table layout
		r.Bound("loss_patterns", "stage 1 (empty start, len<=3): torn appends cut at every byte R, zero extension to every L, full product when <= 3000 images; stage 2 (pre-populated starts, len<=2, every truncation target in both positions) and stage 3 (empty start, len 4): as quick")
		p1 := p
		p1.full, p1.productCap = true, 3000
		c24RunSpace(r, c24Space{c24Configs[0], c24StartEmpty, full, full, 0, 3}, p1, seen, fd)
		c24RunSpace(r, c24Space{c24Configs[1], c24StartEmpty, full, full, 0, 3}, p1, seen, fd)
		c3 := []int{c24OpApp1, c24OpApp2, c24OpSync, c24OpTH1, c24OpTT1, c24OpTT2}
		c24RunSpace(r, c24Space{c24Configs[2], c24StartEmpty, c3, c3, 0, 3}, p1, seen, fd)
		// thorough stage 2: pre-populated start states, truncation at every index in both positions, nested crashes on
		for _, st := range []c24Start{c24StartMulti, c24StartTail} {
			for _, cfg := range c24Configs {
				c24RunSpace(r, c24Space{cfg, st, ext, ext, 1, 2}, p, seen, fd)
			}
		}
		// thorough stage 3: histories of length 4 from the empty freezer with the quick loss patterns
		c24RunSpace(r, c24Space{c24Configs[0], c24StartEmpty, full, full, 4, 4}, p, seen, fd)
		c24RunSpace(r, c24Space{c24Configs[1], c24StartEmpty, full, full, 4, 4}, p, seen, fd)
	})
}
