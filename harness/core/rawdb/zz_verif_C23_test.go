//go:build verif

package rawdb

import (
	"bytes"
	"fmt"
	"os"
	"path/filepath"
	"sort"
	"strings"
	"sync"
	"testing"

	"github.com/ethereum/go-ethereum/ethdb"
	"github.com/ethereum/go-ethereum/ethdb/leveldb"
	"github.com/ethereum/go-ethereum/ethdb/memorydb"
	"github.com/ethereum/go-ethereum/ethdb/pebble"
	"github.com/ethereum/go-ethereum/internal/verif/mc"
)

// ---- reference model: a plain map, a pending batch as an op list, an iterator as a snapshot ----------

type c23Bop struct {
	kind       string // put del delrange
	k, v       string
	s, e       string
	sNil, eNil bool
}

type c23Model struct {
	store map[string]string
	batch []c23Bop
	iter  []string // remaining "k=v" of the open iterator; nil = none open
	open  bool
}

func (m *c23Model) clone() *c23Model {
	n := &c23Model{store: map[string]string{}, open: m.open}
	for k, v := range m.store {
		n.store[k] = v
	}
	n.batch = append(n.batch, m.batch...)
	n.iter = append(n.iter, m.iter...)
	return n
}

func c23InRange(k string, s, e string, sNil, eNil bool) bool {
	if !sNil && k < s {
		return false
	}
	if !eNil && k >= e {
		return false
	}
	return true
}

func (m *c23Model) delRange(s, e string, sNil, eNil bool) {
	for k := range m.store {
		if c23InRange(k, s, e, sNil, eNil) {
			delete(m.store, k)
		}
	}
}

func (m *c23Model) apply(b c23Bop) {
	switch b.kind {
	case "put":
		m.store[b.k] = b.v
	case "del":
		delete(m.store, b.k)
	case "delrange":
		m.delRange(b.s, b.e, b.sNil, b.eNil)
	}
}

func (m *c23Model) sorted(prefix, start string) []string {
	var keys []string
	for k := range m.store {
		if strings.HasPrefix(k, prefix) && k >= prefix+start {
			keys = append(keys, k)
		}
	}
	sort.Strings(keys)
	out := make([]string, len(keys))
	for i, k := range keys {
		out[i] = fmt.Sprintf("%x=%x", k, m.store[k])
	}
	return out
}

func (m *c23Model) key() string {
	var sb strings.Builder
	for _, kv := range m.sorted("", "") {
		sb.WriteString(kv + ",")
	}
	sb.WriteString("|")
	for _, b := range m.batch {
		fmt.Fprintf(&sb, "%s:%x:%x:%x:%x:%v:%v,", b.kind, b.k, b.v, b.s, b.e, b.sNil, b.eNil)
	}
	fmt.Fprintf(&sb, "|%v|%s", m.open, strings.Join(m.iter, ","))
	return sb.String()
}

// ---- backends under test -------------------------------------------------------------------------------

type c23Backend struct {
	name  string
	db    ethdb.KeyValueStore
	batch ethdb.Batch
	iter  ethdb.Iterator
	// leveldb's batch.DeleteRange is a documented fallback (scans the database when called): it is checked
	// against its own model of that fallback and its divergence from the common semantics is a known finding.
	alt *c23Model
}

type c23Set struct {
	backends []*c23Backend
	raw      []ethdb.KeyValueStore // the underlying stores of the table views (to check prefix confinement)
	closers  []func()
}

var c23Pool struct {
	mu   sync.Mutex
	free []*c23Set
	n    int
	dir  string
}

const c23Prefix = "tbl-"

func c23NewSet(dir string, id int) (*c23Set, error) {
	s := &c23Set{}
	mem := memorydb.New()
	pdir := filepath.Join(dir, fmt.Sprintf("pebble-%d", id))
	ldir := filepath.Join(dir, fmt.Sprintf("leveldb-%d", id))
	ptdir := filepath.Join(dir, fmt.Sprintf("pebbletbl-%d", id))
	peb, err := pebble.New(pdir, 16, 16, "", false)
	if err != nil {
		return nil, err
	}
	lvl, err := leveldb.New(ldir, 16, 16, "", false)
	if err != nil {
		return nil, err
	}
	pebT, err := pebble.New(ptdir, 16, 16, "", false)
	if err != nil {
		return nil, err
	}
	memT := memorydb.New()
	s.backends = []*c23Backend{
		{name: "memorydb", db: mem},
		{name: "pebble", db: peb},
		{name: "leveldb", db: lvl},
		{name: "table(memorydb)", db: NewTable(NewDatabase(memT), c23Prefix)},
		{name: "table(pebble)", db: NewTable(NewDatabase(pebT), c23Prefix)},
	}
	s.raw = []ethdb.KeyValueStore{nil, nil, nil, memT, pebT}
	s.closers = []func(){func() { peb.Close() }, func() { lvl.Close() }, func() { pebT.Close() }}
	return s, nil
}

func c23Get() *c23Set {
	c23Pool.mu.Lock()
	defer c23Pool.mu.Unlock()
	if n := len(c23Pool.free); n > 0 {
		s := c23Pool.free[n-1]
		c23Pool.free = c23Pool.free[:n-1]
		return s
	}
	c23Pool.n++
	s, err := c23NewSet(c23Pool.dir, c23Pool.n)
	if err != nil {
		panic(err)
	}
	return s
}

func c23Put(s *c23Set) {
	for _, b := range s.backends {
		if b.iter != nil {
			b.iter.Release()
			b.iter = nil
		}
	}
	c23Pool.mu.Lock()
	c23Pool.free = append(c23Pool.free, s)
	c23Pool.mu.Unlock()
}

// reset brings every backend to the given initial contents (deleting whatever the previous history left, which also
// leaves tombstones behind in the LSM engines: states are reached from non-initial engine states).
func (s *c23Set) reset(init map[string]string) {
	for i, b := range s.backends {
		if b.iter != nil {
			b.iter.Release()
			b.iter = nil
		}
		if b.batch != nil {
			b.batch.Reset()
		}
		it := b.db.NewIterator(nil, nil)
		var keys [][]byte
		for it.Next() {
			keys = append(keys, bytes.Clone(it.Key()))
		}
		it.Release()
		for _, k := range keys {
			b.db.Delete(k)
		}
		if s.raw[i] != nil {
			// the sentinels outside the table prefix
			s.raw[i].Put([]byte("tbk"), []byte("below"))
			s.raw[i].Put([]byte("tbl."), []byte("above"))
		}
		for k, v := range init {
			b.db.Put([]byte(k), []byte(v))
		}
		b.alt = nil
		if b.name == "leveldb" {
			b.alt = &c23Model{store: map[string]string{}}
			for k, v := range init {
				b.alt.store[k] = v
			}
		}
	}
}

// ---- the system under exploration -------------------------------------------------------------------------

type c23Op struct {
	name string
	kind string
	k, v string
	s, e string
	sNil bool
	eNil bool
}

type c23Sys struct {
	set   *c23Set
	m     *c23Model
	ops   []c23Op
	keys  []string
	known *c23Known
}

type c23Known struct {
	mu      sync.Mutex
	witness map[string]string
}

func (k *c23Known) note(id, witness string) {
	k.mu.Lock()
	if _, ok := k.witness[id]; !ok {
		k.witness[id] = witness
	}
	k.mu.Unlock()
}

func (s *c23Sys) Enabled(op int) bool {
	o := s.ops[op]
	switch o.kind {
	case "bwrite", "breset", "breplay":
		return len(s.m.batch) > 0
	case "iopen":
		return !s.m.open
	case "idrain":
		return s.m.open
	}
	return true
}

func (s *c23Sys) Key() string { return s.m.key() }

// c23Recorder is the writer a batch is replayed into. Replay is judged by its EFFECT: the replayed operations are
// applied to a probe store in which every alphabet key is present, and the result is compared with the model's batch
// applied to the same probe (so a nil range end and the backend's "maximum key" stand-in are equivalent).
type c23Recorder struct {
	ops   []string
	probe *c23Model
}

func c23Probe(keys []string) *c23Model {
	m := &c23Model{store: map[string]string{}}
	for _, k := range keys {
		m.store[k] = "probe"
	}
	return m
}

func (r *c23Recorder) Put(k, v []byte) error {
	r.ops = append(r.ops, fmt.Sprintf("put %x=%x", k, v))
	r.probe.store[string(k)] = string(v)
	return nil
}
func (r *c23Recorder) Delete(k []byte) error {
	r.ops = append(r.ops, fmt.Sprintf("del %x", k))
	delete(r.probe.store, string(k))
	return nil
}
func (r *c23Recorder) DeleteRange(s, e []byte) error {
	r.ops = append(r.ops, fmt.Sprintf("delrange %x..%x", s, e))
	r.probe.delRange(string(s), string(e), s == nil, e == nil)
	return nil
}

// c23Call2 / c23Call1 hand the operation buffers the caller owns and overwrite them right after the call returns, as a
// caller re-using its key / value slices does: a store or batch that keeps a reference instead of a copy then commits
// (or replays) something else than it was given.
func c23Call2(f func(k, v []byte) error, k, v string) error {
	kb, vb := []byte(k), []byte(v)
	err := f(kb, vb)
	for i := range kb {
		kb[i] ^= 0x5a
	}
	for i := range vb {
		vb[i] ^= 0x5a
	}
	return err
}

func c23Call1(f func(k []byte) error, k string) error {
	kb := []byte(k)
	err := f(kb)
	for i := range kb {
		kb[i] ^= 0x5a
	}
	return err
}

func c23Bytes(s string, isNil bool) []byte {
	if isNil {
		return nil
	}
	return []byte(s)
}

func (s *c23Sys) Apply(op int) error {
	o := s.ops[op]
	m := s.m
	// 1. model
	var wantDrain []string
	switch o.kind {
	case "put":
		m.store[o.k] = o.v
	case "del":
		delete(m.store, o.k)
	case "delrange":
		m.delRange(o.s, o.e, o.sNil, o.eNil)
	case "bput":
		m.batch = append(m.batch, c23Bop{kind: "put", k: o.k, v: o.v})
	case "bdel":
		m.batch = append(m.batch, c23Bop{kind: "del", k: o.k})
	case "bdelrange":
		m.batch = append(m.batch, c23Bop{kind: "delrange", s: o.s, e: o.e, sNil: o.sNil, eNil: o.eNil})
	case "bwrite":
		for _, b := range m.batch {
			m.apply(b)
		}
		m.batch = nil // geth resets a batch after writing it; the harness does the same
	case "breset":
		m.batch = nil
	case "breplay":
		// no model change; checked per backend below
	case "iopen":
		m.iter = m.sorted(o.k, o.s)
		m.open = true
	case "idrain":
		wantDrain = m.iter
		m.iter, m.open = nil, false
	}
	// 2. every backend
	for bi, b := range s.set.backends {
		ref := m
		var err error
		switch o.kind {
		case "put":
			err = c23Call2(b.db.Put, o.k, o.v)
			if b.alt != nil {
				b.alt.store[o.k] = o.v
			}
		case "del":
			err = c23Call1(b.db.Delete, o.k)
			if b.alt != nil {
				delete(b.alt.store, o.k)
			}
		case "delrange":
			err = b.db.DeleteRange(c23Bytes(o.s, o.sNil), c23Bytes(o.e, o.eNil))
			if b.alt != nil {
				b.alt.delRange(o.s, o.e, o.sNil, o.eNil)
			}
		case "bput", "bdel", "bdelrange":
			if b.batch == nil {
				b.batch = b.db.NewBatch()
			}
			switch o.kind {
			case "bput":
				err = c23Call2(b.batch.Put, o.k, o.v)
				if b.alt != nil {
					b.alt.batch = append(b.alt.batch, c23Bop{kind: "put", k: o.k, v: o.v})
				}
			case "bdel":
				err = c23Call1(b.batch.Delete, o.k)
				if b.alt != nil {
					b.alt.batch = append(b.alt.batch, c23Bop{kind: "del", k: o.k})
				}
			case "bdelrange":
				err = b.batch.DeleteRange(c23Bytes(o.s, o.sNil), c23Bytes(o.e, o.eNil))
				if b.alt != nil {
					// documented fallback: one Delete per key found in the database at call time
					var ks []string
					for k := range b.alt.store {
						if c23InRange(k, o.s, o.e, o.sNil, o.eNil) {
							ks = append(ks, k)
						}
					}
					sort.Strings(ks)
					for _, k := range ks {
						b.alt.batch = append(b.alt.batch, c23Bop{kind: "del", k: k})
					}
				}
			}
		case "bwrite":
			err = b.batch.Write()
			b.batch.Reset()
			if b.alt != nil {
				for _, x := range b.alt.batch {
					b.alt.apply(x)
				}
				b.alt.batch = nil
			}
		case "breset":
			b.batch.Reset()
			if b.alt != nil {
				b.alt.batch = nil
			}
		case "breplay":
			rec := &c23Recorder{probe: c23Probe(s.keys)}
			err = b.batch.Replay(rec)
			wantProbe := c23Probe(s.keys)
			refBatch := m.batch
			if b.alt != nil {
				refBatch = b.alt.batch
			}
			for _, x := range refBatch {
				wantProbe.apply(x)
			}
			if err == nil && fmt.Sprint(rec.probe.sorted("", "")) != fmt.Sprint(wantProbe.sorted("", "")) {
				return fmt.Errorf("%s: replaying the batch [%s] onto a probe store gives %v, want %v", b.name, strings.Join(rec.ops, "; "), rec.probe.sorted("", ""), wantProbe.sorted("", ""))
			}
		case "iopen":
			b.iter = b.db.NewIterator([]byte(o.k), []byte(o.s))
			if b.alt != nil {
				b.alt.iter = b.alt.sorted(o.k, o.s)
			}
		case "idrain":
			var got []string
			for b.iter.Next() {
				got = append(got, fmt.Sprintf("%x=%x", b.iter.Key(), b.iter.Value()))
			}
			err = b.iter.Error()
			b.iter.Release()
			b.iter = nil
			want := wantDrain
			if b.alt != nil {
				want = b.alt.iter
				b.alt.iter = nil
			}
			if strings.Join(got, ",") != strings.Join(want, ",") {
				return fmt.Errorf("%s: iterator opened before the writes yielded [%s], want the snapshot at creation [%s]", b.name, strings.Join(got, ","), strings.Join(want, ","))
			}
		}
		if err != nil {
			return fmt.Errorf("%s: %s failed: %v", b.name, o.name, err)
		}
		// 3. observable agreement after every op
		if b.alt != nil {
			ref = b.alt
			if fmt.Sprint(b.alt.sorted("", "")) != fmt.Sprint(m.sorted("", "")) {
				s.known.note("leveldb-batch-deleterange-fallback", fmt.Sprintf("contents %v instead of %v", b.alt.sorted("", ""), m.sorted("", "")))
			}
		}
		for _, k := range s.keys {
			has, herr := b.db.Has([]byte(k))
			val, gerr := b.db.Get([]byte(k))
			wv, wok := ref.store[k]
			if herr != nil || has != wok {
				return fmt.Errorf("%s: Has(%x)=%v,%v want %v", b.name, k, has, herr, wok)
			}
			if wok && (gerr != nil || string(val) != wv) {
				return fmt.Errorf("%s: Get(%x)=%x,%v want %x", b.name, k, val, gerr, wv)
			}
			if !wok && gerr == nil {
				return fmt.Errorf("%s: Get(%x)=%x for an absent key, want a not-found error", b.name, k, val)
			}
		}
		it := b.db.NewIterator(nil, nil)
		var all []string
		for it.Next() {
			all = append(all, fmt.Sprintf("%x=%x", it.Key(), it.Value()))
		}
		it.Release()
		if want := ref.sorted("", ""); strings.Join(all, ",") != strings.Join(want, ",") {
			return fmt.Errorf("%s: full iteration [%s], want [%s]", b.name, strings.Join(all, ","), strings.Join(want, ","))
		}
		// table views never touch keys outside their prefix
		if raw := s.set.raw[bi]; raw != nil {
			for k, v := range map[string]string{"tbk": "below", "tbl.": "above"} {
				if got, err := raw.Get([]byte(k)); err != nil || string(got) != v {
					return fmt.Errorf("%s: key %q outside the table prefix was changed to %q (%v)", b.name, k, got, err)
				}
			}
		}
	}
	return nil
}

func c23Ops(keys []string, thorough bool) []c23Op {
	var ops []c23Op
	vals := []string{"x", ""}
	for _, k := range keys {
		for _, v := range vals {
			ops = append(ops, c23Op{name: fmt.Sprintf("put(%q,%q)", k, v), kind: "put", k: k, v: v})
		}
	}
	for _, k := range keys {
		ops = append(ops, c23Op{name: fmt.Sprintf("del(%q)", k), kind: "del", k: k})
	}
	type rg struct {
		s, e       string
		sNil, eNil bool
	}
	// {s: "a", e: ""}: an EMPTY but non-nil end is an empty range everywhere (only a nil end means "to the last key")
	ranges := []rg{{s: "a", e: "b"}, {s: "ab", e: "\xff"}, {s: "b", eNil: true}, {sNil: true, e: "ab"}, {s: "a", e: ""}, {sNil: true, eNil: true}, {s: "b", e: "a"}}
	if thorough {
		ranges = append(ranges, rg{s: "", e: "b"}, rg{s: "a", e: "ab"}, rg{s: "\xff", eNil: true})
	}
	rname := func(r rg) string {
		s, e := fmt.Sprintf("%q", r.s), fmt.Sprintf("%q", r.e)
		if r.sNil {
			s = "nil"
		}
		if r.eNil {
			e = "nil"
		}
		return s + "," + e
	}
	for _, r := range ranges {
		ops = append(ops, c23Op{name: "delrange(" + rname(r) + ")", kind: "delrange", s: r.s, e: r.e, sNil: r.sNil, eNil: r.eNil})
	}
	for _, k := range keys {
		ops = append(ops, c23Op{name: fmt.Sprintf("batch.put(%q,x)", k), kind: "bput", k: k, v: "x"})
	}
	for _, k := range keys {
		ops = append(ops, c23Op{name: fmt.Sprintf("batch.del(%q)", k), kind: "bdel", k: k})
	}
	for _, r := range ranges[:5] {
		ops = append(ops, c23Op{name: "batch.delrange(" + rname(r) + ")", kind: "bdelrange", s: r.s, e: r.e, sNil: r.sNil, eNil: r.eNil})
	}
	ops = append(ops, c23Op{name: "batch.write", kind: "bwrite"}, c23Op{name: "batch.reset", kind: "breset"}, c23Op{name: "batch.replay", kind: "breplay"})
	// prefixes ending in 0xff (whose exclusive upper bound needs a carry), an all-0xff prefix and a start beyond the prefix range
	for _, ps := range [][2]string{{"", ""}, {"a", ""}, {"a", "b"}, {"", "ab"}, {"a\xff", ""}, {"\xff", ""}, {"a", "\xff"}} {
		ops = append(ops, c23Op{name: fmt.Sprintf("iter.open(prefix=%q,start=%q)", ps[0], ps[1]), kind: "iopen", k: ps[0], s: ps[1]})
	}
	ops = append(ops, c23Op{name: "iter.drain", kind: "idrain"})
	return ops
}

func TestVerif_C23(t *testing.T) {
	mc.Run(t, "C23", func(r *mc.R) {
		dir := os.Getenv("VERIF_SCRATCH")
		if dir == "" {
			dir = t.TempDir()
		}
		c23Pool.dir = dir
		keys := []string{"a", "a\xff", "ab", "b", "\xff"}
		thorough := r.Thorough()
		ops := c23Ops(keys, thorough)
		names := make([]string, len(ops))
		for i, o := range ops {
			names[i] = o.name
		}
		known := &c23Known{witness: map[string]string{}}
		r.Rule("explicit-state BFS over operation sequences (puts, deletes, range deletions incl. nil bounds and inverted ranges, batch put/delete/range-delete/write/reset/replay, " +
			"snapshot iterators opened before and drained after writes) applied in lock-step to memorydb, pebble, leveldb and prefixed table views over memorydb and pebble; " +
			"after every operation Has/Get of every key and a full iteration of every backend are compared with a plain-map model; states de-duplicated on the model state " +
			"(contents, pending batch, open iterator snapshot); three start states (empty; 5 keys; 5 keys with a full-range iterator already open)")
		r.Assume("leveldb's batch.DeleteRange is a documented fallback (deletes the keys present when it is called); it is checked against a model of that fallback, and its divergence from the other backends is reported as a known finding")
		starts := []map[string]string{{}, {"a": "1", "ab": "2", "\xff": "3", "b": "4", "a\xff": "5"}}
		type expl struct {
			name  string
			start int
			depth int
			iter  bool // the start state additionally has a full-range iterator open (snapshot taken before every explored op)
		}
		iopenAll := -1
		for i, o := range ops {
			if o.kind == "iopen" && o.k == "" && o.s == "" {
				iopenAll = i
			}
		}
		// quick: empty start to depth 3, populated start to depth 2. thorough: both to depth 3 first (these complete),
		// then the empty start to depth 4 for as long as the budget lasts (on-disk engines: ~1 ms per transition), so the
		// completed bound is reported honestly when the last exploration is cut by the deadline.
		// kv-start1-iter: populated store with an iterator already open, so that "overwrite / delete a key the open iterator
		// still has to yield, then drain" is within depth 2 (same-length overwrites included: the stored values have length 1).
		plan := []expl{{"kv-start0", 0, 3, false}, {"kv-start1", 1, 2, false}, {"kv-start1-iter", 1, 2, true}}
		if thorough {
			plan = []expl{{"kv-start0", 0, 3, false}, {"kv-start1", 1, 3, false}, {"kv-start1-iter", 1, 3, true}, {"kv-start0-depth4", 0, 4, false}}
		}
		for _, e := range plan {
			init := starts[e.start]
			r.Explore(mc.Config{
				Name:  e.name,
				Ops:   names,
				Depth: e.depth,
				New: func() mc.Sys {
					set := c23Get()
					set.reset(init)
					m := &c23Model{store: map[string]string{}}
					for k, v := range init {
						m.store[k] = v
					}
					sys := &c23Sys{set: set, m: m, ops: ops, keys: keys, known: known}
					if e.iter {
						if err := sys.Apply(iopenAll); err != nil {
							panic("C23 start state: " + err.Error())
						}
					}
					return sys
				},
				Close: func(s mc.Sys) { c23Put(s.(*c23Sys).set) },
			})
			if r.Expired() {
				break
			}
		}
		for id, w := range known.witness {
			r.Violation(id, "leveldb batch.DeleteRange deletes the keys that are in the database when it is CALLED (fallback implementation), "+
				"not the keys in range when the batch is written: "+w, nil)
		}
		c23Pool.mu.Lock()
		for _, s := range c23Pool.free {
			// release whatever the last explored history left open before closing the engines
			for _, b := range s.backends {
				if b.iter != nil {
					b.iter.Release()
					b.iter = nil
				}
				if b.batch != nil {
					b.batch.Reset()
					b.batch.Close()
					b.batch = nil
				}
			}
			for _, c := range s.closers {
				// engine teardown is not part of the property: pebble's Close panics ("element has outstanding
				// references") now and then when a background job still holds a table reader while an exploration
				// was cut by the deadline; the directories are temporary, so a failed Close is only counted.
				func() {
					defer func() {
						if p := recover(); p != nil {
							r.Outcome("teardown:engine-close-panicked")
						}
					}()
					c()
				}()
			}
		}
		c23Pool.free = nil
		c23Pool.mu.Unlock()
	})
}
