//go:build verif

package rawdb

// C25 — Chain data is unchanged by migration into the freezer.
//
// Engine E1+E3: every block tree with <= N non-genesis blocks (each block's parent is
// any earlier block) x every finalized height is written with the rawdb accessors
// into a recording key-value store (internal/verif/crashkv); rawdb.Open attaches the
// real chain freezer running on the recording file system (internal/verif/vos) and
// the real background freeze cycle migrates the finalized segment. The cycle runs
// once to completion; then every crash point of the merged KV/FS event order x KV
// loss (any prefix of the unsynced batches) x FS loss pattern is materialised,
// reopened with the real rawdb.Open, and every chain accessor is compared with what
// it returned before freezing.

import (
	"bytes"
	"encoding/binary"
	"encoding/json"
	"fmt"
	"math/big"
	"os"
	"regexp"
	"sort"
	"strings"
	"sync"
	"testing"

	"github.com/ethereum/go-ethereum/common"
	"github.com/ethereum/go-ethereum/core/types"
	"github.com/ethereum/go-ethereum/crypto"
	"github.com/ethereum/go-ethereum/ethdb"
	"github.com/ethereum/go-ethereum/ethdb/memorydb"
	"github.com/ethereum/go-ethereum/internal/verif/crashkv"
	"github.com/ethereum/go-ethereum/internal/verif/mc"
	"github.com/ethereum/go-ethereum/internal/verif/vos"
	"github.com/ethereum/go-ethereum/params"
	"github.com/ethereum/go-ethereum/rlp"
)

var c25Key, _ = crypto.HexToECDSA("b71c71a67e1177ad4e901695e1b4b9ee17ae16c6668d313eac2f96dbcda3f291")

// ---- chains -------------------------------------------------------------------

type c25Block struct {
	idx      int // 0 = genesis
	parent   int
	number   uint64
	block    *types.Block
	receipts types.Receipts
	canon    bool
}

type c25Chain struct {
	parents []int // parents[i-1] = parent index of block i (i >= 1)
	blocks  []*c25Block
	canon   []int // canon[n] = index of the canonical block at height n
	final   uint64
}

func c25Build(parents []int, final uint64) *c25Chain {
	c := &c25Chain{parents: parents, final: final}
	gen := &types.Header{Number: big.NewInt(0), Extra: []byte("c25-genesis"), Difficulty: big.NewInt(1), GasLimit: 30_000_000}
	mk := func(idx int, h *types.Header) *c25Block {
		tx := types.MustSignNewTx(c25Key, types.LatestSigner(params.TestChainConfig), &types.LegacyTx{Nonce: uint64(idx), To: &common.Address{0xc2, 0x5, byte(idx)}, Value: big.NewInt(int64(idx) + 1), Gas: 21000, GasPrice: big.NewInt(1)})
		blk := types.NewBlockWithHeader(h).WithBody(types.Body{Transactions: []*types.Transaction{tx}})
		rc := &types.Receipt{Type: types.LegacyTxType, Status: types.ReceiptStatusSuccessful, CumulativeGasUsed: 21000 + uint64(idx), Logs: []*types.Log{{Address: common.Address{byte(idx)}, Topics: []common.Hash{{byte(idx)}}, Data: []byte{byte(idx), 1}}}}
		return &c25Block{idx: idx, number: h.Number.Uint64(), block: blk, receipts: types.Receipts{rc}}
	}
	g := mk(0, gen)
	g.parent = -1
	c.blocks = append(c.blocks, g)
	for i, p := range parents {
		pb := c.blocks[p]
		h := &types.Header{Number: new(big.Int).SetUint64(pb.number + 1), ParentHash: pb.block.Hash(), Extra: []byte{0xc2, 0x25, byte(i + 1)}, Difficulty: big.NewInt(1), GasLimit: 30_000_000, Time: uint64(12 * (i + 1))}
		b := mk(i+1, h)
		b.parent = p
		c.blocks = append(c.blocks, b)
	}
	// canonical chain: the highest block, ties broken by the lowest index
	tip := 0
	for _, b := range c.blocks {
		if b.number > c.blocks[tip].number {
			tip = b.idx
		}
	}
	c.canon = make([]int, c.blocks[tip].number+1)
	for i := tip; i >= 0; i = c.blocks[i].parent {
		c.blocks[i].canon = true
		c.canon[c.blocks[i].number] = i
		if i == 0 {
			break
		}
	}
	return c
}

func (c *c25Chain) height() uint64 { return uint64(len(c.canon) - 1) }

// doomed reports whether a side block must disappear once everything up to final is frozen:
// its ancestry (including itself) contains a non-canonical block at a height <= final.
func (c *c25Chain) doomed(i int) bool {
	for ; i > 0; i = c.blocks[i].parent {
		if !c.blocks[i].canon && c.blocks[i].number <= c.final {
			return true
		}
	}
	return false
}

func (c *c25Chain) write(db ethdb.KeyValueStore) {
	for _, b := range c.blocks {
		WriteBlock(db, b.block)
		WriteReceipts(db, b.block.Hash(), b.number, b.receipts)
		if b.canon {
			WriteCanonicalHash(db, b.block.Hash(), b.number)
			WriteTxLookupEntriesByBlock(db, b.block)
		}
	}
	tip := c.blocks[c.canon[c.height()]].block.Hash()
	WriteHeadHeaderHash(db, tip)
	WriteHeadBlockHash(db, tip)
	WriteHeadFastBlockHash(db, tip)
	WriteFinalizedBlockHash(db, c.blocks[c.canon[c.final]].block.Hash())
}

// c25View is everything the chain accessors return for the canonical chain.
type c25View []string

func c25Read(db ethdb.Database, c *c25Chain) (c25View, error) {
	var v c25View
	for n := uint64(0); n <= c.height(); n++ {
		b := c.blocks[c.canon[n]]
		want := b.block.Hash()
		hash := ReadCanonicalHash(db, n)
		if hash != want {
			return nil, fmt.Errorf("ReadCanonicalHash(%d) = %x, want %x", n, hash[:4], want[:4])
		}
		hdr := ReadHeaderRLP(db, hash, n)
		if len(hdr) == 0 {
			return nil, fmt.Errorf("canonical header %d unreadable", n)
		}
		h := ReadHeader(db, hash, n)
		if h == nil || h.Hash() != hash {
			return nil, fmt.Errorf("ReadHeader(%d) wrong or nil", n)
		}
		if !HasHeader(db, hash, n) {
			return nil, fmt.Errorf("HasHeader(%d) false", n)
		}
		body := ReadBodyRLP(db, hash, n)
		if len(body) == 0 {
			return nil, fmt.Errorf("canonical body %d unreadable", n)
		}
		cbody := ReadCanonicalBodyRLP(db, n, &hash)
		if !bytes.Equal(body, cbody) {
			return nil, fmt.Errorf("ReadCanonicalBodyRLP(%d) differs from ReadBodyRLP", n)
		}
		rc := ReadReceiptsRLP(db, hash, n)
		if len(rc) == 0 {
			return nil, fmt.Errorf("canonical receipts %d unreadable", n)
		}
		crc := ReadCanonicalReceiptsRLP(db, n, &hash)
		if !bytes.Equal(rc, crc) {
			return nil, fmt.Errorf("ReadCanonicalReceiptsRLP(%d) differs from ReadReceiptsRLP", n)
		}
		raw := ReadRawReceipts(db, hash, n)
		if len(raw) != 1 || raw[0].CumulativeGasUsed != b.receipts[0].CumulativeGasUsed {
			return nil, fmt.Errorf("ReadRawReceipts(%d) wrong", n)
		}
		num, ok := ReadHeaderNumber(db, hash)
		if !ok || num != n {
			return nil, fmt.Errorf("ReadHeaderNumber(block %d) = %d,%v", n, num, ok)
		}
		blk := ReadBlock(db, hash, n)
		if blk == nil || blk.Hash() != hash || len(blk.Transactions()) != 1 {
			return nil, fmt.Errorf("ReadBlock(%d) wrong or nil", n)
		}
		if n > 0 { // a lookup entry for block 0 is encoded as the empty string and reads as absent
			txh := b.block.Transactions()[0].Hash()
			lk := ReadTxLookupEntry(db, txh)
			if lk == nil || *lk != n {
				return nil, fmt.Errorf("ReadTxLookupEntry(tx of block %d) = %v", n, lk)
			}
			tx, bh, bn, ti := ReadCanonicalTransaction(db, txh)
			if tx == nil || bh != hash || bn != n || ti != 0 || tx.Hash() != txh {
				return nil, fmt.Errorf("ReadCanonicalTransaction(tx of block %d) wrong", n)
			}
		}
		v = append(v, fmt.Sprintf("%d:%x|%x|%x|%x", n, hash, hdr, body, rc))
	}
	if ReadHeadBlockHash(db) != c.blocks[c.canon[c.height()]].block.Hash() {
		return nil, fmt.Errorf("head block hash changed")
	}
	return v, nil
}

func (v c25View) diff(w c25View) error {
	if len(v) != len(w) {
		return fmt.Errorf("number of canonical blocks changed: %d -> %d", len(v), len(w))
	}
	for i := range v {
		if v[i] != w[i] {
			return fmt.Errorf("accessor results for canonical block %d changed", i)
		}
	}
	return nil
}

// c25CheckCompleted checks the end state of an uninterrupted migration.
func c25CheckCompleted(db ethdb.Database, kv ethdb.KeyValueStore, c *c25Chain) error {
	frozen, _ := db.Ancients()
	if frozen != c.final+1 {
		return fmt.Errorf("after the freeze cycle Ancients()=%d, want %d (finalized %d)", frozen, c.final+1, c.final)
	}
	for _, b := range c.blocks {
		has, _ := kv.Has(headerKey(b.number, b.block.Hash()))
		hasBody, _ := kv.Has(blockBodyKey(b.number, b.block.Hash()))
		hasRc, _ := kv.Has(blockReceiptsKey(b.number, b.block.Hash()))
		switch {
		case b.idx == 0:
			if !has || !hasBody {
				return fmt.Errorf("genesis was removed from the key-value store")
			}
		case b.canon && b.number <= c.final:
			if has || hasBody || hasRc {
				return fmt.Errorf("frozen canonical block %d still in the key-value store (header %v body %v receipts %v)", b.number, has, hasBody, hasRc)
			}
			if ch, _ := kv.Has(headerHashKey(b.number)); ch {
				return fmt.Errorf("canonical hash mapping of frozen block %d still in the key-value store", b.number)
			}
		case c.doomed(b.idx):
			if has || hasBody || hasRc {
				return fmt.Errorf("side block #%d (height %d, below or dangling from the frozen boundary %d) was not removed", b.idx, b.number, c.final)
			}
		default:
			if !has || !hasBody || !hasRc {
				return fmt.Errorf("block #%d (height %d, canonical=%v) above the frozen boundary %d was removed", b.idx, b.number, b.canon, c.final)
			}
		}
	}
	return nil
}

// ---- findings (same scheme as C24) ------------------------------------------------

type c25Case struct {
	Parents []int       `json:"parents"`
	Final   uint64      `json:"finalized"`
	FsK     int         `json:"crash_after_fs_event"`
	KvK     int         `json:"crash_after_kv_entry"`
	KvKeep  int         `json:"kv_entries_durable"`
	Event   string      `json:"last_fs_event,omitempty"`
	Loss    vos.Pattern `json:"fs_loss"`
	Sig     string      `json:"fs_event_signature,omitempty"`
}

type c25Findings struct {
	mu    sync.Mutex
	class map[string]*c25Finding
}

type c25Finding struct {
	n    int64
	c    c25Case
	cj   string
	desc string
}

var c25Digits = regexp.MustCompile(`[0-9]+`)
var c25Hex = regexp.MustCompile(`\b0x[0-9a-f]*\b|\b[0-9a-f]{6,}\b`)
var c25Tab = regexp.MustCompile(`table [a-z]+\b`)

func c25Class(err error) string {
	line := err.Error()
	if i := strings.IndexByte(line, '\n'); i >= 0 {
		line = line[:i]
	}
	line = c25Hex.ReplaceAllString(line, "X")
	line = c25Tab.ReplaceAllString(line, "table T")
	line = c25Digits.ReplaceAllString(line, "N")
	if len(line) > 160 {
		line = line[:160]
	}
	return line
}

// c25Diagnose inspects a crash image (before recovery) for the precondition of the defect
// of the unchanged tree established by C24/C25: after the per-table recovery (index cut
// back to the flush offset) some tables hold no item while others do, so Freezer.repair
// mistakes the former for freshly added tables.
func c25Diagnose(img *vos.FS) string {
	files := img.Files()
	empty, nonEmpty := 0, 0
	for name, cfg := range chainFreezerTableConfigs {
		ext := "cidx"
		if cfg.noSnappy {
			ext = "ridx"
		}
		idx := files[strings.TrimPrefix(c25AncientDir, "/")+"/chain/"+name+"."+ext]
		meta := files[strings.TrimPrefix(c25AncientDir, "/")+"/chain/"+name+".meta"]
		var o struct {
			Version uint16
			Tail    uint64
			Offset  uint64
		}
		items := uint64(0)
		if len(idx) >= indexEntrySize && len(meta) > 0 && rlp.Decode(bytes.NewReader(meta), &o) == nil {
			usable := uint64(len(idx) - len(idx)%indexEntrySize)
			if o.Offset < usable {
				usable = o.Offset
			}
			if usable >= indexEntrySize {
				items = uint64(binary.BigEndian.Uint32(idx[2:6])) + usable/indexEntrySize - 1
			}
		}
		if items == 0 {
			empty++
		} else {
			nonEmpty++
		}
	}
	if empty > 0 && nonEmpty > 0 {
		return "empty-table-next-to-non-empty-table"
	}
	return ""
}

func (fd *c25Findings) add(c c25Case, err error, tag string) {
	cl := c25Class(err)
	if tag != "" {
		cl = "{" + tag + "} recovery fails"
	}
	b, _ := json.Marshal(c)
	fd.mu.Lock()
	defer fd.mu.Unlock()
	f := fd.class[cl]
	if f == nil {
		f = &c25Finding{}
		fd.class[cl] = f
	}
	f.n++
	if f.n == 1 || len(c.Parents) < len(f.c.Parents) || len(c.Parents) == len(f.c.Parents) && (len(b) < len(f.cj) || len(b) == len(f.cj) && string(b) < f.cj) {
		f.c, f.cj, f.desc = c, string(b), err.Error()
	}
}

func (fd *c25Findings) report(r *mc.R) {
	fd.mu.Lock()
	defer fd.mu.Unlock()
	var cls []string
	for cl := range fd.class {
		cls = append(cls, cl)
	}
	sort.Strings(cls)
	for _, cl := range cls {
		f := fd.class[cl]
		r.OutcomeN("VIOLATING:"+cl, f.n)
		r.Violation("C25/"+cl, fmt.Sprintf("%d failing cases in this class; smallest example %s\n%s", f.n, f.cj, f.desc), f.c)
	}
}

// ---- one history ------------------------------------------------------------------

type c25Params struct {
	maxDev int  // FS loss patterns: baselines + at most maxDev deviating files (whole-operation prefixes only)
	allKV  bool // every KV prefix (otherwise only "all kept" and "only the synced part")
}

const c25AncientDir = "/anc"

func c25IsMeta(rel string) bool { return strings.HasSuffix(rel, ".meta") }

func c25Sig(evs []vos.Event) string {
	var sb strings.Builder
	last := ""
	for _, e := range evs {
		base := e.Name[strings.LastIndexByte(e.Name, '/')+1:]
		t := base
		if i := strings.IndexByte(base, '.'); i > 0 {
			t = base[:i]
		}
		if len(t) < 2 {
			continue
		}
		t = t[:2]
		if t != last {
			sb.WriteString(t)
			last = t
		}
	}
	return fmt.Sprintf("%x", mc.Hash64(sb.String()))
}

// c25Freeze triggers freeze cycles until the freezer is idle.
func c25Freeze(db ethdb.Database) error {
	return db.(interface{ Freeze() error }).Freeze()
}

func c25Copy(db ethdb.KeyValueStore) *memorydb.Database {
	out := memorydb.New()
	it := db.NewIterator(nil, nil)
	for it.Next() {
		out.Put(it.Key(), it.Value())
	}
	it.Release()
	return out
}

// c25Recover reopens a crash image and checks the accessors.
func c25Recover(kvImg *memorydb.Database, fsImg *vos.FS, c *c25Chain, ref c25View) (string, error) {
	// A: restart with the freezer kept idle (no finalized marker): the crash state itself must serve every canonical block
	kvA := c25Copy(kvImg)
	kvA.Delete(headFinalizedBlockKey)
	dbA, err := Open(kvA, OpenOptions{Ancient: fsImg.Root() + c25AncientDir})
	if err != nil {
		return "", fmt.Errorf("reopen after crash failed: %v", err)
	}
	va, err := c25Read(dbA, c)
	frozenA, _ := dbA.Ancients()
	dbA.Close()
	if err != nil {
		return "", fmt.Errorf("after crash and restart (frozen=%d): %v", frozenA, err)
	}
	if err := ref.diff(va); err != nil {
		return "", fmt.Errorf("after crash and restart (frozen=%d): %v", frozenA, err)
	}
	// B: restart normally and let the migration finish
	kvB := c25Copy(kvImg)
	dbB, err := Open(kvB, OpenOptions{Ancient: fsImg.Root() + c25AncientDir})
	if err != nil {
		return "", fmt.Errorf("second reopen after crash failed: %v", err)
	}
	if err := c25Freeze(dbB); err != nil {
		dbB.Close()
		return "", fmt.Errorf("freeze after restart: %v", err)
	}
	vb, err := c25Read(dbB, c)
	frozenB, _ := dbB.Ancients()
	left := ""
	if err == nil {
		err = ref.diff(vb)
	}
	if err == nil && frozenB != c.final+1 {
		err = fmt.Errorf("Ancients()=%d, want %d", frozenB, c.final+1)
	}
	if err == nil {
		if e := c25CheckCompleted(dbB, kvB, c); e != nil {
			left = "+leftovers_in_kv" // documented as harmless: duplicates after a crash between freezing and deletion
		}
	}
	kvC := c25Copy(kvB)
	dbB.Close()
	if err != nil {
		return "", fmt.Errorf("after crash, restart and completed freeze (frozen=%d): %v", frozenB, err)
	}
	// C: clean restart
	dbC, err := Open(kvC, OpenOptions{Ancient: fsImg.Root() + c25AncientDir})
	if err != nil {
		return "", fmt.Errorf("clean reopen after the completed freeze failed: %v", err)
	}
	vc, err := c25Read(dbC, c)
	dbC.Close()
	if err == nil {
		err = ref.diff(vc)
	}
	if err != nil {
		return "", fmt.Errorf("after clean restart following recovery: %v", err)
	}
	return fmt.Sprintf("frozen_at_restart=%d/%d%s", frozenA, c.final+1, left), nil
}

func c25ExploreChain(r *mc.R, parents []int, final uint64, p c25Params, seen *sync.Map, fd *c25Findings, tgt *c25Case) {
	c := c25Build(parents, final)
	base := c25Case{Parents: parents, Final: final}
	fs := vos.New()
	defer fs.Release()
	fs.SetAtomic(c25IsMeta, true)
	kv := crashkv.New(fs.NumEvents)
	c.write(kv)
	kv.SyncKeyValue()
	kv0 := kv.Len()
	ref, err := c25Read(NewDatabase(kv.Image(kv0)), c)
	if err != nil {
		fd.add(base, fmt.Errorf("before freezing: %v", err), "")
		return
	}
	// the uninterrupted migration
	err = mc.Safely(func() error {
		db, err := Open(kv, OpenOptions{Ancient: fs.Root() + c25AncientDir})
		if err != nil {
			return fmt.Errorf("Open: %v", err)
		}
		defer db.Close()
		if err := c25Freeze(db); err != nil {
			return err
		}
		v, err := c25Read(db, c)
		if err != nil {
			return err
		}
		if err := ref.diff(v); err != nil {
			return err
		}
		return c25CheckCompleted(db, kv, c)
	})
	r.Eval(1)
	if err != nil {
		fd.add(base, fmt.Errorf("uninterrupted migration: %v", err), "")
		return
	}
	r.Outcome("uninterrupted_ok")
	evs := fs.Events()
	entries := kv.Entries()
	nFS := len(evs) // includes the events of the final Close (clean shutdown): crash points there are legitimate too
	for fsK := 0; fsK <= nFS; fsK++ {
		if r.Expired() {
			return
		}
		// KV log positions compatible with exactly fsK file-system events
		lo, hi := kv0, kv0
		for i := kv0; i < len(entries); i++ {
			if entries[i].Clock < fsK {
				lo = i + 1
			}
			if entries[i].Clock <= fsK {
				hi = i + 1
			}
		}
		cp := fs.CrashAt(fsK, false)
		cp.SetNoTorn(true)
		pats, _ := cp.Patterns(vos.EnumOpt{ProductCap: 0, MaxDev: p.maxDev})
		sig := c25Sig(evs[:fsK])
		for kvK := lo; kvK <= hi; kvK++ {
			sync0 := kv.LastSync(kvK)
			if sync0 < kv0 {
				sync0 = kv0
			}
			var keeps []int
			for k := kvK; k >= sync0; k-- {
				if p.allKV || k == kvK || k == sync0 {
					keeps = append(keeps, k)
				}
			}
			for _, keep := range keeps {
				for _, pt := range pats {
					cs := base
					cs.FsK, cs.KvK, cs.KvKeep, cs.Loss, cs.Sig = fsK, kvK, keep, pt, sig
					if fsK > 0 {
						cs.Event = evs[fsK-1].String()
					}
					if tgt != nil && (tgt.FsK != fsK || tgt.KvK != kvK || tgt.KvKeep != keep) {
						continue
					}
					img := cp.Build(pt)
					h := mc.Hash64(fmt.Sprintf("%v|%d|%d|%s", parents, final, keep, img.Fingerprint()))
					if _, dup := seen.LoadOrStore(h, struct{}{}); dup && !r.Replaying() {
						img.Release()
						r.Outcome("duplicate_image_skipped")
						continue
					}
					var outcome string
					r.Case(cs, func() error {
						tag := c25Diagnose(img)
						err := mc.Safely(func() error {
							o, err := c25Recover(kv.Image(keep), img, c, ref)
							outcome = o
							return err
						})
						if err != nil {
							fd.add(cs, fmt.Errorf("%v\ncrash image (file system):\n%s", err, c25Dump(cp, pt)), tag)
						}
						return nil
					})
					img.Release()
					r.DistinctHash(h)
					if outcome != "" {
						r.Outcome(outcome)
					}
					if fsK%40 == 7 && keep == kvK && len(pt.Pick) == 0 {
						r.Sample(cs)
					}
				}
			}
		}
	}
}

func c25Dump(cp *vos.CrashPoint, pt vos.Pattern) string {
	img := cp.Build(pt)
	defer img.Release()
	files := img.Files()
	names := make([]string, 0, len(files))
	for n := range files {
		names = append(names, n)
	}
	sort.Strings(names)
	var sb strings.Builder
	for _, n := range names {
		d := files[n]
		if len(d) > 24 {
			fmt.Fprintf(&sb, "  %s [%d] %x...\n", n, len(d), d[:24])
		} else {
			fmt.Fprintf(&sb, "  %s [%d] %x\n", n, len(d), d)
		}
	}
	return sb.String()
}

// c25Trees enumerates every parent vector of length n (parent of block i is any of 0..i-1).
func c25Trees(n int) [][]int {
	var out [][]int
	var rec func(cur []int)
	rec = func(cur []int) {
		if len(cur) == n {
			out = append(out, append([]int{}, cur...))
			return
		}
		for p := 0; p <= len(cur); p++ {
			rec(append(cur, p))
		}
	}
	rec(nil)
	return out
}

func c25ReplayTarget() *c25Case {
	p := os.Getenv("VERIF_REPLAY")
	if p == "" {
		return nil
	}
	raw, err := os.ReadFile(p)
	if err != nil {
		return nil
	}
	var f struct {
		Replay *c25Case `json:"replay"`
	}
	if json.Unmarshal(raw, &f) != nil {
		return nil
	}
	return f.Replay
}

func TestVerif_C25(t *testing.T) {
	mc.Run(t, "C25", func(r *mc.R) {
		maxBlocks := mc.Pick(r, 4, 5)
		p := c25Params{maxDev: 0, allKV: true}
		if r.Thorough() {
			p.maxDev = 1
		}
		r.Rule("every block tree with 1..N non-genesis blocks (parent of block i = any earlier block; canonical = highest block, lowest index on ties; one tx + receipt per block) x every finalized height 1..H; " +
			"the real freeze cycle of rawdb.Open's chain freezer runs once; every crash point of the merged key-value-log / file-system-event order x every durable prefix of the unsynced KV batches x " +
			"file-system loss pattern (all kept / all unsynced lost, pending namespace prefixes; thorough: one deviating file) is reopened with rawdb.Open and all accessors are compared with the pre-freeze results; distinct = distinct (chain, KV image, FS image)")
		r.Bound("max_non_genesis_blocks", maxBlocks)
		r.Bound("freezerBatchLimit", freezerBatchLimit)
		r.Bound("freezerTableSize", freezerTableSize)
		r.Bound("fs_loss_patterns", mc.Pick(r, "baselines (all kept, all unsynced lost) x namespace prefixes", "baselines + one deviating file (whole-operation prefixes, no torn appends)"))
		r.Assume("KV crash model: batches atomic and ordered; everything before the last SyncKeyValue durable, any prefix of later entries may survive; the chain written before Open is synced")
		r.Assume("FS crash model as in vos/crash.go; *.meta rewrite atomic; KV and FS losses are independent")
		r.Assume("reference = accessor results read from the key-value store before the freezer is attached")
		r.Assume("leftover frozen/side-chain data in the KV after a crash between freezing and deletion is counted (outcome +leftovers_in_kv), not flagged: rawdb.Open documents duplicates as harmless")
		seen := &sync.Map{}
		fd := &c25Findings{class: map[string]*c25Finding{}}
		defer fd.report(r)
		type job struct {
			parents []int
			final   uint64
		}
		var jobs []job
		for n := maxBlocks; n >= 1; n-- {
			for _, tr := range c25Trees(n) {
				h := c25Build(tr, 1).height()
				for f := uint64(1); f <= h; f++ {
					jobs = append(jobs, job{tr, f})
				}
			}
		}
		tgt := c25ReplayTarget()
		if tgt != nil && r.Replaying() {
			var keep []job
			for _, j := range jobs {
				if fmt.Sprint(j.parents) == fmt.Sprint(tgt.Parents) && j.final == tgt.Final {
					keep = append(keep, j)
				}
			}
			jobs = keep
		} else {
			tgt = nil
		}
		r.Bound("histories", len(jobs))
		r.Parallel(len(jobs), func(i int) {
			tries := 1
			if tgt != nil {
				tries = 40 // the table iteration order of the freezer is random: retry until the recorded event signature is met
			}
			for t := 0; t < tries; t++ {
				before := r.Violations()
				c25ExploreChain(r, jobs[i].parents, jobs[i].final, p, seen, fd, tgt)
				_ = before
				if tgt == nil {
					break
				}
			}
		})
	})
}
