//go:build verif

package rawdb

// C25, concurrency part — a reader's fall-back from the freezer to the key-value store
// must be atomic with respect to the freeze cycle.
//
// Deterministic hooks, no sleeps in the deciding path: the key-value store is wrapped so
// that the reader goroutine's j-th access (Get/Has) to a key of block N that the freeze
// cycle deletes (number->hash mapping, header, body, receipts) PARKS. While it is parked
// the harness asks the real lock: Freezer.writeLock.TryLock() fails iff the reader is
// inside a ReadAncients critical section, in which case the freeze cycle cannot append
// (and hence not delete) before the reader has finished. If TryLock succeeds the reader
// holds nothing, the complete freeze cycle covering N is run to completion (copy, sync,
// KV deletion) while the reader is still parked; then the reader is released. In both
// cases the verdict is the reader's RESULT: it must be what the accessor returned before
// the migration, never "missing".

import (
	"bytes"
	"fmt"
	"runtime"
	"sort"
	"strconv"
	"strings"
	"sync"
	"sync/atomic"
	"testing"
	"time"

	"github.com/ethereum/go-ethereum/common"
	"github.com/ethereum/go-ethereum/ethdb"
	"github.com/ethereum/go-ethereum/ethdb/memorydb"
	"github.com/ethereum/go-ethereum/internal/verif/mc"
	"github.com/ethereum/go-ethereum/internal/verif/vos"
	"github.com/ethereum/go-ethereum/params"
)

func c25Gid() uint64 {
	var buf [64]byte
	n := runtime.Stack(buf[:], false)
	f := strings.Fields(string(buf[:n]))
	if len(f) < 2 {
		return 0
	}
	id, _ := strconv.ParseUint(f[1], 10, 64)
	return id
}

// c25ParkKV parks the reader goroutine at its parkAt-th access to a watched key.
type c25ParkKV struct {
	*memorydb.Database

	mu      sync.Mutex
	watched map[string]string // key -> description
	reader  atomic.Uint64     // goroutine id of the reader (0: nobody parks)
	parkAt  int               // index of the watched access that parks (-1: count only)
	seen    int               // watched accesses of the reader so far
	where   string            // description of the access that parked
	parked  chan struct{}
	release chan struct{}
}

func (p *c25ParkKV) hook(op string, key []byte) {
	if g := p.reader.Load(); g == 0 || g != c25Gid() {
		return
	}
	p.mu.Lock()
	desc, ok := p.watched[string(key)]
	if !ok {
		p.mu.Unlock()
		return
	}
	idx := p.seen
	p.seen++
	park := idx == p.parkAt
	if park {
		p.where = op + " " + desc
	}
	p.mu.Unlock()
	if park {
		p.parked <- struct{}{}
		<-p.release
	}
}

func (p *c25ParkKV) Get(key []byte) ([]byte, error) {
	p.hook("Get", key)
	return p.Database.Get(key)
}

func (p *c25ParkKV) Has(key []byte) (bool, error) {
	p.hook("Has", key)
	return p.Database.Has(key)
}

// c25Reader is one accessor applied to canonical block n; it returns a canonical string.
type c25Reader struct {
	name string
	read func(db ethdb.Database, c *c25Chain, n uint64) string
}

func c25Readers() []c25Reader {
	hashOf := func(c *c25Chain, n uint64) common.Hash { return c.blocks[c.canon[n]].block.Hash() }
	txOf := func(c *c25Chain, n uint64) common.Hash { return c.blocks[c.canon[n]].block.Transactions()[0].Hash() }
	return []c25Reader{
		{"ReadCanonicalHash", func(db ethdb.Database, c *c25Chain, n uint64) string {
			return fmt.Sprintf("%x", ReadCanonicalHash(db, n))
		}},
		{"ReadHeaderRLP", func(db ethdb.Database, c *c25Chain, n uint64) string {
			return fmt.Sprintf("%x", ReadHeaderRLP(db, hashOf(c, n), n))
		}},
		{"ReadHeader", func(db ethdb.Database, c *c25Chain, n uint64) string {
			h := ReadHeader(db, hashOf(c, n), n)
			if h == nil {
				return "nil"
			}
			return fmt.Sprintf("%x", h.Hash())
		}},
		{"HasHeader", func(db ethdb.Database, c *c25Chain, n uint64) string {
			return fmt.Sprint(HasHeader(db, hashOf(c, n), n))
		}},
		{"ReadHeaderRange", func(db ethdb.Database, c *c25Chain, n uint64) string {
			return fmt.Sprintf("%x", ReadHeaderRange(db, n, 1))
		}},
		{"ReadBodyRLP", func(db ethdb.Database, c *c25Chain, n uint64) string {
			return fmt.Sprintf("%x", ReadBodyRLP(db, hashOf(c, n), n))
		}},
		{"ReadCanonicalBodyRLP(hash)", func(db ethdb.Database, c *c25Chain, n uint64) string {
			h := hashOf(c, n)
			return fmt.Sprintf("%x", ReadCanonicalBodyRLP(db, n, &h))
		}},
		{"ReadCanonicalBodyRLP(nil)", func(db ethdb.Database, c *c25Chain, n uint64) string {
			return fmt.Sprintf("%x", ReadCanonicalBodyRLP(db, n, nil))
		}},
		{"ReadReceiptsRLP", func(db ethdb.Database, c *c25Chain, n uint64) string {
			return fmt.Sprintf("%x", ReadReceiptsRLP(db, hashOf(c, n), n))
		}},
		{"ReadCanonicalReceiptsRLP(hash)", func(db ethdb.Database, c *c25Chain, n uint64) string {
			h := hashOf(c, n)
			return fmt.Sprintf("%x", ReadCanonicalReceiptsRLP(db, n, &h))
		}},
		{"ReadCanonicalReceiptsRLP(nil)", func(db ethdb.Database, c *c25Chain, n uint64) string {
			return fmt.Sprintf("%x", ReadCanonicalReceiptsRLP(db, n, nil))
		}},
		{"ReadRawReceipts", func(db ethdb.Database, c *c25Chain, n uint64) string {
			rs := ReadRawReceipts(db, hashOf(c, n), n)
			if len(rs) == 0 {
				return "none"
			}
			return fmt.Sprintf("%d:%d", len(rs), rs[0].CumulativeGasUsed)
		}},
		{"ReadBlock", func(db ethdb.Database, c *c25Chain, n uint64) string {
			b := ReadBlock(db, hashOf(c, n), n)
			if b == nil {
				return "nil"
			}
			return fmt.Sprintf("%x/%d", b.Hash(), len(b.Transactions()))
		}},
		{"ReadCanonicalTransaction", func(db ethdb.Database, c *c25Chain, n uint64) string {
			tx, bh, bn, ti := ReadCanonicalTransaction(db, txOf(c, n))
			if tx == nil {
				return "nil"
			}
			return fmt.Sprintf("%x@%x/%d/%d", tx.Hash(), bh, bn, ti)
		}},
		{"ReadCanonicalReceipt", func(db ethdb.Database, c *c25Chain, n uint64) string {
			rc, bh, bn, ri := ReadCanonicalReceipt(db, txOf(c, n), params.TestChainConfig)
			if rc == nil {
				return "nil"
			}
			return fmt.Sprintf("%x:%d@%x/%d/%d", rc.TxHash, rc.CumulativeGasUsed, bh, bn, ri)
		}},
		{"ReadCanonicalRawReceipt", func(db ethdb.Database, c *c25Chain, n uint64) string {
			rc, _, err := ReadCanonicalRawReceipt(db, hashOf(c, n), n, 0)
			if err != nil || rc == nil {
				return fmt.Sprintf("err:%v", err != nil)
			}
			return fmt.Sprintf("%d", rc.CumulativeGasUsed)
		}},
	}
}

type c25RaceFail struct {
	n    int
	cs   c25RaceCase
	desc string
}

type c25RaceCase struct {
	Reader   string `json:"reader"`
	Block    uint64 `json:"block"`
	Position string `json:"position_in_freeze_cycle"`
	ParkAt   int    `json:"park_before_kv_access"`
}

// c25RaceEnv is a fresh database with an idle freezer, the finalized marker set and nothing frozen.
type c25RaceEnv struct {
	c   *c25Chain
	kv  *c25ParkKV
	fs  *vos.FS
	db  ethdb.Database
	fin uint64
}

func c25NewRaceEnv(blocks int, final uint64) (*c25RaceEnv, error) {
	parents := make([]int, blocks)
	for i := range parents {
		parents[i] = i // linear chain
	}
	c := c25Build(parents, final)
	kv := &c25ParkKV{Database: memorydb.New(), watched: map[string]string{}, parkAt: -1, parked: make(chan struct{}), release: make(chan struct{})}
	c.write(kv)
	finHash := ReadFinalizedBlockHash(kv)
	kv.Database.Delete(headFinalizedBlockKey) // keep the freezer idle until the reader is in place
	fs := vos.New()
	fs.SetAtomic(c25IsMeta, true)
	db, err := Open(kv, OpenOptions{Ancient: fs.Root() + c25AncientDir})
	if err != nil {
		fs.Release()
		return nil, err
	}
	if err := c25Freeze(db); err != nil { // returns once the freezer goroutine waits for the next trigger
		db.Close()
		fs.Release()
		return nil, err
	}
	if frozen, _ := db.Ancients(); frozen != 0 {
		db.Close()
		fs.Release()
		return nil, fmt.Errorf("freezer not idle: %d items frozen without a finalized marker", frozen)
	}
	WriteFinalizedBlockHash(kv.Database, finHash)
	return &c25RaceEnv{c: c, kv: kv, fs: fs, db: db, fin: final}, nil
}

func (e *c25RaceEnv) close() {
	e.db.Close()
	e.fs.Release()
}

func (e *c25RaceEnv) watch(n uint64) {
	h := e.c.blocks[e.c.canon[n]].block.Hash()
	e.kv.mu.Lock()
	e.kv.watched = map[string]string{
		string(headerHashKey(n)):       fmt.Sprintf("number->hash mapping of block %d", n),
		string(headerKey(n, h)):        fmt.Sprintf("header of block %d", n),
		string(blockBodyKey(n, h)):     fmt.Sprintf("body of block %d", n),
		string(blockReceiptsKey(n, h)): fmt.Sprintf("receipts of block %d", n),
	}
	e.kv.seen, e.kv.parkAt, e.kv.where = 0, -1, ""
	e.kv.mu.Unlock()
}

// c25RaceOne runs one (reader, block, park index) case; it returns the outcome class.
func c25RaceOne(rd c25Reader, n uint64, parkAt int) (string, error) {
	env, err := c25NewRaceEnv(5, 3)
	if err != nil {
		return "", fmt.Errorf("setup: %v", err)
	}
	defer env.close()
	ref := rd.read(env.db, env.c, n) // nothing frozen yet, nobody parks
	env.watch(n)
	env.kv.mu.Lock()
	env.kv.parkAt = parkAt
	env.kv.mu.Unlock()

	done := make(chan string, 1)
	go func() {
		env.kv.reader.Store(c25Gid())
		res := rd.read(env.db, env.c, n)
		env.kv.reader.Store(0)
		done <- res
	}()
	var got string
	select {
	case got = <-done:
		return "", fmt.Errorf("reader finished without reaching watched KV access #%d (result equal to reference: %v)", parkAt, got == ref)
	case <-env.kv.parked:
	}
	where := env.kv.where
	fz, ok := env.db.(*freezerdb).chainFreezer.ancients.(*Freezer)
	if !ok {
		env.kv.release <- struct{}{}
		<-done
		return "", fmt.Errorf("not a file based freezer")
	}
	outcome := ""
	if fz.writeLock.TryLock() {
		// The reader holds no freezer lock between its freezer miss and this KV access:
		// nothing stops the freeze cycle. Run it to completion, then let the reader go on.
		fz.writeLock.Unlock()
		if err := c25Freeze(env.db); err != nil {
			env.kv.release <- struct{}{}
			<-done
			return "", err
		}
		frozen, _ := env.db.Ancients()
		if frozen <= n {
			env.kv.release <- struct{}{}
			<-done
			return "", fmt.Errorf("freeze cycle did not cover block %d (frozen=%d)", n, frozen)
		}
		env.kv.release <- struct{}{}
		got = <-done
		outcome = "reader_unlocked_at_kv_access"
		if got != ref {
			return "", fmt.Errorf("%s(block %d): parked before its %s, holding no freezer lock; the freeze cycle (copy, sync, KV deletion) completed meanwhile; the reader then returned %.80s instead of %.80s", rd.name, n, where, got, ref)
		}
	} else {
		// The reader is inside a ReadAncients critical section: the freeze cycle is started
		// now and has to wait for it.
		fdone := make(chan error, 1)
		go func() { fdone <- c25Freeze(env.db) }()
		env.kv.release <- struct{}{}
		// watchdog only (never decides a passing verdict): a reader that re-enters ReadAncients
		// while the freezer waits for the write lock would dead-lock here
		select {
		case got = <-done:
		case <-time.After(90 * time.Second):
			return "", fmt.Errorf("%s(block %d): dead-lock between the reader (released inside the freezer read lock, %s) and the waiting freeze cycle", rd.name, n, where)
		}
		if err := <-fdone; err != nil {
			return "", err
		}
		outcome = "reader_holds_freezer_lock_at_kv_access"
		if got != ref {
			return "", fmt.Errorf("%s(block %d): parked before its %s inside the freezer read lock, yet it returned %.80s instead of %.80s", rd.name, n, where, got, ref)
		}
	}
	// the migration is complete now: same result from the freezer
	if frozen, _ := env.db.Ancients(); frozen != env.fin+1 {
		return "", fmt.Errorf("after the freeze cycle Ancients()=%d, want %d", frozen, env.fin+1)
	}
	if has, _ := env.kv.Database.Has(headerHashKey(n)); has {
		return "", fmt.Errorf("number->hash mapping of frozen block %d still in the key-value store", n)
	}
	if after := rd.read(env.db, env.c, n); after != ref {
		return "", fmt.Errorf("%s(block %d) after the completed migration returns %.80s instead of %.80s", rd.name, n, after, ref)
	}
	return outcome, nil
}

// c25CountAccesses returns how many watched KV accesses the reader performs for block n
// while nothing is frozen.
func c25CountAccesses(rd c25Reader, n uint64) (int, error) {
	env, err := c25NewRaceEnv(5, 3)
	if err != nil {
		return 0, err
	}
	defer env.close()
	env.watch(n)
	done := make(chan struct{})
	go func() {
		env.kv.reader.Store(c25Gid())
		rd.read(env.db, env.c, n)
		env.kv.reader.Store(0)
		close(done)
	}()
	<-done
	return env.kv.seen, nil
}

func TestVerif_C25_Race(t *testing.T) {
	mc.Run(t, "C25", func(r *mc.R) {
		r.Rule("linear chain of 5 blocks, finalized 3 (the freeze cycle covers blocks 0..3; with freezerBatchLimit=2 in two batches); for every chain accessor x N in {first, middle, last non-genesis block of the cycle} x every key-value access of the reader to N's data that the cycle deletes (number->hash, header, body, receipts): " +
			"the reader goroutine is parked right before that access, the freezer write lock is probed with TryLock, the complete freeze cycle is run while the reader is parked whenever the lock is free (otherwise started and left waiting), the reader is released; its result must equal the pre-migration result; distinct = (reader, N, access index)")
		r.Assume("deterministic hooks: the KV wrapper parks only the reader goroutine (goroutine id) at the chosen access; sync.RWMutex.TryLock on Freezer.writeLock decides whether the reader is inside a ReadAncients critical section; no timing is involved in the verdict")
		r.Bound("freezerBatchLimit", freezerBatchLimit)
		positions := []struct {
			n    uint64
			name string
		}{{1, "first"}, {2, "middle"}, {3, "last"}}
		type job struct {
			rd     c25Reader
			n      uint64
			pos    string
			parkAt int
		}
		var jobs []job
		names := []string{}
		for _, rd := range c25Readers() {
			names = append(names, rd.name)
			for _, p := range positions {
				k, err := c25CountAccesses(rd, p.n)
				if err != nil {
					r.Violation("C25/race-setup", err.Error(), nil)
					return
				}
				if k == 0 {
					r.Outcome("reader_without_deletable_kv_access:" + rd.name)
				}
				for j := 0; j < k; j++ {
					jobs = append(jobs, job{rd, p.n, p.name, j})
				}
			}
		}
		r.Bound("readers", names)
		r.Bound("cases", len(jobs))
		var fmu sync.Mutex
		failed := map[string]*c25RaceFail{}
		defer func() {
			var ks []string
			for k := range failed {
				ks = append(ks, k)
			}
			sort.Strings(ks)
			for _, k := range ks {
				f := failed[k]
				r.OutcomeN("VIOLATING:race:"+k, int64(f.n))
				r.Violation("C25/race: "+k, fmt.Sprintf("%d failing cases in this class; smallest: %+v\n%s", f.n, f.cs, f.desc), f.cs)
			}
		}()
		r.Parallel(len(jobs), func(i int) {
			j := jobs[i]
			cs := c25RaceCase{Reader: j.rd.name, Block: j.n, Position: j.pos, ParkAt: j.parkAt}
			var outcome string
			r.Case(cs, func() error {
				var res string
				err := mc.Safely(func() (e error) { res, e = c25RaceOne(j.rd, j.n, j.parkAt); return })
				outcome = res
				if err != nil {
					// one violation per reader kind (stable key), smallest case kept
					kind := j.rd.name + " not atomic with the freeze cycle"
					if m := err.Error(); strings.Contains(m, "after the completed migration") || strings.Contains(m, "after the freeze cycle") || strings.Contains(m, "still in the key-value store") || strings.Contains(m, "setup:") {
						kind = j.rd.name + " wrong after the completed migration"
					}
					fmu.Lock()
					f := failed[kind]
					if f == nil {
						f = &c25RaceFail{cs: cs, desc: err.Error()}
						failed[kind] = f
					} else if cs.Block < f.cs.Block || cs.Block == f.cs.Block && cs.ParkAt < f.cs.ParkAt {
						f.cs, f.desc = cs, err.Error()
					}
					f.n++
					fmu.Unlock()
				}
				return nil
			})
			r.Distinct(fmt.Sprintf("%s|%d|%d", j.rd.name, j.n, j.parkAt))
			if outcome != "" {
				r.Outcome(outcome)
				r.Outcome(outcome + ":" + j.rd.name)
			}
			if i%9 == 0 {
				r.Sample(cs)
			}
		})
	})
}

var _ = bytes.Equal
