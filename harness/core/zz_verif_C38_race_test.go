//go:build verif

package core

import (
	"bytes"
	"context"
	"encoding/binary"
	"errors"
	"fmt"
	"runtime"
	"sync/atomic"
	"testing"
	"time"

	"github.com/ethereum/go-ethereum/common"
	"github.com/ethereum/go-ethereum/consensus/ethash"
	"github.com/ethereum/go-ethereum/core/rawdb"
	"github.com/ethereum/go-ethereum/core/types"
	"github.com/ethereum/go-ethereum/ethdb"
	"github.com/ethereum/go-ethereum/internal/verif/mc"
)

// ---------------------------------------------------------------------------
// C38, concurrency part: a transaction lookup that overlaps a head change.
//
// The only reader of the chain whose cache depends on which block is canonical
// is GetCanonicalTransaction (tx hash -> canonical block, cached in
// txLookupCache). Its "read the database, then fill the cache" must be atomic
// with respect to a reorg, which rewrites the lookup entries and purges the
// cache. (The other cached readers - GetReceiptsByHash, GetBlock, GetBody,
// GetCanonicalReceipt - are keyed by block hash, their content does not depend
// on the canonical chain.)
//
// Deterministic schedule control: the database handed to the BlockChain is
// wrapped; one armed Get (the lookup entry or the body of the old canonical
// block, issued by the reader goroutine) parks before or after the read. While
// it is parked the harness goroutine starts the head change and decides by lock
// semantics, not by time, how far it can get: if the parked reader holds the
// lookup lock (TryLock fails) the harness waits until the head change either
// finished or announced itself as pending writer (TryRLock fails); then the
// reader is released, both goroutines are joined and the generic invariants of
// the main check run (every transaction of the forest must resolve, through
// GetCanonicalTransaction and the raw accessors, exactly to its canonical block
// or to nothing). A wall-clock watchdog only produces harness errors.

type c38Hook struct {
	key     []byte
	after   bool // park after the read instead of before it
	fired   atomic.Bool
	parked  chan struct{}
	release chan struct{}
}

// c38HookDB parks one armed Get.
type c38HookDB struct {
	ethdb.Database
	hook atomic.Pointer[c38Hook]
}

func (d *c38HookDB) Get(key []byte) ([]byte, error) {
	if h := d.hook.Load(); h != nil && bytes.Equal(key, h.key) && h.fired.CompareAndSwap(false, true) {
		if h.after {
			v, err := d.Database.Get(key)
			h.parked <- struct{}{}
			<-h.release
			return v, err
		}
		h.parked <- struct{}{}
		<-h.release
	}
	return d.Database.Get(key)
}

// c38RaceCase is the replay descriptor of one interleaving.
type c38RaceCase struct {
	Setup string `json:"setup"` // "all-known": every forest block stored (newPayload), "old-only": only the old chain imported
	Old   string `json:"old"`   // head of the canonical chain before the head change
	Op    string `json:"op"`    // head change executed while the lookup is parked
	Tx    int    `json:"tx"`    // forest transaction looked up by the reader
	Park  string `json:"park"`  // lookup-before | lookup-after | body-before | body-after
}

const c38RaceWatchdog = 60 * time.Second

func c38RaceRun(r *mc.R, f *c38Forest, c c38RaceCase, ops []c38Op, names []string) error {
	blockIdx := func(name string) int {
		for i := range f.blocks {
			if f.name(i) == name {
				return i
			}
		}
		panic("c38: unknown block " + name)
	}
	hdb := &c38HookDB{Database: rawdb.NewMemoryDatabase()}
	s := &c38Sys{r: r, f: f, mode: c38ModePath, run: "race", ops: ops, names: names, engine: ethash.NewFaker(), db: hdb}
	rawdb.WriteTxIndexTail(s.db, 0) // see c38NewSys: keeps the background indexer inert
	s.m = c38NewModel(f, s.mode)
	if err := s.open(); err != nil {
		return fmt.Errorf("cannot create chain: %v", err)
	}
	defer s.close()

	// --- set up the old canonical chain (no lookups are performed: the tx lookup cache stays cold)
	old := blockIdx(c.Old)
	switch c.Setup {
	case "all-known":
		for i := range f.blocks { // parents precede children in the forest order
			if _, err := s.bc.InsertBlockWithoutSetHead(context.Background(), f.blocks[i].block, false); err != nil {
				return fmt.Errorf("setup: newPayload %s: %v", f.name(i), err)
			}
		}
		if _, err := s.bc.SetCanonical(f.blocks[old].block); err != nil {
			return fmt.Errorf("setup: SetCanonical %s: %v", c.Old, err)
		}
	case "old-only":
		var bl types.Blocks
		for _, b := range f.path(old) {
			bl = append(bl, f.blocks[b].block)
		}
		if _, err := s.bc.InsertChain(bl); err != nil {
			return fmt.Errorf("setup: import of the old chain: %v", err)
		}
	}
	if s.bc.CurrentBlock().Hash() != f.hash(old) {
		return fmt.Errorf("setup: head is not %s", c.Old)
	}
	s.drain()

	// --- arm the hook
	txHash := f.txs[c.Tx].Hash()
	var key []byte
	switch c.Park {
	case "lookup-before", "lookup-after":
		key = append([]byte("l"), txHash.Bytes()...)
	default:
		holder := -1
		for _, b := range f.path(old) {
			for _, t := range f.blocks[b].txs {
				if t == c.Tx {
					holder = b
				}
			}
		}
		if holder < 0 {
			return errors.New("harness: body park for a transaction that is not canonical")
		}
		var num [8]byte
		binary.BigEndian.PutUint64(num[:], uint64(f.height(holder)))
		key = append(append([]byte("b"), num[:]...), f.hash(holder).Bytes()...)
	}
	hook := &c38Hook{key: key, after: c.Park == "lookup-after" || c.Park == "body-after", parked: make(chan struct{}, 1), release: make(chan struct{})}
	hdb.hook.Store(hook)
	released := false
	release := func() {
		if !released {
			released = true
			close(hook.release)
		}
	}
	defer release()

	// --- reader
	readerDone := make(chan any, 1)
	go func() {
		defer func() { readerDone <- recover() }()
		s.bc.GetCanonicalTransaction(txHash)
	}()
	watchdog := time.After(c38RaceWatchdog)
	parked := false
	var readerPanic any
	readerFinished := false
	select {
	case <-hook.parked:
		parked = true
	case readerPanic = <-readerDone:
		readerFinished = true
	case <-watchdog:
		r.HarnessError(fmt.Sprintf("c38 race %+v: reader neither parked nor finished", c))
		return nil
	}
	// does the parked lookup hold the lookup lock?
	held := false
	if parked {
		if s.bc.txLookupLock.TryLock() {
			s.bc.txLookupLock.Unlock()
		} else {
			held = true
		}
	}

	// --- head change
	var op c38Op
	found := false
	for i, n := range names {
		if n == c.Op {
			op, found = ops[i], true
		}
	}
	if !found {
		return errors.New("harness: unknown op " + c.Op)
	}
	opDone := make(chan error, 1)
	go func() {
		var err error
		defer func() {
			if p := recover(); p != nil {
				err = fmt.Errorf("panic in %s: %v", c.Op, p)
			}
			opDone <- err
		}()
		switch op.kind {
		case "ins":
			_, err = s.bc.InsertChain(types.Blocks{f.blocks[op.arg].block})
		case "batch":
			var bl types.Blocks
			for _, x := range f.branches[op.branch] {
				bl = append(bl, f.blocks[x].block)
			}
			_, err = s.bc.InsertChain(bl)
		case "canon":
			_, err = s.bc.SetCanonical(f.blocks[op.arg].block)
		case "sethead":
			err = s.bc.SetHead(uint64(op.arg))
		}
	}()
	var (
		opErr      error
		opFinished bool
		blocked    bool
	)
	if held {
		// The reader is parked while holding the read lock: the head change either never needs
		// the write lock and finishes, or announces itself as pending writer and is then blocked
		// for certain until the reader is released.
	wait:
		for {
			select {
			case opErr = <-opDone:
				opFinished = true
				break wait
			case <-watchdog:
				r.HarnessError(fmt.Sprintf("c38 race %+v: head change neither finished nor reached the lookup lock", c))
				return nil
			default:
			}
			if s.bc.txLookupLock.TryRLock() {
				s.bc.txLookupLock.RUnlock()
				runtime.Gosched()
			} else {
				blocked = true
				break wait
			}
		}
	} else {
		// nothing the reader holds can stop the head change: let it run to completion
		select {
		case opErr = <-opDone:
			opFinished = true
		case <-watchdog:
			r.HarnessError(fmt.Sprintf("c38 race %+v: head change did not finish although the lookup holds no lock", c))
			return nil
		}
	}
	// --- release the reader, join both
	release()
	if !readerFinished {
		select {
		case readerPanic = <-readerDone:
		case <-watchdog:
			r.HarnessError(fmt.Sprintf("c38 race %+v: reader did not finish after its release", c))
			return nil
		}
	}
	if !opFinished {
		select {
		case opErr = <-opDone:
		case <-watchdog:
			r.HarnessError(fmt.Sprintf("c38 race %+v: head change did not finish after the reader was released", c))
			return nil
		}
	}
	hdb.hook.Store(nil)
	if readerPanic != nil {
		return fmt.Errorf("lookup panicked: %v", readerPanic)
	}
	if opErr != nil {
		return fmt.Errorf("%s failed: %v", c.Op, opErr)
	}
	switch {
	case !parked:
		r.Outcome("race/lookup-finished-without-reaching-the-park-point")
	case blocked:
		r.Outcome("race/head-change-blocked-until-the-lookup-finished")
	case held:
		r.Outcome("race/head-change-needed-no-lookup-lock")
	default:
		r.Outcome("race/head-change-completed-while-lookup-parked-without-lock")
	}
	s.drain()

	// --- oracle: quiescent now; every lookup resolves exactly to the canonical block or to nothing
	if err := s.checkInvariants(); err != nil {
		var ie *c38InvErr
		if op.kind == "sethead" && errors.As(err, &ie) && (ie.code == "lookup-resolves-noncanonical" || ie.code == "lookup-misses-canonical") {
			// SetHead purges the tx lookup cache without taking the lookup lock (see report):
			// recorded once under a class key.
			r.Violation("C38:sethead-not-serialised-with-tx-lookup/"+ie.code, fmt.Sprintf("%v (case %+v)", err, c), c)
			r.Outcome("finding/sethead-not-serialised-with-tx-lookup")
			return nil
		}
		return fmt.Errorf("after the overlapping lookup and %s: %v", c.Op, err)
	}
	return nil
}

// drain empties the event subscriptions (they are not part of this oracle).
func (s *c38Sys) drain() {
	for {
		select {
		case <-s.chainCh:
		case <-s.headCh:
		case <-s.logsCh:
		case <-s.rmCh:
		default:
			return
		}
	}
}

func TestVerif_C38_race(t *testing.T) {
	mc.Run(t, "C38", func(r *mc.R) {
		height := mc.Pick(r, 3, 4)
		f := c38GetForest(height, !r.Quick())
		ops, names := c38Alphabet(f)
		r.Rule("every (set-up, old canonical head, head change, transaction, park point): a GetCanonicalTransaction of a not yet cached transaction is parked by a database hook {before, after} x {its lookup-entry read, its block-body read}; " +
			"while it is parked one head change {SetCanonical(Y), InsertChain([Y]) of a stored or of a new block, InsertChain(branch), SetHead(n)} is started; the harness advances by lock semantics (TryLock/TryRLock on the lookup lock), releases the reader, joins both and checks the generic lookup/index invariants over all forest transactions; " +
			"transactions cover: only in the old fork, in both forks at different heights, in both forks at the same height, only in the new fork")
		r.Assume("one overlapping reader and one head change per case; GetCanonicalTransaction is the only cached reader whose content depends on the canonical chain (the other caches are keyed by block hash); path scheme; watchdog produces harness errors only")
		r.Bound("race.forest_blocks", len(f.blocks))
		var cases []c38RaceCase
		for _, setup := range []string{"all-known", "old-only"} {
			for old := range f.blocks {
				if f.height(old) < 2 {
					continue
				}
				for i, o := range ops {
					switch o.kind {
					case "pay", "restart":
						continue
					case "canon":
						if setup != "all-known" || o.arg == old {
							continue
						}
					case "ins":
						if setup == "old-only" {
							p := f.parentOf(o.arg)
							if !(p < 0 || f.isAncestorOrSelf(p, old)) {
								continue // parent not stored
							}
						}
					case "batch":
						if setup == "old-only" && o.branch == "B" && !f.isAncestorOrSelf(f.branches["A"][0], old) {
							continue
						}
					}
					for tx := range f.txs {
						canonical := false
						for _, b := range f.path(old) {
							for _, t := range f.blocks[b].txs {
								canonical = canonical || t == tx
							}
						}
						parks := []string{"lookup-before", "lookup-after"}
						if canonical {
							parks = append(parks, "body-before", "body-after")
						}
						for _, pk := range parks {
							cases = append(cases, c38RaceCase{Setup: setup, Old: f.name(old), Op: names[i], Tx: tx, Park: pk})
						}
					}
				}
			}
		}
		r.Bound("race.cases", len(cases))
		r.Parallel(len(cases), func(i int) {
			c := cases[i]
			r.Case(c, func() error { return c38RaceRun(r, f, c, ops, names) })
			r.Distinct(fmt.Sprintf("%+v", c))
			if i%211 == 0 {
				r.Sample(c)
			}
		})
	})
}

var _ = common.Hash{}
