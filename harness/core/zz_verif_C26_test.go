//go:build verif

package core

// C26: state transitions conform to the execution specification.
//
// Differential check of the real transaction processing (TransactionToMessage + ApplyMessage +
// StateDB.Finalise + MakeReceipt + IntermediateRoot, i.e. the body of ApplyTransactionWithEVM, at the
// Cancun / Prague / Osaka rule sets) against the naive reference model internal/verif/refevm
// (/verif/shim/refevm), which is written from the Yellow Paper and the EIP texts only and shares no
// code with core/vm or core/state_transition.go. EELS itself is not installed in the sandbox.
//
// This file: the differential driver and comparison. zz_verif_C26_gen_test.go: the enumerated spaces.

import (
	"bytes"
	"errors"
	"fmt"
	"math/big"
	"sort"
	"strconv"

	"github.com/ethereum/go-ethereum/common"
	"github.com/ethereum/go-ethereum/core/state"
	"github.com/ethereum/go-ethereum/core/tracing"
	"github.com/ethereum/go-ethereum/core/types"
	"github.com/ethereum/go-ethereum/core/vm"
	"github.com/ethereum/go-ethereum/crypto"
	"github.com/ethereum/go-ethereum/internal/verif/progx"
	"github.com/ethereum/go-ethereum/internal/verif/refevm"
	"github.com/ethereum/go-ethereum/params"
	"github.com/holiman/uint256"
)

var (
	c26Coinbase   = common.HexToAddress("0xc01bba5e000000000000000000000000000000c0")
	c26PrevRandao = common.HexToHash("0x7261646f6d7261646f6d7261646f6d7261646f6d7261646f6d7261646f6d7261")
)

const (
	c26BaseFee     = 7
	c26BlobBaseFee = 3
	c26Number      = 1000
	c26Time        = 1000
	c26BlockGas    = 30_000_000
)

type c26Fork struct {
	ref  refevm.Fork
	name string
	cfg  *params.ChainConfig
}

func c26Forks() []c26Fork {
	return []c26Fork{
		{refevm.Cancun, "Cancun", progx.Fork("Cancun").Config},
		{refevm.Prague, "Prague", progx.Fork("Prague").Config},
		{refevm.Osaka, "Osaka", progx.Fork("Osaka").Config},
	}
}

func c26BlockHash(n uint64) common.Hash {
	return crypto.Keccak256Hash([]byte(strconv.FormatUint(n, 10)))
}

func (f c26Fork) env(blockGas uint64) refevm.Env {
	return refevm.Env{
		Fork: f.ref, Coinbase: c26Coinbase, Number: c26Number, Time: c26Time, GasLimit: blockGas,
		BaseFee: big.NewInt(c26BaseFee), PrevRandao: c26PrevRandao, ChainID: big.NewInt(1),
		BlobBaseFee: big.NewInt(c26BlobBaseFee), BlockHash: c26BlockHash,
	}
}

func (f c26Fork) blockCtx(blockGas uint64) vm.BlockContext {
	rnd := c26PrevRandao
	return vm.BlockContext{
		CanTransfer: CanTransfer,
		Transfer:    Transfer,
		GetHash:     c26BlockHash,
		Coinbase:    c26Coinbase,
		BlockNumber: big.NewInt(c26Number),
		Time:        c26Time,
		Difficulty:  big.NewInt(0),
		GasLimit:    blockGas,
		BaseFee:     big.NewInt(c26BaseFee),
		BlobBaseFee: big.NewInt(c26BlobBaseFee),
		Random:      &rnd,
	}
}

// c26Signer makes TransactionToMessage accept unsigned transactions: the sender is given.
// (Signature recovery is not part of this property.)
type c26Signer struct{ from common.Address }

func (s c26Signer) Sender(*types.Transaction) (common.Address, error) { return s.from, nil }
func (s c26Signer) SignatureValues(*types.Transaction, []byte) (r, ss, v *big.Int, err error) {
	return nil, nil, nil, errors.New("c26Signer cannot sign")
}
func (s c26Signer) ChainID() *big.Int                   { return big.NewInt(1) }
func (s c26Signer) Hash(tx *types.Transaction) common.Hash { return tx.Hash() }
func (s c26Signer) Equal(o types.Signer) bool {
	x, ok := o.(c26Signer)
	return ok && x.from == s.from
}

func c26GethTx(t *refevm.Tx) *types.Transaction {
	var al types.AccessList
	for _, e := range t.AccessList {
		keys := append([]common.Hash{}, e.Keys...)
		if keys == nil {
			keys = []common.Hash{}
		}
		al = append(al, types.AccessTuple{Address: e.Address, StorageKeys: keys})
	}
	switch t.Type {
	case refevm.TxLegacy:
		return types.NewTx(&types.LegacyTx{Nonce: t.Nonce, GasPrice: t.GasPrice, Gas: t.Gas, To: t.To, Value: t.Value, Data: t.Data})
	case refevm.TxAccess:
		return types.NewTx(&types.AccessListTx{ChainID: big.NewInt(1), Nonce: t.Nonce, GasPrice: t.GasPrice, Gas: t.Gas, To: t.To, Value: t.Value, Data: t.Data, AccessList: al})
	case refevm.TxDynamic:
		return types.NewTx(&types.DynamicFeeTx{ChainID: big.NewInt(1), Nonce: t.Nonce, GasTipCap: t.MaxTip, GasFeeCap: t.MaxFee, Gas: t.Gas, To: t.To, Value: t.Value, Data: t.Data, AccessList: al})
	case refevm.TxSetCode:
		to := common.Address{}
		if t.To != nil {
			to = *t.To
		}
		auths, _ := t.Aux.([]types.SetCodeAuthorization)
		return types.NewTx(&types.SetCodeTx{ChainID: uint256.NewInt(1), Nonce: t.Nonce, GasTipCap: uint256.MustFromBig(t.MaxTip), GasFeeCap: uint256.MustFromBig(t.MaxFee),
			Gas: t.Gas, To: to, Value: uint256.MustFromBig(t.Value), Data: t.Data, AccessList: al, AuthList: auths})
	case refevm.TxBlob:
		to := common.Address{}
		if t.To != nil {
			to = *t.To
		}
		return types.NewTx(&types.BlobTx{ChainID: uint256.NewInt(1), Nonce: t.Nonce, GasTipCap: uint256.MustFromBig(t.MaxTip), GasFeeCap: uint256.MustFromBig(t.MaxFee),
			Gas: t.Gas, To: to, Value: uint256.MustFromBig(t.Value), Data: t.Data, AccessList: al,
			BlobFeeCap: uint256.MustFromBig(t.MaxBlobFee), BlobHashes: t.BlobHashes})
	}
	panic("c26: unknown tx type")
}

// c26Reject maps a consensus error of ApplyMessage to the rejection classes of the reference.
func c26Reject(err error) string {
	switch {
	case errors.Is(err, ErrIntrinsicGas):
		return refevm.RejIntrinsicGas
	case errors.Is(err, ErrFloorDataGas):
		return refevm.RejFloorGas
	case errors.Is(err, ErrNonceTooLow):
		return refevm.RejNonceLow
	case errors.Is(err, ErrNonceTooHigh):
		return refevm.RejNonceHigh
	case errors.Is(err, ErrNonceMax):
		return refevm.RejNonceMax
	case errors.Is(err, vm.ErrMaxInitCodeSizeExceeded):
		return refevm.RejInitCodeSize
	case errors.Is(err, ErrGasLimitTooHigh):
		return refevm.RejGasCap
	case errors.Is(err, ErrGasLimitReached):
		return refevm.RejBlockGas
	case errors.Is(err, ErrTipAboveFeeCap):
		return refevm.RejTipAboveFeeCap
	case errors.Is(err, ErrFeeCapTooLow):
		return refevm.RejFeeCapTooLow
	case errors.Is(err, ErrInsufficientFunds):
		return refevm.RejFunds
	case errors.Is(err, ErrSenderNoEOA):
		return refevm.RejSenderNotEOA
	case errors.Is(err, ErrBlobFeeCapTooLow):
		return refevm.RejBlobFeeCap
	case errors.Is(err, ErrMissingBlobHashes):
		return refevm.RejBlobNone
	case errors.Is(err, ErrBlobTxCreate):
		return refevm.RejBlobCreate
	case errors.Is(err, ErrTooManyBlobs):
		return refevm.RejBlobCount
	case errors.Is(err, ErrSetCodeTxCreate):
		return refevm.RejSetCodeCreate
	case errors.Is(err, ErrEmptyAuthList):
		return refevm.RejSetCodeEmpty
	}
	if err != nil && bytes.Contains([]byte(err.Error()), []byte("invalid hash version")) {
		return refevm.RejBlobVersion
	}
	return "other: " + err.Error()
}

// c26Pre is a pre-state: the reference world and the same accounts committed into a go-ethereum state
// database (so that preset storage slots are "original" values).
type c26Pre struct {
	world refevm.World
	db    state.Database
	root  common.Hash
	codeA []byte // when non-nil: code installed into contract A on top of the committed pre-state (both sides)
}

// withCode returns the pre-state with contract A running code (the committed database is shared).
func (p *c26Pre) withCode(code []byte) *c26Pre {
	q := *p
	q.codeA = code
	return &q
}

func c26NewPre(w refevm.World) *c26Pre {
	db := state.NewDatabaseForTesting()
	sdb, err := state.New(types.EmptyRootHash, db)
	if err != nil {
		panic(err)
	}
	addrs := make([]common.Address, 0, len(w))
	for a := range w {
		addrs = append(addrs, a)
	}
	sort.Slice(addrs, func(i, j int) bool { return bytes.Compare(addrs[i][:], addrs[j][:]) < 0 })
	for _, a := range addrs {
		acc := w[a]
		sdb.CreateAccount(a)
		sdb.SetNonce(a, acc.Nonce, tracing.NonceChangeGenesis)
		sdb.SetBalance(a, uint256.MustFromBig(acc.Balance), tracing.BalanceChangeUnspecified)
		if len(acc.Code) > 0 {
			sdb.SetCode(a, acc.Code, tracing.CodeChangeUnspecified)
		}
		for k, v := range acc.Storage {
			sdb.SetState(a, k, v)
		}
	}
	root, err := sdb.Commit(params.Rules{IsEIP158: true}, 0)
	if err != nil {
		panic(err)
	}
	if want := w.Root(); root != want {
		panic(fmt.Sprintf("c26: pre-state root: go-ethereum %x, reference trie %x", root, want))
	}
	return &c26Pre{world: w, db: db, root: root}
}

// c26TxOutcome is what the two sides are compared on for one transaction.
type c26TxOutcome struct {
	ref *refevm.Result
}

// c26RunBlock applies txs in order to the pre-state at the fork on both sides and compares, after every
// transaction: inclusion / rejection class, receipt status, gas used, cumulative gas, logs (address, topics,
// data), bloom, contract address, return data, the sender-visible full post-state (state root of the reference
// world computed with the Yellow Paper trie vs. IntermediateRoot; per-account diff for the message).
func c26RunBlock(f c26Fork, pre *c26Pre, blockGas uint64, txs []*refevm.Tx) ([]*refevm.Result, error) {
	// reference side
	blk := &refevm.Block{Env: f.env(blockGas), World: pre.world.Copy()}
	// real side
	sdb, err := state.New(pre.root, pre.db)
	if err != nil {
		return nil, fmt.Errorf("harness: state.New: %v", err)
	}
	evm := vm.NewEVM(f.blockCtx(blockGas), sdb, f.cfg, vm.Config{})
	defer evm.Release()
	rules := evm.GetRules()
	if pre.codeA != nil {
		blk.World.SetCode(progx.AddrA, pre.codeA)
		sdb.SetCode(progx.AddrA, pre.codeA, tracing.CodeChangeUnspecified)
		sdb.Finalise(rules)
	}
	gp := NewGasPool(blockGas)
	var (
		out     []*refevm.Result
		cumGas  uint64
		blockNo = big.NewInt(c26Number)
		included int
	)
	for i, rt := range txs {
		want := blk.Apply(rt)
		out = append(out, want)
		if want.Unsupported != "" {
			return out, fmt.Errorf("harness: tx %d left the modelled subset: %s", i, want.Unsupported)
		}
		tx := c26GethTx(rt)
		var (
			res  *ExecutionResult
			snap = sdb.Snapshot()
			gpre = gp.Snapshot()
		)
		msg, err := TransactionToMessage(tx, c26Signer{rt.From}, big.NewInt(c26BaseFee))
		if err == nil {
			sdb.SetTxContext(tx.Hash(), included, uint32(included+1))
			res, err = ApplyMessage(evm, msg, gp)
		}
		if err != nil {
			// rejected: like the transition tool, undo whatever was touched and go on
			sdb.RevertToSnapshot(snap)
			gp.Set(gpre)
			got := c26Reject(err)
			if want.Rejected == "" {
				return out, fmt.Errorf("tx %d: go-ethereum rejects (%v), the specification includes it (status %v, gas used %d)", i, err, want.Status, want.GasUsed)
			}
			if len(want.AllRejects) == 1 && got != want.Rejected {
				return out, fmt.Errorf("tx %d: rejected with %q (%v), specification: %q", i, got, err, want.Rejected)
			}
			ok := false
			for _, r := range want.AllRejects {
				ok = ok || r == got
			}
			if !ok {
				return out, fmt.Errorf("tx %d: rejected with %q (%v), not among the specification's reasons %v", i, got, err, want.AllRejects)
			}
		} else {
			if want.Rejected != "" {
				return out, fmt.Errorf("tx %d: go-ethereum includes it (gas used %d), the specification rejects it: %s", i, res.UsedGas, want.Rejected)
			}
			sdb.Finalise(rules)
			rcpt := MakeReceipt(evm, res, sdb, blockNo, common.Hash{}, c26Time, tx, gp.CumulativeUsed(), nil)
			included++
			cumGas += want.GasUsed
			if got := rcpt.Status == types.ReceiptStatusSuccessful; got != want.Status {
				return out, fmt.Errorf("tx %d: receipt status %v (vm error %v), specification %v (gas used %d vs %d)", i, got, res.Err, want.Status, rcpt.GasUsed, want.GasUsed)
			}
			if rcpt.GasUsed != want.GasUsed {
				return out, fmt.Errorf("tx %d: gas used %d, specification %d (status %v, spent before refund %d, intrinsic %d, floor %d)", i, rcpt.GasUsed, want.GasUsed, want.Status, want.GasSpent, want.IntrinsicGas, want.FloorGas)
			}
			if res.MaxUsedGas != max(want.GasSpent, want.FloorGas) {
				return out, fmt.Errorf("tx %d: peak gas %d, specification %d", i, res.MaxUsedGas, max(want.GasSpent, want.FloorGas))
			}
			if rcpt.CumulativeGasUsed != cumGas {
				return out, fmt.Errorf("tx %d: cumulative gas used %d, specification %d", i, rcpt.CumulativeGasUsed, cumGas)
			}
			if len(rcpt.Logs) != len(want.Logs) {
				return out, fmt.Errorf("tx %d: %d logs, specification %d", i, len(rcpt.Logs), len(want.Logs))
			}
			for j, l := range rcpt.Logs {
				w := want.Logs[j]
				same := l.Address == w.Address && bytes.Equal(l.Data, w.Data) && len(l.Topics) == len(w.Topics)
				for k := 0; same && k < len(w.Topics); k++ {
					same = l.Topics[k] == w.Topics[k]
				}
				if !same {
					return out, fmt.Errorf("tx %d log %d: {%x %x %x}, specification {%x %x %x}", i, j, l.Address, l.Topics, l.Data, w.Address, w.Topics, w.Data)
				}
			}
			if wb := c26Bloom(want.Logs); rcpt.Bloom != wb {
				return out, fmt.Errorf("tx %d: receipt bloom differs from the Yellow Paper M3:2048 filter of the logs", i)
			}
			if rt.To == nil {
				if rcpt.ContractAddress != *want.Created {
					return out, fmt.Errorf("tx %d: contract address %x, specification %x", i, rcpt.ContractAddress, *want.Created)
				}
			} else {
				// return data is not part of a receipt; compare it for message calls as an extra observable
				// (output on success, revert data on REVERT, nothing on an exceptional halt)
				gotRet := res.ReturnData
				if res.Err != nil && !errors.Is(res.Err, vm.ErrExecutionReverted) {
					gotRet = nil
				}
				if !bytes.Equal(gotRet, want.Output) {
					return out, fmt.Errorf("tx %d: return data (%d bytes) %x, specification (%d bytes) %x", i, len(gotRet), c26Short(gotRet), len(want.Output), c26Short(want.Output))
				}
			}
			if gp.Gas() != blockGas-blk.GasUsed {
				return out, fmt.Errorf("tx %d: block gas left %d, specification %d", i, gp.Gas(), blockGas-blk.GasUsed)
			}
		}
		if err := c26CompareState(sdb, rules, blk.World, pre.world); err != nil {
			return out, fmt.Errorf("tx %d (rejected=%q status=%v gasUsed=%d): %v", i, want.Rejected, want.Status, want.GasUsed, err)
		}
	}
	return out, nil
}

func c26CompareState(sdb *state.StateDB, rules params.Rules, w, pre refevm.World) error {
	got, want := sdb.IntermediateRoot(rules), w.Root()
	if got == want {
		return nil
	}
	// explain
	addrs := map[common.Address]bool{c26Coinbase: true}
	for a := range w {
		addrs[a] = true
	}
	for a := range pre {
		addrs[a] = true
	}
	var list []common.Address
	for a := range addrs {
		list = append(list, a)
	}
	sort.Slice(list, func(i, j int) bool { return bytes.Compare(list[i][:], list[j][:]) < 0 })
	msg := ""
	for _, a := range list {
		acc, ok := w[a]
		if !ok {
			acc = &refevm.Account{Balance: new(big.Int), Storage: map[common.Hash]common.Hash{}}
		}
		if sdb.Exist(a) != ok {
			msg += fmt.Sprintf(" [%x exists=%v, specification %v]", a, sdb.Exist(a), ok)
		}
		if n := sdb.GetNonce(a); n != acc.Nonce {
			msg += fmt.Sprintf(" [%x nonce %d, specification %d]", a, n, acc.Nonce)
		}
		if b := sdb.GetBalance(a).ToBig(); b.Cmp(acc.Balance) != 0 {
			msg += fmt.Sprintf(" [%x balance %v, specification %v]", a, b, acc.Balance)
		}
		if c := sdb.GetCode(a); !bytes.Equal(c, acc.Code) {
			msg += fmt.Sprintf(" [%x code %x, specification %x]", a, c, acc.Code)
		}
		keys := map[common.Hash]bool{}
		for k := range acc.Storage {
			keys[k] = true
		}
		if p, ok := pre[a]; ok {
			for k := range p.Storage {
				keys[k] = true
			}
		}
		for i := 0; i < 4; i++ {
			keys[common.BigToHash(big.NewInt(int64(i)))] = true
		}
		var ks []common.Hash
		for k := range keys {
			ks = append(ks, k)
		}
		sort.Slice(ks, func(i, j int) bool { return bytes.Compare(ks[i][:], ks[j][:]) < 0 })
		for _, k := range ks {
			if v := sdb.GetState(a, k); v != acc.Storage[k] {
				msg += fmt.Sprintf(" [%x slot %x = %x, specification %x]", a, k, v, acc.Storage[k])
			}
		}
	}
	if msg == "" {
		msg = " (no difference in the accounts known to the reference: go-ethereum has additional accounts or slots)"
	}
	return fmt.Errorf("post-state root %x, specification %x:%s", got, want, msg)
}

// c26Short returns the first and last bytes of b that differ-proof a message without flooding it.
func c26Short(b []byte) []byte {
	if len(b) <= 160 {
		return b
	}
	return append(append([]byte{}, b[:96]...), b[len(b)-64:]...)
}

// c26Bloom is the Yellow Paper M3:2048 bloom filter over the logs' addresses and topics.
func c26Bloom(logs []refevm.Log) types.Bloom {
	var b types.Bloom
	add := func(data []byte) {
		h := crypto.Keccak256(data)
		for i := 0; i < 6; i += 2 {
			bit := (uint(h[i])<<8 | uint(h[i+1])) & 2047
			b[types.BloomByteLength-1-bit/8] |= 1 << (bit % 8)
		}
	}
	for _, l := range logs {
		add(l.Address[:])
		for _, t := range l.Topics {
			add(t[:])
		}
	}
	return b
}
