//go:build verif

package core

import (
	"context"
	"errors"
	"fmt"
	"math/big"
	"os"
	"sort"
	"strings"
	"sync"
	"sync/atomic"
	"testing"

	"github.com/ethereum/go-ethereum/common"
	"github.com/ethereum/go-ethereum/consensus"
	"github.com/ethereum/go-ethereum/consensus/ethash"
	"github.com/ethereum/go-ethereum/core/rawdb"
	"github.com/ethereum/go-ethereum/core/types"
	"github.com/ethereum/go-ethereum/crypto"
	"github.com/ethereum/go-ethereum/ethdb"
	"github.com/ethereum/go-ethereum/event"
	"github.com/ethereum/go-ethereum/internal/verif/mc"
	"github.com/ethereum/go-ethereum/params"
)

// ---------------------------------------------------------------------------
// C38: the canonical chain index stays consistent under reorgs.
//
// A fixed block forest is generated once. The exploration applies every sequence
// (up to a depth, de-duplicated on the persistent chain state) of
//   ins:X     InsertChain([X])                (legacy import; X becomes the head)
//   pay:X     InsertBlockWithoutSetHead(X)    (engine-API newPayload: store + execute only)
//   canon:X   SetCanonical(X)                 (engine-API forkchoiceUpdated)
//   sethead:n SetHead(n)
//   batch:A/B InsertChain(whole branch)
//   restart   Stop + NewBlockChain on the same database
// to a real BlockChain on a memory database and, after every operation, compares
// every observable (head pointers, canonical index, block/receipt/state presence,
// tx lookups, emitted events) with a naive reference model of the head-selection
// rule this tree implements, and checks the generic consistency invariants.

const (
	c38ModeHashArchive = iota // hash scheme, archive: every executed state is on disk
	c38ModeHashFull           // hash scheme, full node: Stop persists HEAD and HEAD-1 only
	c38ModePath               // path scheme: Stop journals the layers below the head only
)

var c38ModeNames = []string{"hash-archive", "hash-full", "path"}

type c38Block struct {
	name   string
	parent int // forest index, -1 = genesis
	height int
	txs    []int // indices into forest.txs
	block  *types.Block
}

type c38LogRef struct {
	BlockHash common.Hash
	Number    uint64
	TxHash    common.Hash
	TxIndex   uint
	Index     uint
	Topic     common.Hash
	Removed   bool
}

type c38Forest struct {
	gspec     *Genesis
	genesis   *types.Block
	blocks    []c38Block
	txs       []*types.Transaction
	txTopic   []common.Hash
	byHash    map[common.Hash]int
	txByHash  map[common.Hash]int
	maxHeight int
	logAddr   common.Address
	branches  map[string][]int
}

var (
	c38Forests  = map[int]*c38Forest{}
	c38ForestMu sync.Mutex
)

// c38LogCode: LOG1(offset 0, size 0, topic = calldata[0:32]); STOP
var c38LogCode = []byte{0x60, 0x00, 0x35, 0x60, 0x00, 0x60, 0x00, 0xa1, 0x00}

// c38GetForest builds the block forest with main chain A1..AH, fork B2..BH on A1,
// C3 on A2 carrying the *same* transaction as A3 (different coinbase), D<H> on
// B<H-1> without transactions (fork of the fork), E1 on genesis (only when withE).
// The transaction X (second sender) is contained in A2 (height 2) and B3 (height 3).
func c38GetForest(h int, withE bool) *c38Forest {
	c38ForestMu.Lock()
	defer c38ForestMu.Unlock()
	key := h * 2
	if withE {
		key++
	}
	if f, ok := c38Forests[key]; ok {
		return f
	}
	var (
		key1, _ = crypto.HexToECDSA("b71c71a67e1177ad4e901695e1b4b9ee17ae16c6668d313eac2f96dbcda3f291")
		key2, _ = crypto.HexToECDSA("8a1f9a8f95be41cd7ccb6168179afb4504aefe388d1e14474d32c45c72ce7b7a")
		addr1   = crypto.PubkeyToAddress(key1.PublicKey)
		addr2   = crypto.PubkeyToAddress(key2.PublicKey)
		logAddr = common.HexToAddress("0x00000000000000000000000000000000000c38c3")
		funds   = new(big.Int).Mul(big.NewInt(1_000_000), big.NewInt(params.Ether))
	)
	f := &c38Forest{
		gspec: &Genesis{
			Config:  params.AllEthashProtocolChanges,
			BaseFee: big.NewInt(params.InitialBaseFee),
			Alloc: types.GenesisAlloc{
				addr1:   {Balance: funds},
				addr2:   {Balance: funds},
				logAddr: {Balance: big.NewInt(1), Code: c38LogCode},
			},
		},
		byHash:    map[common.Hash]int{},
		txByHash:  map[common.Hash]int{},
		maxHeight: h,
		logAddr:   logAddr,
		branches:  map[string][]int{},
	}
	signer := types.LatestSigner(f.gspec.Config)
	mkTx := func(key int, nonce uint64, tag string) int {
		topic := crypto.Keccak256Hash([]byte("c38-" + tag))
		k := key1
		if key == 2 {
			k = key2
		}
		tx, err := types.SignTx(types.NewTransaction(nonce, logAddr, new(big.Int), 100000, big.NewInt(params.InitialBaseFee), topic.Bytes()), signer, k)
		if err != nil {
			panic(err)
		}
		f.txs = append(f.txs, tx)
		f.txTopic = append(f.txTopic, topic)
		f.txByHash[tx.Hash()] = len(f.txs) - 1
		return len(f.txs) - 1
	}
	engine := ethash.NewFaker()
	gendb, _, _ := GenerateChainWithGenesis(f.gspec, engine, 0, nil)
	f.genesis = f.gspec.ToBlock()
	add := func(name string, parent int, coinbase byte, txs ...int) int {
		pb := f.genesis
		height := 1
		if parent >= 0 {
			pb = f.blocks[parent].block
			height = f.blocks[parent].height + 1
		}
		blocks, _ := GenerateChain(f.gspec.Config, pb, engine, gendb, 1, func(i int, b *BlockGen) {
			b.SetCoinbase(common.Address{coinbase})
			for _, t := range txs {
				b.AddTx(f.txs[t])
			}
		})
		f.blocks = append(f.blocks, c38Block{name: name, parent: parent, height: height, txs: txs, block: blocks[0]})
		f.byHash[blocks[0].Hash()] = len(f.blocks) - 1
		return len(f.blocks) - 1
	}
	tx := mkTx(2, 0, "X")
	// main chain
	prev := -1
	var a []int
	for i := 1; i <= h; i++ {
		t := []int{mkTx(1, uint64(i-1), fmt.Sprintf("A%d", i))}
		if i == 2 {
			t = append(t, tx)
		}
		prev = add(fmt.Sprintf("A%d", i), prev, 0xa0, t...)
		a = append(a, prev)
	}
	f.branches["A"] = a
	// fork B from A1
	prev = a[0]
	var b []int
	for i := 2; i <= h; i++ {
		t := []int{mkTx(1, uint64(i-1), fmt.Sprintf("B%d", i))}
		if i == 3 {
			t = append([]int{tx}, t...)
		}
		prev = add(fmt.Sprintf("B%d", i), prev, 0xb0, t...)
		b = append(b, prev)
	}
	f.branches["B"] = b
	// C3: competitor of A3 with the same transaction
	if h >= 3 {
		add("C3", a[1], 0xc0, f.blocks[a[2]].txs...)
	}
	// D<h>: empty fork-of-fork block on B<h-1>
	if h >= 3 {
		add(fmt.Sprintf("D%d", h), b[h-3], 0xd0)
	}
	if withE {
		add("E1", -1, 0xe0, mkTx(1, 0, "E1"))
	}
	c38Forests[key] = f
	return f
}

func (f *c38Forest) hash(i int) common.Hash {
	if i < 0 {
		return f.genesis.Hash()
	}
	return f.blocks[i].block.Hash()
}

func (f *c38Forest) name(i int) string {
	if i < 0 {
		return "G"
	}
	return f.blocks[i].name
}

func (f *c38Forest) height(i int) int {
	if i < 0 {
		return 0
	}
	return f.blocks[i].height
}

func (f *c38Forest) parentOf(i int) int { return f.blocks[i].parent }

// ancestorAt returns the ancestor-or-self of i at height h (h <= height(i)).
func (f *c38Forest) ancestorAt(i, h int) int {
	for f.height(i) > h {
		i = f.parentOf(i)
	}
	return i
}

// path returns the blocks from height 1 up to i.
func (f *c38Forest) path(i int) []int {
	var p []int
	for ; i >= 0; i = f.parentOf(i) {
		p = append([]int{i}, p...)
	}
	return p
}

func (f *c38Forest) isAncestorOrSelf(a, i int) bool {
	return f.height(a) <= f.height(i) && f.ancestorAt(i, f.height(a)) == a
}

// logs returns the ground-truth logs of block i.
func (f *c38Forest) logs(i int, removed bool) []c38LogRef {
	var out []c38LogRef
	for pos, t := range f.blocks[i].txs {
		out = append(out, c38LogRef{
			BlockHash: f.hash(i), Number: uint64(f.height(i)), TxHash: f.txs[t].Hash(),
			TxIndex: uint(pos), Index: uint(pos), Topic: f.txTopic[t], Removed: removed,
		})
	}
	return out
}

// ---------------------------------------------------------------------------
// reference model

type c38Exp struct {
	err     bool          // the operation must fail
	rm      [][]c38LogRef // RemovedLogsEvents in order
	logs    [][]c38LogRef // LogsEvents in order
	chain   []int         // ChainEvents in order
	heads   []int         // ChainHeadEvents in order
	noTrack bool          // operation is outside of the log-subscriber accounting (SetHead, restart)
}

type c38Model struct {
	f          *c38Forest
	mode       int
	known      []bool
	state      []bool // state of the block is available right now
	persisted  []bool // hash-full: state was written to disk by an earlier Stop
	headBlock  int
	headHeader int
	canon      []int       // stored canonical index: height -> block (c38None = no entry)
	lookup     map[int]int // tx index -> block number of the stored lookup entry

	// set when a block that is not on the chain of the highest canonical entry became
	// the head while canonical entries existed above the head block
	forkWhileAhead bool
}

const c38None = -2

func c38NewModel(f *c38Forest, mode int) *c38Model {
	n := len(f.blocks)
	m := &c38Model{f: f, mode: mode, known: make([]bool, n), state: make([]bool, n), persisted: make([]bool, n),
		headBlock: -1, headHeader: -1, lookup: map[int]int{}, canon: make([]int, f.maxHeight+2)}
	for i := range m.canon {
		m.canon[i] = c38None
	}
	m.canon[0] = -1
	return m
}

func (m *c38Model) hasState(i int) bool { return i < 0 || m.state[i] }
func (m *c38Model) isKnown(i int) bool  { return i < 0 || m.known[i] }

// canonAt is the stored canonical block at height h.
func (m *c38Model) canonAt(h int) (int, bool) {
	if h >= len(m.canon) || m.canon[h] == c38None {
		return 0, false
	}
	return m.canon[h], true
}

func (m *c38Model) isCanon(i int) bool {
	c, ok := m.canonAt(m.f.height(i))
	return ok && c == i
}

// switchHead mirrors reorg + writeHeadBlock: makes x the head block and head
// header, appends the removed / reborn log batches to exp (the logs of x itself
// are not part of it). The reorg is computed from the head *block*: when the head
// header is ahead of the head block (after a rewind to a block without state) no
// clean-up of the canonical entries above the head block takes place.
func (m *c38Model) switchHead(x int, exp *c38Exp) {
	f := m.f
	cur := m.headBlock
	// top = block of the highest canonical entry (the head header, or the continuation
	// that a re-import below it left above the new head)
	top := m.headHeader
	for h := len(m.canon) - 1; h > 0; h-- {
		if m.canon[h] != c38None {
			top = m.canon[h]
			break
		}
	}
	if top != m.headBlock && !f.isAncestorOrSelf(x, top) && !f.isAncestorOrSelf(top, x) {
		m.forkWhileAhead = true
	}
	if f.parentOf(x) != cur {
		// common ancestor of cur and x
		ca := cur
		for !f.isAncestorOrSelf(ca, x) {
			ca = f.parentOf(ca)
		}
		var oldChain, newChain []int // oldest first, above the common ancestor
		for i := cur; i != ca; i = f.parentOf(i) {
			oldChain = append([]int{i}, oldChain...)
		}
		for i := x; i != ca; i = f.parentOf(i) {
			newChain = append([]int{i}, newChain...)
		}
		var rm, reborn []c38LogRef
		deleted := map[int]bool{}
		for _, b := range oldChain {
			rm = append(rm, f.logs(b, true)...)
			for _, t := range f.blocks[b].txs {
				deleted[t] = true
			}
		}
		if len(rm) > 0 {
			exp.rm = append(exp.rm, rm)
		}
		// every block of the new chain except the new head itself is re-announced
		top := f.height(ca)
		for k := 0; k+1 < len(newChain); k++ {
			b := newChain[k]
			reborn = append(reborn, f.logs(b, false)...)
			for _, t := range f.blocks[b].txs {
				m.lookup[t] = f.height(b)
				delete(deleted, t)
			}
			m.canon[f.height(b)] = b
			top = f.height(b)
		}
		if len(reborn) > 0 {
			exp.logs = append(exp.logs, reborn)
		}
		for t := range deleted {
			delete(m.lookup, t)
		}
		// canonical entries above the parent of the new head are dropped (up to the first gap)
		for i := top + 1; i < len(m.canon) && m.canon[i] != c38None; i++ {
			m.canon[i] = c38None
		}
	}
	for _, t := range f.blocks[x].txs {
		m.lookup[t] = f.height(x)
	}
	m.canon[f.height(x)] = x
	m.headBlock, m.headHeader = x, x
}

// execAsHead mirrors writeBlockAndSetHead / SetCanonical's tail: x is executed (or
// explicitly selected) and announced with a ChainEvent and its own logs.
func (m *c38Model) execAsHead(x int, exp *c38Exp) {
	m.known[x], m.state[x] = true, true
	m.switchHead(x, exp)
	exp.chain = append(exp.chain, x)
	if l := m.f.logs(x, false); len(l) > 0 {
		exp.logs = append(exp.logs, l)
	}
}

// statelessChain returns x and its ancestors without state, oldest first.
func (m *c38Model) statelessChain(x int) []int {
	var l []int
	for ; !m.hasState(x); x = m.f.parentOf(x) {
		l = append([]int{x}, l...)
	}
	return l
}

// insert mirrors InsertChain([x]) except for the final ChainHeadEvent.
// Returns whether the head was (re)written.
func (m *c38Model) insert(x int, exp *c38Exp) bool {
	f := m.f
	p := f.parentOf(x)
	if !m.isKnown(p) {
		exp.err = true
		return false
	}
	if m.known[x] && m.state[x] {
		if m.isCanon(x) && f.height(x) <= f.height(m.headBlock) {
			return false // already known canonical block: ignored
		}
		// known block with state that is not canonical (or above the head): only the
		// head markers are rewritten (writeKnownBlock): no ChainEvent, no own logs.
		m.switchHead(x, exp)
		return true
	}
	// x is executed on its parent's state and becomes the head
	m.execAsHead(x, exp)
	return true
}

func (m *c38Model) apply(op c38Op) c38Exp {
	f := m.f
	var exp c38Exp
	switch op.kind {
	case "ins":
		if m.insert(op.arg, &exp) {
			exp.heads = append(exp.heads, m.headBlock)
		}
	case "batch":
		wrote := false
		for _, x := range f.branches[op.branch] {
			if m.insert(x, &exp) {
				wrote = true
			}
		}
		if wrote {
			exp.heads = append(exp.heads, m.headBlock)
		}
	case "pay":
		x := op.arg
		if !m.isKnown(f.parentOf(x)) {
			exp.err = true
			break
		}
		m.known[x], m.state[x] = true, true
	case "canon":
		x := op.arg
		for _, b := range m.statelessChain(x) {
			m.state[b] = true
		}
		m.execAsHead(x, &exp)
		exp.heads = append(exp.heads, x)
	case "sethead":
		n := op.arg
		exp.noTrack = true
		if f.height(m.headHeader) > n {
			for i := range f.blocks {
				if f.height(i) > n {
					m.known[i] = false
				}
			}
			for i := n + 1; i < len(m.canon); i++ {
				m.canon[i] = c38None
			}
			m.headHeader = f.ancestorAt(m.headHeader, n)
			if f.height(m.headBlock) > n {
				b := m.headHeader
				for !m.hasState(b) {
					b = f.parentOf(b)
				}
				m.headBlock = b
			}
		}
		exp.heads = append(exp.heads, m.headBlock)
	case "restart":
		exp.noTrack = true
		switch m.mode {
		case c38ModeHashArchive:
		case c38ModeHashFull:
			// Stop commits the states of HEAD and HEAD-1 (when they are still in memory)
			if m.headBlock >= 0 {
				m.persisted[m.headBlock] = true
				if p := f.parentOf(m.headBlock); p >= 0 && m.state[p] {
					m.persisted[p] = true
				}
			}
			copy(m.state, m.persisted)
		case c38ModePath:
			for i := range m.state {
				m.state[i] = f.isAncestorOrSelf(i, m.headBlock)
			}
		}
	}
	return exp
}

func (m *c38Model) key() string {
	var sb strings.Builder
	for i := range m.known {
		c := byte('.')
		switch {
		case m.known[i] && m.state[i]:
			c = 'S'
		case m.known[i]:
			c = 'k'
		case m.state[i]:
			c = 's'
		}
		sb.WriteByte(c)
		if m.persisted[i] {
			sb.WriteByte('p')
		}
	}
	fmt.Fprintf(&sb, "|%s|%s|", m.f.name(m.headBlock), m.f.name(m.headHeader))
	for _, c := range m.canon[1:] {
		if c != c38None {
			sb.WriteString(m.f.name(c))
		} else {
			sb.WriteString("-")
		}
	}
	sb.WriteString("|")
	var ts []int
	for t := range m.lookup {
		ts = append(ts, t)
	}
	sort.Ints(ts)
	for _, t := range ts {
		fmt.Fprintf(&sb, "%d:%d,", t, m.lookup[t])
	}
	return sb.String()
}

// ---------------------------------------------------------------------------
// the live system

type c38Op struct {
	kind   string
	arg    int
	branch string
}

type c38Sys struct {
	r      *mc.R
	f      *c38Forest
	mode   int
	run    string // name of the exploration
	ops    []c38Op
	names  []string
	db     ethdb.Database
	engine consensus.Engine
	bc     *BlockChain
	m      *c38Model
	trail  []string
	dead   bool // a class finding was recorded in this state; it is not expanded further

	chainCh chan ChainEvent
	headCh  chan ChainHeadEvent
	logsCh  chan []*types.Log
	rmCh    chan RemovedLogsEvent
	subs    []event.Subscription
}

func c38Alphabet(f *c38Forest) ([]c38Op, []string) {
	var ops []c38Op
	var names []string
	for i := range f.blocks {
		ops = append(ops, c38Op{kind: "ins", arg: i})
		names = append(names, "ins:"+f.name(i))
	}
	for i := range f.blocks {
		ops = append(ops, c38Op{kind: "canon", arg: i})
		names = append(names, "canon:"+f.name(i))
	}
	for i := range f.blocks {
		ops = append(ops, c38Op{kind: "pay", arg: i})
		names = append(names, "pay:"+f.name(i))
	}
	for n := 0; n < f.maxHeight; n++ {
		ops = append(ops, c38Op{kind: "sethead", arg: n})
		names = append(names, fmt.Sprintf("sethead:%d", n))
	}
	ops = append(ops, c38Op{kind: "restart"})
	names = append(names, "restart")
	for _, br := range []string{"A", "B"} {
		ops = append(ops, c38Op{kind: "batch", branch: br})
		names = append(names, "batch:"+br)
	}
	return ops, names
}

func (s *c38Sys) config() *BlockChainConfig {
	cfg := &BlockChainConfig{
		TrieCleanLimit: 0,
		TrieDirtyLimit: 256,
		TrieTimeLimit:  5 * 60 * 1e9,
		SnapshotLimit:  0,
		TxLookupLimit:  0, // index the entire chain
		StateScheme:    rawdb.HashScheme,
		NoPrefetch:     true,
	}
	switch s.mode {
	case c38ModeHashArchive:
		cfg.ArchiveMode = true
	case c38ModePath:
		cfg.StateScheme = rawdb.PathScheme
		cfg.TrieNoAsyncFlush = true
	}
	return cfg
}

func (s *c38Sys) open() error {
	bc, err := NewBlockChain(s.db, s.f.gspec, s.engine, s.config())
	if err != nil {
		return err
	}
	s.bc = bc
	s.chainCh = make(chan ChainEvent, 64)
	s.headCh = make(chan ChainHeadEvent, 64)
	s.logsCh = make(chan []*types.Log, 64)
	s.rmCh = make(chan RemovedLogsEvent, 64)
	s.subs = []event.Subscription{
		bc.SubscribeChainEvent(s.chainCh),
		bc.SubscribeChainHeadEvent(s.headCh),
		bc.SubscribeLogsEvent(s.logsCh),
		bc.SubscribeRemovedLogsEvent(s.rmCh),
	}
	return nil
}

func c38NewSys(r *mc.R, f *c38Forest, mode int, run string, ops []c38Op, names []string) *c38Sys {
	s := &c38Sys{r: r, f: f, mode: mode, run: run, ops: ops, names: names, engine: ethash.NewFaker()}
	s.db = rawdb.NewMemoryDatabase()
	// The background transaction indexer only back-fills ranges below the stored
	// index tail. Mark the (genesis-only) chain as completely indexed so that the
	// free-running indexer goroutine never writes concurrently with the operations;
	// the index is then maintained synchronously by writeHeadBlock/reorg alone.
	rawdb.WriteTxIndexTail(s.db, 0)
	s.m = c38NewModel(f, mode)
	if err := s.open(); err != nil {
		panic(fmt.Sprintf("c38: cannot create chain: %v", err))
	}
	return s
}

func (s *c38Sys) close() {
	if s.bc != nil {
		s.bc.Stop()
		s.bc = nil
	}
	s.db.Close()
}

func (s *c38Sys) Enabled(op int) bool {
	o := s.ops[op]
	m := s.m
	if s.dead {
		return false
	}
	switch o.kind {
	case "ins":
		// Scope: an import on top of a stored block whose state is gone takes the
		// pre-merge side chain path (insertSideChain); it is not explored. The
		// post-merge way to get there (SetCanonical of a stored block without state,
		// recoverAncestors) is.
		p := s.f.parentOf(o.arg)
		return !m.isKnown(p) || m.hasState(p)
	case "pay":
		// engine API contract: newPayload short-circuits on blocks that are already stored
		p := s.f.parentOf(o.arg)
		return !m.known[o.arg] && (!m.isKnown(p) || m.hasState(p))
	case "canon":
		// engine API contract: forkchoiceUpdated only calls SetCanonical for a stored
		// block that is not the current head
		return m.known[o.arg] && o.arg != m.headBlock
	case "batch":
		// The whole-branch import is explored where every stored block of the branch
		// (and the parent of its first block) has its state; the pruned-ancestor path
		// is explored through the single block imports.
		br := s.f.branches[o.branch]
		p := s.f.parentOf(br[0])
		if !m.isKnown(p) || !m.hasState(p) {
			return false
		}
		for _, x := range br {
			if m.known[x] && !m.state[x] {
				return false
			}
		}
		return true
	}
	return true
}

func (s *c38Sys) Key() string {
	return s.run + "#" + s.m.key() + "#" + s.fingerprint()
}

// fingerprint is the white-box part of the state key: persistent head markers and the snap block.
func (s *c38Sys) fingerprint() string {
	f := s.f
	nm := func(h common.Hash) string {
		if h == f.genesis.Hash() {
			return "G"
		}
		if i, ok := f.byHash[h]; ok {
			return f.name(i)
		}
		if h == (common.Hash{}) {
			return "-"
		}
		return "?"
	}
	var sb strings.Builder
	sb.WriteString(nm(rawdb.ReadHeadBlockHash(s.db)) + "," + nm(rawdb.ReadHeadHeaderHash(s.db)) + "," + nm(rawdb.ReadHeadFastBlockHash(s.db)) + ",")
	sb.WriteString(nm(s.bc.CurrentSnapBlock().Hash()) + ",")
	for n := 0; n <= f.maxHeight+1; n++ {
		sb.WriteString(nm(rawdb.ReadCanonicalHash(s.db, uint64(n))))
	}
	return sb.String()
}

func (s *c38Sys) Apply(op int) error {
	o := s.ops[op]
	s.trail = append(s.trail, s.names[op])
	f := s.f
	oldCanon := map[int]bool{}
	for _, b := range f.path(s.m.headBlock) {
		oldCanon[b] = true
	}
	exp := s.m.apply(o)

	var err error
	switch o.kind {
	case "ins":
		_, err = s.bc.InsertChain(types.Blocks{f.blocks[o.arg].block})
	case "batch":
		var bl types.Blocks
		for _, x := range f.branches[o.branch] {
			bl = append(bl, f.blocks[x].block)
		}
		_, err = s.bc.InsertChain(bl)
	case "pay":
		_, err = s.bc.InsertBlockWithoutSetHead(context.Background(), f.blocks[o.arg].block, false)
	case "canon":
		_, err = s.bc.SetCanonical(f.blocks[o.arg].block)
	case "sethead":
		err = s.bc.SetHead(uint64(o.arg))
	case "restart":
		for _, sub := range s.subs {
			sub.Unsubscribe()
		}
		s.bc.Stop()
		s.bc = nil
		err = s.open()
		if err != nil {
			return fmt.Errorf("restart failed: %v", err)
		}
	}
	if exp.err {
		if err == nil {
			return fmt.Errorf("%s: block with unknown parent was accepted", s.names[op])
		}
		if !errors.Is(err, consensus.ErrUnknownAncestor) {
			return fmt.Errorf("%s: expected unknown-ancestor error, got %v", s.names[op], err)
		}
	} else if err != nil {
		return fmt.Errorf("%s: unexpected error %v", s.names[op], err)
	}
	// Note: the prefix replays of Explore run the complete checks again on purpose: the
	// reads of the checks warm the in-memory caches (tx lookup, receipts, blocks), and a
	// stale cache entry is only observable when the prefix performed the same reads.
	if e := s.checkEvents(o, exp, oldCanon); e != nil {
		return fmt.Errorf("%s: %v", s.names[op], e)
	}
	if e := s.checkState(); e != nil {
		return fmt.Errorf("after %s: %v", s.names[op], e)
	}
	return nil
}

func c38FromLog(l *types.Log) c38LogRef {
	r := c38LogRef{BlockHash: l.BlockHash, Number: l.BlockNumber, TxHash: l.TxHash, TxIndex: l.TxIndex, Index: l.Index, Removed: l.Removed}
	if len(l.Topics) == 1 {
		r.Topic = l.Topics[0]
	}
	return r
}

func (s *c38Sys) fmtLogs(ls []c38LogRef) string {
	var parts []string
	for _, l := range ls {
		b := "?"
		if i, ok := s.f.byHash[l.BlockHash]; ok {
			b = s.f.name(i)
		}
		t := "?"
		if i, ok := s.f.txByHash[l.TxHash]; ok {
			t = fmt.Sprint(i)
		}
		rm := ""
		if l.Removed {
			rm = "-"
		}
		parts = append(parts, fmt.Sprintf("%s%s/tx%s#%d", rm, b, t, l.Index))
	}
	return "[" + strings.Join(parts, " ") + "]"
}

func (s *c38Sys) fmtBatches(bs [][]c38LogRef) string {
	var parts []string
	for _, b := range bs {
		parts = append(parts, s.fmtLogs(b))
	}
	return "{" + strings.Join(parts, " ") + "}"
}

func (s *c38Sys) fmtBlocks(bs []int) string {
	var parts []string
	for _, b := range bs {
		parts = append(parts, s.f.name(b))
	}
	return "[" + strings.Join(parts, " ") + "]"
}

func c38EqBatches(a, b [][]c38LogRef) bool {
	if len(a) != len(b) {
		return false
	}
	for i := range a {
		if len(a[i]) != len(b[i]) {
			return false
		}
		for j := range a[i] {
			if a[i][j] != b[i][j] {
				return false
			}
		}
	}
	return true
}

// checkEvents drains the subscriptions (all sends happened synchronously inside the
// operation) and compares them (a) with the exact event list the reference rule
// predicts and (b) with the statement-level subscriber accounting: a subscriber that
// adds LogsEvents and removes RemovedLogsEvents must end up with exactly the logs of
// the new canonical chain.
func (s *c38Sys) checkEvents(o c38Op, exp c38Exp, oldCanon map[int]bool) error {
	f := s.f
	var (
		gotChain, gotHeads []int
		gotLogs, gotRm     [][]c38LogRef
	)
	blk := func(h common.Hash) (int, error) {
		if h == f.genesis.Hash() {
			return -1, nil
		}
		if i, ok := f.byHash[h]; ok {
			return i, nil
		}
		return 0, fmt.Errorf("event for unknown block %x", h)
	}
	for done := false; !done; {
		select {
		case ev := <-s.chainCh:
			i, err := blk(ev.Header.Hash())
			if err != nil {
				return err
			}
			gotChain = append(gotChain, i)
			if i >= 0 {
				// the event must carry the transactions and receipts of that block
				b := f.blocks[i]
				if len(ev.Transactions) != len(b.txs) || len(ev.Receipts) != len(b.txs) {
					return fmt.Errorf("ChainEvent(%s) carries %d txs / %d receipts, block has %d", b.name, len(ev.Transactions), len(ev.Receipts), len(b.txs))
				}
				want := f.logs(i, false)
				for k, t := range b.txs {
					if ev.Transactions[k].Hash() != f.txs[t].Hash() || ev.Receipts[k].TxHash != f.txs[t].Hash() {
						return fmt.Errorf("ChainEvent(%s) tx/receipt %d mismatch", b.name, k)
					}
					if len(ev.Receipts[k].Logs) != 1 || c38FromLog(ev.Receipts[k].Logs[0]) != want[k] {
						return fmt.Errorf("ChainEvent(%s) receipt %d has wrong logs", b.name, k)
					}
				}
			}
		case ev := <-s.headCh:
			i, err := blk(ev.Header.Hash())
			if err != nil {
				return err
			}
			gotHeads = append(gotHeads, i)
		case ls := <-s.logsCh:
			var b []c38LogRef
			for _, l := range ls {
				b = append(b, c38FromLog(l))
			}
			gotLogs = append(gotLogs, b)
		case ev := <-s.rmCh:
			var b []c38LogRef
			for _, l := range ev.Logs {
				b = append(b, c38FromLog(l))
			}
			gotRm = append(gotRm, b)
		default:
			done = true
		}
	}
	// (a) exact conformance with the rule of this tree
	if fmt.Sprint(gotChain) != fmt.Sprint(exp.chain) {
		return fmt.Errorf("ChainEvents %s, reference rule predicts %s", s.fmtBlocks(gotChain), s.fmtBlocks(exp.chain))
	}
	if fmt.Sprint(gotHeads) != fmt.Sprint(exp.heads) {
		return fmt.Errorf("ChainHeadEvents %s, reference rule predicts %s", s.fmtBlocks(gotHeads), s.fmtBlocks(exp.heads))
	}
	if !c38EqBatches(gotRm, exp.rm) {
		return fmt.Errorf("RemovedLogsEvents %s, reference rule predicts %s", s.fmtBatches(gotRm), s.fmtBatches(exp.rm))
	}
	if !c38EqBatches(gotLogs, exp.logs) {
		return fmt.Errorf("LogsEvents %s, reference rule predicts %s", s.fmtBatches(gotLogs), s.fmtBatches(exp.logs))
	}
	if exp.noTrack {
		return nil
	}
	// (b) subscriber accounting per block
	cnt := map[int]int{}
	for b := range oldCanon {
		cnt[b] = 1
	}
	account := func(batches [][]c38LogRef, removed bool, delta int) error {
		for _, batch := range batches {
			for k := 0; k < len(batch); {
				i, ok := f.byHash[batch[k].BlockHash]
				if !ok {
					return fmt.Errorf("log of unknown block in event")
				}
				want := f.logs(i, removed)
				if k+len(want) > len(batch) {
					return fmt.Errorf("partial log list of block %s in event %s", f.name(i), s.fmtLogs(batch))
				}
				for j := range want {
					if batch[k+j] != want[j] {
						return fmt.Errorf("event logs %s do not match the logs of block %s", s.fmtLogs(batch), f.name(i))
					}
				}
				cnt[i] += delta
				k += len(want)
			}
		}
		return nil
	}
	if err := account(gotRm, true, -1); err != nil {
		return err
	}
	if err := account(gotLogs, false, +1); err != nil {
		return err
	}
	newCanon := map[int]bool{}
	for _, b := range f.path(s.m.headBlock) {
		newCanon[b] = true
	}
	for i := range f.blocks {
		if len(f.blocks[i].txs) == 0 {
			continue
		}
		switch {
		case newCanon[i] && cnt[i] < 1:
			s.finding("canonical-logs-never-announced", fmt.Sprintf("block %s is canonical after the operation but a log subscriber never received its logs (old canonical %v, removed %s, added %s)",
				f.name(i), oldCanon[i], s.fmtBatches(gotRm), s.fmtBatches(gotLogs)))
		case newCanon[i] && cnt[i] > 1:
			s.finding("canonical-logs-announced-twice", fmt.Sprintf("logs of canonical block %s were announced again without a removal (removed %s, added %s)",
				f.name(i), s.fmtBatches(gotRm), s.fmtBatches(gotLogs)))
		case !newCanon[i] && cnt[i] != 0:
			return fmt.Errorf("block %s is not canonical after the operation but a log subscriber still holds its logs (count %d; removed %s, added %s)",
				f.name(i), cnt[i], s.fmtBatches(gotRm), s.fmtBatches(gotLogs))
		}
	}
	return nil
}

var c38Reported sync.Map

// finding records a statement-level deviation under a class key (the exploration continues).
func (s *c38Sys) finding(class, desc string) {
	ops := append([]string{}, s.trail...)
	// the prefix replays of Explore reach the same deviation again: report an operation list once
	if _, dup := c38Reported.LoadOrStore(s.run+"|"+class+"|"+strings.Join(ops, ";"), struct{}{}); dup {
		return
	}
	s.r.Outcome("finding/" + class)
	s.r.Violation("C38:"+class, fmt.Sprintf("%s (exploration %s, ops %s)", desc, s.run, strings.Join(ops, ";")),
		map[string]any{"explore": "C38-" + s.run, "ops": ops})
}

// checkState compares every observable with the reference (conformance) and then
// checks the generic consistency invariants, which use only the implementation's
// own answers and the ground truth of the block forest.
func (s *c38Sys) checkState() error {
	if err := s.checkModel(); err != nil {
		return err
	}
	if err := s.checkInvariants(); err != nil {
		if s.m.forkWhileAhead {
			// Known root cause (see report): the reorg clean-up is keyed on the head
			// *block*; importing a competing block while the head header is ahead of it
			// replaces canonical entries without clean-up. Recorded once under a class
			// key; the state is not expanded further.
			code := "other"
			var ie *c38InvErr
			if errors.As(err, &ie) {
				code = ie.code
			}
			s.finding("fork-import-while-header-ahead/"+code, err.Error())
			s.dead = true
			return nil
		}
		return err
	}
	return nil
}

// checkModel: the implementation is in the state the reference rule predicts.
func (s *c38Sys) checkModel() error {
	f, m, bc, db := s.f, s.m, s.bc, s.db
	cur, hdr := bc.CurrentBlock(), bc.CurrentHeader()
	if cur.Hash() != f.hash(m.headBlock) {
		return fmt.Errorf("CurrentBlock is #%d %s, reference head is %s", cur.Number, s.nameOf(cur.Hash()), f.name(m.headBlock))
	}
	if hdr.Hash() != f.hash(m.headHeader) {
		return fmt.Errorf("CurrentHeader is #%d %s, reference head header is %s", hdr.Number, s.nameOf(hdr.Hash()), f.name(m.headHeader))
	}
	for n := 0; n <= f.maxHeight+1; n++ {
		h := rawdb.ReadCanonicalHash(db, uint64(n))
		want, ok := m.canonAt(n)
		if !ok && h != (common.Hash{}) {
			return fmt.Errorf("canonical hash at #%d is %s, reference has no entry", n, s.nameOf(h))
		}
		if ok && h != f.hash(want) {
			return fmt.Errorf("canonical hash at #%d is %s, reference %s", n, s.nameOf(h), f.name(want))
		}
	}
	for i, b := range f.blocks {
		h, n := b.block.Hash(), b.block.NumberU64()
		hasH, hasB, hasR := rawdb.HasHeader(db, h, n), rawdb.HasBody(db, h, n), rawdb.HasReceipts(db, h, n)
		if hasH != m.known[i] || hasB != m.known[i] || hasR != m.known[i] {
			return fmt.Errorf("block %s: header=%v body=%v receipts=%v stored, reference known=%v", b.name, hasH, hasB, hasR, m.known[i])
		}
		if got := bc.GetBlockByHash(h) != nil; got != m.known[i] {
			return fmt.Errorf("block %s: GetBlockByHash found=%v, reference known=%v", b.name, got, m.known[i])
		}
		if got := bc.HasState(b.block.Root()); got != m.state[i] {
			return fmt.Errorf("block %s: HasState=%v, reference %v", b.name, got, m.state[i])
		}
	}
	for t, tx := range f.txs {
		wantN, wantEntry := m.lookup[t]
		entry := rawdb.ReadTxLookupEntry(db, tx.Hash())
		if (entry != nil) != wantEntry || (entry != nil && int(*entry) != wantN) {
			return fmt.Errorf("tx %d: stored lookup entry %v, reference (%v,%d)", t, c38Ptr(entry), wantEntry, wantN)
		}
	}
	return nil
}

// checkInvariants: the statement-level invariants, independent of the reference.
func (s *c38Sys) checkInvariants() error {
	f, bc, db := s.f, s.bc, s.db
	cfg := f.gspec.Config
	// --- head pointers
	cur, hdr, snap := bc.CurrentBlock(), bc.CurrentHeader(), bc.CurrentSnapBlock()
	if rawdb.ReadHeadBlockHash(db) != cur.Hash() || rawdb.ReadHeadHeaderHash(db) != hdr.Hash() || rawdb.ReadHeadFastBlockHash(db) != snap.Hash() {
		return c38Inv("head-markers", "stored head markers (%s,%s,%s) differ from the in-memory heads (%s,%s,%s)",
			s.nameOf(rawdb.ReadHeadBlockHash(db)), s.nameOf(rawdb.ReadHeadHeaderHash(db)), s.nameOf(rawdb.ReadHeadFastBlockHash(db)),
			s.nameOf(cur.Hash()), s.nameOf(hdr.Hash()), s.nameOf(snap.Hash()))
	}
	if !(hdr.Number.Uint64() >= snap.Number.Uint64() && snap.Number.Uint64() >= cur.Number.Uint64()) {
		return c38Inv("head-order", "head order violated: header #%d, snap #%d, block #%d", hdr.Number, snap.Number, cur.Number)
	}
	if !bc.HasState(cur.Root) {
		return c38Inv("head-state", "state of the head block #%d is not available", cur.Number)
	}
	if _, err := bc.StateAt(cur); err != nil {
		return c38Inv("head-state", "state of the head block cannot be opened: %v", err)
	}
	// --- canonical index: parent linked chain from genesis to the head header,
	// containing the head block and the snap block
	var (
		prev  common.Hash
		canon []int // canonical blocks by height (forest index), as stored
	)
	top := int(hdr.Number.Uint64())
	for n := 0; n <= top; n++ {
		h := rawdb.ReadCanonicalHash(db, uint64(n))
		if h == (common.Hash{}) {
			return c38Inv("index-gap", "no canonical hash at #%d below the head header #%d", n, top)
		}
		idx := -1
		if n == 0 {
			if h != f.genesis.Hash() {
				return c38Inv("index-genesis", "canonical hash at #0 is not the genesis block")
			}
		} else {
			var ok bool
			if idx, ok = f.byHash[h]; !ok {
				return c38Inv("index-unknown-block", "canonical hash at #%d is not a block of the forest", n)
			}
			if f.blocks[idx].block.ParentHash() != prev {
				return c38Inv("index-not-parent-linked", "canonical block #%d (%s) is not the child of canonical block #%d (%s)", n, s.nameOf(h), n-1, s.nameOf(prev))
			}
		}
		b := bc.GetBlockByNumber(uint64(n))
		if b == nil || b.Hash() != h {
			return c38Inv("index-reader", "GetBlockByNumber(%d) does not return the canonical block %s", n, s.nameOf(h))
		}
		if hh := bc.GetHeaderByNumber(uint64(n)); hh == nil || hh.Hash() != h {
			return c38Inv("index-reader", "GetHeaderByNumber(%d) does not return the canonical header %s", n, s.nameOf(h))
		}
		if bc.GetCanonicalHash(uint64(n)) != h {
			return c38Inv("index-reader", "GetCanonicalHash(%d) differs from the stored index", n)
		}
		canon = append(canon, idx)
		prev = h
	}
	if prev != hdr.Hash() {
		return c38Inv("index-head-header", "canonical hash at the head header height #%d is %s, not the head header %s", top, s.nameOf(prev), s.nameOf(hdr.Hash()))
	}
	if rawdb.ReadCanonicalHash(db, cur.Number.Uint64()) != cur.Hash() {
		return c38Inv("head-not-canonical", "head block %s is not canonical", s.nameOf(cur.Hash()))
	}
	if rawdb.ReadCanonicalHash(db, snap.Number.Uint64()) != snap.Hash() {
		return c38Inv("snap-not-canonical", "snap head block %s is not canonical", s.nameOf(snap.Hash()))
	}
	// Entries above the head header: a stored, parent-linked continuation is what a
	// rewind to a block without state leaves behind for re-import (tolerated, counted);
	// anything else is an inconsistent index.
	above := 0
	for n := top + 1; n <= f.maxHeight+1; n++ {
		h := rawdb.ReadCanonicalHash(db, uint64(n))
		if h == (common.Hash{}) {
			if b := bc.GetBlockByNumber(uint64(n)); b != nil {
				return c38Inv("index-reader", "GetBlockByNumber(%d) returns a block without canonical entry", n)
			}
			continue
		}
		idx, ok := f.byHash[h]
		if !ok || above != n-top-1 || f.blocks[idx].block.ParentHash() != prev || bc.GetBlockByHash(h) == nil {
			return c38Inv("index-stale-above-head", "canonical hash at #%d (%s) above the head header #%d (%s) is not a stored descendant of it", n, s.nameOf(h), top, s.nameOf(hdr.Hash()))
		}
		canon = append(canon, idx)
		prev = h
		above++
	}
	if above > 0 {
		s.r.Outcome("canonical-continuation-above-head-header")
	}
	// --- receipts of every stored block
	for i, b := range f.blocks {
		h := b.block.Hash()
		rs := bc.GetReceiptsByHash(h)
		if bc.GetBlockByHash(h) != nil {
			want := f.logs(i, false)
			if len(rs) != len(b.txs) {
				return c38Inv("receipts", "block %s: %d receipts for %d transactions", b.name, len(rs), len(b.txs))
			}
			for k, r := range rs {
				if r.TxHash != f.txs[b.txs[k]].Hash() || r.BlockHash != h || len(r.Logs) != 1 || c38FromLog(r.Logs[0]) != want[k] {
					return c38Inv("receipts", "block %s: receipt %d has wrong derived fields", b.name, k)
				}
			}
		} else if rs != nil {
			return c38Inv("receipts", "block %s: receipts returned for an unknown block", b.name)
		}
	}
	// --- transaction and receipt lookups resolve exactly to the canonical blocks
	for t, tx := range f.txs {
		h := tx.Hash()
		wantBlock, wantIdx := c38None, 0
		for n := 1; n < len(canon); n++ {
			for k, bt := range f.blocks[canon[n]].txs {
				if bt == t {
					wantBlock, wantIdx = canon[n], k
				}
			}
		}
		lookup, gtx := bc.GetCanonicalTransaction(h)
		rtx, rHash, rNum, rIdx := rawdb.ReadCanonicalTransaction(db, h)
		rcpt, cHash, _, _ := rawdb.ReadCanonicalReceipt(db, h, cfg)
		if wantBlock == c38None {
			if lookup != nil || gtx != nil || rtx != nil || rcpt != nil {
				where := ""
				if lookup != nil {
					where = " to block " + s.nameOf(lookup.BlockHash)
				}
				return c38Inv("lookup-resolves-noncanonical", "tx %d is in no canonical block but the lookup resolves%s (GetCanonicalTransaction=%v ReadCanonicalTransaction=%v ReadCanonicalReceipt=%v)", t, where, lookup != nil, rtx != nil, rcpt != nil)
			}
			continue
		}
		wb := f.blocks[wantBlock]
		if rtx == nil || rHash != wb.block.Hash() || rNum != wb.block.NumberU64() || int(rIdx) != wantIdx {
			return c38Inv("lookup-misses-canonical", "tx %d is canonical in %s[%d] but ReadCanonicalTransaction gives found=%v block=%s idx=%d", t, wb.name, wantIdx, rtx != nil, s.nameOf(rHash), rIdx)
		}
		if lookup == nil || gtx == nil || lookup.BlockHash != wb.block.Hash() || lookup.BlockIndex != wb.block.NumberU64() || int(lookup.Index) != wantIdx || gtx.Hash() != h {
			return c38Inv("lookup-misses-canonical", "tx %d is canonical in %s[%d] but GetCanonicalTransaction gives %+v", t, wb.name, wantIdx, lookup)
		}
		if rcpt == nil || cHash != wb.block.Hash() || rcpt.TxHash != h || rcpt.BlockHash != wb.block.Hash() {
			return c38Inv("lookup-misses-canonical", "tx %d is canonical in %s but ReadCanonicalReceipt gives found=%v block=%s", t, wb.name, rcpt != nil, s.nameOf(cHash))
		}
		r2, err := bc.GetCanonicalReceipt(gtx, lookup.BlockHash, lookup.BlockIndex, lookup.Index)
		if err != nil || r2.TxHash != h || r2.BlockHash != wb.block.Hash() || len(r2.Logs) != 1 || c38FromLog(r2.Logs[0]) != f.logs(wantBlock, false)[wantIdx] {
			return c38Inv("lookup-misses-canonical", "tx %d: GetCanonicalReceipt wrong (err=%v)", t, err)
		}
	}
	return nil
}

// c38InvErr is a violated generic invariant with a short class code.
type c38InvErr struct{ code, msg string }

func (e *c38InvErr) Error() string { return e.msg }

func c38Inv(code, format string, args ...any) error {
	return &c38InvErr{code: code, msg: fmt.Sprintf(format, args...)}
}

func c38Ptr(p *uint64) string {
	if p == nil {
		return "none"
	}
	return fmt.Sprint(*p)
}

func (s *c38Sys) nameOf(h common.Hash) string {
	if h == s.f.genesis.Hash() {
		return "G"
	}
	if i, ok := s.f.byHash[h]; ok {
		return s.f.name(i)
	}
	if h == (common.Hash{}) {
		return "none"
	}
	return fmt.Sprintf("%x", h.Bytes()[:4])
}

// c38Exploration is one breadth-first exploration.
type c38Exploration struct {
	name   string
	mode   int
	height int
	withE  bool
	depth  int
	only   []string // when set: restrict the alphabet to operations on these blocks and these sethead targets (plus restart, batch:A)
}

func TestVerif_C38(t *testing.T) {
	mc.Run(t, "C38", func(r *mc.R) {
		var runs []c38Exploration
		if r.Quick() {
			runs = []c38Exploration{
				{name: "path", mode: c38ModePath, height: 3, depth: 4},
				{name: "hash-full", mode: c38ModeHashFull, height: 3, depth: 3},
				{name: "hash-archive", mode: c38ModeHashArchive, height: 3, depth: 3},
				// head header ahead of the head block (rewind to a block whose state is gone), then
				// re-import / competing import: needs height 4 because Stop persists HEAD and HEAD-1
				{name: "hash-full-ahead", mode: c38ModeHashFull, height: 4, withE: true, depth: 4, only: []string{"A1", "E1", "sethead:1", "sethead:2"}},
			}
		} else {
			runs = []c38Exploration{
				{name: "path", mode: c38ModePath, height: 4, withE: true, depth: 5},
				{name: "hash-full", mode: c38ModeHashFull, height: 4, withE: true, depth: 5},
				{name: "hash-archive", mode: c38ModeHashArchive, height: 4, withE: true, depth: 5},
			}
		}
		if v := os.Getenv("VERIF_C38_EXP"); v != "" { // experiments only: "mode,height,depth,withE"
			var m, h, d, e int
			fmt.Sscanf(v, "%d,%d,%d,%d", &m, &h, &d, &e)
			runs = []c38Exploration{{name: c38ModeNames[m], mode: m, height: h, depth: d, withE: e == 1}}
		}
		r.Rule("breadth-first exploration of all sequences of {ins:X = InsertChain([X]), pay:X = InsertBlockWithoutSetHead(X), canon:X = SetCanonical(X), sethead:n = SetHead(n), batch:A|B = InsertChain(whole branch), restart = Stop+NewBlockChain} " +
			"over a fixed block forest (main chain A, fork B on A1, C3 on A2 sharing A3's transaction, empty fork-of-fork block D, competitor E1 of A1; transaction X contained in A2 and B3), " +
			"de-duplicated on (stored blocks, available states, persisted states, head block, head header, canonical index, stored tx lookup entries + the stored head markers); one exploration per state scheme configuration; " +
			"every transition is executed on a real BlockChain on a memory database and all observables and events are compared with the reference rule and with the generic invariants")
		r.Assume("reference = head-selection rule of this tree: an imported block that is not an already-canonical known block becomes the head (reorg when its parent is not the head block); SetCanonical(X) makes X the head; SetHead(n) deletes every block above n and moves the head block to the nearest ancestor with state; restart keeps everything except the in-memory states")
		r.Assume("the background tx indexer is made inert by marking the chain as fully indexed at start (TxLookupLimit=0, index tail 0); the index is maintained synchronously by writeHeadBlock/reorg")
		r.Assume("operations are serialised; engine-API call contract: newPayload only for blocks not yet stored, SetCanonical only for stored blocks other than the current head; imports on top of a stored block whose state is gone (pre-merge insertSideChain path) are not explored; SetHead/restart are treated as re-subscription points for log subscribers (SetHead announces only the new head)")
		for _, x := range runs {
			x := x
			f := c38GetForest(x.height, x.withE)
			ops, names := c38Alphabet(f)
			if x.only != nil {
				var fo []c38Op
				var fn []string
				for i, o := range ops {
					keep := o.kind == "restart" || (o.kind == "batch" && o.branch == "A")
					for _, b := range x.only {
						if o.kind == "ins" || o.kind == "pay" || o.kind == "canon" {
							keep = keep || f.name(o.arg) == b
						}
						keep = keep || names[i] == b
					}
					if keep {
						fo, fn = append(fo, o), append(fn, names[i])
					}
				}
				ops, names = fo, fn
			}
			r.Bound(x.name+".forest_blocks", len(f.blocks))
			r.Bound(x.name+".forest_height", x.height)
			var applied atomic.Int64 // operations executed on real chains (prefix replays included)
			r.Explore(mc.Config{
				Name:  "C38-" + x.name,
				Ops:   names,
				Depth: x.depth,
				New:   func() mc.Sys { return c38NewSys(r, f, x.mode, x.name, ops, names) },
				Close: func(s mc.Sys) { applied.Add(int64(len(s.(*c38Sys).trail))); s.(*c38Sys).close() },
			})
			r.Bound(x.name+".operations_executed", applied.Load())
		}
	})
}
