//go:build verif

package txorder

// C43 - block building orders transactions by nonce and price.
//
// Exhaustive enumeration of all small pending maps (3 accounts, short nonce-ordered
// lists, fee cap / tip / arrival time from small sets, base fee from {nil,0,1,3}) and,
// for each, of EVERY Shift/Pop decision sequence (depth-first, the real iterator is
// cloned white-box at each branching point). The model recomputes the set of available
// heads from scratch at every step.

import (
	"fmt"
	"math/big"
	"sync/atomic"
	"testing"
	"time"

	"github.com/ethereum/go-ethereum/common"
	"github.com/ethereum/go-ethereum/core/txpool"
	"github.com/ethereum/go-ethereum/core/types"
	"github.com/ethereum/go-ethereum/internal/verif/mc"
	"github.com/holiman/uint256"
)

// fee cap / tip pairs (tip <= cap, as the pools guarantee)
var c43Pairs = [][2]uint64{{0, 0}, {1, 1}, {2, 1}, {2, 2}, {5, 1}, {5, 5}}

var c43Bases = []int64{-1, 0, 1, 3} // -1 = nil (pre-London)

// Arrival instants, in chronological order (the index order IS the time order the oracle uses). They straddle second
// boundaries with non-monotonic sub-second parts, so that a comparison that looks at seconds and nanoseconds
// separately (or only at one of them) disagrees with the full timestamp order for some pair.
var c43Instants = []time.Time{
	time.Unix(1_700_000_099, 999_999_999),
	time.Unix(1_700_000_100, 900_000_000),
	time.Unix(1_700_000_101, 100_000_000),
	time.Unix(1_700_000_101, 500_000_000),
	time.Unix(1_700_000_102, 0),
}

// c43TimeSet picks n of the instants (still chronological): 2 -> {100.9s, 101.1s}, 3 -> {99.999999999s, 100.9s, 101.1s}.
func c43TimeSet(n int) []time.Time {
	for i := 1; i < len(c43Instants); i++ {
		if !c43Instants[i-1].Before(c43Instants[i]) {
			panic("c43: instants must be strictly chronological")
		}
	}
	switch n {
	case 2:
		return c43Instants[1:3]
	case 3:
		return c43Instants[0:3]
	}
	return c43Instants[:n]
}

// c43Opt encodes one transaction choice: pair index * nTimes + time index.
type c43Opt struct {
	cap, tip uint64
	t        int
}

func (o c43Opt) String() string { return fmt.Sprintf("cap%d/tip%d@t%d", o.cap, o.tip, o.t) }

type c43Case struct {
	Base string   `json:"basefee"`
	A    []string `json:"a"`
	B    []string `json:"b"`
	C    []string `json:"c"`
}

// c43Eff is the specification of the miner's effective tip: nil base fee -> the tip; otherwise the transaction is
// only includable if cap >= base, and pays min(tip, cap-base).
func c43Eff(o c43Opt, base int64) (uint64, bool) {
	if base < 0 {
		return o.tip, true
	}
	if o.cap < uint64(base) {
		return 0, false
	}
	if d := o.cap - uint64(base); d < o.tip {
		return d, true
	}
	return o.tip, true
}

type c43Ctx struct {
	opts  []c43Opt
	lazy  [3][3][]*txpool.LazyTransaction // [account][position][option]
	addrs [3]common.Address
}

func c43NewCtx(nTimes int) *c43Ctx {
	c := &c43Ctx{}
	for _, p := range c43Pairs {
		for t := 0; t < nTimes; t++ {
			c.opts = append(c.opts, c43Opt{p[0], p[1], t})
		}
	}
	for a := 0; a < 3; a++ {
		c.addrs[a] = common.Address{byte(0xa0 + a)}
		for pos := 0; pos < 3; pos++ {
			for oi, o := range c.opts {
				c.lazy[a][pos] = append(c.lazy[a][pos], &txpool.LazyTransaction{
					Hash:      common.Hash{byte(a), byte(pos), byte(oi)},
					Time:      c43TimeSet(nTimes)[o.t],
					GasFeeCap: uint256.NewInt(o.cap),
					GasTipCap: uint256.NewInt(o.tip),
					Gas:       uint64(a*16 + pos), // identity tag (the iterator does not read Gas)
				})
			}
		}
	}
	return c
}

// all option sequences of length 0..maxLen
func c43Lists(nOpts, maxLen int) [][]int {
	out := [][]int{{}}
	prev := [][]int{{}}
	for l := 1; l <= maxLen; l++ {
		var cur [][]int
		for _, p := range prev {
			for o := 0; o < nOpts; o++ {
				cur = append(cur, append(append(make([]int, 0, l), p...), o))
			}
		}
		out = append(out, cur...)
		prev = cur
	}
	return out
}

type c43Model struct {
	lists [3][]int
	pos   [3]int
	alive [3]bool
}

func c43Clone(t *TransactionsByPriceAndNonce) *TransactionsByPriceAndNonce {
	txs := make(map[common.Address][]*txpool.LazyTransaction, len(t.txs))
	for k, v := range t.txs {
		txs[k] = v
	}
	return &TransactionsByPriceAndNonce{txs: txs, heads: append(txByPriceAndTime(nil), t.heads...), signer: t.signer, baseFee: t.baseFee}
}

type c43Stats struct{ maps, nodes, leaves, ties, invalidHead, invalidMid int64 }

// c43Walk checks the current step against the model and explores both decisions.
func (c *c43Ctx) walk(it *TransactionsByPriceAndNonce, m c43Model, base int64, path []byte, st *c43Stats) error {
	st.nodes++
	tx, fee := it.Peek()
	nHeads := 0
	for a := 0; a < 3; a++ {
		if m.alive[a] {
			nHeads++
		}
	}
	if nHeads == 0 {
		st.leaves++
		if tx != nil || !it.Empty() {
			return fmt.Errorf("after %q: model has no available head but Peek returned a transaction / Empty()=%v", path, it.Empty())
		}
		return nil
	}
	if tx == nil || it.Empty() {
		return fmt.Errorf("after %q: %d accounts still have an available head but the iterator is empty", path, nHeads)
	}
	a, pos := int(tx.Gas/16), int(tx.Gas%16)
	if a > 2 || pos >= len(m.lists[a]) || tx != c.lazy[a][pos][m.lists[a][pos]] {
		return fmt.Errorf("after %q: Peek returned a transaction that is not in the pending map", path)
	}
	if !m.alive[a] {
		return fmt.Errorf("after %q: Peek yields position %d of account %d which was dropped or exhausted", path, pos, a)
	}
	if pos != m.pos[a] {
		return fmt.Errorf("after %q: Peek yields position %d of account %d, but its next unyielded transaction is position %d", path, pos, a, m.pos[a])
	}
	o := c.opts[m.lists[a][pos]]
	eff, ok := c43Eff(o, base)
	if !ok {
		return fmt.Errorf("after %q: Peek yields %v of account %d whose fee cap is below the base fee %d", path, o, a, base)
	}
	if fee == nil || !fee.IsUint64() || fee.Uint64() != eff {
		return fmt.Errorf("after %q: Peek reports miner fee %v for %v, specification says %d (base fee %d)", path, fee, o, eff, base)
	}
	for b := 0; b < 3; b++ {
		if b == a || !m.alive[b] {
			continue
		}
		ob := c.opts[m.lists[b][m.pos[b]]]
		eb, _ := c43Eff(ob, base)
		if eb > eff || eb == eff && ob.t < o.t {
			return fmt.Errorf("after %q: Peek yields %v (account %d, effective tip %d) although account %d offers %v (effective tip %d)", path, o, a, eff, b, ob, eb)
		}
		if eb == eff && ob.t == o.t {
			st.ties++
		}
	}
	// decision 1: Shift (transaction included; continue with the account's next nonce if it is includable)
	{
		m2 := m
		m2.pos[a]++
		if m2.pos[a] >= len(m2.lists[a]) {
			m2.alive[a] = false
		} else if _, ok := c43Eff(c.opts[m2.lists[a][m2.pos[a]]], base); !ok {
			m2.alive[a] = false // the rest of the account is unreachable
			st.invalidMid++
		}
		it2 := c43Clone(it)
		it2.Shift()
		if err := c.walk(it2, m2, base, append(path, 'S'), st); err != nil {
			return err
		}
	}
	// decision 2: Pop (transaction failed; drop the rest of the account)
	{
		m2 := m
		m2.alive[a] = false
		it.Pop()
		if err := c.walk(it, m2, base, append(path, 'P'), st); err != nil {
			return err
		}
	}
	return nil
}

func (c *c43Ctx) runCase(base int64, lists [3][]int, st *c43Stats) error {
	pending := make(map[common.Address][]*txpool.LazyTransaction, 3)
	var m c43Model
	m.lists = lists
	st.maps++
	for a := 0; a < 3; a++ {
		if len(lists[a]) == 0 {
			continue
		}
		l := make([]*txpool.LazyTransaction, len(lists[a]))
		for pos, oi := range lists[a] {
			l[pos] = c.lazy[a][pos][oi]
		}
		pending[c.addrs[a]] = l
		if _, ok := c43Eff(c.opts[lists[a][0]], base); ok {
			m.alive[a] = true
		} else {
			st.invalidHead++
		}
	}
	var bf *big.Int
	if base >= 0 {
		bf = big.NewInt(base)
	}
	it := NewTransactionsByPriceAndNonce(types.HomesteadSigner{}, pending, bf)
	return c.walk(it, m, base, make([]byte, 0, 12), st)
}

func (c *c43Ctx) names(l []int) []string {
	out := make([]string, len(l))
	for i, o := range l {
		out[i] = c.opts[o].String()
	}
	return out
}

func TestVerif_C43(t *testing.T) {
	mc.Run(t, "C43", func(r *mc.R) {
		type shape struct {
			nTimes     int
			la, lb, lc int
		}
		shapes := mc.Pick(r,
			[]shape{{2, 2, 2, 1}, {2, 3, 1, 0}, {5, 1, 1, 1}},
			[]shape{{2, 3, 2, 1}, {3, 2, 2, 1}, {2, 2, 2, 2}, {5, 2, 1, 1}})
		r.Rule("all pending maps over 3 accounts with nonce-ordered lists of bounded length (per shape: la,lb,lc), each transaction drawn from " +
			"6 (feeCap,tip) pairs {0/0,1/1,2/1,2/2,5/1,5/5} x nTimes arrival instants out of {99.999999999s, 100.9s, 101.1s, 101.5s, 102.0s} (second boundaries crossed, sub-second parts not monotonic), x base fee {nil,0,1,3}; for every map EVERY Shift/Pop decision sequence " +
			"until the iterator is empty (DFS); maps that differ only by swapping two accounts are enumerated once (list index of B <= that of A, of C <= that of B, " +
			"whenever both range over the same list set); one evaluation = one map with its whole decision tree; distinct = distinct (shape-independent) maps")
		r.Assume("model = recompute-from-scratch set of available heads; effective tip = tip if base fee nil else min(tip, feeCap-base), not includable if feeCap<base; " +
			"exact ties in (effective tip, time) may be broken either way")
		r.Bound("basefees", "nil,0,1,3")
		var total c43Stats
		for si, sh := range shapes {
			ctx := c43NewCtx(sh.nTimes)
			la, lb, lc := c43Lists(len(ctx.opts), sh.la), c43Lists(len(ctx.opts), sh.lb), c43Lists(len(ctx.opts), sh.lc)
			var nMaps atomic.Int64
			nShards := len(c43Bases) * len(la)
			stats := make([]c43Stats, nShards)
			done := r.Parallel(nShards, func(i int) {
				base := c43Bases[i/len(la)]
				A := la[i%len(la)]
				st := &stats[i]
				bname := "nil"
				if base >= 0 {
					bname = fmt.Sprint(base)
				}
				ai := i % len(la)
				for bi, B := range lb {
					if ai < len(lb) && bi > ai {
						break // accounts are interchangeable: the mirrored map (A and B swapped) is enumerated
					}
					for ci, C := range lc {
						if bi < len(lc) && ci > bi {
							break // same for B and C
						}
						lists := [3][]int{A, B, C}
						if r.Replaying() {
							r.Case(c43Case{bname, ctx.names(A), ctx.names(B), ctx.names(C)}, func() error { return ctx.runCase(base, lists, st) })
							continue
						}
						r.Eval(1)
						if err := mc.Safely(func() error { return ctx.runCase(base, lists, st) }); err != nil {
							cs := c43Case{bname, ctx.names(A), ctx.names(B), ctx.names(C)}
							r.Case(cs, func() error { r.Eval(-1); return err })
						}
						h := uint64(base+2) * 0x9e3779b97f4a7c15
						for a, l := range lists {
							h = h*31 + uint64(a) + 7
							for _, o := range l {
								op := ctx.opts[o]
								h = h*1099511628211 + (op.cap*8+op.tip)*4 + uint64(op.t) + 1
							}
						}
						r.DistinctHash(h)
					}
				}
				nMaps.Add(st.maps)
				if i%977 == 0 && len(A) > 0 {
					r.Sample(c43Case{bname, ctx.names(A), ctx.names(lb[len(lb)-1]), ctx.names(lc[len(lc)-1])})
				}
			})
			r.Bound(fmt.Sprintf("shape%d", si), fmt.Sprintf("times=%d maxlen=(%d,%d,%d) maps_enumerated=%d (of %d before account symmetry)",
				sh.nTimes, sh.la, sh.lb, sh.lc, nMaps.Load(), len(la)*len(lb)*len(lc)*len(c43Bases)))
			for i := range stats {
				total.nodes += stats[i].nodes
				total.leaves += stats[i].leaves
				total.ties += stats[i].ties
				total.invalidHead += stats[i].invalidHead
				total.invalidMid += stats[i].invalidMid
			}
			if done < nShards {
				break
			}
		}
		r.OutcomeN("peek-steps-checked", total.nodes)
		r.OutcomeN("decision-sequences-completed", total.leaves)
		r.OutcomeN("exact-ties-seen", total.ties)
		r.OutcomeN("account-dropped-head-under-basefee", total.invalidHead)
		r.OutcomeN("account-dropped-midlist-under-basefee", total.invalidMid)
	})
}
