//go:build verif

package blobpool

// C42 - the blob pool stays consistent across operations and restarts.
//
// Explicit-state exploration (mc.Explore) of the real BlobPool on a real billy store
// (under VERIF_SCRATCH) with a fake chain. The blob transaction table is built once
// (cells are computed once, the KZG commitments/proofs come from the package's test
// blobs). After every operation the invariants of the statement are recomputed from
// the pool's index, lookup, eviction heap, limbo and from a full iteration of the
// on-disk stores; the limbo content is predicted exactly by a model; on overflow the
// evicted transactions are compared with the priority order recomputed from scratch;
// "restart" closes the pool and opens a new one on the same directory and requires
// identical contents.

import (
	"crypto/ecdsa"
	"errors"
	"fmt"
	"math"
	"math/big"
	"os"
	"path/filepath"
	"sort"
	"strings"
	"sync"
	"sync/atomic"
	"testing"

	"github.com/ethereum/go-ethereum/common"
	"github.com/ethereum/go-ethereum/core"
	"github.com/ethereum/go-ethereum/core/state"
	"github.com/ethereum/go-ethereum/core/tracing"
	"github.com/ethereum/go-ethereum/core/txpool"
	"github.com/ethereum/go-ethereum/core/types"
	"github.com/ethereum/go-ethereum/crypto"
	"github.com/ethereum/go-ethereum/crypto/kzg4844"
	"github.com/ethereum/go-ethereum/internal/verif/mc"
	"github.com/ethereum/go-ethereum/params"
	"github.com/ethereum/go-ethereum/rlp"
	"github.com/ethereum/go-ethereum/trie"
	"github.com/holiman/billy"
	"github.com/holiman/uint256"
)

// c42PooledHash extracts the transaction hash from the stored encoding of a BlobTxForPool ([tx-bytes, cell-sidecar])
// without decoding the 256 KiB of cells.
func c42PooledHash(data []byte) (common.Hash, error) {
	tx, err := c42PooledTx(data)
	if err != nil {
		return common.Hash{}, err
	}
	return tx.Hash(), nil
}

// c42PooledTx decodes only the transaction part of a stored BlobTxForPool.
func c42PooledTx(data []byte) (*types.Transaction, error) {
	content, _, err := rlp.SplitList(data)
	if err != nil {
		return nil, err
	}
	txb, _, err := rlp.SplitString(content)
	if err != nil {
		return nil, err
	}
	tx := new(types.Transaction)
	if err := tx.UnmarshalBinary(txb); err != nil {
		return nil, err
	}
	return tx, nil
}

// c42LimboEntry decodes owner hash, block and the embedded transaction's hash of a stored limboBlob ([hash, block, ptx]).
func c42LimboEntry(data []byte) (owner common.Hash, block uint64, inner common.Hash, err error) {
	content, _, err := rlp.SplitList(data)
	if err != nil {
		return
	}
	hb, rest, err := rlp.SplitString(content)
	if err != nil || len(hb) != 32 {
		return owner, 0, inner, errors.New("bad limbo owner hash")
	}
	copy(owner[:], hb)
	block, rest, err = rlp.SplitUint64(rest)
	if err != nil {
		return
	}
	_, _, err = rlp.SplitList(rest)
	if err != nil {
		return
	}
	// rest starts with the list header of the pooled transaction
	end := len(rest)
	inner, err = c42PooledHash(rest[:end])
	return
}

func billyOpen(path string, onData billy.OnDataFn) (billy.Database, error) {
	return billy.Open(billy.Options{Path: path, Readonly: true}, newSlotterEIP7594(params.BlobTxMaxBlobs), onData)
}

const (
	c42NAcct    = 3
	c42BalHigh  = 1_000_000_000
	c42BalDrain = 80_000_000 // pays two cheap ("lo") transactions of A, not three, not lo+hi
	c42GasLimit = 30_000_000
)

type c42Acct struct {
	name  string
	key   *ecdsa.PrivateKey
	addr  common.Address
	nonce uint64 // initial state nonce (>= 9 gives the account one slot in the gapped reorder buffer)
}

type c42Tx struct {
	name                 string
	acct                 int
	nonce                uint64
	tip, feeCap, blobFee uint64
	cost                 uint64
	full                 *types.Transaction // with sidecar (for ValidateTxBasics and for blocks)
	enc                  []byte             // binary encoding without sidecar (fresh copies get a fresh arrival time)
	cells                *types.BlobTxCellSidecar
	hash                 common.Hash
	vhash                common.Hash
}

var (
	c42Once   sync.Once
	c42Accts  []c42Acct
	c42Table  []*c42Tx
	c42ByName map[string]int
	c42ByHash map[common.Hash]int
	c42Config *params.ChainConfig
	c42Time   uint64
	c42Seq    atomic.Int64
	c42SlotSize uint64 // store slot size of a one-blob pooled transaction (smallest shelf that fits its encoding)
)

// Table: per account and nonce a cheap "lo" and a doubled "hi" variant (PriceBump is 100%: hi exactly meets the bump
// over lo in all three fee dimensions), for A's first nonce also "mid" (+50%: below the bump). Variants of the same
// (account, nonce) carry the same blob.
func c42Setup() {
	c42Once.Do(func() {
		// mainnet rules between Prague and Osaka: with an Osaka time configured every Init would run the store migration
		// probe (three more billy opens of 14 shelves each), which makes fresh pools ~3x more expensive to create
		cfg := *params.MainnetChainConfig
		cfg.OsakaTime, cfg.BPO1Time, cfg.BPO2Time, cfg.BPO3Time, cfg.BPO4Time, cfg.BPO5Time, cfg.AmsterdamTime = nil, nil, nil, nil, nil, nil, nil
		c42Config = &cfg
		c42Time = *c42Config.PragueTime + 100
		signer := types.LatestSigner(c42Config)
		c42ByName = map[string]int{}
		c42ByHash = map[common.Hash]int{}
		starts := []uint64{10, 0, 0}
		for i := 0; i < c42NAcct; i++ {
			kb := make([]byte, 32)
			kb[31] = byte(0x13 * (i + 1))
			kb[0] = 0x42
			key, err := crypto.ToECDSA(kb)
			if err != nil {
				panic(err)
			}
			c42Accts = append(c42Accts, c42Acct{name: string(rune('A' + i)), key: key, addr: crypto.PubkeyToAddress(key.PublicKey), nonce: starts[i]})
		}
		type fee struct{ tip, cap, blob uint64 }
		base := []fee{{100, 1000, 100}, {90, 600, 100}, {50, 1000, 100}}
		counts := []int{3, 3, 1}
		blobIdx := 0
		for ai, a := range c42Accts {
			for k := 0; k < counts[ai]; k++ {
				n := a.nonce + uint64(k)
				variants := []struct {
					sfx string
					mul uint64 // in halves
				}{{"", 2}, {"h", 4}}
				if ai == 0 && k == 0 {
					variants = append(variants, struct {
						sfx string
						mul uint64
					}{"m", 3})
				}
				for _, v := range variants {
					f := fee{base[ai].tip * v.mul / 2, base[ai].cap * v.mul / 2, base[ai].blob * v.mul / 2}
					inner := &types.BlobTx{
						ChainID:    uint256.MustFromBig(c42Config.ChainID),
						Nonce:      n,
						GasTipCap:  uint256.NewInt(f.tip),
						GasFeeCap:  uint256.NewInt(f.cap),
						Gas:        21000,
						BlobFeeCap: uint256.NewInt(f.blob),
						BlobHashes: []common.Hash{testBlobVHashes[blobIdx]},
						Value:      uint256.NewInt(100),
						Sidecar:    types.NewBlobTxSidecar(types.BlobSidecarVersion1, []kzg4844.Blob{*testBlobs[blobIdx]}, []kzg4844.Commitment{testBlobCommits[blobIdx]}, testBlobCellProofs[blobIdx]),
					}
					full := types.MustSignNewTx(a.key, signer, inner)
					ptx, err := newBlobTxForPool(full)
					if err != nil {
						panic(err)
					}
					enc, err := ptx.Tx.MarshalBinary()
					if err != nil {
						panic(err)
					}
					e := &c42Tx{name: fmt.Sprintf("%s%d%s", a.name, k, v.sfx), acct: ai, nonce: n, tip: f.tip, feeCap: f.cap, blobFee: f.blob,
						cost: full.Cost().Uint64(), full: full, enc: enc, cells: ptx.CellSidecar, hash: full.Hash(), vhash: testBlobVHashes[blobIdx]}
					if c42SlotSize == 0 {
						blob, _ := rlp.EncodeToBytes(ptx)
						slotter := newSlotterEIP7594(params.BlobTxMaxBlobs)
						for {
							sz, done := slotter()
							if int(sz) >= len(blob)+4 || done { // billy prefixes each item with a 4-byte size
								c42SlotSize = uint64(sz)
								break
							}
						}
					}
					c42ByName[e.name] = len(c42Table)
					c42ByHash[e.hash] = len(c42Table)
					c42Table = append(c42Table, e)
				}
				blobIdx++
			}
		}
	})
}

// fresh pooled form of a table transaction (new arrival time, shared cells)
func (t *c42Tx) pooled() *BlobTxForPool {
	tx := new(types.Transaction)
	if err := tx.UnmarshalBinary(t.enc); err != nil {
		panic(err)
	}
	return &BlobTxForPool{Tx: tx, CellSidecar: t.cells}
}

// ---------------------------------------------------------------------------
// fake chain

type c42Blk struct {
	hdr     *types.Header
	blk     *types.Block
	parent  *c42Blk
	desc    string
	height  int
	nonce   [c42NAcct]uint64
	bal     [c42NAcct]uint64
	baseFee uint64
}

type c42Chain struct {
	mu     sync.Mutex
	blocks map[common.Hash]*c42Blk
	head   *c42Blk
	final  *c42Blk
	serial uint64
}

func (c *c42Chain) Config() *params.ChainConfig { return c42Config }
func (c *c42Chain) CurrentBlock() *types.Header {
	c.mu.Lock()
	defer c.mu.Unlock()
	return c.head.hdr
}
func (c *c42Chain) CurrentFinalBlock() *types.Header {
	c.mu.Lock()
	defer c.mu.Unlock()
	return c.final.hdr
}
func (c *c42Chain) Genesis() *types.Block {
	c.mu.Lock()
	defer c.mu.Unlock()
	b := c.head
	for b.parent != nil {
		b = b.parent
	}
	return b.blk
}
func (c *c42Chain) GetBlock(hash common.Hash, number uint64) *types.Block {
	c.mu.Lock()
	defer c.mu.Unlock()
	if b := c.blocks[hash]; b != nil && b.hdr.Number.Uint64() == number {
		return b.blk
	}
	return nil
}
func (c *c42Chain) StateAt(h *types.Header) (*state.StateDB, error) {
	c.mu.Lock()
	b := c.blocks[h.Hash()]
	c.mu.Unlock()
	if b == nil {
		return nil, errors.New("c42: unknown header")
	}
	sdb, err := state.New(types.EmptyRootHash, state.NewDatabaseForTesting())
	if err != nil {
		return nil, err
	}
	for i, a := range c42Accts {
		sdb.SetNonce(a.addr, b.nonce[i], tracing.NonceChangeUnspecified)
		sdb.SetBalance(a.addr, uint256.NewInt(b.bal[i]), tracing.BalanceChangeUnspecified)
	}
	return sdb, nil
}

func (c *c42Chain) extend(parent *c42Blk, desc string, txs []*types.Transaction, mod func(b *c42Blk)) *c42Blk {
	c.mu.Lock()
	defer c.mu.Unlock()
	c.serial++
	nb := &c42Blk{parent: parent, desc: desc}
	num := c42Config.LondonBlock.Uint64() + 1
	var ph common.Hash
	if parent != nil {
		nb.nonce, nb.bal, nb.baseFee, nb.height = parent.nonce, parent.bal, parent.baseFee, parent.height+1
		num = parent.hdr.Number.Uint64() + 1
		ph = parent.hdr.Hash()
	}
	if mod != nil {
		mod(nb)
	}
	var excess uint64
	h := &types.Header{
		ParentHash:    ph,
		Number:        new(big.Int).SetUint64(num),
		Difficulty:    new(big.Int),
		GasLimit:      c42GasLimit,
		GasUsed:       c42GasLimit / params.DefaultElasticityMultiplier, // on target: next base fee == this one
		BaseFee:       new(big.Int).SetUint64(nb.baseFee),
		Time:          c42Time,
		ExcessBlobGas: &excess,
		Extra:         []byte(fmt.Sprintf("c42-%d", c.serial)),
	}
	nb.blk = types.NewBlock(h, &types.Body{Transactions: txs}, nil, trie.NewStackTrie(nil))
	nb.hdr = nb.blk.Header()
	c.blocks[nb.hdr.Hash()] = nb
	return nb
}

func (c *c42Chain) setHead(b *c42Blk) {
	c.mu.Lock()
	c.head = b
	c.mu.Unlock()
}

type c42Reserver struct {
	mu   sync.Mutex
	held map[common.Address]struct{}
	errs []string
}

func (r *c42Reserver) Hold(addr common.Address) error {
	r.mu.Lock()
	defer r.mu.Unlock()
	if _, ok := r.held[addr]; ok {
		r.errs = append(r.errs, fmt.Sprintf("Hold(%x) while already reserved", addr[:4]))
		return errors.New("already reserved")
	}
	r.held[addr] = struct{}{}
	return nil
}
func (r *c42Reserver) Release(addr common.Address) error {
	r.mu.Lock()
	defer r.mu.Unlock()
	if _, ok := r.held[addr]; !ok {
		r.errs = append(r.errs, fmt.Sprintf("Release(%x) while not reserved", addr[:4]))
		return errors.New("not reserved")
	}
	delete(r.held, addr)
	return nil
}
func (r *c42Reserver) Has(common.Address) bool { return false }

// ---------------------------------------------------------------------------

type c42Op struct {
	name  string
	kind  string // add | inc | incx | incd | revert | final | fee | tip | restart
	tx    int
	acct  int
	level uint64
}

func c42ParseOp(s string) c42Op {
	f := strings.Split(s, ":")
	op := c42Op{name: s, kind: f[0]}
	switch f[0] {
	case "add":
		i, ok := c42ByName[f[1]]
		if !ok {
			panic("c42: unknown tx " + f[1])
		}
		op.tx = i
	case "inc", "incx", "incd":
		op.acct = int(f[1][0] - 'A')
	case "revert", "final", "restart":
	case "fee", "tip":
		fmt.Sscanf(f[1], "%d", &op.level)
	default:
		panic("c42: bad op " + s)
	}
	return op
}

type c42Scenario struct {
	name   string
	slots  int // data cap in transactions
	init   []string
	ops    []string
	depthQ int
	depthT int
	parsed []c42Op
	pinit  []c42Op
}

type c42Snap struct {
	idx    [c42NAcct][]int // pooled, nonce order
	gapped [c42NAcct][]int
	limbo  map[int]uint64 // tx -> inclusion block
	heap   []int          // accounts in heap array order
	fp     string
}

func (sn *c42Snap) has(ti int) bool {
	for _, x := range sn.idx[c42Table[ti].acct] {
		if x == ti {
			return true
		}
	}
	return false
}

type c42Sys struct {
	r        *mc.R
	sc       *c42Scenario
	dir      string
	pool     *BlobPool
	chain    *c42Chain
	res      *c42Reserver
	tip      uint64
	slotSize uint64
	mlimbo   map[int]uint64 // model of the limbo: tx -> inclusion block number
	cur      *c42Snap
	last     string
	effects  []string
	initErr  error
	light    bool // replaying an already validated prefix: skip the store reads and API cross-checks
}

func c42Scratch() string {
	d := os.Getenv("VERIF_SCRATCH")
	if d == "" {
		d = os.TempDir()
	}
	return d
}

func (s *c42Sys) open() error {
	s.res = &c42Reserver{held: map[common.Address]struct{}{}}
	s.pool = New(Config{Datadir: s.dir, Datacap: uint64(s.sc.slots)*s.slotSize + s.slotSize/2, PriceBump: 100}, s.chain, nil)
	return s.pool.Init(s.tip, s.chain.CurrentBlock(), s.res)
}

func c42New(r *mc.R, sc *c42Scenario) *c42Sys {
	s := &c42Sys{r: r, sc: sc, tip: 1, mlimbo: map[int]uint64{}}
	s.dir = filepath.Join(c42Scratch(), fmt.Sprintf("c42-%d", c42Seq.Add(1)))
	s.chain = &c42Chain{blocks: map[common.Hash]*c42Blk{}}
	g := s.chain.extend(nil, "g", nil, func(b *c42Blk) {
		for i := range b.bal {
			b.bal[i] = c42BalHigh
			b.nonce[i] = c42Accts[i].nonce
		}
		b.baseFee = 500
	})
	s.chain.setHead(g)
	s.chain.final = g
		s.slotSize = c42SlotSize
	if err := s.open(); err != nil {
		s.initErr = err
		return s
	}
	snap, err := s.inspect()
	s.cur = snap
	if err != nil {
		s.initErr = fmt.Errorf("initial state: %v", err)
		return s
	}
	for i := range sc.pinit {
		if err := s.apply(&sc.pinit[i]); err != nil {
			s.initErr = fmt.Errorf("init op %s: %v", sc.pinit[i].name, err)
			return s
		}
	}
	return s
}

func (s *c42Sys) close() {
	if s.pool != nil && s.pool.store != nil {
		s.pool.Close()
	}
	os.RemoveAll(s.dir)
}

func (s *c42Sys) Enabled(i int) bool {
	if s.initErr != nil {
		return true
	}
	op := &s.sc.parsed[i]
	h := s.chain.head
	switch op.kind {
	case "inc", "incx", "incd":
		return s.nextTx(op.acct, op.kind == "incx") >= 0
	case "revert":
		return h.parent != nil && h.parent.height >= s.chain.final.height
	case "final":
		return s.chain.final != h
	case "fee":
		return h.baseFee != op.level
	case "tip":
		return s.tip != op.level
	}
	return true
}

// nextTx picks the transaction a block includes for the account: the pooled one at the state nonce (or the cheap
// table variant if none is pooled); other=true picks a different variant than the pooled one (signer swapped it).
func (s *c42Sys) nextTx(acct int, other bool) int {
	n := s.chain.head.nonce[acct]
	pooled := -1
	if l := s.cur.idx[acct]; len(l) > 0 && c42Table[l[0]].nonce == n {
		pooled = l[0]
	}
	for ti, t := range c42Table {
		if t.acct != acct || t.nonce != n {
			continue
		}
		if other {
			if pooled >= 0 && ti != pooled {
				return ti
			}
			continue
		}
		if pooled >= 0 {
			return pooled
		}
		return ti // first (cheap) variant
	}
	return -1
}

func (s *c42Sys) Apply(i int) error {
	if s.initErr != nil {
		return s.initErr
	}
	return s.apply(&s.sc.parsed[i])
}

func c42ErrClass(err error) string {
	switch {
	case err == nil:
		return "ok"
	case errors.Is(err, txpool.ErrAlreadyKnown):
		return "known"
	case errors.Is(err, txpool.ErrReplaceUnderpriced):
		return "replace-underpriced"
	case errors.Is(err, core.ErrNonceTooLow):
		return "nonce-too-low"
	case errors.Is(err, core.ErrNonceTooHigh):
		return "nonce-gap-rejected"
	case errors.Is(err, core.ErrInsufficientFunds):
		return "insufficient-funds"
	case errors.Is(err, txpool.ErrTxGasPriceTooLow):
		return "tip-too-low"
	}
	return "other:" + err.Error()
}

// c42Jumps / c42Prio: the eviction priority as documented in the pool's design notes:
// jumps = floor(log1.125(txfee) - log1.125(basefee)) (log base 1.125^(4/3) for blob fees), priority = min(both, 0).
func c42Prio(feeCap, baseFee, blobCap, blobFee uint64) int {
	one := func(tx, cur uint64, logBase float64) int {
		j := math.Log(float64(tx))/logBase - math.Log(float64(cur))/logBase
		if j <= 0 {
			return int(math.Floor(j))
		}
		return 1
	}
	p := 0
	if x := one(feeCap, baseFee, math.Log(1.125)); x < p {
		p = x
	}
	if x := one(blobCap, blobFee, math.Log(1.125)*4/3); x < p {
		p = x
	}
	return p
}

// worst account key of an account's pooled list: (priority of the minimum caps along the nonce sequence, minimum tip)
func c42EvictKey(l []int, baseFee uint64) (int, uint64) {
	minCap, minBlob, minTip := uint64(math.MaxUint64), uint64(math.MaxUint64), uint64(math.MaxUint64)
	for _, ti := range l {
		t := c42Table[ti]
		minCap, minBlob, minTip = min(minCap, t.feeCap), min(minBlob, t.blobFee), min(minTip, t.tip)
	}
	return c42Prio(minCap, baseFee, minBlob, 1), minTip
}

func (s *c42Sys) apply(op *c42Op) error {
	pre := s.cur
	h := s.chain.head
	var addErr error
	mine := func(desc string, txs []*types.Transaction, mod func(b *c42Blk)) {
		nb := s.chain.extend(h, desc, txs, mod)
		s.chain.setHead(nb)
		s.pool.Reset(h.hdr, nb.hdr)
	}
	switch op.kind {
	case "add":
		t := c42Table[op.tx]
		if addErr = s.pool.ValidateTxBasics(t.full); addErr == nil {
			addErr = s.pool.AddPooledTx(t.pooled())
		}
		s.last = "add:" + c42ErrClass(addErr)
	case "inc", "incx", "incd":
		ti := s.nextTx(op.acct, op.kind == "incx")
		t := c42Table[ti]
		mine(op.kind[1:]+t.name, []*types.Transaction{t.full.WithoutBlobTxSidecar()}, func(b *c42Blk) {
			b.nonce[op.acct]++
			if op.kind == "incd" {
				b.bal[op.acct] = c42BalDrain
			}
		})
		// model: an included transaction that was pooled moves to the limbo under its block number
		if pre.has(ti) {
			s.mlimbo[ti] = s.chain.head.hdr.Number.Uint64()
		}
		s.last = op.kind
	case "revert":
		s.chain.setHead(h.parent)
		s.pool.Reset(h.hdr, h.parent.hdr)
		// model: transactions of the abandoned block come back from the limbo (if they are there)
		for _, tx := range h.blk.Transactions() {
			delete(s.mlimbo, c42ByHash[tx.Hash()])
		}
		s.last = "revert"
	case "final":
		s.chain.mu.Lock()
		s.chain.final = h
		s.chain.mu.Unlock()
		mine("F", nil, nil)
		fin := h.hdr.Number.Uint64()
		for ti, b := range s.mlimbo {
			if b <= fin {
				delete(s.mlimbo, ti)
			}
		}
		s.last = "finalize"
	case "fee":
		mine(fmt.Sprintf("f%d", op.level), nil, func(b *c42Blk) { b.baseFee = op.level })
		s.last = "basefee"
	case "tip":
		s.pool.SetGasTip(new(big.Int).SetUint64(op.level))
		s.tip = op.level
		s.last = "settip"
	case "restart":
		if err := s.pool.Close(); err != nil {
			return fmt.Errorf("Close: %v", err)
		}
		// what is on disk right now
		if err := s.checkDisk(pre); err != nil {
			return err
		}
		if err := s.open(); err != nil {
			return fmt.Errorf("reopen: %v", err)
		}
		s.last = "restart"
	}
	post, err := s.inspect()
	s.cur = post
	if err != nil {
		return err
	}
	// ---- effects (histogram only)
	s.effects = s.effects[:0]
	if len(post.limbo) > len(pre.limbo) {
		s.effects = append(s.effects, "effect:limbo-push")
	}
	if len(post.limbo) < len(pre.limbo) {
		s.effects = append(s.effects, "effect:limbo-pull-or-finalize")
	}
	// ---- transition checks
	// generic: whenever the transaction pooled at an (account, nonce) changed across one operation, the new one must
	// out-bid the old one by the 100% bump in all three fee dimensions
	for ai := range c42Accts {
		for _, o := range pre.idx[ai] {
			for _, n := range post.idx[ai] {
				if c42Table[o].nonce != c42Table[n].nonce || o == n {
					continue
				}
				old, t := c42Table[o], c42Table[n]
				bump := func(o, n uint64) bool { return n > o && n*100 >= o*200 }
				if !bump(old.tip, t.tip) || !bump(old.feeCap, t.feeCap) || !bump(old.blobFee, t.blobFee) {
					return fmt.Errorf("replacement without the 100%% bump: %s (tip %d cap %d blob %d) replaced by %s (tip %d cap %d blob %d)",
						old.name, old.tip, old.feeCap, old.blobFee, t.name, t.tip, t.feeCap, t.blobFee)
				}
			}
		}
	}
	switch op.kind {
	case "restart":
		// reopening reproduces the same contents (the in-memory gapped reorder buffer is not persisted by design)
		for ai, a := range c42Accts {
			if c42Names(pre.idx[ai]) != c42Names(post.idx[ai]) {
				return fmt.Errorf("restart changed the pooled transactions of %s: %s -> %s", a.name, c42Names(pre.idx[ai]), c42Names(post.idx[ai]))
			}
		}
		if c42Limbo(pre.limbo) != c42Limbo(post.limbo) {
			return fmt.Errorf("restart changed the limbo: %s -> %s", c42Limbo(pre.limbo), c42Limbo(post.limbo))
		}
	case "add":
		t := c42Table[op.tx]
		ai := t.acct
		// admission vs funds: once the stateless checks pass and the nonce lies in [state nonce, first gap], the pool
		// must answer "insufficient funds" exactly when the balance does not cover the recomputed expenditure of the
		// pooled transactions (minus a replaced one) plus the new cost
		if first := h.nonce[ai] + uint64(len(pre.idx[ai])); t.tip >= s.tip && t.nonce >= h.nonce[ai] && t.nonce <= first {
			need := t.cost
			for _, x := range pre.idx[ai] {
				if c42Table[x].nonce != t.nonce {
					need += c42Table[x].cost
				}
			}
			over := need > h.bal[ai]
			if got := errors.Is(addErr, core.ErrInsufficientFunds); got != over {
				return fmt.Errorf("add %s: balance %d, pooled expenditure + new cost %d: insufficient-funds answer %v, expected %v (err: %v)", t.name, h.bal[ai], need, got, over, addErr)
			}
		} else if errors.Is(addErr, core.ErrInsufficientFunds) {
			return fmt.Errorf("add %s rejected for insufficient funds although another check applies first (nonce %d, state nonce %d, first gap %d, tip %d, pool tip %d)", t.name, t.nonce, h.nonce[ai], first, t.tip, s.tip)
		}
		if addErr != nil {
			for x := range c42Accts {
				if c42Names(pre.idx[x]) != c42Names(post.idx[x]) || c42Names(pre.gapped[x]) != c42Names(post.gapped[x]) {
					return fmt.Errorf("rejected add (%v) changed the pool", addErr)
				}
			}
			break
		}
		if ts := post.gapped[ai]; len(ts) > len(pre.gapped[ai]) {
			// parked in the reorder buffer: must really be beyond the first gap, pooled part unchanged
			if t.nonce <= h.nonce[ai]+uint64(len(pre.idx[ai])) {
				return fmt.Errorf("%s parked as gapped although nonce %d is not beyond the first gap", t.name, t.nonce)
			}
			s.effects = append(s.effects, "effect:gapped-parked")
			break
		}
		// admitted: at the state-nonce-relative position, as append or replacement
		off := int(t.nonce) - int(h.nonce[ai])
		if off < 0 || off > len(pre.idx[ai]) {
			return fmt.Errorf("accepted %s at offset %d of a list of %d", t.name, off, len(pre.idx[ai]))
		}
		want := append([]int{}, pre.idx[ai]...)
		spent := uint64(0)
		if off < len(want) {
			old := c42Table[want[off]]
			bump := func(o, n uint64) bool { return n > o && n*100 >= o*200 }
			if !bump(old.tip, t.tip) || !bump(old.feeCap, t.feeCap) || !bump(old.blobFee, t.blobFee) {
				return fmt.Errorf("replacement without the 100%% bump: %s (tip %d cap %d blob %d) replaced by %s (tip %d cap %d blob %d)",
					old.name, old.tip, old.feeCap, old.blobFee, t.name, t.tip, t.feeCap, t.blobFee)
			}
			want[off] = op.tx
			s.effects = append(s.effects, "effect:replacement")
		} else {
			want = append(want, op.tx)
		}
		for _, x := range want {
			spent += c42Table[x].cost
		}
		if spent > h.bal[ai] {
			return fmt.Errorf("accepted %s: cumulative cost %d exceeds the balance %d", t.name, spent, h.bal[ai])
		}
		if t.tip < s.tip {
			return fmt.Errorf("accepted %s with tip %d below the pool tip %d", t.name, t.tip, s.tip)
		}
		// Parked (gapped) transactions of the account are re-submitted behind an accepted one and may extend the
		// sequence or replace inside it; the exact outcome is not predicted then (the invariants and the generic
		// bump rule above still apply), only that the accepted transaction or a proper replacement holds its slot.
		if len(pre.gapped[ai]) > 0 {
			if len(post.gapped[ai]) < len(pre.gapped[ai]) {
				s.effects = append(s.effects, "effect:gapped-resubmitted")
			}
			if off >= len(post.idx[ai]) {
				return fmt.Errorf("accepted %s but nothing is pooled at its nonce afterwards: %s", t.name, c42Names(post.idx[ai]))
			}
			break
		}
		// expected contents before eviction
		var exp [c42NAcct][]int
		for x := range c42Accts {
			exp[x] = pre.idx[x]
		}
		exp[ai] = want
		// eviction: while above the cap, the account with the worst (priority, tip) loses its highest nonce
		total := 0
		for x := range exp {
			total += len(exp[x])
		}
		for total > s.sc.slots {
			type cand struct {
				ai   int
				prio int
				tip  uint64
			}
			var cs []cand
			for x := range exp {
				if len(exp[x]) > 0 {
					p, tp := c42EvictKey(exp[x], h.baseFee)
					cs = append(cs, cand{x, p, tp})
				}
			}
			sort.Slice(cs, func(i, j int) bool {
				if cs[i].prio != cs[j].prio {
					return cs[i].prio < cs[j].prio
				}
				return cs[i].tip < cs[j].tip
			})
			pick := -1
			for _, c := range cs {
				if c.prio != cs[0].prio || c.tip != cs[0].tip {
					break
				}
				tail := exp[c.ai][len(exp[c.ai])-1]
				if !post.has(tail) { // among exact ties either choice is fine: follow the implementation
					pick = c.ai
					break
				}
			}
			if pick < 0 {
				return fmt.Errorf("eviction order: pool over capacity (%d > %d); the worst account by (priority, tip) is %s (prio %d, tip %d) but its last transaction %s survived; pool after: %s",
					total, s.sc.slots, c42Accts[cs[0].ai].name, cs[0].prio, cs[0].tip, c42Table[exp[cs[0].ai][len(exp[cs[0].ai])-1]].name, s.describe(post))
			}
			exp[pick] = exp[pick][:len(exp[pick])-1:len(exp[pick])-1]
			total--
			s.effects = append(s.effects, "effect:eviction")
		}
		for x, a := range c42Accts {
			if c42Names(exp[x]) != c42Names(post.idx[x]) {
				return fmt.Errorf("after add %s the pooled transactions of %s are %s, expected %s", t.name, a.name, c42Names(post.idx[x]), c42Names(exp[x]))
			}
		}
	}
	return nil
}

func intsContain(l []int, x int) bool {
	for _, y := range l {
		if y == x {
			return true
		}
	}
	return false
}

func c42Names(ix []int) string {
	out := make([]string, len(ix))
	for i, ti := range ix {
		out[i] = c42Table[ti].name
	}
	return strings.Join(out, ",")
}

func c42Limbo(m map[int]uint64) string {
	var out []string
	for ti, b := range m {
		out = append(out, fmt.Sprintf("%s@%d", c42Table[ti].name, b-c42Config.LondonBlock.Uint64()-1))
	}
	sort.Strings(out)
	return strings.Join(out, ",")
}

// checkDisk opens the two stores of the closed pool directly and compares what is on disk with the expected contents.
func (s *c42Sys) checkDisk(want *c42Snap) error {
	read := func(sub string, decode func(data []byte) (common.Hash, error)) (map[common.Hash]int, error) {
		got := map[common.Hash]int{}
		var derr error
		// same slotter as the pool; the stores were migrated/created by the pool itself
		st, err := billyOpen(filepath.Join(s.dir, sub), func(id uint64, size uint32, data []byte) {
			hsh, e := decode(data)
			if e != nil {
				derr = e
				return
			}
			got[hsh]++
		})
		if err != nil {
			return nil, err
		}
		st.Close()
		return got, derr
	}
	q, err := read(pendingTransactionStore, c42PooledHash)
	if err != nil {
		return fmt.Errorf("reading the queue store: %v", err)
	}
	exp := map[common.Hash]int{}
	for ai := range c42Accts {
		for _, ti := range want.idx[ai] {
			exp[c42Table[ti].hash]++
		}
	}
	if d := c42DiffSets(exp, q); d != "" {
		return fmt.Errorf("on-disk queue store differs from the in-memory index: %s", d)
	}
	l, err := read(limboedTransactionStore, func(data []byte) (common.Hash, error) {
		owner, _, inner, err := c42LimboEntry(data)
		if err == nil && owner != inner {
			err = errors.New("limbo entry owner hash mismatch")
		}
		return owner, err
	})
	if err != nil {
		return fmt.Errorf("reading the limbo store: %v", err)
	}
	exp = map[common.Hash]int{}
	for ti := range want.limbo {
		exp[c42Table[ti].hash]++
	}
	if d := c42DiffSets(exp, l); d != "" {
		return fmt.Errorf("on-disk limbo store differs from the limbo index: %s", d)
	}
	return nil
}

func c42DiffSets(exp, got map[common.Hash]int) string {
	var d []string
	for h, n := range exp {
		if got[h] != n {
			d = append(d, fmt.Sprintf("%s expected %d on disk %d", c42Table[c42ByHash[h]].name, n, got[h]))
		}
	}
	for h, n := range got {
		if _, ok := exp[h]; !ok {
			name := "unknown"
			if ti, ok := c42ByHash[h]; ok {
				name = c42Table[ti].name
			}
			d = append(d, fmt.Sprintf("%s on disk %d times but not indexed", name, n))
		}
	}
	sort.Strings(d)
	return strings.Join(d, "; ")
}

// inspect recomputes the contents from the implementation structures and checks the invariants.
func (s *c42Sys) inspect() (*c42Snap, error) {
	p := s.pool
	head := s.chain.head
	snap := &c42Snap{limbo: map[int]uint64{}}
	var fails []string
	fail := func(f string, a ...any) {
		if len(fails) < 8 {
			fails = append(fails, fmt.Sprintf(f, a...))
		}
	}
	p.lock.Lock()
	acctOf := map[common.Address]int{}
	for i, a := range c42Accts {
		acctOf[a.addr] = i
	}
	for addr := range p.index {
		if _, ok := acctOf[addr]; !ok {
			fail("index has unknown account %x", addr[:4])
		}
	}
	ids := map[uint64]int{}
	var stored uint64
	nTx := 0
	for ai, a := range c42Accts {
		metas, ok := p.index[a.addr]
		if !ok {
			if _, sp := p.spent[a.addr]; sp {
				fail("spent entry without index entry for %s", a.name)
			}
			continue
		}
		if len(metas) == 0 {
			fail("empty index entry kept for %s", a.name)
			continue
		}
		spent := new(uint256.Int)
		var minTip *uint256.Int
		minFee, minBlob := math.Inf(1), math.Inf(1)
		for i, m := range metas {
			ti, known := c42ByHash[m.hash]
			if !known {
				fail("index of %s holds an unknown transaction", a.name)
				continue
			}
			t := c42Table[ti]
			snap.idx[ai] = append(snap.idx[ai], ti)
			nTx++
			// (1) nonce-contiguous from the state nonce
			if t.acct != ai || m.nonce != t.nonce || m.nonce != head.nonce[ai]+uint64(i) {
				fail("pooled transactions of %s not nonce-contiguous from the state nonce %d: position %d holds %s (nonce %d)", a.name, head.nonce[ai], i, t.name, m.nonce)
			}
			if m.costCap.Uint64() != t.cost || m.execTipCap.Uint64() != t.tip || m.execFeeCap.Uint64() != t.feeCap || m.blobFeeCap.Uint64() != t.blobFee {
				fail("metadata of %s does not match the transaction", t.name)
			}
			spent.Add(spent, uint256.NewInt(t.cost)) // from the transaction itself, never from the in-memory metadata
			stored += uint64(m.storageSize)
			if uint64(m.storageSize) != s.slotSize {
				fail("storage size of %s is %d, slot size %d", t.name, m.storageSize, s.slotSize)
			}
			if prev, dup := ids[m.id]; dup {
				fail("store id %d used by %s and %s", m.id, c42Table[prev].name, t.name)
			}
			ids[m.id] = ti
			// lookup bijection
			lm := p.lookup.txIndex[m.hash]
			if lm == nil || lm.id != m.id || lm.size != m.size || len(lm.vhashes) != 1 || lm.vhashes[0] != t.vhash {
				fail("lookup entry of %s missing or inconsistent", t.name)
			}
			if _, ok := p.lookup.blobIndex[t.vhash][m.hash]; !ok {
				fail("blob lookup of %s missing", t.name)
			}
			// rolling eviction minima
			if minTip == nil || m.execTipCap.Lt(minTip) {
				minTip = m.execTipCap
			}
			minFee, minBlob = math.Min(minFee, m.basefeeJumps), math.Min(minBlob, m.blobfeeJumps)
			if m.evictionExecTip == nil || !m.evictionExecTip.Eq(minTip) || math.Abs(m.evictionExecFeeJumps-minFee) > 0.001 || math.Abs(m.evictionBlobFeeJumps-minBlob) > 0.001 {
				fail("rolling eviction minima of %s are stale: tip %v (want %v) feeJumps %.3f (want %.3f) blobJumps %.3f (want %.3f)", t.name, m.evictionExecTip, minTip, m.evictionExecFeeJumps, minFee, m.evictionBlobFeeJumps, minBlob)
			}
		}
		// (2) affordable in total; the tracked expenditure equals the sum over the pooled transactions, recomputed from
		// the transactions as stored on disk (the in-memory cost caps are checked against the same source)
		if !s.light {
			fromStore := new(uint256.Int)
			for _, m := range metas {
				data, err := p.store.Get(m.id)
				if err != nil {
					continue // reported under (3)
				}
				tx, err := c42PooledTx(data)
				if err != nil {
					continue
				}
				cost := uint256.MustFromBig(tx.Cost())
				fromStore.Add(fromStore, cost)
				if !m.costCap.Eq(cost) {
					fail("in-memory cost cap of %s is %v, the stored transaction costs %v", c42NameOfHash(m.hash), m.costCap, cost)
				}
			}
			if p.spent[a.addr] == nil || !p.spent[a.addr].Eq(fromStore) {
				fail("tracked expenditure of %s is %v, the stored transactions sum to %v", a.name, p.spent[a.addr], fromStore)
			}
		}
		if p.spent[a.addr] == nil || !p.spent[a.addr].Eq(spent) {
			fail("tracked expenditure of %s is %v, recomputed %v", a.name, p.spent[a.addr], spent)
		}
		if spent.Uint64() > head.bal[ai] {
			fail("pooled transactions of %s cost %v in total, balance %d", a.name, spent, head.bal[ai])
		}
		if got := p.state.GetNonce(a.addr); got != head.nonce[ai] {
			fail("pool state nonce of %s is %d, chain head says %d", a.name, got, head.nonce[ai])
		}
	}
	if len(p.lookup.txIndex) != nTx {
		fail("tx lookup has %d entries for %d pooled transactions", len(p.lookup.txIndex), nTx)
	}
	nb := 0
	for vh, set := range p.lookup.blobIndex {
		if len(set) == 0 {
			fail("empty blob lookup set kept for %x", vh[:4])
		}
		for th := range set {
			nb++
			if _, ok := p.lookup.txIndex[th]; !ok {
				fail("blob lookup refers to an untracked transaction")
			}
		}
	}
	if nb != nTx {
		fail("blob lookup has %d entries for %d pooled one-blob transactions", nb, nTx)
	}
	if p.stored != stored {
		fail("stored counter %d != recomputed %d", p.stored, stored)
	}
	// (3) every indexed transaction is retrievable from the store under its id (the converse - nothing else on disk -
	// is checked by a full read of the directory at every restart operation)
	for id, ti := range ids {
		if s.light {
			break
		}
		data, err := p.store.Get(id)
		if err != nil {
			fail("indexed %s (store id %d) not retrievable: %v", c42Table[ti].name, id, err)
			continue
		}
		if h, err := c42PooledHash(data); err != nil || h != c42Table[ti].hash {
			fail("indexed %s (store id %d): the store holds something else under that id (%v)", c42Table[ti].name, id, err)
		}
	}
	// (4) eviction heap: one entry per pooled account, index map consistent, heap-ordered, root is a worst account
	ev := p.evict
	if len(ev.addrs) != len(p.index) || len(ev.index) != len(ev.addrs) {
		fail("eviction heap tracks %d accounts (%d indexed positions) for %d pooled accounts", len(ev.addrs), len(ev.index), len(p.index))
	} else {
		ok := true
		for i, addr := range ev.addrs {
			ai, known := acctOf[addr]
			if _, pooled := p.index[addr]; !known || !pooled || ev.index[addr] != i {
				fail("eviction heap entry %d (%x) stale or mis-indexed", i, addr[:4])
				ok = false
				continue
			}
			snap.heap = append(snap.heap, ai)
		}
		if ok {
			for i := 1; i < len(ev.addrs); i++ {
				if ev.Less(i, (i-1)/2) {
					fail("eviction heap order broken at position %d", i)
				}
			}
			if len(snap.heap) > 0 {
				rp, rt := c42EvictKey(snap.idx[snap.heap[0]], head.baseFee)
				for _, ai := range snap.heap[1:] {
					if pr, tp := c42EvictKey(snap.idx[ai], head.baseFee); pr < rp || pr == rp && tp < rt {
						fail("eviction heap root is %s (prio %d, tip %d) although %s is worse (prio %d, tip %d)", c42Accts[snap.heap[0]].name, rp, rt, c42Accts[ai].name, pr, tp)
					}
				}
			}
		}
	}
	wantBase := math.Log(float64(head.baseFee)) / math.Log(1.125)
	if math.Abs(ev.basefeeJumps-wantBase) > 0.011 {
		fail("eviction heap base fee jumps %.3f, head base fee %d gives %.3f", ev.basefeeJumps, head.baseFee, wantBase)
	}
	// (5) reorder buffer consistency
	ng := 0
	for addr, l := range p.gapped {
		ai, known := acctOf[addr]
		if !known || len(l) == 0 {
			fail("gapped buffer entry for %x unknown or empty", addr[:4])
			continue
		}
		for _, g := range l {
			ti, ok := c42ByHash[g.Tx.Hash()]
			if !ok || c42Table[ti].acct != ai {
				fail("gapped buffer of %s holds a foreign transaction", c42Accts[ai].name)
				continue
			}
			if src, ok := p.gappedSource[g.Tx.Hash()]; !ok || src != addr {
				fail("gapped %s not in gappedSource", c42Table[ti].name)
			}
			snap.gapped[ai] = append(snap.gapped[ai], ti)
			ng++
		}
		sort.Ints(snap.gapped[ai])
	}
	if ng != len(p.gappedSource) {
		fail("gappedSource has %d entries for %d buffered transactions", len(p.gappedSource), ng)
	}
	// (6) limbo: index/groups/store consistent, equal to the model
	lim := p.limbo
	lids := map[uint64]common.Hash{}
	for blk, g := range lim.groups {
		if len(g) == 0 {
			fail("empty limbo group kept for block %d", blk)
		}
		for id, owner := range g {
			lids[id] = owner
			if lim.index[owner] != id {
				fail("limbo group entry %d not in the limbo index", id)
			}
			if ti, ok := c42ByHash[owner]; ok {
				snap.limbo[ti] = blk
			} else {
				fail("limbo holds an unknown transaction")
			}
		}
	}
	if len(lids) != len(lim.index) {
		fail("limbo index has %d entries, groups %d", len(lim.index), len(lids))
	}
	for id, owner := range lids {
		if s.light {
			break
		}
		data, err := lim.store.Get(id)
		if err != nil {
			fail("limbo entry %s (id %d) not retrievable: %v", c42NameOfHash(owner), id, err)
			continue
		}
		if o, blk, inner, err := c42LimboEntry(data); err != nil || o != owner || inner != owner || lim.groups[blk][id] != owner {
			fail("limbo entry %s (id %d): the store holds something else under that id (%v)", c42NameOfHash(owner), id, err)
		}
	}
	if got, want := c42Limbo(snap.limbo), c42Limbo(s.mlimbo); got != want {
		fail("limbo holds [%s], model (included-and-not-finalized pooled transactions) says [%s]", got, want)
	}
	// (7) reservations
	s.res.mu.Lock()
	for _, e := range s.res.errs {
		fail("reservation protocol: %s", e)
	}
	for ai, a := range c42Accts {
		_, held := s.res.held[a.addr]
		if pooled := len(snap.idx[ai]) > 0; held != pooled {
			fail("account %s reserved=%v pooled=%v", a.name, held, pooled)
		}
	}
	s.res.mu.Unlock()
	if got := p.gasTip.Load().Uint64(); got != s.tip {
		fail("pool tip %d, model %d", got, s.tip)
	}
	for ai := range c42Accts {
		for _, ti := range snap.idx[ai] {
			if c42Table[ti].tip < s.tip {
				fail("pooled %s has tip %d below the pool tip %d", c42Table[ti].name, c42Table[ti].tip, s.tip)
			}
		}
	}
	p.lock.Unlock()

	// ---- public API agrees
	np, nq := p.Stats()
	if np != nTx || nq != ng {
		fail("Stats()=(%d,%d), contents (%d,%d)", np, nq, nTx, ng)
	}
	for ai, a := range c42Accts {
		want := head.nonce[ai] + uint64(len(snap.idx[ai]))
		if got := p.Nonce(a.addr); got != want {
			fail("Nonce(%s)=%d want %d", a.name, got, want)
		}
	}
	for ti, t := range c42Table {
		want := txpool.TxStatusUnknown
		if snap.has(ti) {
			want = txpool.TxStatusPending
		} else if intsContain(snap.gapped[t.acct], ti) {
			want = txpool.TxStatusQueued
		}
		if got := p.Status(t.hash); got != want {
			fail("Status(%s)=%d want %d", t.name, got, want)
		}
		if got := p.Has(t.hash); got != (want != txpool.TxStatusUnknown) {
			fail("Has(%s)=%v", t.name, got)
		}
	}
	var fp strings.Builder
	fp.WriteString("heap:")
	for _, ai := range snap.heap {
		fp.WriteString(c42Accts[ai].name)
	}
	snap.fp = fp.String()
	if len(fails) > 0 {
		return snap, errors.New(strings.Join(fails, " | ") + " || pool: " + s.describe(snap))
	}
	return snap, nil
}

func c42NameOfHash(h common.Hash) string {
	if ti, ok := c42ByHash[h]; ok {
		return c42Table[ti].name
	}
	return "unknown"
}

func (s *c42Sys) describe(sn *c42Snap) string {
	var b strings.Builder
	h := s.chain.head
	for ai, a := range c42Accts {
		fmt.Fprintf(&b, "%s{n+%d b%d P[%s] G[%s]} ", a.name, h.nonce[ai]-a.nonce, h.bal[ai], c42Names(sn.idx[ai]), c42Names(sn.gapped[ai]))
	}
	fmt.Fprintf(&b, "limbo[%s] basefee %d tip %d final@%d", c42Limbo(sn.limbo), h.baseFee, s.tip, s.chain.final.height)
	return b.String()
}

func (s *c42Sys) Key() string {
	if s.initErr != nil {
		return "init-error"
	}
	if s.last != "" {
		s.r.Outcome(s.last)
		s.r.Outcome("transitions-in-scenario:" + s.sc.name)
		for _, e := range s.effects {
			s.r.Outcome(e)
		}
		s.last = ""
	}
	var b strings.Builder
	b.WriteString(s.sc.name)
	b.WriteString("|")
	var chain []string
	for x := s.chain.head; x != nil; x = x.parent {
		chain = append(chain, x.desc)
	}
	for i := len(chain) - 1; i >= 0; i-- {
		b.WriteString(chain[i])
		b.WriteByte('/')
	}
	b.WriteString("|")
	b.WriteString(s.describe(s.cur))
	b.WriteString("|")
	b.WriteString(s.cur.fp)
	return b.String()
}

// c42Lazy defers building the pool until the explorer asks about the operation it actually wants to try: mc.Explore
// creates a fresh system and replays the prefix for every (state, operation) pair, also for operations that turn out
// to be disabled. Enabledness of every operation is cached per operation sequence when the state is first reached, so
// disabled pairs cost nothing, and prefix replays (already validated when first explored) skip the store reads.
type c42Lazy struct {
	r      *mc.R
	sc     *c42Scenario
	prefix []int
	sys    *c42Sys
}

var c42Enabled sync.Map // scenario + op sequence -> []bool

func (l *c42Lazy) seqKey(extra ...int) string {
	var b strings.Builder
	b.WriteString(l.sc.name)
	for _, o := range append(append([]int{}, l.prefix...), extra...) {
		fmt.Fprintf(&b, ",%d", o)
	}
	return b.String()
}

func (l *c42Lazy) materialise() {
	if l.sys != nil {
		return
	}
	l.sys = c42New(l.r, l.sc)
	l.sys.light = true
	for _, o := range l.prefix {
		if l.sys.initErr != nil {
			break
		}
		if err := l.sys.Apply(o); err != nil {
			l.sys.initErr = fmt.Errorf("replay divergence at prefix op %s: %v", l.sc.ops[o], err)
		}
	}
	l.sys.light = false
}

func (l *c42Lazy) Enabled(op int) bool {
	if l.sys == nil {
		if v, ok := c42Enabled.Load(l.seqKey()); ok && !v.([]bool)[op] {
			return false
		}
		l.materialise()
	}
	return l.sys.Enabled(op)
}

func (l *c42Lazy) Apply(op int) error {
	if l.sys == nil {
		l.prefix = append(l.prefix, op)
		return nil
	}
	err := l.sys.Apply(op)
	if err == nil {
		l.prefix = append(l.prefix, op)
	}
	return err
}

func (l *c42Lazy) Key() string {
	l.materialise()
	k := l.sys.Key()
	en := make([]bool, len(l.sc.parsed))
	for i := range en {
		en[i] = l.sys.Enabled(i)
	}
	c42Enabled.Store(l.seqKey(), en)
	return k
}

func (l *c42Lazy) close() {
	if l.sys != nil {
		l.sys.close()
	}
}

func c42Scenarios(r *mc.R) []*c42Scenario {
	// Creating a pool costs two billy opens of 14 shelves each (about 25 MB of slot buffers), and the explorer needs a
	// fresh pool per transition, so the quick alphabets are deliberately small; the thorough tier goes deeper and wider.
	return []*c42Scenario{
		{
			// inclusion, limbo, reorgs, finality, restarts
			name: "limbo", slots: 4, depthQ: 2, depthT: 4,
			init: []string{"add:A0", "add:A1", "add:B0"},
			ops: mc.Pick(r,
				[]string{"inc:A", "incx:A", "incd:A", "revert", "final", "restart"},
				[]string{"inc:A", "incx:A", "incd:A", "inc:B", "revert", "final", "restart", "add:A2", "add:A0h"}),
		},
		{
			// a transaction that sits in the limbo as the only trace of its account: reorg re-injects it as the sole
			// pooled transaction, the account extends the sequence, it is included again, more is submitted on a
			// drained balance, restart
			name: "reinject", slots: 4, depthQ: 2, depthT: 5,
			init: []string{"add:A0", "inc:A"},
			ops: mc.Pick(r,
				[]string{"revert", "add:A1", "incd:A", "add:A2h", "restart"},
				[]string{"revert", "add:A1", "inc:A", "incd:A", "add:A2", "add:A2h", "add:A1h", "restart"}),
		},
		{
			// the same one step further: included, reverted, re-injected
			name: "reinjected", slots: 4, depthQ: 4, depthT: 5,
			init: []string{"add:A0", "inc:A", "revert"},
			ops: mc.Pick(r,
				[]string{"add:A1", "incd:A", "add:A2h", "restart"},
				[]string{"add:A1", "inc:A", "incd:A", "add:A2", "add:A2h", "add:A0h", "revert", "restart"}),
		},
		{
			// full pool (capacity 3): every further add overflows; replacements, eviction by priority, fee moves, tip, restarts
			name: "evict", slots: 3, depthQ: 2, depthT: 4,
			init: []string{"add:A0", "add:B0", "add:B1"},
			ops: mc.Pick(r,
				[]string{"add:A1", "add:A0h", "add:A0m", "add:B0h", "add:B1h", "fee:1500", "restart"},
				[]string{"add:A1", "add:A0h", "add:A0m", "add:B2", "add:B0h", "add:B1h", "add:C0", "fee:800", "fee:1500", "tip:95", "restart"}),
		},
		{
			// one inclusion deep: a second inclusion, reorg back out, finality then reorg, restart with a populated limbo
			name: "limbo2", slots: 4, depthQ: 2, depthT: 4,
			init: []string{"add:A0", "add:A1", "add:B0", "inc:A"},
			ops: mc.Pick(r,
				[]string{"inc:A", "revert", "final", "restart", "inc:B"},
				[]string{"inc:A", "incx:A", "incd:A", "inc:B", "revert", "final", "restart", "add:A2"}),
		},
		{
			// gapped reorder buffer (A may park one transaction), replacement inside a sequence, restart drops the buffer
			name: "gapped", slots: 4, depthQ: 2, depthT: 4,
			init: []string{"add:A1h"},
			ops: mc.Pick(r,
				[]string{"add:A0", "add:A1", "add:A2", "inc:A", "restart"},
				[]string{"add:A0", "add:A1", "add:A2", "add:A1h", "add:B1", "inc:A", "revert", "restart"}),
		},
	}
}

func TestVerif_C42(t *testing.T) {
	mc.Run(t, "C42", func(r *mc.R) {
		c42Setup()
		r.Rule("explicit-state BFS (mc.Explore) over operation sequences on the real BlobPool with a real billy store per explored system and a fake chain; " +
			"operations: add(tx) from a 15-entry table (3 accounts, nonces 0..2, cheap/doubled(/+50%) fee variants), include (pooled tx / swapped variant / with balance drain), " +
			"revert (reorg with re-injection from the limbo), finalize, base-fee change, tip change, restart (Close + reopen on the same directory); " +
			"state = model (chain, final, tip) + pooled/gapped/limbo contents + eviction heap order; distinct = distinct states")
		r.Assume("oracle = invariants recomputed from index/lookup/evict heap/limbo and a full iteration of both on-disk stores after every operation; exact limbo model; " +
			"eviction victims vs priority recomputed from the documented formula (exact ties may go either way); restart must reproduce pooled and limbo contents and the disk must hold exactly the indexed transactions")
		r.Assume("the in-memory gapped reorder buffer is not persisted by design and is excluded from the restart equality; blob fee stays at the minimum (1 wei); " +
			"abrupt stops (crash points inside a store operation sequence) are not explored, restarts happen at operation boundaries")
		for _, sc := range c42Scenarios(r) {
			for _, o := range sc.ops {
				sc.parsed = append(sc.parsed, c42ParseOp(o))
			}
			for _, o := range sc.init {
				sc.pinit = append(sc.pinit, c42ParseOp(o))
			}
			sc := sc
			r.Explore(mc.Config{
				Name:  sc.name,
				Ops:   sc.ops,
				Depth: mc.Pick(r, sc.depthQ, sc.depthT),
				New:   func() mc.Sys { return &c42Lazy{r: r, sc: sc} },
				Close: func(s mc.Sys) { s.(*c42Lazy).close() },
			})
			if r.Expired() {
				break
			}
		}
	})
}
