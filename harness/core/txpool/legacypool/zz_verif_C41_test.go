//go:build verif

package legacypool

// C41 - the legacy transaction pool keeps only consistent, executable pending sets.
//
// Explicit-state exploration (mc.Explore, BFS over operation sequences with state
// de-duplication) of the real LegacyPool on a fake chain. All operations are
// synchronous (Add(..., sync=true), Reset blocks until the reorg ran, SetGasTip runs
// under the pool lock). After every operation the invariants of the property
// statement are recomputed from scratch from the pool's contents (white box) and
// cross-checked against the public API.

import (
	"crypto/ecdsa"
	"errors"
	"fmt"
	"math/big"
	"sort"
	"strings"
	"sync"
	"testing"
	"time"

	"github.com/ethereum/go-ethereum/common"
	"github.com/ethereum/go-ethereum/core"
	"github.com/ethereum/go-ethereum/core/state"
	"github.com/ethereum/go-ethereum/core/tracing"
	"github.com/ethereum/go-ethereum/core/txpool"
	"github.com/ethereum/go-ethereum/core/types"
	"github.com/ethereum/go-ethereum/crypto"
	"github.com/ethereum/go-ethereum/internal/verif/mc"
	"github.com/ethereum/go-ethereum/params"
	"github.com/ethereum/go-ethereum/trie"
	"github.com/holiman/uint256"
)

const (
	c41Gas      = 21000
	c41GasLimit = 10_000_000
	c41BalLow   = 4_000_000     // pays any single plain transaction, never two, never a costly one
	c41BalHigh  = 1_000_000_000 // pays everything
	c41BigValue = 50_000_000    // value of the costly ("x") variants
	c41NAcct    = 3
	c41MaxNonce = 4
)

type c41Acct struct {
	name      string
	key       *ecdsa.PrivateKey
	addr      common.Address
	delegated bool
}

type c41Tx struct {
	name        string
	acct        int
	nonce       uint64
	feeCap, tip uint64
	cost        uint64
	tx          *types.Transaction
	hash        common.Hash
}

var (
	c41Once   sync.Once
	c41Accts  []c41Acct
	c41Table  []*c41Tx
	c41ByName map[string]int
	c41ByHash map[common.Hash]int
	c41Config *params.ChainConfig
)

// c41Setup builds the accounts and the transaction table once (signing is the
// expensive part). Prices are distinct across accounts so that the price heaps have
// no cross-account ties (which the pool would break by map iteration order).
//
//	<A><n>   legacy, price P           value 100
//	<A><n>u  legacy, price P*109/100   (one below the 10% bump)
//	<A><n>b  legacy, price P*110/100   (exactly the 10% bump)
//	<A><n>x  legacy, price P           value 50e6 (unaffordable with the low balance)
//	<A><n>d  dynamic fee, feeCap P*110/100, tip P+1 (fee cap bumped, tip not)
func c41Setup() {
	c41Once.Do(func() {
		cfg := *params.TestChainConfig // London at genesis
		c41Config = &cfg
		signer := types.LatestSignerForChainID(cfg.ChainID)
		c41ByName = map[string]int{}
		c41ByHash = map[common.Hash]int{}
		for i := 0; i < c41NAcct; i++ {
			kb := make([]byte, 32)
			kb[31] = byte(0x11 * (i + 1))
			kb[0] = 0x41
			key, err := crypto.ToECDSA(kb)
			if err != nil {
				panic(err)
			}
			c41Accts = append(c41Accts, c41Acct{name: string(rune('A' + i)), key: key, addr: crypto.PubkeyToAddress(key.PublicKey), delegated: i == 2})
		}
		to := common.Address{0x99}
		for ai, a := range c41Accts {
			p := uint64(100 + 20*ai)
			for n := uint64(0); n < c41MaxNonce; n++ {
				type v struct {
					sfx         string
					feeCap, tip uint64
					value       uint64
					dyn         bool
				}
				for _, x := range []v{
					{"", p, p, 100, false},
					{"u", p * 109 / 100, p * 109 / 100, 100, false},
					{"b", p * 110 / 100, p * 110 / 100, 100, false},
					{"x", p, p, c41BigValue, false},
					{"d", p * 110 / 100, p + 1, 100, true},
				} {
					var inner types.TxData
					if x.dyn {
						inner = &types.DynamicFeeTx{ChainID: cfg.ChainID, Nonce: n, GasTipCap: new(big.Int).SetUint64(x.tip), GasFeeCap: new(big.Int).SetUint64(x.feeCap), Gas: c41Gas, To: &to, Value: new(big.Int).SetUint64(x.value)}
					} else {
						inner = &types.LegacyTx{Nonce: n, GasPrice: new(big.Int).SetUint64(x.feeCap), Gas: c41Gas, To: &to, Value: new(big.Int).SetUint64(x.value)}
					}
					tx := types.MustSignNewTx(a.key, signer, inner)
					if _, err := types.Sender(signer, tx); err != nil {
						panic(err)
					}
					e := &c41Tx{name: fmt.Sprintf("%s%d%s", a.name, n, x.sfx), acct: ai, nonce: n, feeCap: x.feeCap, tip: x.tip, cost: c41Gas*x.feeCap + x.value, tx: tx, hash: tx.Hash()}
					if tx.Cost().Uint64() != e.cost {
						panic("c41: cost mismatch")
					}
					c41ByName[e.name] = len(c41Table)
					c41ByHash[e.hash] = len(c41Table)
					c41Table = append(c41Table, e)
				}
			}
		}
	})
}

// ---------------------------------------------------------------------------
// fake chain: a tree of blocks, each with the account state after it.

type c41Blk struct {
	hdr     *types.Header
	blk     *types.Block
	parent  *c41Blk
	desc    string
	nonce   [c41NAcct]uint64
	bal     [c41NAcct]uint64
	baseFee uint64
}

type c41Chain struct {
	mu     sync.Mutex
	blocks map[common.Hash]*c41Blk
	head   *c41Blk
	serial uint64
}

func (c *c41Chain) Config() *params.ChainConfig { return c41Config }
func (c *c41Chain) CurrentBlock() *types.Header {
	c.mu.Lock()
	defer c.mu.Unlock()
	return c.head.hdr
}
func (c *c41Chain) Genesis() *types.Block {
	c.mu.Lock()
	defer c.mu.Unlock()
	b := c.head
	for b.parent != nil {
		b = b.parent
	}
	return b.blk
}
func (c *c41Chain) GetBlock(hash common.Hash, number uint64) *types.Block {
	c.mu.Lock()
	defer c.mu.Unlock()
	if b := c.blocks[hash]; b != nil && b.hdr.Number.Uint64() == number {
		return b.blk
	}
	return nil
}
func (c *c41Chain) StateAt(h *types.Header) (*state.StateDB, error) {
	c.mu.Lock()
	b := c.blocks[h.Hash()]
	c.mu.Unlock()
	if b == nil {
		return nil, errors.New("c41: unknown header")
	}
	sdb, err := state.New(types.EmptyRootHash, state.NewDatabaseForTesting())
	if err != nil {
		return nil, err
	}
	for i, a := range c41Accts {
		sdb.SetNonce(a.addr, b.nonce[i], tracing.NonceChangeUnspecified)
		sdb.SetBalance(a.addr, uint256.NewInt(b.bal[i]), tracing.BalanceChangeUnspecified)
		if a.delegated {
			sdb.SetCode(a.addr, types.AddressToDelegation(common.Address{0x42}), tracing.CodeChangeUnspecified)
		}
	}
	return sdb, nil
}

// extend creates a child of parent (not yet the head).
func (c *c41Chain) extend(parent *c41Blk, desc string, txs []*types.Transaction, mod func(b *c41Blk)) *c41Blk {
	c.mu.Lock()
	defer c.mu.Unlock()
	c.serial++
	nb := &c41Blk{parent: parent, desc: desc}
	num := uint64(0)
	var ph common.Hash
	if parent != nil {
		nb.nonce, nb.bal, nb.baseFee = parent.nonce, parent.bal, parent.baseFee
		num = parent.hdr.Number.Uint64() + 1
		ph = parent.hdr.Hash()
	}
	if mod != nil {
		mod(nb)
	}
	h := &types.Header{
		ParentHash: ph,
		Number:     new(big.Int).SetUint64(num),
		Difficulty: new(big.Int),
		GasLimit:   c41GasLimit,
		GasUsed:    c41GasLimit / params.DefaultElasticityMultiplier, // exactly on target: the next base fee equals this one
		BaseFee:    new(big.Int).SetUint64(nb.baseFee),
		Time:       num,
		Extra:      []byte(fmt.Sprintf("c41-%d", c.serial)),
	}
	nb.blk = types.NewBlock(h, &types.Body{Transactions: txs}, nil, trie.NewStackTrie(nil))
	nb.hdr = nb.blk.Header()
	c.blocks[nb.hdr.Hash()] = nb
	return nb
}

func (c *c41Chain) setHead(b *c41Blk) {
	c.mu.Lock()
	c.head = b
	c.mu.Unlock()
}

// reserver that records protocol errors instead of panicking inside pool goroutines.
type c41Reserver struct {
	mu   sync.Mutex
	held map[common.Address]struct{}
	errs []string
}

func (r *c41Reserver) Hold(addr common.Address) error {
	r.mu.Lock()
	defer r.mu.Unlock()
	if _, ok := r.held[addr]; ok {
		r.errs = append(r.errs, fmt.Sprintf("Hold(%x) while already reserved", addr[:4]))
		return errors.New("already reserved")
	}
	r.held[addr] = struct{}{}
	return nil
}
func (r *c41Reserver) Release(addr common.Address) error {
	r.mu.Lock()
	defer r.mu.Unlock()
	if _, ok := r.held[addr]; !ok {
		r.errs = append(r.errs, fmt.Sprintf("Release(%x) while not reserved", addr[:4]))
		return errors.New("not reserved")
	}
	delete(r.held, addr)
	return nil
}
func (r *c41Reserver) Has(common.Address) bool { return false }

// ---------------------------------------------------------------------------
// operations and scenarios

type c41Op struct {
	name  string
	kind  string // add | batch | inc | revert | bal | tip | fee
	txs   []int
	acct  int
	level uint64
}

func c41ParseOp(s string) c41Op {
	f := strings.Split(s, ":")
	op := c41Op{name: s, kind: f[0]}
	acct := func(x string) int { return int(x[0] - 'A') }
	switch f[0] {
	case "add":
		i, ok := c41ByName[f[1]]
		if !ok {
			panic("c41: unknown tx " + f[1])
		}
		op.txs = []int{i}
	case "batch":
		for _, n := range strings.Split(f[1], "+") {
			i, ok := c41ByName[n]
			if !ok {
				panic("c41: unknown tx " + n)
			}
			op.txs = append(op.txs, i)
		}
	case "inc":
		op.acct = acct(f[1])
	case "revert":
	case "bal":
		op.acct = acct(f[1])
		switch f[2] {
		case "zero":
			op.level = 0
		case "low":
			op.level = c41BalLow
		case "high":
			op.level = c41BalHigh
		default:
			panic("c41: bad level")
		}
	case "tip", "fee":
		fmt.Sscanf(f[1], "%d", &op.level)
	default:
		panic("c41: bad op " + s)
	}
	return op
}

type c41Scenario struct {
	name   string
	cfg    Config
	init   []string // operations applied (and checked) before the exploration starts
	ops    []string
	depthQ int
	depthT int
	parsed []c41Op
	pinit  []c41Op
}

func c41Cfg(accountSlots, globalSlots, accountQueue, globalQueue uint64) Config {
	c := DefaultConfig
	c.Journal = ""
	c.NoLocals = true
	c.PriceLimit = 1
	c.PriceBump = 10
	c.AccountSlots, c.GlobalSlots, c.AccountQueue, c.GlobalQueue = accountSlots, globalSlots, accountQueue, globalQueue
	c.Lifetime = 24 * time.Hour
	return c
}

// snapshot of the pool contents, recomputed from scratch
type c41Snap struct {
	pend, queue [c41NAcct][]int // tx table indices in nonce order
	occ         map[[2]uint64]int
	inPend      map[int]bool
	fp          string
}

func (sn *c41Snap) count() (p, q int) {
	for i := 0; i < c41NAcct; i++ {
		p += len(sn.pend[i])
		q += len(sn.queue[i])
	}
	return
}

type c41Sys struct {
	r       *mc.R
	sc      *c41Scenario
	pool    *LegacyPool
	chain   *c41Chain
	res     *c41Reserver
	tip     uint64
	opN     int
	t0      time.Time
	beats   map[common.Address]time.Time
	cur     *c41Snap
	last    string
	effects []string
	hist    []string
	initErr error
}

func c41New(r *mc.R, sc *c41Scenario) *c41Sys {
	s := &c41Sys{r: r, sc: sc, tip: 1, t0: time.Now(), beats: map[common.Address]time.Time{}}
	s.chain = &c41Chain{blocks: map[common.Hash]*c41Blk{}}
	g := s.chain.extend(nil, "g", nil, func(b *c41Blk) {
		for i := range b.bal {
			b.bal[i] = c41BalHigh
		}
	})
	s.chain.setHead(g)
	s.res = &c41Reserver{held: map[common.Address]struct{}{}}
	s.pool = New(sc.cfg, s.chain)
	if err := s.pool.Init(1, g.hdr, s.res); err != nil {
		s.initErr = err
		return s
	}
	<-s.pool.initDoneCh
	snap, err := s.inspect(false)
	s.cur = snap
	if err != nil {
		s.initErr = fmt.Errorf("initial state: %v", err)
		return s
	}
	for i := range sc.pinit {
		if err := s.apply(&sc.pinit[i]); err != nil {
			s.initErr = fmt.Errorf("init op %s: %v", sc.pinit[i].name, err)
			return s
		}
	}
	return s
}

func (s *c41Sys) close() { s.pool.Close() }

func (s *c41Sys) Enabled(i int) bool {
	if s.initErr != nil {
		return true
	}
	op := &s.sc.parsed[i]
	h := s.chain.head
	switch op.kind {
	case "inc":
		return h.nonce[op.acct] < c41MaxNonce
	case "revert":
		return h.parent != nil
	case "bal":
		return h.bal[op.acct] != op.level
	case "tip":
		return s.tip != op.level
	case "fee":
		return h.baseFee != op.level
	}
	return true
}

func (s *c41Sys) Apply(i int) error {
	if s.initErr != nil {
		return s.initErr
	}
	s.hist = append(s.hist, s.sc.parsed[i].name)
	return s.apply(&s.sc.parsed[i])
}

// Two behaviours of the unchanged pool contradict a literal reading of the statement. They are reported under
// stable keys (one violation each, with the first reaching operation list as replay) so that they can be recorded
// as known findings while every other violation of the same invariants still fails under its own key.
const (
	c41KeyAcctQueue = "C41/limits: per-account queue above AccountQueue after a maintenance cycle (transactions demoted from pending are not capped)"
	c41KeyEvictBump = "C41/replacement below the price bump: full pool evicts the cheapest transaction, then accepts its same-nonce successor"
)

func (s *c41Sys) finding(key, desc string) {
	ops := append([]string{}, s.hist...)
	s.r.Violation(key, fmt.Sprintf("%s | scenario %s (init %v), operations %v", desc, s.sc.name, s.sc.init, ops),
		map[string]any{"explore": s.sc.name, "ops": ops})
}

func c41ErrClass(err error) string {
	switch {
	case err == nil:
		return "ok"
	case errors.Is(err, txpool.ErrAlreadyKnown):
		return "known"
	case errors.Is(err, txpool.ErrReplaceUnderpriced):
		return "replace-underpriced"
	case errors.Is(err, txpool.ErrUnderpriced):
		return "underpriced"
	case errors.Is(err, ErrTxPoolOverflow):
		return "overflow"
	case errors.Is(err, ErrFutureReplacePending):
		return "future-replace-pending"
	case errors.Is(err, core.ErrNonceTooLow):
		return "nonce-too-low"
	case errors.Is(err, core.ErrInsufficientFunds):
		return "insufficient-funds"
	case errors.Is(err, txpool.ErrTxGasPriceTooLow):
		return "tip-too-low"
	case errors.Is(err, ErrOutOfOrderTxFromDelegated):
		return "delegated-gapped"
	case errors.Is(err, txpool.ErrInflightTxLimitReached):
		return "delegated-inflight-limit"
	}
	return "other:" + err.Error()
}

// c41Bumped: does repl improve on old by the configured bump in both fee dimensions
// (strictly higher, and at least old*(100+bump)/100)?
func c41Bumped(old, repl *c41Tx, bump uint64) bool {
	ok := func(o, n uint64) bool { return n > o && n*100 >= o*(100+bump) }
	return ok(old.feeCap, repl.feeCap) && ok(old.tip, repl.tip)
}

func (s *c41Sys) apply(op *c41Op) error {
	s.opN++
	pre := s.cur
	h := s.chain.head
	cycle := true // did a maintenance cycle (runReorg) run as part of the operation?
	var errs []error
	switch op.kind {
	case "add", "batch":
		txs := make([]*types.Transaction, len(op.txs))
		for i, ti := range op.txs {
			txs[i] = c41Table[ti].tx
		}
		errs = s.pool.Add(txs, true)
		cls := make([]string, len(errs))
		for i, e := range errs {
			cls[i] = c41ErrClass(e)
		}
		if op.kind == "add" {
			s.last = "add:" + cls[0]
			if np, nq := pre.count(); errs[0] == nil && uint64(np+nq) >= s.sc.cfg.GlobalSlots+s.sc.cfg.GlobalQueue {
				s.last = "add:ok-while-full"
			}
		} else {
			nok := 0
			for _, e := range errs {
				if e == nil {
					nok++
				}
			}
			s.last = fmt.Sprintf("batch:%d-of-%d-accepted", nok, len(errs))
			for _, c := range cls {
				if c == "overflow" || c == "underpriced" || c == "future-replace-pending" {
					s.r.Outcome("batch-member:" + c) // counted on replays too; only shows that the path is exercised
				}
			}
		}
		// cycle only ran if at least one tx passed the stateless validation; it is harmless to check limits anyway
	case "inc":
		n := h.nonce[op.acct]
		t := c41Table[c41ByName[fmt.Sprintf("%s%d", c41Accts[op.acct].name, n)]]
		nb := s.chain.extend(h, "i"+t.name, []*types.Transaction{t.tx}, func(b *c41Blk) { b.nonce[op.acct]++ })
		s.chain.setHead(nb)
		s.pool.Reset(h.hdr, nb.hdr)
		s.last = "include"
	case "revert":
		s.chain.setHead(h.parent)
		s.pool.Reset(h.hdr, h.parent.hdr)
		s.last = "revert"
	case "bal":
		nb := s.chain.extend(h, fmt.Sprintf("b%s%d", c41Accts[op.acct].name, op.level), nil, func(b *c41Blk) { b.bal[op.acct] = op.level })
		s.chain.setHead(nb)
		s.pool.Reset(h.hdr, nb.hdr)
		s.last = "balance"
	case "fee":
		nb := s.chain.extend(h, fmt.Sprintf("f%d", op.level), nil, func(b *c41Blk) { b.baseFee = op.level })
		s.chain.setHead(nb)
		s.pool.Reset(h.hdr, nb.hdr)
		s.last = "basefee"
	case "tip":
		s.pool.SetGasTip(new(big.Int).SetUint64(op.level))
		s.tip = op.level
		cycle = false
		s.last = "settip"
	}
	post, err := s.inspect(cycle)
	s.cur = post
	if err != nil {
		return err
	}
	// ---- effects of the transition (outcome histogram only)
	s.effects = s.effects[:0]
	{
		var dem, pro, drop, repl bool
		for k, o := range pre.occ {
			n, ok := post.occ[k]
			switch {
			case !ok:
				drop = true
			case n != o:
				repl = true
			case pre.inPend[o] && !post.inPend[o]:
				dem = true
			case !pre.inPend[o] && post.inPend[o]:
				pro = true
			}
		}
		for _, f := range []struct {
			on   bool
			name string
		}{{dem, "effect:demotion"}, {pro, "effect:promotion"}, {drop, "effect:removal"}, {repl, "effect:replacement"}} {
			if f.on {
				s.effects = append(s.effects, f.name)
			}
		}
	}
	// ---- transition checks
	bump := s.sc.cfg.PriceBump
	// (T1) replacements require the price bump: whenever the occupant of an (account, nonce) slot changed from one
	// pooled transaction to another across one operation, the new one must out-bid the old one by the bump.
	keys := make([][2]uint64, 0, len(pre.occ))
	for k := range pre.occ {
		keys = append(keys, k)
	}
	sort.Slice(keys, func(a, b int) bool { return keys[a][0] < keys[b][0] || keys[a][0] == keys[b][0] && keys[a][1] < keys[b][1] })
	for _, k := range keys {
		o := pre.occ[k]
		n, ok := post.occ[k]
		if !ok || n == o {
			continue
		}
		if !c41Bumped(c41Table[o], c41Table[n], bump) {
			desc := fmt.Sprintf("replacement without the %d%% price bump: %s (feeCap %d tip %d) replaced by %s (feeCap %d tip %d)",
				bump, c41Table[o].name, c41Table[o].feeCap, c41Table[o].tip, c41Table[n].name, c41Table[n].feeCap, c41Table[n].tip)
			np, nq := pre.count()
			if (op.kind == "add" || op.kind == "batch") && uint64(np+nq+len(op.txs)) > s.sc.cfg.GlobalSlots+s.sc.cfg.GlobalQueue {
				// the pool was (or became within the batch) full: add() first evicts the cheapest transactions
				s.finding(c41KeyEvictBump, desc+" || before: "+s.describe(pre)+" || after: "+s.describe(post))
				continue
			}
			return errors.New(desc)
		}
	}
	// (L3) per-account queue limit after a maintenance cycle. The pool caps an account's queue when it processes the
	// account in promoteExecutables (every queued account on a reset, the sender of an accepted new transaction on
	// add); in that case, and if nothing was demoted into the queue afterwards, the cap must hold.
	if cycle {
		for ai := range c41Accts {
			if uint64(len(post.queue[ai])) <= s.sc.cfg.AccountQueue {
				continue
			}
			demoted := false
			for _, ti := range post.queue[ai] {
				if pre.inPend[ti] {
					demoted = true
				}
			}
			processed := op.kind != "add" && op.kind != "batch"
			for i, ti := range op.txs {
				t := c41Table[ti]
				if _, repl := pre.occ[[2]uint64{uint64(t.acct), t.nonce}]; errs != nil && errs[i] == nil && t.acct == ai && !repl {
					processed = true
				}
			}
			desc := fmt.Sprintf("%s has %d queued transactions > AccountQueue %d after the maintenance cycle", c41Accts[ai].name, len(post.queue[ai]), s.sc.cfg.AccountQueue)
			if processed && !demoted {
				return errors.New(desc + " || pool: " + s.describe(post))
			}
			s.finding(c41KeyAcctQueue, desc+" || before: "+s.describe(pre)+" || after: "+s.describe(post))
		}
	}
	// (T2) admission: an accepted single transaction was valid against the state and affordable on top of the
	// account's pending expenditure.
	if op.kind == "add" && errs[0] == nil {
		t := c41Table[op.txs[0]]
		if t.nonce < h.nonce[t.acct] {
			return fmt.Errorf("accepted %s with nonce below the state nonce %d", t.name, h.nonce[t.acct])
		}
		if t.tip < s.tip {
			return fmt.Errorf("accepted %s with tip %d below the pool tip %d", t.name, t.tip, s.tip)
		}
		spent := uint64(0)
		for _, pi := range pre.pend[t.acct] {
			if c41Table[pi].nonce != t.nonce {
				spent += c41Table[pi].cost
			}
		}
		if spent+t.cost > h.bal[t.acct] {
			return fmt.Errorf("accepted %s (cost %d) on top of pending expenditure %d with balance %d", t.name, t.cost, spent, h.bal[t.acct])
		}
	}
	// (T3) a transaction reported as already known / accepted must not vanish from or appear in the wrong place: an
	// "already known" answer means it was pooled before the operation.
	if op.kind == "add" && errors.Is(errs[0], txpool.ErrAlreadyKnown) {
		t := c41Table[op.txs[0]]
		if o, ok := pre.occ[[2]uint64{uint64(t.acct), t.nonce}]; !ok || o != op.txs[0] {
			return fmt.Errorf("%s reported as already known but it was not pooled", t.name)
		}
	}
	return nil
}

// inspect recomputes the pool contents from the implementation structures and checks
// every invariant of the statement. cycle: a maintenance cycle just ran (limits apply).
func (s *c41Sys) inspect(cycle bool) (*c41Snap, error) {
	p := s.pool
	cfg := s.sc.cfg
	head := s.chain.head
	snap := &c41Snap{occ: map[[2]uint64]int{}, inPend: map[int]bool{}}
	var fails []string
	fail := func(f string, a ...any) {
		if len(fails) < 8 {
			fails = append(fails, fmt.Sprintf(f, a...))
		}
	}
	var fp strings.Builder

	p.mu.Lock()
	acctOf := map[common.Address]int{}
	for i, a := range c41Accts {
		acctOf[a.addr] = i
	}
	// ---- per-account lists
	readList := func(kind string, ai int, l *list, strict bool) []int {
		an := c41Accts[ai].name
		if l.strict != strict {
			fail("%s list of %s has strict=%v", kind, an, l.strict)
		}
		m := l.txs
		if len(m.items) == 0 {
			fail("empty %s list kept for %s", kind, an)
		}
		nonces := make([]uint64, 0, len(m.items))
		for n := range m.items {
			nonces = append(nonces, n)
		}
		sort.Slice(nonces, func(a, b int) bool { return nonces[a] < nonces[b] })
		var out []int
		total := new(uint256.Int)
		for _, n := range nonces {
			tx := m.items[n]
			if tx == nil {
				fail("%s list of %s holds nil at nonce %d", kind, an, n)
				continue
			}
			ti, ok := c41ByHash[tx.Hash()]
			if !ok {
				fail("%s list of %s holds an unknown transaction", kind, an)
				continue
			}
			t := c41Table[ti]
			if t.acct != ai || t.nonce != n {
				fail("%s list of %s holds %s under nonce %d", kind, an, t.name, n)
			}
			out = append(out, ti)
			total.Add(total, uint256.NewInt(t.cost))
			if l.costcap.Cmp(uint256.NewInt(t.cost)) < 0 {
				fail("%s list of %s: costcap %v below the cost %d of %s (cost filter would skip it)", kind, an, l.costcap, t.cost, t.name)
			}
			if l.gascap < c41Gas {
				fail("%s list of %s: gascap %d below the gas of %s", kind, an, l.gascap, t.name)
			}
		}
		if l.totalcost.Cmp(total) != 0 {
			fail("%s list of %s: tracked total cost %v != recomputed %v", kind, an, l.totalcost, total)
		}
		// nonce index: same key set as items, valid min-heap
		idx := *m.index
		if len(idx) != len(m.items) {
			fail("%s list of %s: nonce index has %d entries for %d items", kind, an, len(idx), len(m.items))
		}
		seen := map[uint64]bool{}
		for i, n := range idx {
			if _, ok := m.items[n]; !ok || seen[n] {
				fail("%s list of %s: nonce index entry %d stale or duplicated", kind, an, n)
			}
			seen[n] = true
			if i > 0 && idx[(i-1)/2] > n {
				fail("%s list of %s: nonce index is not a heap: %v", kind, an, []uint64(idx))
			}
		}
		m.cacheMu.Lock()
		if m.cache != nil {
			if len(m.cache) != len(nonces) {
				fail("%s list of %s: sorted cache has %d entries for %d items", kind, an, len(m.cache), len(nonces))
			} else {
				for i, n := range nonces {
					if m.cache[i] != m.items[n] {
						fail("%s list of %s: stale sorted cache at position %d", kind, an, i)
						break
					}
				}
			}
		}
		m.cacheMu.Unlock()
		fmt.Fprintf(&fp, "%s%s:cc%v;", kind[:1], an, l.costcap)
		return out
	}
	for addr := range p.pending {
		if _, ok := acctOf[addr]; !ok {
			fail("pending list for unknown address %x", addr)
		}
	}
	for addr := range p.queue.queued {
		if _, ok := acctOf[addr]; !ok {
			fail("queue list for unknown address %x", addr)
		}
	}
	for ai, a := range c41Accts {
		if l := p.pending[a.addr]; l != nil {
			snap.pend[ai] = readList("pending", ai, l, true)
		}
		if l := p.queue.queued[a.addr]; l != nil {
			snap.queue[ai] = readList("queued", ai, l, false)
		}
	}
	// ---- (I1) pending gapless from the state nonce, (I2) affordable
	for ai, a := range c41Accts {
		sn := head.nonce[ai]
		if got := p.currentState.GetNonce(a.addr); got != sn {
			fail("pool state nonce of %s is %d, chain head says %d", a.name, got, sn)
		}
		if got := p.currentState.GetBalance(a.addr).Uint64(); got != head.bal[ai] {
			fail("pool state balance of %s is %d, chain head says %d", a.name, got, head.bal[ai])
		}
		for i, ti := range snap.pend[ai] {
			t := c41Table[ti]
			if t.nonce != sn+uint64(i) {
				fail("pending of %s not gapless from state nonce %d: %s", a.name, sn, c41Names(snap.pend[ai]))
				break
			}
		}
		for _, ti := range snap.pend[ai] {
			if t := c41Table[ti]; t.cost > head.bal[ai] {
				fail("pending %s costs %d, balance of %s is %d", t.name, t.cost, a.name, head.bal[ai])
			}
		}
	}
	// ---- (I3) pending/queued disjoint, (I4) index == union
	union := map[common.Hash]int{}
	for ai := range c41Accts {
		for _, ti := range snap.pend[ai] {
			union[c41Table[ti].hash]++
			snap.inPend[ti] = true
			snap.occ[[2]uint64{uint64(ai), c41Table[ti].nonce}] = ti
		}
		for _, ti := range snap.queue[ai] {
			if snap.inPend[ti] {
				fail("%s is both pending and queued", c41Table[ti].name)
			}
			if o, dup := snap.occ[[2]uint64{uint64(ai), c41Table[ti].nonce}]; dup {
				fail("nonce %d of %s is occupied in pending (%s) and in the queue (%s)", c41Table[ti].nonce, c41Accts[ai].name, c41Table[o].name, c41Table[ti].name)
			}
			union[c41Table[ti].hash]++
			snap.occ[[2]uint64{uint64(ai), c41Table[ti].nonce}] = ti
		}
	}
	p.all.lock.RLock()
	slots := 0
	var allIdx []int
	for hsh, tx := range p.all.txs {
		if union[hsh] == 0 {
			name := "?"
			if ti, ok := c41ByHash[hsh]; ok {
				name = c41Table[ti].name
			}
			fail("lookup index holds %s which is neither pending nor queued", name)
		}
		if tx.Hash() != hsh {
			fail("lookup index key/hash mismatch")
		}
		slots += numSlots(tx)
		if ti, ok := c41ByHash[hsh]; ok {
			allIdx = append(allIdx, ti)
		}
	}
	for hsh := range union {
		if _, ok := p.all.txs[hsh]; !ok {
			fail("%s is pending/queued but missing from the lookup index", c41Table[c41ByHash[hsh]].name)
		}
	}
	// ---- (I5) slot counter and price heap accounting
	if p.all.slots != slots {
		fail("slot counter %d != recomputed %d", p.all.slots, slots)
	}
	if len(p.all.auths) != 0 {
		fail("authority index not empty without set-code transactions")
	}
	inHeap := map[common.Hash]int{}
	heapFp := func(h *priceHeap, name string) {
		var ids []string
		for i, tx := range h.list {
			if tx == nil {
				fail("%s heap holds nil", name)
				continue
			}
			inHeap[tx.Hash()]++
			ti, ok := c41ByHash[tx.Hash()]
			if !ok {
				fail("%s heap holds an unknown transaction", name)
				continue
			}
			st := ""
			if _, live := p.all.txs[tx.Hash()]; !live {
				st = "~"
			}
			ids = append(ids, fmt.Sprintf("%02d%s", ti, st))
			if i > 0 && h.Less(i, (i-1)/2) {
				fail("%s price heap order broken at %d (%s below parent %s)", name, i, c41Table[ti].name, c41NameOf(h.list[(i-1)/2]))
			}
		}
		sort.Strings(ids)
		fmt.Fprintf(&fp, "%s[%s]", name, strings.Join(ids, ","))
	}
	heapFp(&p.priced.urgent, "U")
	heapFp(&p.priced.floating, "F")
	stales := p.priced.stales.Load()
	if n := int64(len(p.priced.urgent.list)+len(p.priced.floating.list)) - stales; n != int64(len(p.all.txs)) || stales < 0 {
		fail("price heaps hold %d+%d entries with %d counted stale, but the pool has %d transactions",
			len(p.priced.urgent.list), len(p.priced.floating.list), stales, len(p.all.txs))
	}
	for hsh := range p.all.txs {
		if inHeap[hsh] == 0 {
			fail("%s is pooled but in neither price heap", c41Table[c41ByHash[hsh]].name)
		}
	}
	p.all.lock.RUnlock()
	bf := "nil"
	if p.priced.urgent.baseFee != nil {
		bf = p.priced.urgent.baseFee.String()
	}
	if p.priced.floating.baseFee != nil {
		fail("floating heap has a base fee")
	}
	fmt.Fprintf(&fp, "st%d;bf%s;", stales, bf)
	// ---- (I8) virtual nonce == state nonce + number of pending, (I9) reservations
	for ai, a := range c41Accts {
		want := head.nonce[ai] + uint64(len(snap.pend[ai]))
		if got := p.pendingNonces.get(a.addr); got != want {
			fail("pending nonce of %s is %d, want state nonce %d + %d pending", a.name, got, head.nonce[ai], len(snap.pend[ai]))
		}
	}
	s.res.mu.Lock()
	for _, e := range s.res.errs {
		fail("reservation protocol: %s", e)
	}
	for ai, a := range c41Accts {
		_, held := s.res.held[a.addr]
		if pooled := len(snap.pend[ai])+len(snap.queue[ai]) > 0; held != pooled {
			fail("account %s reserved=%v but pooled=%v", a.name, held, pooled)
		}
	}
	s.res.mu.Unlock()
	// ---- heartbeats: exactly the queued accounts; canonicalise the order of heartbeats set within one operation
	// (the pool iterates Go maps there), so that later evictions do not depend on map iteration order.
	for addr := range p.queue.beats {
		if _, ok := p.queue.queued[addr]; !ok {
			fail("heartbeat kept for %x without queued transactions", addr[:4])
		}
	}
	type hb struct {
		ai int
		t  time.Time
	}
	var hbs []hb
	for ai, a := range c41Accts {
		b, ok := p.queue.beats[a.addr]
		if !ok {
			delete(s.beats, a.addr)
			if _, q := p.queue.queued[a.addr]; q {
				fail("no heartbeat for queued account %s", a.name)
			}
			continue
		}
		if prev, had := s.beats[a.addr]; !had || !prev.Equal(b) {
			b = s.t0.Add(time.Duration(s.opN*8+ai) * time.Nanosecond)
			p.queue.beats[a.addr] = b
			s.beats[a.addr] = b
		}
		hbs = append(hbs, hb{ai, b})
	}
	sort.Slice(hbs, func(a, b int) bool { return hbs[a].t.Before(hbs[b].t) })
	fp.WriteString("hb")
	for _, x := range hbs {
		fp.WriteString(c41Accts[x.ai].name)
	}
	if p.changesSinceReorg != 0 && cycle {
		fail("changesSinceReorg=%d after a maintenance cycle", p.changesSinceReorg)
	}
	fmt.Fprintf(&fp, ";ch%d;tip%v", p.changesSinceReorg, p.gasTip.Load())
	if got := p.gasTip.Load().Uint64(); got != s.tip {
		fail("pool tip %d, model %d", got, s.tip)
	}
	p.mu.Unlock()

	// ---- (I7) limits after a maintenance cycle
	np, nq := snap.count()
	if cycle {
		if uint64(nq) > cfg.GlobalQueue {
			fail("%d queued transactions exceed GlobalQueue %d after the maintenance cycle", nq, cfg.GlobalQueue)
		}
		if uint64(np) > cfg.GlobalSlots {
			for ai := range c41Accts {
				if uint64(len(snap.pend[ai])) > cfg.AccountSlots {
					fail("%d pending transactions exceed GlobalSlots %d while %s holds %d > AccountSlots %d", np, cfg.GlobalSlots, c41Accts[ai].name, len(snap.pend[ai]), cfg.AccountSlots)
				}
			}
		}
	}
	// ---- public API agrees with the internals
	if ap, aq := p.Stats(); ap != np || aq != nq {
		fail("Stats()=(%d,%d), contents (%d,%d)", ap, aq, np, nq)
	}
	cp, cq := p.Content()
	pf, pfn := p.Pending(txpool.PendingFilter{})
	if pfn != np {
		fail("Pending() count %d, contents %d", pfn, np)
	}
	for ai, a := range c41Accts {
		if !c41SameTxs(cp[a.addr], snap.pend[ai]) || !c41SameTxs(cq[a.addr], snap.queue[ai]) {
			fail("Content() of %s disagrees with the lists", a.name)
		}
		lz := pf[a.addr]
		if len(lz) != len(snap.pend[ai]) {
			fail("Pending() of %s has %d entries, list %d", a.name, len(lz), len(snap.pend[ai]))
		} else {
			for i, ti := range snap.pend[ai] {
				if lz[i].Hash != c41Table[ti].hash {
					fail("Pending() of %s out of order", a.name)
				}
			}
		}
		if got, want := p.Nonce(a.addr), head.nonce[ai]+uint64(len(snap.pend[ai])); got != want {
			fail("Nonce(%s)=%d want %d", a.name, got, want)
		}
	}
	for ti, t := range c41Table {
		want := txpool.TxStatusUnknown
		if o, ok := snap.occ[[2]uint64{uint64(t.acct), t.nonce}]; ok && o == ti {
			want = txpool.TxStatusQueued
			if snap.inPend[ti] {
				want = txpool.TxStatusPending
			}
		}
		if got := p.Status(t.hash); got != want {
			fail("Status(%s)=%d want %d", t.name, got, want)
		}
		if has := p.Has(t.hash); has != (want != txpool.TxStatusUnknown) {
			fail("Has(%s)=%v", t.name, has)
		}
	}
	snap.fp = fp.String()
	if len(fails) > 0 {
		return snap, errors.New(strings.Join(fails, " | ") + " || pool: " + s.describe(snap))
	}
	return snap, nil
}

func c41NameOf(tx *types.Transaction) string {
	if ti, ok := c41ByHash[tx.Hash()]; ok {
		return c41Table[ti].name
	}
	return "?"
}

func c41Names(ix []int) string {
	out := make([]string, len(ix))
	for i, ti := range ix {
		out[i] = c41Table[ti].name
	}
	return strings.Join(out, ",")
}

func c41SameTxs(txs []*types.Transaction, ix []int) bool {
	if len(txs) != len(ix) {
		return false
	}
	for i, ti := range ix {
		if txs[i].Hash() != c41Table[ti].hash {
			return false
		}
	}
	return true
}

func (s *c41Sys) describe(sn *c41Snap) string {
	var b strings.Builder
	h := s.chain.head
	for ai, a := range c41Accts {
		fmt.Fprintf(&b, "%s{n%d b%d P[%s] Q[%s]} ", a.name, h.nonce[ai], h.bal[ai], c41Names(sn.pend[ai]), c41Names(sn.queue[ai]))
	}
	return b.String()
}

// Key: model state (chain from genesis to head with what every block did, tip) + pool
// contents + white-box fingerprint (cost caps, heap membership incl. stale entries,
// stale counter, base fee, heartbeat order).
func (s *c41Sys) Key() string {
	if s.initErr != nil {
		return "init-error"
	}
	if s.last != "" {
		s.r.Outcome(s.last)
		s.r.Outcome("transitions-in-scenario:" + s.sc.name)
		for _, e := range s.effects {
			s.r.Outcome(e)
		}
		s.last = ""
	}
	var b strings.Builder
	b.WriteString(s.sc.name)
	b.WriteString("|")
	var chain []string
	for x := s.chain.head; x != nil; x = x.parent {
		chain = append(chain, x.desc)
	}
	for i := len(chain) - 1; i >= 0; i-- {
		b.WriteString(chain[i])
		b.WriteByte('/')
	}
	b.WriteString("|")
	b.WriteString(s.describe(s.cur))
	b.WriteString("|")
	b.WriteString(s.cur.fp)
	return b.String()
}

func c41Scenarios() []*c41Scenario {
	return []*c41Scenario{
		{
			// reproducers of the two recorded behaviours (see c41Key*), tiny on purpose
			name: "finding-acctqueue", cfg: c41Cfg(2, 4, 1, 3), depthQ: 2, depthT: 4,
			ops: []string{"batch:A0+A1x+A2+A3", "bal:A:low", "bal:A:high", "add:A1"},
		},
		{
			name: "finding-evictbump", cfg: c41Cfg(2, 2, 1, 1), depthQ: 4, depthT: 4,
			ops: []string{"add:A0", "add:B0", "add:C0", "add:A0u"},
		},
		{
			// churn inside ONE Add call on a full pool: batches of three whose better-priced members evict pending
			// transactions until the per-reorg churn throttle (changesSinceReorg > GlobalSlots/4, here 0) rejects the
			// rest of the batch; single adds of the same transactions for contrast
			name: "churn0", cfg: c41Cfg(2, 3, 2, 1), depthQ: 2, depthT: 3,
			init: []string{"batch:A0+A1+B0", "add:C0"},
			ops: []string{"batch:B1+B2+B0b", "batch:B1+B2+A2", "batch:B1+A2+B2", "batch:A2+B1+B2", "batch:B1+B0b+C0b",
				"add:B1", "add:B2", "add:B0b", "inc:A", "fee:115", "tip:105"},
		},
		{
			// the same with GlobalSlots 4 (throttle after two evictions) and a five-transaction full pool
			name: "churn1", cfg: c41Cfg(2, 4, 2, 1), depthQ: 2, depthT: 3,
			init: []string{"batch:A0+A1+B0", "add:B1", "add:C0"},
			ops: []string{"batch:B2+B3+B0b", "batch:B2+B3+C0b", "batch:B2+B0b+B3", "batch:B2+B3+A2", "batch:B2+B3+B0b+C0b",
				"add:B2", "add:B3", "add:B0b", "add:C0b", "inc:A", "revert"},
		},
		{
			// replacement rules in pending and queue, tip raises, inclusion of a different variant, reorg re-injection
			name: "replace", cfg: c41Cfg(2, 3, 2, 3), depthQ: 5, depthT: 7,
			ops: []string{"add:A0", "add:A0u", "add:A0b", "add:A0d", "add:A1", "add:A1b", "add:A2", "add:B0", "add:B0b",
				"tip:105", "inc:A", "inc:B", "revert"},
		},
		{
			// tiny limits: per-account and global truncation, eviction of the cheapest when full, future-vs-pending rule
			name: "limits", cfg: c41Cfg(1, 2, 2, 2), depthQ: 4, depthT: 6,
			init: []string{"batch:A0+A1"},
			ops: []string{"add:A2", "add:A3", "add:B0", "add:B1", "add:B2", "add:B1b", "add:C0", "add:C1", "batch:B0+B1+B2",
				"inc:A", "inc:B", "revert", "fee:115"},
		},
		{
			// balances: unaffordable transactions in pending and queue, demotion of followers, costly replacements
			name: "funds", cfg: c41Cfg(2, 4, 2, 3), depthQ: 4, depthT: 6,
			ops: []string{"add:A0", "add:A1", "add:A1x", "add:A2", "add:B0x", "add:B1", "add:B0",
				"bal:A:low", "bal:A:high", "bal:A:zero", "bal:B:low", "inc:A", "revert"},
		},
		{
			// everything together, shallower
			name: "mixed", cfg: c41Cfg(2, 3, 2, 3), depthQ: 3, depthT: 5,
			ops: []string{"add:A0", "add:A0b", "add:A0x", "add:A0d", "add:A1", "add:A1b", "add:A2",
				"add:B0", "add:B0b", "add:B1", "add:B2", "add:C0", "add:C1",
				"batch:A0+A1+A2+A3", "bal:A:low", "bal:A:high", "bal:B:low", "tip:105", "tip:1", "fee:115",
				"inc:A", "inc:B", "inc:C", "revert"},
		},
	}
}

func TestVerif_C41(t *testing.T) {
	mc.Run(t, "C41", func(r *mc.R) {
		c41Setup()
		r.Rule("explicit-state BFS (mc.Explore) over operation sequences on the real LegacyPool with a fake chain; per scenario a small alphabet of " +
			"add(tx)/batch add/include/revert(reorg with re-injection)/balance/tip/base-fee operations over 3 accounts (one EIP-7702 delegated) and a table of " +
			"nonce 0..3 x {price P, P+9%, P+10%, costly, dynamic-fee} transactions; a state = model (chain, tip) + pool contents + white-box fingerprint " +
			"(cost caps, price-heap membership incl. stale entries, stale counter, base fee, heartbeat order); distinct = distinct states")
		r.Assume("oracle = invariants recomputed from scratch from pool.pending/queue/all/priced after every operation (gapless from state nonce, per-tx affordable, " +
			"pending/queue disjoint, lookup == union, slot counter, heap accounting and heap order, list cost/nonce-index/cache consistency, virtual nonces, reservations, limits after a cycle) " +
			"+ transition checks (replacement needs the bump, admission affordable) + public API (Stats/Content/Pending/Nonce/Status/Has) agreement")
		r.Assume("heartbeats written within one operation are re-stamped in account order after the operation (the pool assigns them in Go map iteration order); " +
			"an eviction inside the same maintenance cycle may still depend on map order - the invariants do not")
		r.Assume("the pool has no local/remote distinction at this commit (locals live in core/txpool/locals); lifetime eviction (wall-clock ticker) is not explored")
		for _, sc := range c41Scenarios() {
			for _, o := range sc.ops {
				sc.parsed = append(sc.parsed, c41ParseOp(o))
			}
			for _, o := range sc.init {
				sc.pinit = append(sc.pinit, c41ParseOp(o))
			}
			depth := mc.Pick(r, sc.depthQ, sc.depthT)
			sc := sc
			t0 := time.Now()
			r.Explore(mc.Config{
				Name:  sc.name,
				Ops:   sc.ops,
				Depth: depth,
				New:   func() mc.Sys { return c41New(r, sc) },
				Close: func(s mc.Sys) { s.(*c41Sys).close() },
			})
			if testing.Verbose() {
				t.Logf("c41 scenario %s: %.1fs", sc.name, time.Since(t0).Seconds())
			}
			if r.Expired() {
				break
			}
		}
	})
}
