//go:build verif

package core

// C34 — stateless re-execution with the collected witness reproduces the block,
// and a witness with any single required item removed fails instead of producing
// a different result.
//
// Space: every ordered selection of 1-2 (thorough: 3 over a sub-alphabet)
// transactions from an alphabet of state-touching units (transfers to existing /
// absent accounts, touch-deletion of an empty account whose removal collapses an
// account-trie branch, storage deletes that collapse a storage-trie branch,
// deletes of a whole storage trie, storage inserts, reads, no-op writes,
// EXTCODESIZE/HASH/COPY, CALL and DELEGATECALL of another contract, BALANCE of an
// absent account, CREATE2, CREATE2 collision, SELFDESTRUCT, BLOCKHASH, reverting
// reads, EIP-7702 delegation + call through the delegation) x rule sets Cancun,
// Prague, Osaka, Amsterdam. Each block is executed on genesis by
// BlockChain.ProcessBlock with witness collection; then ExecuteStateless runs on
// the witness (after an RLP round trip, the wire form), and on the witness minus
// each single trie node / code blob.
//
// Oracle: full witness => exactly the block's state root and receipt root;
// witness minus one item => an error, or the same two roots (the item was not
// required) — never other roots, never a panic.

import (
	"context"
	"crypto/ecdsa"
	"encoding/json"
	"fmt"
	"math/big"
	"sort"
	"sync"
	"testing"

	"github.com/ethereum/go-ethereum/common"
	"github.com/ethereum/go-ethereum/common/lru"
	"github.com/ethereum/go-ethereum/consensus"
	"github.com/ethereum/go-ethereum/consensus/beacon"
	"github.com/ethereum/go-ethereum/consensus/ethash"
	"github.com/ethereum/go-ethereum/core/rawdb"
	"github.com/ethereum/go-ethereum/core/state"
	"github.com/ethereum/go-ethereum/core/stateless"
	"github.com/ethereum/go-ethereum/core/types"
	"github.com/ethereum/go-ethereum/core/vm"
	"github.com/ethereum/go-ethereum/core/vm/program"
	"github.com/ethereum/go-ethereum/crypto"
	"github.com/ethereum/go-ethereum/internal/verif/mc"
	"github.com/ethereum/go-ethereum/params"
	"github.com/ethereum/go-ethereum/rlp"
	"github.com/ethereum/go-ethereum/triedb"
	"github.com/holiman/uint256"
)

// ---------------------------------------------------------------------------
// rule sets

type c34Fork struct {
	name              string
	cfg               *params.ChainConfig
	prague, amsterdam bool
}

func c34U64(v uint64) *uint64 { return &v }

func c34Forks() []c34Fork {
	mk := func(name string, level int) c34Fork {
		cfg := *params.MergedTestChainConfig
		cfg.PragueTime, cfg.OsakaTime, cfg.AmsterdamTime = nil, nil, nil
		cfg.BPO1Time, cfg.BPO2Time, cfg.BPO3Time, cfg.BPO4Time, cfg.BPO5Time = nil, nil, nil, nil, nil
		f := c34Fork{name: name, cfg: &cfg}
		if level >= 1 {
			cfg.PragueTime, f.prague = c34U64(0), true
		}
		if level >= 2 {
			cfg.OsakaTime = c34U64(0)
		}
		if level >= 3 {
			cfg.AmsterdamTime, f.amsterdam = c34U64(0), true
		}
		return f
	}
	return []c34Fork{mk("cancun", 0), mk("prague", 1), mk("osaka", 2), mk("amsterdam", 3)}
}

// ---------------------------------------------------------------------------
// world

var (
	c34KeyA, _ = crypto.HexToECDSA("b71c71a67e1177ad4e901695e1b4b9ee17ae16c6668d313eac2f96dbcda3f291")
	c34KeyB, _ = crypto.HexToECDSA("8a1f9a8f95be41cd7ccb6168179afb4504aefe388d1e14474d32c45c72ce7b7a")
	c34KeyE, _ = crypto.HexToECDSA("2222222222222222222222222222222222222222222222222222222222222222")

	c34S   = common.HexToAddress("0x5000000000000000000000000000000000003401") // storage contract
	c34T   = common.HexToAddress("0x7000000000000000000000000000000000003402") // target with code: SSTORE(0, CALLER)
	c34X   = common.HexToAddress("0x8800000000000000000000000000000000003403") // existing EOA
	c34F   = common.HexToAddress("0xf000000000000000000000000000000000003404") // absent
	c34F2  = common.HexToAddress("0xf200000000000000000000000000000000003405") // absent (self-destruct beneficiary)
	c34D   = common.HexToAddress("0xd000000000000000000000000000000000003406") // self-destructs to F2
	c34CB  = common.HexToAddress("0xcb00000000000000000000000000000000003407") // fee recipient (absent before the block)
	c34Pfx = "0xa0000000000000000000000000000000000034"                        // prober contracts a0..34NN
	c34S2    = common.HexToAddress("0x5200000000000000000000000000000000003410") // second storage contract (slots: leaf + extension->branch)
	c34Bank1 = common.HexToAddress("0xba00000000000000000000000000000000003408")
	c34Bank2 = common.HexToAddress("0xbb00000000000000000000000000000000003409")
)

type c34Unit struct {
	name    string
	sender  int // 0 = A, 1 = B
	to      common.Address
	value   int64
	data    []byte
	prague  bool // needs Prague (EIP-7702)
	setcode bool
	core    bool // quick tier: single-item removals are enumerated on 2-transaction blocks made of core units only (all blocks get the full-witness oracle)
	tri     bool // member of the sub-alphabet used for 3-transaction blocks (thorough)
}

type c34World struct {
	fork   c34Fork
	gspec  *Genesis
	engine consensus.Engine
	signer types.Signer
	keys   []*ecdsa.PrivateKey
	addrs  []common.Address
	e      common.Address // 7702 authority
	z      common.Address // empty account present in genesis
	units  []c34Unit
}

func c34Word(v uint64) []byte { return common.LeftPadBytes(new(big.Int).SetUint64(v).Bytes(), 32) }

func c34Nibble(h common.Hash, i int) byte {
	if i%2 == 0 {
		return h[i/2] >> 4
	}
	return h[i/2] & 15
}

// c34Slots finds small slot numbers s1, s2 whose hashed keys share the first
// nibble (and nothing else shares it) and s3 with another first nibble: deleting
// s1 collapses the two-child branch under that nibble and needs s2's leaf.
func c34Slots() (s1, s2, s3 uint64) {
	hash := func(v uint64) common.Hash { return crypto.Keccak256Hash(c34Word(v)) }
	for a := uint64(1); a < 64; a++ {
		for b := a + 1; b < 64; b++ {
			if c34Nibble(hash(a), 0) == c34Nibble(hash(b), 0) && c34Nibble(hash(a), 1) != c34Nibble(hash(b), 1) {
				for c := uint64(1); c < 64; c++ {
					if c34Nibble(hash(c), 0) != c34Nibble(hash(a), 0) {
						return a, b, c
					}
				}
			}
		}
	}
	panic("c34: no slot triple")
}

// c34SlotsExt finds slot numbers t1, t2, t3 such that the hashed keys of t2 and t3
// share their first two nibbles and differ in the third, and t1 has another first
// nibble: in a storage trie holding exactly these three slots the root branch has
// the children leaf(t1) and extension(->branch{t2,t3}). Deleting t1 leaves the
// root with a single child that is an extension node; deleting t2 collapses the
// branch below the extension.
func c34SlotsExt() (t1, t2, t3 uint64) {
	hash := func(v uint64) common.Hash { return crypto.Keccak256Hash(c34Word(v)) }
	for a := uint64(1); a < 4096; a++ {
		for b := a + 1; b < 4096; b++ {
			ha, hb := hash(a), hash(b)
			if ha[0] != hb[0] || c34Nibble(ha, 2) == c34Nibble(hb, 2) {
				continue
			}
			for c := uint64(1); c < 64; c++ {
				if c34Nibble(hash(c), 0) != c34Nibble(ha, 0) {
					return c, a, b
				}
			}
		}
	}
	panic("c34: no slot triple with an extension")
}

// c34Candidates: a fixed list of candidate addresses with their hashes, computed
// once, from which account-trie shapes are selected.
var c34Candidates = sync.OnceValue(func() []struct {
	addr common.Address
	hash common.Hash
} {
	out := make([]struct {
		addr common.Address
		hash common.Hash
	}, 300_000)
	for i := range out {
		out[i].addr = common.BytesToAddress([]byte{0x34, 0xc2, byte(i >> 16), byte(i >> 8), byte(i)})
		out[i].hash = crypto.Keccak256Hash(out[i].addr[:])
	}
	return out
})

// c34AccountShape selects three absent addresses z, q1, q2 whose hashed keys all
// start with the same two nibbles (a prefix no address in `taken` uses), where q1
// and q2 share their first `shared` nibbles and differ in the next one, and z
// differs from them in the third nibble. With z an empty account and q1, q2 funded
// accounts in genesis, the node at the two-nibble prefix is a branch with two
// children: leaf(z) and - for shared == 3 - a branch {q1, q2}, for shared == 4 an
// extension leading to the branch {q1, q2}. Deleting z leaves that branch with a
// single child which is a branch / an extension node.
func c34AccountShape(taken map[[2]byte]bool, shared int) (z, q1, q2 common.Address) {
	cands := c34Candidates()
	prefix := func(h common.Hash, n int) string {
		b := make([]byte, n)
		for i := range b {
			b[i] = c34Nibble(h, i)
		}
		return string(b)
	}
	first := map[string]int{}
	for i, c := range cands {
		p2 := [2]byte{c34Nibble(c.hash, 0), c34Nibble(c.hash, 1)}
		if taken[p2] {
			continue
		}
		key := prefix(c.hash, shared)
		j, ok := first[key]
		if !ok {
			first[key] = i
			continue
		}
		if c34Nibble(cands[j].hash, shared) == c34Nibble(c.hash, shared) {
			continue
		}
		// q1 = cands[j], q2 = c; now z: same two-nibble prefix, other third nibble
		for _, zc := range cands {
			if prefix(zc.hash, 2) == prefix(c.hash, 2) && c34Nibble(zc.hash, 2) != c34Nibble(c.hash, 2) {
				taken[p2] = true
				return zc.addr, cands[j].addr, c.addr
			}
		}
	}
	panic("c34: no account shape found")
}

func c34Prober(i int) common.Address { return common.HexToAddress(fmt.Sprintf("%s%02x", c34Pfx, i)) }

func c34NewWorld(f c34Fork) *c34World {
	w := &c34World{fork: f, engine: beacon.New(ethash.NewFaker()), signer: types.LatestSigner(f.cfg)}
	w.keys = []*ecdsa.PrivateKey{c34KeyA, c34KeyB}
	for _, k := range w.keys {
		w.addrs = append(w.addrs, crypto.PubkeyToAddress(k.PublicKey))
	}
	w.e = crypto.PubkeyToAddress(c34KeyE.PublicKey)
	s1, s2, s3 := c34Slots()
	t1, t2, t3 := c34SlotsExt()

	// S: calldatasize%64 == 32: return SLOAD(cd[0]); otherwise for every (key,value) pair in calldata SSTORE(key,value).
	sRead := program.New().Push(0).Op(vm.CALLDATALOAD, vm.SLOAD).Push(0).Op(vm.MSTORE).Return(0, 32).Bytes()
	sLoop := func(base int) []byte {
		// i on the stack
		p := program.New().Push(0)
		loop := base + p.Size()
		p.Op(vm.JUMPDEST)
		p.Op(vm.DUP1, vm.CALLDATASIZE, vm.GT, vm.ISZERO) // !(size > i)
		p.Op(vm.PUSH2)
		patch := p.Size()
		p.Append([]byte{0, 0}).Op(vm.JUMPI)
		p.Op(vm.DUP1).Push(32).Op(vm.ADD, vm.CALLDATALOAD) // value
		p.Op(vm.DUP2, vm.CALLDATALOAD, vm.SSTORE)          // SSTORE(key, value)
		p.Push(64).Op(vm.ADD)
		p.Op(vm.PUSH2).Append([]byte{byte(loop >> 8), byte(loop)}).Op(vm.JUMP)
		exit := base + p.Size()
		p.Op(vm.JUMPDEST, vm.STOP)
		b := p.Bytes()
		b[patch], b[patch+1] = byte(exit>>8), byte(exit)
		return b
	}
	// prefix: PUSH1 32 CALLDATASIZE AND ISZERO PUSH2 dest JUMPI <read> JUMPDEST <loop>
	prefix := program.New().Push(32).Op(vm.CALLDATASIZE, vm.AND, vm.ISZERO).Op(vm.PUSH2)
	dest := prefix.Size() + 2 + 1 + len(sRead)
	prefix.Append([]byte{byte(dest >> 8), byte(dest)}).Op(vm.JUMPI).Append(sRead).Op(vm.JUMPDEST)
	sCode := append(prefix.Bytes(), sLoop(prefix.Size())...)

	tCode := program.New().Op(vm.CALLER).Push(0).Op(vm.SSTORE, vm.STOP).Bytes()
	dCode := program.New().Selfdestruct(c34F2).Bytes()

	alloc := types.GenesisAlloc{}
	for addr, acc := range SystemContractAllocs() {
		alloc[addr] = acc
	}
	rich := new(big.Int).Mul(big.NewInt(1_000_000), big.NewInt(params.Ether))
	alloc[w.addrs[0]] = types.Account{Balance: rich}
	alloc[w.addrs[1]] = types.Account{Balance: rich}
	alloc[c34X] = types.Account{Balance: big.NewInt(5)}
	alloc[c34S] = types.Account{Code: sCode, Nonce: 1, Balance: common.Big0, Storage: map[common.Hash]common.Hash{
		common.BytesToHash(c34Word(s1)): common.BytesToHash(c34Word(0x11)),
		common.BytesToHash(c34Word(s2)): common.BytesToHash(c34Word(0x22)),
		common.BytesToHash(c34Word(s3)): common.BytesToHash(c34Word(0x33)),
	}}
	alloc[c34S2] = types.Account{Code: sCode, Nonce: 1, Balance: common.Big0, Storage: map[common.Hash]common.Hash{
		common.BytesToHash(c34Word(t1)): common.BytesToHash(c34Word(0x41)),
		common.BytesToHash(c34Word(t2)): common.BytesToHash(c34Word(0x42)),
		common.BytesToHash(c34Word(t3)): common.BytesToHash(c34Word(0x43)),
	}}
	alloc[c34T] = types.Account{Code: tCode, Nonce: 1, Balance: common.Big0}
	alloc[c34D] = types.Account{Code: dCode, Nonce: 1, Balance: big.NewInt(900)}
	// BANKn: called with calldata: CALL(peer, value 7); called without (the peer's payment): STOP
	bank := func(peer common.Address) []byte {
		send := program.New().Call(nil, peer, 7, 0, 0, 0, 0).Op(vm.POP, vm.STOP).Bytes()
		p := program.New().Op(vm.CALLDATASIZE, vm.ISZERO).Op(vm.PUSH2)
		dest := p.Size() + 2 + 1 + len(send)
		return p.Append([]byte{byte(dest >> 8), byte(dest)}).Op(vm.JUMPI).Append(send).Op(vm.JUMPDEST, vm.STOP).Bytes()
	}
	alloc[c34Bank1] = types.Account{Code: bank(c34Bank2), Nonce: 1, Balance: big.NewInt(100)}
	alloc[c34Bank2] = types.Account{Code: bank(c34Bank1), Nonce: 1, Balance: big.NewInt(100)}

	// prober contracts; each writes its observation into its own slot 0
	store0 := func(p *program.Program) []byte { return p.Push(0).Op(vm.SSTORE, vm.STOP).Bytes() }
	initK := program.New().Sstore(3, 7).ReturnViaCodeCopy(tCode).Bytes()
	type prober struct {
		name string
		code []byte
		core bool
	}
	collider := c34Prober(0x40)
	collideInit := program.New().Sstore(1, 1).ReturnViaCodeCopy(tCode).Bytes()
	collideAt := crypto.CreateAddress2(collider, common.BigToHash(big.NewInt(9)), crypto.Keccak256(collideInit))
	probers := []prober{
		{"EXTCODESIZE_T", store0(program.New().Push(c34T).Op(vm.EXTCODESIZE)), false},
		{"EXTCODEHASH_T", store0(program.New().Push(c34T).Op(vm.EXTCODEHASH)), false},
		{"EXTCODECOPY_T", store0(program.New().ExtcodeCopy(c34T, 0, 0, 32).Push(0).Op(vm.MLOAD)), true},
		{"CALL_T", store0(program.New().Call(nil, c34T, 0, 0, 0, 0, 0)), true},
		{"DELEGATECALL_T", program.New().DelegateCall(nil, c34T, 0, 0, 0, 0).Op(vm.POP, vm.STOP).Bytes(), false},
		{"BALANCE_ABSENT", store0(program.New().Push(c34F).Op(vm.BALANCE).Push(1).Op(vm.ADD)), true},
		{"BALANCE_X", store0(program.New().Push(c34X).Op(vm.BALANCE)), false},
		{"CREATE2", store0(program.New().Create2(initK, 5)), true},
		{"BLOCKHASH", store0(program.New().Push(1).Op(vm.NUMBER, vm.SUB, vm.BLOCKHASH)), false},
		{"READ_S_VIA_CALL", store0(program.New().Mstore(c34Word(s2), 0).Call(nil, c34S, 0, 0, 32, 0, 32).Op(vm.POP).Push(0).Op(vm.MLOAD)), true},
		{"READ_S_REVERT", program.New().Mstore(c34Word(s2), 0).Call(nil, c34S, 0, 0, 32, 0, 0).Op(vm.POP).Push(0).Push(0).Op(vm.REVERT).Bytes(), false},
	}
	var units []c34Unit
	for i, p := range probers {
		addr := c34Prober(i)
		alloc[addr] = types.Account{Code: p.code, Nonce: 1, Balance: common.Big0}
		units = append(units, c34Unit{name: p.name, sender: i % 2, to: addr, core: p.core, tri: p.name == "CREATE2"})
	}
	// CREATE2 onto an address that already holds a contract
	alloc[collider] = types.Account{Code: store0(program.New().Create2(collideInit, 9).Push(1).Op(vm.ADD)), Nonce: 1, Balance: common.Big0}
	alloc[collideAt] = types.Account{Code: tCode, Nonce: 1, Balance: common.Big0, Storage: map[common.Hash]common.Hash{{31: 1}: {31: 1}}}
	units = append(units, c34Unit{name: "CREATE2_COLLISION", sender: 0, to: collider})

	toucher, toucher2, toucher3 := c34Prober(0x41), c34Prober(0x42), c34Prober(0x43)
	pair := func(k, v uint64) []byte { return append(c34Word(k), c34Word(v)...) }
	units = append(units,
		c34Unit{name: "TOUCH_EMPTY_Z", sender: 1, to: toucher, core: true, tri: true},
		c34Unit{name: "TOUCH_EMPTY_Z2", sender: 0, to: toucher2, core: true, tri: true},
		c34Unit{name: "TOUCH_EMPTY_Z3", sender: 1, to: toucher3, core: true, tri: true},
		c34Unit{name: "TRANSFER_X", sender: 0, to: c34X, value: 3},
		c34Unit{name: "TRANSFER_ABSENT", sender: 1, to: c34F, value: 4, core: true, tri: true},
		c34Unit{name: "S_CLEAR_1", sender: 0, to: c34S, data: pair(s1, 0), core: true, tri: true},
		c34Unit{name: "S_CLEAR_2", sender: 1, to: c34S, data: pair(s2, 0), core: true, tri: true},
		c34Unit{name: "S_CLEAR_ALL", sender: 0, to: c34S, data: append(append(pair(s1, 0), pair(s2, 0)...), pair(s3, 0)...), core: true, tri: true},
		c34Unit{name: "S_INSERT", sender: 1, to: c34S, data: pair(0x77, 0x99), core: true, tri: true},
		// deletes chosen by the shape of the HASHED keys: the branch that loses a child keeps a single
		// child which is a leaf (S_CLEAR_1/2 above), a branch (S_CLEAR_3: the two other slots of S share a
		// nibble), an extension (T_CLEAR_1), and a delete below an extension (T_CLEAR_2)
		c34Unit{name: "S_CLEAR_3", sender: 0, to: c34S, data: pair(s3, 0), core: true, tri: true},
		c34Unit{name: "T_CLEAR_1", sender: 1, to: c34S2, data: pair(t1, 0), core: true, tri: true},
		c34Unit{name: "T_CLEAR_2", sender: 0, to: c34S2, data: pair(t2, 0), core: true, tri: true},
		// set a pre-existing slot to another value / back to its pre-block value (by another sender) /
		// back to its pre-block value together with a net change of another slot: ordered selections
		// contain change-then-restore, delete-then-restore, change-delete-restore (net-zero storage
		// changes across transactions) and restore combined with another net change in the same contract
		c34Unit{name: "S_SET_1_OTHER", sender: 0, to: c34S, data: pair(s1, 0x55), core: true, tri: true},
		c34Unit{name: "S_SET_1_ORIG", sender: 1, to: c34S, data: pair(s1, 0x11), core: true, tri: true},
		c34Unit{name: "S_RESTORE_1_SET_3", sender: 1, to: c34S, data: append(pair(s1, 0x11), pair(s3, 0x44)...), core: true, tri: true},
		// net-zero balance changes across transactions: BANK1 pays BANK2 7 wei, BANK2 pays BANK1 7 wei
		c34Unit{name: "BANK1_PAYS", sender: 0, to: c34Bank1, data: []byte{1}},
		c34Unit{name: "BANK2_PAYS", sender: 1, to: c34Bank2, data: []byte{1}},
		c34Unit{name: "S_READ_2", sender: 0, to: c34S, data: c34Word(s2)},
		c34Unit{name: "S_READ_ABSENT", sender: 1, to: c34S, data: c34Word(0x78)},
		c34Unit{name: "S_NOOP_WRITE_3", sender: 0, to: c34S, data: pair(s3, 0x33)},
		c34Unit{name: "SELFDESTRUCT_D", sender: 1, to: c34D, core: true, tri: true},
		c34Unit{name: "SETCODE_E", sender: 0, to: w.e, prague: true, setcode: true, core: true},
		c34Unit{name: "CALL_E", sender: 1, to: w.e, prague: true, core: true},
	)
	w.units = units

	// Account-trie shapes, selected last, when every other genesis account is known. Addresses that
	// appear only during a block (absent recipients, fee recipient, created contracts, the 7702
	// authority) are kept out of the selected prefixes as well.
	for _, a := range []common.Address{toucher, toucher2, toucher3} {
		alloc[a] = types.Account{Nonce: 1, Balance: common.Big0}
	}
	taken := map[[2]byte]bool{}
	note := func(a common.Address) {
		h := crypto.Keccak256Hash(a[:])
		taken[[2]byte{c34Nibble(h, 0), c34Nibble(h, 1)}] = true
	}
	for a := range alloc {
		note(a)
	}
	for _, a := range []common.Address{c34F, c34F2, c34CB, w.e, collideAt, crypto.CreateAddress2(c34Prober(7), common.BigToHash(big.NewInt(5)), crypto.Keccak256(initK))} {
		note(a)
	}
	// Z2: deleting it leaves a branch whose only child is a branch; Z3: ... is an extension
	z2, q1, q2 := c34AccountShape(taken, 3)
	z3, r1, r2 := c34AccountShape(taken, 4)
	for _, a := range []common.Address{q1, q2, r1, r2} {
		alloc[a] = types.Account{Balance: big.NewInt(1)}
	}
	alloc[z2] = types.Account{Balance: common.Big0}
	alloc[z3] = types.Account{Balance: common.Big0}
	// Z: an empty account whose hashed address shares its first nibble with exactly one other
	// account (a leaf): deleting it collapses that branch onto a leaf.
	count := map[byte]int{}
	for a := range alloc {
		count[c34Nibble(crypto.Keccak256Hash(a[:]), 0)]++
	}
	for i := 1; i < 65536 && w.z == (common.Address{}); i++ {
		cand := common.BytesToAddress([]byte{0x2a, 0x34, byte(i >> 8), byte(i)})
		if count[c34Nibble(crypto.Keccak256Hash(cand[:]), 0)] == 1 {
			w.z = cand
		}
	}
	if w.z == (common.Address{}) {
		// every first nibble holds two or more accounts: take a two-nibble prefix used by exactly one
		count2 := map[[2]byte]int{}
		for a := range alloc {
			h := crypto.Keccak256Hash(a[:])
			count2[[2]byte{c34Nibble(h, 0), c34Nibble(h, 1)}]++
		}
		for _, c := range c34Candidates() {
			if count2[[2]byte{c34Nibble(c.hash, 0), c34Nibble(c.hash, 1)}] == 1 {
				if _, used := alloc[c.addr]; !used {
					w.z = c.addr
					break
				}
			}
		}
	}
	if w.z == (common.Address{}) {
		panic("c34: no suitable empty account")
	}
	alloc[w.z] = types.Account{Balance: common.Big0}
	touch := func(z common.Address) []byte { return program.New().Call(nil, z, 0, 0, 0, 0, 0).Op(vm.POP, vm.STOP).Bytes() }
	alloc[toucher] = types.Account{Code: touch(w.z), Nonce: 1, Balance: common.Big0}
	alloc[toucher2] = types.Account{Code: touch(z2), Nonce: 1, Balance: common.Big0}
	alloc[toucher3] = types.Account{Code: touch(z3), Nonce: 1, Balance: common.Big0}
	w.gspec = &Genesis{Config: f.cfg, Alloc: alloc, GasLimit: 30_000_000}
	return w
}

func (w *c34World) tx(u c34Unit, nonce uint64) *types.Transaction {
	key := w.keys[u.sender]
	if u.setcode {
		auth, err := types.SignSetCode(c34KeyE, types.SetCodeAuthorization{ChainID: *uint256.MustFromBig(w.fork.cfg.ChainID), Address: c34T, Nonce: 0})
		if err != nil {
			panic(err)
		}
		return types.MustSignNewTx(key, w.signer, &types.SetCodeTx{
			ChainID: uint256.MustFromBig(w.fork.cfg.ChainID), Nonce: nonce, To: u.to, Value: new(uint256.Int), Gas: 3_000_000,
			GasFeeCap: uint256.MustFromBig(newGwei(10)), GasTipCap: uint256.MustFromBig(newGwei(1)), AuthList: []types.SetCodeAuthorization{auth},
		})
	}
	to := u.to
	return types.MustSignNewTx(key, w.signer, &types.DynamicFeeTx{
		ChainID: w.fork.cfg.ChainID, Nonce: nonce, To: &to, Value: big.NewInt(u.value), Gas: 3_000_000,
		GasFeeCap: newGwei(10), GasTipCap: newGwei(1), Data: u.data,
	})
}

func (w *c34World) build(sel []int) (block *types.Block, receipts types.Receipts, err error) {
	defer func() {
		if p := recover(); p != nil {
			err = fmt.Errorf("chain maker rejected the selection: %v", p)
		}
	}()
	nonces := map[int]uint64{}
	var txs []*types.Transaction
	for _, s := range sel {
		u := w.units[s]
		txs = append(txs, w.tx(u, nonces[u.sender]))
		nonces[u.sender]++
	}
	_, blocks, rcs := GenerateChainWithGenesis(w.gspec, w.engine, 1, func(_ int, g *BlockGen) {
		g.SetCoinbase(c34CB)
		for _, tx := range txs {
			g.AddTx(tx)
		}
	})
	return blocks[0], rcs[0], nil
}

type c34Pool struct {
	w    *c34World
	path bool // path scheme instead of the default hash scheme
	mu   sync.Mutex
	free []*BlockChain
	all  []*BlockChain
}

func (p *c34Pool) get() *BlockChain {
	p.mu.Lock()
	if n := len(p.free); n > 0 {
		c := p.free[n-1]
		p.free = p.free[:n-1]
		p.mu.Unlock()
		return c
	}
	p.mu.Unlock()
	var cfg *BlockChainConfig
	if p.path {
		cfg = DefaultConfig().WithStateScheme(rawdb.PathScheme)
	}
	bc, err := NewBlockChain(rawdb.NewMemoryDatabase(), p.w.gspec, p.w.engine, cfg)
	if err != nil {
		panic(fmt.Sprintf("c34: cannot create chain: %v", err))
	}
	p.mu.Lock()
	p.all = append(p.all, bc)
	p.mu.Unlock()
	return bc
}
func (p *c34Pool) put(c *BlockChain) { p.mu.Lock(); p.free = append(p.free, c); p.mu.Unlock() }
func (p *c34Pool) close() {
	for _, c := range p.all {
		c.Stop()
	}
}

// c34Task is the block as a stateless verifier receives it: state root and
// receipt root are what it has to compute.
func c34Task(block *types.Block) *types.Block {
	h := block.Header()
	h.Root = common.Hash{}
	h.ReceiptHash = common.Hash{}
	return types.NewBlockWithHeader(h).WithBody(*block.Body())
}

func c34Selections(alphabet []int, k int) [][]int {
	var out [][]int
	var rec func(cur []int)
	rec = func(cur []int) {
		if len(cur) == k {
			out = append(out, append([]int{}, cur...))
			return
		}
		for _, a := range alphabet {
			dup := false
			for _, c := range cur {
				dup = dup || c == a
			}
			if !dup {
				rec(append(cur, a))
			}
		}
	}
	rec(nil)
	return out
}

func TestVerif_C34(t *testing.T) {
	mc.Run(t, "C34", func(r *mc.R) {
		maxLen := mc.Pick(r, 2, 3)
		r.Rule("rule sets {cancun, prague, osaka, amsterdam} x every ordered selection of 1..2 units of the alphabet (3 over the trie-shape / net-zero sub-alphabet in the thorough tier); " +
			"each block: witness collected by BlockChain.ProcessBlock(MakeWitness) on genesis on a hash-scheme and on a path-scheme chain, RLP round trip, ExecuteStateless on each full witness, and on the hash-scheme witness minus every single trie node and every single code blob (quick: removals on 1-unit blocks and on 2-unit blocks of core units only); " +
			"distinct = distinct (rule set, block, removed item) triples")
		r.Bound("max_txs", maxLen)
		r.Assume("pre-state = one genesis per rule set (hash scheme, snapshots enabled as in the default test chain); blocks built by core.GenerateChain")
		r.Assume("removal of ancestor headers from the witness is not enumerated (only trie nodes and code blobs, as in the statement)")

		var replayTxs []string
		var replayFork string
		if r.Replaying() {
			var d struct {
				Fork string   `json:"fork"`
				Txs  []string `json:"txs"`
			}
			_ = json.Unmarshal(r.ReplayDescriptor(), &d)
			replayTxs, replayFork = d.Txs, d.Fork
		}
		silent := &c34SilentSet{}
		defer silent.report(r)
		for fi, f := range c34Forks() {
			if r.Expired() {
				break
			}
			if r.Replaying() && f.name != replayFork {
				continue
			}
			w := c34NewWorld(f)
			pool := &c34Pool{w: w}
			pathPool := &c34Pool{w: w, path: true}
			var all, tri []int
			for i, u := range w.units {
				if u.prague && !f.prague {
					continue
				}
				all = append(all, i)
				if u.tri {
					tri = append(tri, i)
				}
			}
			sels := c34Selections(all, 1)
			sels = append(sels, c34Selections(all, 2)...)
			if maxLen >= 3 {
				sels = append(sels, c34Selections(tri, 3)...)
			}
			r.Bound("alphabet."+f.name, len(all))
			r.Bound("blocks."+f.name, len(sels))
			r.Parallel(len(sels), func(i int) {
				sel := sels[i]
				var names []string
				for _, s := range sel {
					names = append(names, w.units[s].name)
				}
				if r.Replaying() && fmt.Sprint(names) != fmt.Sprint(replayTxs) {
					return
				}
				bc := pool.get()
				defer pool.put(bc)
				pbc := pathPool.get()
				defer pathPool.put(pbc)
				// quick tier: removals on single-unit blocks and on blocks made of core units only
				removals := r.Thorough() || len(sel) == 1
				if !removals {
					removals = true
					for _, s := range sel {
						removals = removals && w.units[s].core
					}
				}
				c34CheckBlock(r, w, bc, pbc, sel, names, removals, fmt.Sprintf("%d/%06d", fi, i), silent)
			})
			pool.close()
			pathPool.close()
		}
	})
}

func c34CheckBlock(r *mc.R, w *c34World, bc, pathBC *BlockChain, sel []int, names []string, removals bool, order string, silent *c34SilentSet) {
	var (
		ctx     = context.Background()
		block   *types.Block
		witness *stateless.Witness
		task    *types.Block
	)
	setup := mc.Safely(func() error {
		b, receipts, err := w.build(sel)
		if err != nil {
			return err
		}
		block = b
		st := ""
		for _, rc := range receipts {
			st += fmt.Sprint(rc.Status)
		}
		r.Outcome("block:" + w.fork.name + ":statuses=" + st)
		if len(sel) == 1 && st == "0" {
			r.Outcome("failing-unit:" + w.fork.name + ":" + names[0])
		}
		res, err := bc.ProcessBlock(ctx, bc.Genesis().Root(), block, ExecuteConfig{MakeWitness: true})
		if err != nil {
			return fmt.Errorf("full execution with witness collection failed: %v", err)
		}
		if res.witness == nil {
			return fmt.Errorf("no witness collected")
		}
		// the wire form
		enc, err := rlp.EncodeToBytes(res.witness)
		if err != nil {
			return fmt.Errorf("witness encoding: %v", err)
		}
		witness = new(stateless.Witness)
		if err := rlp.DecodeBytes(enc, witness); err != nil {
			return fmt.Errorf("witness decoding: %v", err)
		}
		if len(witness.State) != len(res.witness.State) || len(witness.Codes) != len(res.witness.Codes) {
			return fmt.Errorf("witness changed in the RLP round trip")
		}
		task = c34Task(block)
		return nil
	})
	full := map[string]any{"fork": w.fork.name, "txs": names, "remove": "nothing"}
	r.Case(full, func() error {
		if setup != nil {
			return setup
		}
		root, rroot, err := ExecuteStateless(ctx, w.fork.cfg, vm.Config{}, task, witness.Copy())
		if err != nil {
			return fmt.Errorf("stateless execution with the full witness failed: %v", err)
		}
		if root != block.Root() || rroot != block.ReceiptHash() {
			return fmt.Errorf("stateless execution with the full witness: state root %x receipt root %x, block has %x %x", root, rroot, block.Root(), block.ReceiptHash())
		}
		return nil
	})
	if setup != nil {
		return
	}
	// the same block with the witness collected on a path-scheme chain
	r.Case(map[string]any{"fork": w.fork.name, "txs": names, "remove": "nothing", "scheme": "path"}, func() error {
		res, err := pathBC.ProcessBlock(ctx, pathBC.Genesis().Root(), block, ExecuteConfig{MakeWitness: true})
		if err != nil {
			return fmt.Errorf("full execution with witness collection failed (path scheme): %v", err)
		}
		if res.witness == nil {
			return fmt.Errorf("no witness collected (path scheme)")
		}
		enc, err := rlp.EncodeToBytes(res.witness)
		if err != nil {
			return fmt.Errorf("witness encoding: %v", err)
		}
		pw := new(stateless.Witness)
		if err := rlp.DecodeBytes(enc, pw); err != nil {
			return fmt.Errorf("witness decoding: %v", err)
		}
		root, rroot, err := ExecuteStateless(ctx, w.fork.cfg, vm.Config{}, task, pw)
		if err != nil {
			return fmt.Errorf("stateless execution with the full witness collected on a path-scheme chain failed: %v", err)
		}
		if root != block.Root() || rroot != block.ReceiptHash() {
			return fmt.Errorf("stateless execution with the full witness (path scheme): state root %x receipt root %x, block has %x %x", root, rroot, block.Root(), block.ReceiptHash())
		}
		return nil
	})
	r.DistinctHash(mc.Hash64(w.fork.name + fmt.Sprint(names)))
	if !removals {
		r.Outcome("removals-not-enumerated(quick:non-core-pair)")
		return
	}
	type item struct {
		kind string
		blob string
	}
	var items []item
	for n := range witness.State {
		items = append(items, item{"node", n})
	}
	for c := range witness.Codes {
		items = append(items, item{"code", c})
	}
	sort.Slice(items, func(i, j int) bool {
		if items[i].kind != items[j].kind {
			return items[i].kind < items[j].kind
		}
		return items[i].blob < items[j].blob
	})
	r.OutcomeN("witness-items", int64(len(items)))
	for itemIdx, it := range items {
		if r.Expired() {
			return
		}
		id := fmt.Sprintf("%s:%x", it.kind, crypto.Keccak256([]byte(it.blob)))
		desc := map[string]any{"fork": w.fork.name, "txs": names, "remove": id}
		r.Case(desc, func() error {
			cut := witness.Copy()
			if it.kind == "node" {
				delete(cut.State, it.blob)
			} else {
				delete(cut.Codes, it.blob)
			}
			root, rroot, err := ExecuteStateless(ctx, w.fork.cfg, vm.Config{}, task, cut)
			switch {
			case err != nil:
				r.Outcome("removed-" + it.kind + ":error")
				return nil
			case root == block.Root() && rroot == block.ReceiptHash():
				r.Outcome("removed-" + it.kind + ":same-result(not-required)")
				return nil
			}
			// Diagnose with a replica of ExecuteStateless' own steps: which error did the
			// state database record that the function never looks at?
			ignored := c34IgnoredError(ctx, w.fork.cfg, task, cut)
			r.Outcome("removed-" + it.kind + ":SILENT-DIFFERENT-RESULT")
			silent.add(c34Silent{order: fmt.Sprintf("%s/%04d", order, itemIdx), kind: it.kind, desc: desc,
				msg: fmt.Sprintf("%s: ExecuteStateless without %s (%d bytes) returned err=nil with state root %x receipt root %x; the block has %x %x; StateDB.Error() after the same steps: %v",
					c34JSON(desc), id, len(it.blob), root, rroot, block.Root(), block.ReceiptHash(), ignored)})
			return nil
		})
		r.DistinctHash(mc.Hash64(w.fork.name + fmt.Sprint(names) + id))
	}
	if len(sel) == 1 {
		r.Sample(full)
	}
}

func c34JSON(v any) string {
	b, _ := json.Marshal(v)
	return string(b)
}

// c34IgnoredError repeats the steps of ExecuteStateless on the witness and
// returns the error the state database accumulated (StateDB.Error), which
// ExecuteStateless itself does not consult.
func c34IgnoredError(ctx context.Context, config *params.ChainConfig, block *types.Block, witness *stateless.Witness) (dbErr error) {
	defer func() {
		if p := recover(); p != nil {
			dbErr = fmt.Errorf("replica panicked: %v", p)
		}
	}()
	memdb := witness.MakeHashDB()
	db, err := state.New(witness.Root(), state.NewDatabase(triedb.NewDatabase(memdb, triedb.HashDefaults), state.NewCodeDB(memdb)))
	if err != nil {
		return fmt.Errorf("state.New: %v", err)
	}
	chain := &HeaderChain{config: config, chainDb: memdb, headerCache: lru.NewCache[common.Hash, *types.Header](256), engine: beacon.New(ethash.NewFaker())}
	if _, err := NewStateProcessor(chain).Process(ctx, block, db, nil, nil, vm.Config{}, nil); err != nil {
		return fmt.Errorf("Process: %v", err)
	}
	db.IntermediateRoot(config.Rules(block.Number(), block.Difficulty().Sign() == 0, block.Time()))
	return db.Error()
}

// A removal that yields other roots with a nil error. All such cases are one
// finding per item kind (the mechanism is the same: ExecuteStateless never reads
// StateDB.Error()); the violation carries the first case in enumeration order as
// its replay descriptor, the number of cases and a few more examples.
type c34Silent struct {
	order string
	kind  string
	desc  map[string]any
	msg   string
}

type c34SilentSet struct {
	mu    sync.Mutex
	cases []c34Silent
}

func (s *c34SilentSet) add(c c34Silent) { s.mu.Lock(); s.cases = append(s.cases, c); s.mu.Unlock() }

func (s *c34SilentSet) report(r *mc.R) {
	sort.Slice(s.cases, func(i, j int) bool { return s.cases[i].order < s.cases[j].order })
	for _, kind := range []string{"node", "code"} {
		var first *c34Silent
		n := 0
		more := ""
		for i := range s.cases {
			if s.cases[i].kind != kind {
				continue
			}
			n++
			if first == nil {
				first = &s.cases[i]
			} else if n <= 4 {
				more += "\n  also: " + s.cases[i].msg
			}
		}
		if first != nil {
			r.Violation("C34/silent-wrong-result/"+kind, fmt.Sprintf("%d removals of a single %s from the witness made ExecuteStateless return other roots with err == nil. First: %s%s", n, kind, first.msg, more), first.desc)
		}
	}
}
