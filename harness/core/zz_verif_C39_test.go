//go:build verif

package core

import (
	"errors"
	"fmt"
	"math/big"
	"os"
	"path/filepath"
	"slices"
	"sync"
	"sync/atomic"
	"testing"
	"time"

	"github.com/ethereum/go-ethereum/common"
	"github.com/ethereum/go-ethereum/consensus/ethash"
	"github.com/ethereum/go-ethereum/core/rawdb"
	"github.com/ethereum/go-ethereum/core/state"
	"github.com/ethereum/go-ethereum/core/types"
	"github.com/ethereum/go-ethereum/crypto"
	"github.com/ethereum/go-ethereum/ethdb"
	"github.com/ethereum/go-ethereum/ethdb/memorydb"
	"github.com/ethereum/go-ethereum/internal/verif/crashkv"
	"github.com/ethereum/go-ethereum/internal/verif/mc"
	"github.com/ethereum/go-ethereum/params"
	"github.com/ethereum/go-ethereum/triedb"
)

// ---------------------------------------------------------------------------
// C39: the blockchain restarts consistently after a crash.
//
// Instead of the hand-written scenario tables of blockchain_repair_test.go /
// blockchain_sethead_test.go the complete grid
//   canonical length x side chain (length, fork height) x commit point x
//   freeze threshold x pivot x {hash, hash+snapshots, path}
// is enumerated. Two crash models:
//   abandon: the history runs to its end, then every in-memory state is dropped
//            (stopWithoutSaving, as in the repository's repair tests);
//   kvprefix: the history runs on a recording key-value store and the chain is
//            re-opened on EVERY prefix of the key-value write log (each single
//            write / each atomic batch is one crash point), all memory lost.
// Oracle: generic invariants (no per-scenario expectations) plus the re-import
// of the canonical chain, which must reach the head and state of a node that
// never crashed.

type c39Forest struct {
	gspec   *Genesis
	genesis *types.Block
	canon   []*types.Block
	side    [][]*types.Block // side[f] = side chain forking after canon[f-1] (f = number of shared blocks)
	known   map[common.Hash]string
	parent  map[common.Hash]common.Hash
	number  map[common.Hash]uint64
	// expected state of the never-crashed node after canon[:n]
	expNonce   []uint64
	expRcpt    []*big.Int
	expMiner   []*big.Int
	sender     common.Address
	recipient  common.Address
	canonMiner common.Address
}

const (
	c39MaxLen  = 8
	c39MaxSide = 4
)

var (
	c39ForestOnce sync.Once
	c39TheForest  *c39Forest
)

func c39GetForest() *c39Forest {
	c39ForestOnce.Do(func() {
		var (
			key, _ = crypto.HexToECDSA("b71c71a67e1177ad4e901695e1b4b9ee17ae16c6668d313eac2f96dbcda3f291")
			sender = crypto.PubkeyToAddress(key.PublicKey)
			funds  = new(big.Int).Mul(big.NewInt(1_000_000), big.NewInt(params.Ether))
		)
		f := &c39Forest{
			gspec: &Genesis{
				Config:  params.AllEthashProtocolChanges,
				BaseFee: big.NewInt(params.InitialBaseFee),
				Alloc:   types.GenesisAlloc{sender: {Balance: funds}},
			},
			known:      map[common.Hash]string{},
			parent:     map[common.Hash]common.Hash{},
			number:     map[common.Hash]uint64{},
			sender:     sender,
			recipient:  common.HexToAddress("0x00000000000000000000000000000000000c39aa"),
			canonMiner: common.Address{0x02},
		}
		engine := ethash.NewFaker()
		signer := types.LatestSigner(f.gspec.Config)
		gendb, _, _ := GenerateChainWithGenesis(f.gspec, engine, 0, nil)
		f.genesis = f.gspec.ToBlock()
		f.known[f.genesis.Hash()] = "G"
		gen := func(parent *types.Block, n int, miner common.Address, to common.Address, value int64) []*types.Block {
			blocks, _ := GenerateChain(f.gspec.Config, parent, engine, gendb, n, func(i int, b *BlockGen) {
				b.SetCoinbase(miner)
				tx, err := types.SignTx(types.NewTransaction(b.TxNonce(sender), to, big.NewInt(value), 21000, big.NewInt(params.InitialBaseFee), nil), signer, key)
				if err != nil {
					panic(err)
				}
				b.AddTx(tx)
			})
			return blocks
		}
		f.canon = gen(f.genesis, c39MaxLen, f.canonMiner, f.recipient, 1000)
		for i, b := range f.canon {
			f.known[b.Hash()] = fmt.Sprintf("C%d", i+1)
			f.parent[b.Hash()] = b.ParentHash()
			f.number[b.Hash()] = b.NumberU64()
		}
		for fk := 0; fk < c39MaxLen; fk++ {
			parent := f.genesis
			if fk > 0 {
				parent = f.canon[fk-1]
			}
			sc := gen(parent, c39MaxSide, common.Address{0x01}, common.HexToAddress("0x00000000000000000000000000000000000c39bb"), 7)
			for i, b := range sc {
				f.known[b.Hash()] = fmt.Sprintf("S%d.%d", fk, fk+i+1)
				f.parent[b.Hash()] = b.ParentHash()
				f.number[b.Hash()] = b.NumberU64()
			}
			f.side = append(f.side, sc)
		}
		// reference: the state of a node that never crashed, read from the generator's own database
		tdb := triedb.NewDatabase(gendb, triedb.HashDefaults)
		defer tdb.Close()
		for n := 0; n <= c39MaxLen; n++ {
			root := f.genesis.Root()
			if n > 0 {
				root = f.canon[n-1].Root()
			}
			st, err := state.New(root, state.NewDatabase(tdb, nil))
			if err != nil {
				panic(err)
			}
			f.expNonce = append(f.expNonce, st.GetNonce(sender))
			f.expRcpt = append(f.expRcpt, st.GetBalance(f.recipient).ToBig())
			f.expMiner = append(f.expMiner, st.GetBalance(f.canonMiner).ToBig())
		}
		c39TheForest = f
	})
	return c39TheForest
}

func (f *c39Forest) nameOf(h common.Hash) string {
	if n, ok := f.known[h]; ok {
		return n
	}
	if h == (common.Hash{}) {
		return "none"
	}
	return fmt.Sprintf("%x", h.Bytes()[:4])
}

// c39Params is one point of the grid (the replay descriptor).
type c39Params struct {
	Scheme    string `json:"scheme"`
	Snapshots bool   `json:"snapshots"`
	Len       int    `json:"len"`    // canonical blocks
	Side      int    `json:"side"`   // side chain blocks (0 = none)
	Fork      int    `json:"fork"`   // number of canonical blocks the side chain shares
	Commit    int    `json:"commit"` // last canonical block whose state is flushed (0 = none)
	Freeze    int    `json:"freeze"` // freeze threshold (0 = no freezing): blocks <= Len-Freeze are frozen
	Pivot     int    `json:"pivot"`  // snap sync pivot marker (0 = none)
	NoTrie    bool   `json:"notrie"` // path scheme: trienode history disabled (TrienodeHistory=-1, the production default); false = enabled (0)
	Hist      bool   `json:"hist"`   // an ancient directory exists (path scheme: state histories are kept, states below the disk layer are recoverable)
	PostOp    int    `json:"postop"` // operation applied after the re-open, before the re-import: -1 none, k >= 0: SetHead(k)
	Crash     string `json:"crash"`  // "abandon" or "kv@<k>" (set by the driver)
}

// ancient reports whether the history runs on a database with a real ancient directory.
func (p c39Params) ancient() bool { return p.Freeze > 0 || p.Hist }

func (p c39Params) option() *BlockChainConfig {
	o := &BlockChainConfig{
		TrieCleanLimit:   0,
		TrieDirtyLimit:   256,
		TrieTimeLimit:    5 * time.Minute,
		SnapshotLimit:    0,
		TxLookupLimit:    -1,
		StateScheme:      p.Scheme,
		NoPrefetch:       true,
		TrieNoAsyncFlush: true,
	}
	if p.NoTrie {
		o.TrienodeHistory = -1
	}
	if p.Snapshots && p.Scheme == rawdb.HashScheme {
		o.SnapshotLimit = 256
		o.SnapshotWait = true
	}
	return o
}

// statelessGenesisLegit: in the path scheme the genesis state does not survive the
// first flush. Without a state history store (no ancient directory) nothing can bring
// it back, so a rewind that has to end at genesis (no durable state at or below the
// target that may be used) legitimately leaves a stateless genesis that waits for the
// state syncer (documented in NewBlockChain / setHeadBeyondRoot). With a history store
// the state is recoverable and the ordinary oracle applies.
func (p c39Params) statelessGenesisLegit() bool {
	return p.Scheme == rawdb.PathScheme && !p.ancient() && p.Commit > 0
}

// c39NoCloseKV keeps an in-memory key-value store alive across Close.
type c39NoCloseKV struct{ ethdb.KeyValueStore }

func (c39NoCloseKV) Close() error { return nil }

// c39History is a built chain right before the crash.
type c39History struct {
	p        c39Params
	f        *c39Forest
	kv       ethdb.KeyValueStore
	rec      *crashkv.DB // non-nil in kvprefix mode
	db       ethdb.Database
	ancient  string
	chain    *BlockChain
	inserted []c39Inserted // blocks whose import completed, with the log position after completion
	// log positions (kvprefix mode): end of the genesis initialisation, around the state flush
	initEnd, commitStart, commitEnd int
}

type c39Inserted struct {
	hash common.Hash
	num  uint64
	pos  int
}

func (h *c39History) openDB() error {
	if h.p.ancient() {
		db, err := rawdb.Open(c39NoCloseKV{h.kv}, rawdb.OpenOptions{Ancient: h.ancient})
		if err != nil {
			return err
		}
		h.db = db
		return nil
	}
	h.db = rawdb.NewDatabase(c39NoCloseKV{h.kv})
	return nil
}

func (h *c39History) pos() int {
	if h.rec != nil {
		return h.rec.Len()
	}
	return 0
}

func (h *c39History) insert(blocks types.Blocks) error {
	if len(blocks) == 0 {
		return nil
	}
	if _, err := h.chain.InsertChain(blocks); err != nil {
		return fmt.Errorf("history: import of %s.. failed: %v", h.f.nameOf(blocks[0].Hash()), err)
	}
	for _, b := range blocks {
		h.inserted = append(h.inserted, c39Inserted{b.Hash(), b.NumberU64(), h.pos()})
	}
	return nil
}

// c39Build runs the history of p up to the crash: canonical blocks 1..Len in order, the
// side chain right after canonical block Fork, the state flush right after canonical
// block Commit, the freeze and the pivot marker at the end.
func c39Build(f *c39Forest, p c39Params, record bool, scratch string) (*c39History, error) {
	h := &c39History{p: p, f: f}
	if record {
		h.rec = crashkv.New(nil)
		h.kv = h.rec
	} else {
		h.kv = memorydb.New()
	}
	if p.ancient() {
		h.ancient = filepath.Join(scratch, "ancient")
	}
	if err := h.openDB(); err != nil {
		return nil, err
	}
	chain, err := NewBlockChain(h.db, f.gspec, ethash.NewFaker(), p.option())
	if err != nil {
		return nil, fmt.Errorf("history: cannot create chain: %v", err)
	}
	h.chain = chain
	h.initEnd = h.pos()
	flush := func() error {
		h.commitStart = h.pos()
		root := f.canon[p.Commit-1].Root()
		if err := chain.triedb.Commit(root, false); err != nil {
			return fmt.Errorf("history: state flush failed: %v", err)
		}
		if chain.snaps != nil {
			if err := chain.snaps.Cap(root, 0); err != nil {
				return fmt.Errorf("history: snapshot flatten failed: %v", err)
			}
		}
		h.commitEnd = h.pos()
		return nil
	}
	for n := 0; n <= p.Len; n++ {
		if n > 0 {
			if err := h.insert(types.Blocks{f.canon[n-1]}); err != nil {
				return h, err
			}
		}
		if n == p.Commit && n > 0 {
			if err := flush(); err != nil {
				return h, err
			}
		}
		if n == p.Fork && p.Side > 0 {
			if err := h.insert(f.side[p.Fork][:p.Side]); err != nil {
				return h, err
			}
		}
	}
	if p.Freeze > 0 && p.Freeze < p.Len {
		chain.SetFinalized(f.canon[p.Len-p.Freeze-1].Header())
		if err := h.db.(interface{ Freeze() error }).Freeze(); err != nil {
			return h, fmt.Errorf("history: freeze failed: %v", err)
		}
	}
	if p.Pivot > 0 {
		rawdb.WriteLastPivotNumber(h.db, uint64(p.Pivot))
	}
	return h, nil
}

// abandon drops every in-memory state of the running chain (the crash).
func (h *c39History) abandon() {
	h.chain.stopWithoutSaving()
	h.chain.triedb.Close()
	if h.chain.snaps != nil {
		h.chain.snaps.Release()
	}
	h.chain = nil
	h.db.Close() // the key-value store itself survives (no-op Close), the freezer files are closed
}

// c39Recovered is a chain re-opened after the crash.
type c39Recovered struct {
	danglingSnapMarker bool
	awaiting           bool

	f     *c39Forest
	p     c39Params
	db    ethdb.Database
	chain *BlockChain
}

func (rc *c39Recovered) close() {
	if rc.chain != nil {
		rc.chain.Stop()
		rc.chain = nil
	}
	if rc.db != nil {
		rc.db.Close()
	}
}

// invariants checks the generic consistency conditions of a running chain.
func (rc *c39Recovered) invariants(stage string) error {
	f, bc, db := rc.f, rc.chain, rc.db
	fail := func(format string, args ...any) error {
		return fmt.Errorf("%s: %s", stage, fmt.Sprintf(format, args...))
	}
	cur, hdr, snap := bc.CurrentBlock(), bc.CurrentHeader(), bc.CurrentSnapBlock()
	if !(hdr.Number.Uint64() >= snap.Number.Uint64() && snap.Number.Uint64() >= cur.Number.Uint64()) {
		return fail("head order violated: header #%d, snap block #%d, block #%d", hdr.Number, snap.Number, cur.Number)
	}
	if rawdb.ReadHeadBlockHash(db) != cur.Hash() || rawdb.ReadHeadHeaderHash(db) != hdr.Hash() {
		return fail("stored head markers (block %s, header %s) differ from the in-memory heads (%s, %s)",
			f.nameOf(rawdb.ReadHeadBlockHash(db)), f.nameOf(rawdb.ReadHeadHeaderHash(db)), f.nameOf(cur.Hash()), f.nameOf(hdr.Hash()))
	}
	// The stored snap-head marker may be left pointing to a block that the repair deleted
	// (the loader then falls back to the head block); it must never name a stored block
	// other than the in-memory snap head.
	if m := rawdb.ReadHeadFastBlockHash(db); m != snap.Hash() {
		if bc.GetBlockByHash(m) != nil {
			return fail("stored snap head marker %s is a stored block but the in-memory snap head is %s", f.nameOf(m), f.nameOf(snap.Hash()))
		}
		rc.danglingSnapMarker = true
	}
	if !bc.HasState(cur.Root) {
		return fail("state of the head block #%d %s is not available", cur.Number, f.nameOf(cur.Hash()))
	}
	st, err := bc.StateAt(cur)
	if err != nil {
		return fail("state of the head block cannot be opened: %v", err)
	}
	// the head state is the state of that block: the sender's nonce counts the blocks
	if got := st.GetNonce(f.sender); got != cur.Number.Uint64() {
		return fail("head state of block #%d has sender nonce %d", cur.Number, got)
	}
	// canonical index: parent linked from genesis to the head header, complete blocks
	var prev common.Hash
	top := hdr.Number.Uint64()
	for n := uint64(0); n <= top; n++ {
		h := rawdb.ReadCanonicalHash(db, n)
		if h == (common.Hash{}) {
			return &c39GapErr{msg: fmt.Sprintf("%s: no canonical hash at #%d although the head header is #%d %s (head block #%d %s)", stage, n, top, f.nameOf(hdr.Hash()), cur.Number, f.nameOf(cur.Hash()))}
		}
		if _, ok := f.known[h]; !ok {
			return fail("canonical hash at #%d is not a block of this history", n)
		}
		header := bc.GetHeaderByNumber(n)
		if header == nil || header.Hash() != h {
			return fail("header of canonical block #%d %s is missing", n, f.nameOf(h))
		}
		if n > 0 && header.ParentHash != prev {
			return fail("canonical block #%d %s is not the child of canonical block #%d %s", n, f.nameOf(h), n-1, f.nameOf(prev))
		}
		if n > 0 {
			if b := bc.GetBlockByNumber(n); b == nil || b.Hash() != h || len(b.Transactions()) != 1 {
				return fail("body of canonical block #%d %s is missing", n, f.nameOf(h))
			}
		}
		if n > 0 && n <= cur.Number.Uint64() {
			if rs := bc.GetReceiptsByHash(h); len(rs) != 1 {
				return fail("receipts of canonical block #%d %s (at or below the head block #%d) are missing", n, f.nameOf(h), cur.Number)
			}
		}
		prev = h
	}
	if prev != hdr.Hash() {
		return fail("canonical hash at the head header height #%d is %s, not the head header %s", top, f.nameOf(prev), f.nameOf(hdr.Hash()))
	}
	if rawdb.ReadCanonicalHash(db, cur.Number.Uint64()) != cur.Hash() {
		return fail("head block #%d %s is not canonical", cur.Number, f.nameOf(cur.Hash()))
	}
	if rawdb.ReadCanonicalHash(db, snap.Number.Uint64()) != snap.Hash() {
		return fail("snap head block #%d %s is not canonical", snap.Number, f.nameOf(snap.Hash()))
	}
	// nothing canonical above the head header, except a stored parent-linked continuation
	for n := top + 1; n <= c39MaxLen+c39MaxSide+1; n++ {
		h := rawdb.ReadCanonicalHash(db, n)
		if h == (common.Hash{}) {
			continue
		}
		header := rawdb.ReadHeader(db, h, n)
		if header == nil || header.ParentHash != prev {
			return &c39StaleErr{msg: fmt.Sprintf("%s: canonical hash at #%d (%s) above the head header #%d (%s) is not a stored descendant of it", stage, n, f.nameOf(h), top, f.nameOf(hdr.Hash()))}
		}
		prev = h
	}
	// freezer boundary: everything frozen is below the head header and readable (checked above through the accessors)
	if frozen, err := db.Ancients(); err == nil && frozen > 0 {
		if frozen > top+1 {
			return fail("%d frozen items but the head header is #%d", frozen, top)
		}
		if frozen > cur.Number.Uint64()+1 && cur.Number.Uint64() > 0 {
			return fail("%d frozen items but the head block is #%d", frozen, cur.Number)
		}
	}
	// finalized marker
	if fin := bc.CurrentFinalBlock(); fin != nil {
		if rawdb.ReadCanonicalHash(db, fin.Number.Uint64()) != fin.Hash() {
			return fail("finalized block #%d is not canonical", fin.Number)
		}
	}
	// no dangling data: a stored body or receipt list has its header, a stored header has a stored parent
	for h, ph := range f.parent {
		if n := f.number[h]; !rawdb.HasHeader(db, h, n) && (rawdb.HasBody(db, h, n) || rawdb.HasReceipts(db, h, n)) {
			return fail("body/receipts of block %s are stored without its header", f.nameOf(h))
		}
		num, ok := rawdb.ReadHeaderNumber(db, h)
		if !ok || rawdb.ReadHeader(db, h, num) == nil {
			continue
		}
		if num > 0 && rawdb.ReadHeader(db, ph, num-1) == nil {
			return fail("block %s is stored but its parent %s is not", f.nameOf(h), f.nameOf(ph))
		}
	}
	return nil
}

// c39StaleErr: a canonical entry above the head header that does not continue its chain.
type c39StaleErr struct{ msg string }

func (e *c39StaleErr) Error() string { return e.msg }

// c39GapErr: the canonical index has a hole at or below the head header.
type c39GapErr struct{ msg string }

func (e *c39GapErr) Error() string { return e.msg }

// c39Recover re-opens the chain on db and checks the post-crash conditions.
//
//	wantHead: admissible head blocks (canonical numbers) after recovery
//	present:  blocks that must still be stored
//	gapFinding: when non-nil, a hole in the canonical index right after re-open is handed to it
//	          (classified finding) instead of failing the case; the re-import must then heal it
//	forkFinding: when non-nil and the recovered head header is not on the canonical chain that is
//	          re-imported (the node crashed while it was on a fork), canonical entries of that fork
//	          left above the new head after the re-import are handed to it (classified finding)
func c39Recover(f *c39Forest, p c39Params, db ethdb.Database, wantHead []int, present []c39Inserted, gapFinding, forkFinding func(desc string)) (rc *c39Recovered, err error) {
	rc = &c39Recovered{f: f, p: p, db: db}
	chain, e := NewBlockChain(db, f.gspec, ethash.NewFaker(), p.option())
	if e != nil {
		return rc, fmt.Errorf("re-open failed: %v", e)
	}
	rc.chain = chain
	// checkHead: the head block must be one of want; a stateless genesis is accepted
	// (and ends the case: nothing can be executed) only where it is legitimate.
	checkHead := func(stage string, want []int) (stop bool, err error) {
		cur := chain.CurrentBlock()
		if slices.Contains(want, 0) && p.statelessGenesisLegit() && cur.Hash() == f.genesis.Hash() && !chain.HasState(cur.Root) {
			rc.awaiting = true
			return true, nil
		}
		if err := rc.invariants(stage); err != nil {
			var gap *c39GapErr
			if gapFinding == nil || !errors.As(err, &gap) {
				return false, err
			}
			gapFinding(err.Error())
		}
		for _, w := range want {
			h := f.genesis.Hash()
			if w > 0 {
				h = f.canon[w-1].Hash()
			}
			if cur.Hash() == h {
				return false, nil
			}
		}
		return false, fmt.Errorf("%s: head block is #%d %s, the usable durable state belongs to canonical block %v", stage, cur.Number, f.nameOf(cur.Hash()), want)
	}
	if stop, err := checkHead("after re-open", wantHead); stop || err != nil {
		return rc, err
	}
	// post-recovery operation: SetHead(k)
	if p.PostOp >= 0 {
		before := int(chain.CurrentBlock().Number.Uint64())
		if e := chain.SetHead(uint64(p.PostOp)); e != nil {
			return rc, fmt.Errorf("SetHead(%d) after re-open failed: %v", p.PostOp, e)
		}
		// Reference: the head block becomes the highest canonical block <= k whose state can
		// be used: k itself when it is the flushed block or (path scheme with state histories)
		// any block below the disk layer; otherwise genesis.
		want := 0
		switch {
		case p.PostOp >= before:
			want = before
		case p.Scheme == rawdb.PathScheme && p.ancient():
			want = p.PostOp
		}
		if stop, err := checkHead(fmt.Sprintf("after SetHead(%d)", p.PostOp), []int{want}); stop || err != nil {
			return rc, err
		}
		if hn := int(chain.CurrentHeader().Number.Uint64()); hn > p.PostOp && hn > want {
			return rc, fmt.Errorf("after SetHead(%d): head header is still #%d", p.PostOp, hn)
		}
	}
	cur := chain.CurrentBlock()
	for _, b := range present {
		if rawdb.ReadHeader(db, b.hash, b.num) == nil || rawdb.ReadBody(db, b.hash, b.num) == nil {
			return rc, fmt.Errorf("after re-open: block %s whose import had completed before the crash is gone", f.nameOf(b.hash))
		}
	}
	recoveredOnFork := true
	for n := 0; n <= p.Len; n++ {
		want := f.genesis.Hash()
		if n > 0 {
			want = f.canon[n-1].Hash()
		}
		if chain.CurrentHeader().Hash() == want {
			recoveredOnFork = false
		}
	}
	// re-import the remaining canonical blocks (everything above the recovered head block):
	// must reach the head and state of a node that never crashed
	if int(cur.Number.Uint64()) < p.Len {
		if _, e := chain.InsertChain(f.canon[cur.Number.Uint64():p.Len]); e != nil {
			return rc, fmt.Errorf("re-import of blocks #%d..#%d failed: %v", cur.Number.Uint64()+1, p.Len, e)
		}
	}
	if err := rc.invariants("after re-import"); err != nil {
		var stale *c39StaleErr
		if forkFinding == nil || !recoveredOnFork || !errors.As(err, &stale) {
			return rc, err
		}
		forkFinding(err.Error())
	}
	want := f.canon[p.Len-1]
	cur = chain.CurrentBlock()
	if cur.Hash() != want.Hash() || chain.CurrentHeader().Hash() != want.Hash() {
		return rc, fmt.Errorf("after re-import: head block %s / head header %s, a node that never crashed is at %s", f.nameOf(cur.Hash()), f.nameOf(chain.CurrentHeader().Hash()), f.nameOf(want.Hash()))
	}
	st, e := chain.StateAt(cur)
	if e != nil {
		return rc, fmt.Errorf("after re-import: head state unavailable: %v", e)
	}
	if st.GetNonce(f.sender) != f.expNonce[p.Len] || st.GetBalance(f.recipient).ToBig().Cmp(f.expRcpt[p.Len]) != 0 || st.GetBalance(f.canonMiner).ToBig().Cmp(f.expMiner[p.Len]) != 0 {
		return rc, fmt.Errorf("after re-import: head state differs from the state of a node that never crashed (nonce %d/%d, recipient %v/%v, miner %v/%v)",
			st.GetNonce(f.sender), f.expNonce[p.Len], st.GetBalance(f.recipient), f.expRcpt[p.Len], st.GetBalance(f.canonMiner), f.expMiner[p.Len])
	}
	for n := 1; n <= p.Len; n++ {
		if h := rawdb.ReadCanonicalHash(db, uint64(n)); h != f.canon[n-1].Hash() {
			return rc, fmt.Errorf("after re-import: canonical hash at #%d is %s", n, f.nameOf(h))
		}
	}
	if chain.snaps != nil {
		if e := chain.snaps.Verify(cur.Root); e != nil {
			return rc, fmt.Errorf("after re-import: snapshot of the head state does not match the trie: %v", e)
		}
	}
	return rc, nil
}

// c39WantHead is the reference for the head block after an "abandon" crash: the
// block of the flushed state, or genesis when there is none or it lies below the pivot.
func c39WantHead(p c39Params) int {
	if p.Pivot > 0 && p.Commit < p.Pivot {
		return 0
	}
	return p.Commit
}

func c39Grid(r *mc.R) (abandon, kvprefix []c39Params) {
	maxLen := mc.Pick(r, 4, 6)
	sides := mc.Pick(r, []int{0, 2}, []int{0, 1, 2, 4})
	freezes := mc.Pick(r, []int{0, 2}, []int{0, 2, 4})
	kvMaxLen := mc.Pick(r, 3, 5)
	kvSides := mc.Pick(r, []int{2}, []int{1, 2}) // side chain lengths used in the kv-prefix histories
	r.Bound("kvprefix_side_lengths", kvSides)
	r.Bound("max_canonical_len", maxLen)
	r.Bound("side_lengths", sides)
	r.Bound("freeze_thresholds", freezes)
	r.Bound("kvprefix_max_canonical_len", kvMaxLen)
	// pivot candidates: the middle (covers pivots at or below the flushed block), just above
	// the flushed block, the tip; thorough also two above the flushed block
	pivotCands := func(l, c int) []int {
		if r.Quick() {
			if l > 3 {
				return []int{(l + 1) / 2} // quick: the pivots above the flushed block only for lengths <= 3
			}
			return []int{(l + 1) / 2, c + 1, l}
		}
		return []int{(l + 1) / 2, c + 1, c + 2, l}
	}
	kvSideMaxLen := mc.Pick(r, 2, 5) // kv-prefix histories with a side chain only up to this length
	kvSnapMaxLen := mc.Pick(r, 2, 5) // kv-prefix histories with snapshots only up to this length
	postMaxLen := mc.Pick(r, 3, 4)   // post-recovery SetHead(k) dimension only for canonical lengths up to this
	r.Bound("postop_max_canonical_len", postMaxLen)
	type sc struct {
		scheme string
		snaps  bool
		hist   bool
		notrie bool
	}
	// path scheme twice: without ancient directory (no state histories: states below the
	// disk layer are gone for good) and with it (they are recoverable)
	schemes := []sc{{rawdb.HashScheme, false, false, false}, {rawdb.HashScheme, true, false, false}, {rawdb.PathScheme, false, false, false},
		{rawdb.PathScheme, false, true, false}, {rawdb.PathScheme, false, true, true}} // the ancient-directory configuration with trienode history enabled and disabled
	for _, s := range schemes {
		for l := 1; l <= maxLen; l++ {
			for _, side := range sides {
				if r.Quick() && ((s.hist && side > 0) || (s.snaps && l > 3)) {
					continue // quick: extra path configuration without side chains, snapshots up to length 3
				}
				forks := []int{0}
				if side > 0 {
					forks = forks[:0]
					for fk := 0; fk < l; fk++ {
						forks = append(forks, fk)
					}
				}
				for _, fk := range forks {
					for c := 0; c <= l; c++ {
						for _, fr := range freezes {
							if fr > 0 && fr >= l {
								continue // nothing would be frozen: same as freeze off
							}
							if s.hist && (fr > 0 || l > postMaxLen) {
								continue // freezing implies the ancient directory (covered by the hist=false entry); the extra path configuration is bounded like the post-recovery dimension
							}
							// pivot markers: none, the middle, and just above / well above the flushed block
							pivots := []int{0}
							for _, pv := range pivotCands(l, c) {
								if pv >= 1 && pv <= l && !slices.Contains(pivots, pv) && l >= 2 {
									pivots = append(pivots, pv)
								}
							}
							for _, pv := range pivots {
								if r.Quick() && fr > 0 && pv != 0 && pv != (l+1)/2 {
									continue // quick: the freezer is crossed with the pivots {none, middle} only
								}
								base := c39Params{Scheme: s.scheme, Snapshots: s.snaps, Hist: s.hist, NoTrie: s.notrie, Len: l, Side: side, Fork: fk, Commit: c, Freeze: fr, Pivot: pv, PostOp: -1, Crash: "abandon"}
								abandon = append(abandon, base)
								// post-recovery SetHead(k) for every k up to the recovered head block
								if pv == 0 && l <= postMaxLen && !(r.Quick() && fr > 0) {
									for k := 0; k <= c; k++ {
										if r.Quick() && k == c && c > 0 {
											continue // quick: SetHead(recovered head) changes nothing, thorough keeps it
										}
										q := base
										q.PostOp = k
										abandon = append(abandon, q)
									}
								}
							}
						}
						if l <= kvMaxLen && !s.hist && (!s.snaps || l <= kvSnapMaxLen) && (side == 0 || (slices.Contains(kvSides, side) && l <= kvSideMaxLen)) {
							kvprefix = append(kvprefix, c39Params{Scheme: s.scheme, Snapshots: s.snaps, Len: l, Side: side, Fork: fk, Commit: c, PostOp: -1})
						}
					}
				}
			}
		}
	}
	return
}

// c39DeletesCanonical reports whether a write-log entry deletes a number->hash entry of
// the canonical index (key = 'h' + 8 byte number + 'n').
func c39DeletesCanonical(e crashkv.Entry) bool {
	for _, op := range e.Ops {
		if op.Kind == crashkv.OpDelete && len(op.Key) == 10 && op.Key[0] == 'h' && op.Key[9] == 'n' {
			return true
		}
	}
	return false
}

func c39Scratch() string {
	base := os.Getenv("VERIF_SCRATCH")
	if base == "" {
		base = os.TempDir()
	}
	return base
}

var c39DirSeq atomic.Int64

// c39RunAbandon runs the "abandon" crash model over the given grid points.
func c39RunAbandon(r *mc.R, f *c39Forest, abandon []c39Params, scratch string) {
	r.Parallel(len(abandon), func(i int) {
		p := abandon[i]
		r.Case(p, func() error {
			dir := ""
			if p.ancient() {
				dir = filepath.Join(scratch, fmt.Sprintf("c39-%d", c39DirSeq.Add(1)))
				defer os.RemoveAll(dir)
			}
			h, err := c39Build(f, p, false, dir)
			if err != nil {
				if h != nil && h.chain != nil {
					h.abandon()
				}
				return err
			}
			var present []c39Inserted
			if p.Freeze == 0 && p.PostOp < 0 {
				present = h.inserted
			}
			h.abandon()
			if err := h.openDB(); err != nil {
				return fmt.Errorf("cannot re-open database: %v", err)
			}
			rc, err := c39Recover(f, p, h.db, []int{c39WantHead(p)}, present, nil, nil)
			rc.close()
			if err != nil {
				return err
			}
			if p.PostOp >= 0 {
				r.Outcome("abandon/with-post-recovery-SetHead")
			}
			switch {
			case rc.awaiting:
				r.Outcome("abandon/stateless-genesis-awaits-state-sync")
			case c39WantHead(p) == 0:
				r.Outcome("abandon/head=genesis")
			case c39WantHead(p) == p.Len:
				r.Outcome("abandon/head=tip")
			default:
				r.Outcome("abandon/head=flushed-block")
			}
			if rc.danglingSnapMarker {
				r.Outcome("abandon/stored-snap-marker-dangling")
			}
			return nil
		})
		r.Distinct(fmt.Sprintf("%+v", p))
		if i%97 == 0 {
			r.Sample(p)
		}
	})

}

func TestVerif_C39(t *testing.T) {
	mc.Run(t, "C39", func(r *mc.R) {
		f := c39GetForest()
		abandon, kvprefix := c39Grid(r)
		r.Rule("grid of histories {scheme hash|hash+snapshots|path without ancient dir|path with ancient dir (state histories)} x canonical length x side chain (length, fork height: every height) x flushed-state block (0..len) x freeze threshold x pivot marker {none, middle, flushed+1, flushed+2, len} x post-recovery operation {none, SetHead(k) for k=0..recovered head}; " +
			"crash model 'abandon' = drop all memory after the history (stopWithoutSaving), one case per grid point; crash model 'kv@k' = re-open on every prefix k of the key-value write log of the whole history (each write / atomic batch is a crash point), one case per (history, k); " +
			"distinct = distinct (parameters, crash point)")
		r.Assume("oracle = generic invariants: re-open succeeds; head state available and is the state of the head block; header head >= snap head >= block head, all canonical; canonical index parent-linked from genesis to the head header with complete blocks and receipts up to the head block; " +
			"head block = block of the last durable state flush; blocks imported before the crash are still stored (no freezer); no block without parent; frozen items below the heads; re-import of the canonical chain reaches the hash, index and state (read back, compared with the generator's own state) of a node that never crashed; snapshot verified against the trie")
		r.Assume("key-value crash semantics: write order preserved, batches atomic, any suffix may be lost (no fsync inside the explored window); kv-prefix crashes are enumerated without freezer (freezer files are left as written in the abandon model)")
		r.Bound("abandon_cases", len(abandon))
		r.Bound("kvprefix_histories", len(kvprefix))
		scratch := c39Scratch()

		// --- key-value prefix model
		r.Parallel(len(kvprefix), func(i int) {
			p := kvprefix[i]
			h, err := c39Build(f, p, true, "")
			if err != nil {
				r.Violation(fmt.Sprintf("history:%+v", p), err.Error(), p)
				if h != nil && h.chain != nil {
					h.abandon()
				}
				return
			}
			total := h.rec.Len()
			entries := h.rec.Entries()
			inserted := h.inserted
			cs, ce := h.commitStart, h.commitEnd
			first := h.initEnd // crash points inside the initial genesis set-up are not part of the chain history
			h.abandon()
			for k := first; k <= total; k++ {
				if r.Expired() {
					return
				}
				pk := p
				pk.Crash = fmt.Sprintf("kv@%d", k)
				r.Case(pk, func() error {
					img := h.rec.Image(k)
					db := rawdb.NewDatabase(img)
					var want []int
					switch {
					case p.Commit == 0 || k <= cs:
						want = []int{0}
					case k >= ce:
						want = []int{p.Commit}
					default: // inside the flush: the path scheme flushes layer by layer, every layer is a durable state
						for c := 0; c <= p.Commit; c++ {
							want = append(want, c)
						}
					}
					var present []c39Inserted
					for _, b := range inserted {
						if b.pos <= k {
							present = append(present, b)
						}
					}
					// A crash right after a write that deletes canonical-index entries (the index
					// clean-up batch of reorg, which is written before the batch that installs the
					// new head) is classified separately, see the report.
					var gapFinding func(string)
					if k > 0 && c39DeletesCanonical(entries[k-1]) {
						gapFinding = func(desc string) {
							r.Violation("C39:crash-between-reorg-index-cleanup-and-new-head", fmt.Sprintf("%s (history %+v)", desc, pk), pk)
							r.Outcome("kvprefix/canonical-hole-after-crash-in-reorg")
						}
					}
					forkFinding := func(desc string) {
						r.Violation("C39:fork-import-after-recovery-stale-canonical-index", fmt.Sprintf("%s (history %+v)", desc, pk), pk)
						r.Outcome("kvprefix/stale-canonical-entries-of-the-crashed-fork")
					}
					rc, err := c39Recover(f, pk, db, want, present, gapFinding, forkFinding)
					rc.close()
					return err
				})
				r.Distinct(fmt.Sprintf("%+v", pk))
			}
			r.OutcomeN("kvprefix/crash-points", int64(total-first+1))
			if i%17 == 0 {
				r.Sample(p)
			}
		})
		// --- abandon model
		c39RunAbandon(r, f, abandon, scratch)

	})
}

// TestVerif_C39_flatten is the scaled companion of TestVerif_C39: it is run with
// triedb/pathdb maxDiffLayers re-valued to 2 (check step "flatten", instrumented
// config.go), so that with the short chains of the grid the layer tree flattens diff
// layers into the (unflushed) disk-layer buffer during the history - which writes state
// histories AHEAD of the persisted state id - and again during the re-import after the
// crash. Path scheme with ancient directory only, trienode history enabled and disabled.
func TestVerif_C39_flatten(t *testing.T) {
	mc.Run(t, "C39", func(r *mc.R) {
		f := c39GetForest()
		scratch := c39Scratch()
		maxLen := mc.Pick(r, 5, 7)
		r.Rule("scaled run (pathdb maxDiffLayers=2): grid {path scheme with ancient directory} x trienode history {enabled, disabled} x canonical length 1..max x flushed-state block 0..len x freeze threshold {off,2} x post-recovery operation {none, SetHead(k), k=0..recovered head}; crash = drop all memory after the history; the re-import runs from the recovered head block to the original head, i.e. past the flatten depth")
		r.Assume("maxDiffLayers is re-valued to 2 by source instrumentation (unscaled run: TestVerif_C39); the test first witnesses that the scaling is effective (state histories exist although nothing was flushed); no side chains in the scaled run; oracle as in TestVerif_C39")
		r.Bound("flatten.max_canonical_len", maxLen)

		// self-check: import 4 blocks without any flush, close; with maxDiffLayers=2 the bottom
		// layers were flattened and their state histories written
		{
			dir := filepath.Join(scratch, fmt.Sprintf("c39-%d", c39DirSeq.Add(1)))
			p := c39Params{Scheme: rawdb.PathScheme, Hist: true, Len: 4, PostOp: -1}
			h, err := c39Build(f, p, false, dir)
			if err != nil {
				r.HarnessError("c39 flatten self-check: " + err.Error())
				return
			}
			h.abandon()
			sf, err := rawdb.NewStateFreezer(filepath.Join(dir, "ancient"), false, true)
			if err != nil {
				r.HarnessError("c39 flatten self-check: cannot open the state freezer: " + err.Error())
				return
			}
			n, _ := sf.Ancients()
			sf.Close()
			os.RemoveAll(dir)
			if n == 0 {
				r.HarnessError("c39 flatten: maxDiffLayers is not scaled (no state history after 4 unflushed blocks); run through the 'flatten' step of checks/C39.json")
				return
			}
			r.Bound("flatten.state_histories_after_4_unflushed_blocks", n)
		}
		var grid []c39Params
		for _, notrie := range []bool{false, true} {
			for l := 1; l <= maxLen; l++ {
				for c := 0; c <= l; c++ {
					for _, fr := range []int{0, 2} {
						if fr > 0 && fr >= l {
							continue
						}
						base := c39Params{Scheme: rawdb.PathScheme, Hist: fr == 0, NoTrie: notrie, Len: l, Commit: c, Freeze: fr, PostOp: -1, Crash: "abandon"}
						grid = append(grid, base)
						for k := 0; k <= c; k++ {
							q := base
							q.PostOp = k
							grid = append(grid, q)
						}
					}
				}
			}
		}
		r.Bound("flatten.abandon_cases", len(grid))
		c39RunAbandon(r, f, grid, scratch)
	})
}
