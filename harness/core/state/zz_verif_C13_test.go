//go:build verif

package state

// C13 — "Account state behaves like the reference account model".
//
// Explicit-state exploration (mc.Explore) of operation sequences on a real
// *StateDB over an in-memory trie database, in lock step with a deliberately
// boring reference model of Ethereum accounts (plain Go maps, copy-on-snapshot,
// no journal, no caches). After every operation every public getter is compared
// with the model (on a Copy() of the StateDB so that the observation does not
// warm the caches of the object under test; the op "ReadAll" performs the same
// sweep on the live object to also cover the all-warm paths), and at every
// IntermediateRoot the returned root is compared with a root computed from the
// model's accounts and storage through an ordered StackTrie builder.

import (
	"bytes"
	"crypto/sha256"
	"encoding/hex"
	"fmt"
	"math/big"
	"sort"
	"strings"
	"sync/atomic"
	"testing"

	"github.com/ethereum/go-ethereum/common"
	"github.com/ethereum/go-ethereum/core/tracing"
	"github.com/ethereum/go-ethereum/core/types"
	"github.com/ethereum/go-ethereum/core/types/bal"
	"github.com/ethereum/go-ethereum/crypto"
	"github.com/ethereum/go-ethereum/internal/verif/mc"
	"github.com/ethereum/go-ethereum/params"
	"github.com/ethereum/go-ethereum/rlp"
	"github.com/ethereum/go-ethereum/trie"
	"github.com/holiman/uint256"
)

// ---------------------------------------------------------------------------
// The small universe.

const (
	c13A = 0 // ordinary address
	c13B = 1 // ordinary address
	c13R = 2 // RIPEMD-160 precompile 0x03 (historic touch/revert exception)
)

var (
	c13Addrs = [3]common.Address{
		common.HexToAddress("0x00000000000000000000000000000000000a0a0a"),
		common.HexToAddress("0x00000000000000000000000000000000000b0b0b"),
		common.HexToAddress("0x0000000000000000000000000000000000000003"),
	}
	c13AddrNames = [3]string{"A", "B", "R"}
	// slot keys of different byte widths, the numerically larger one with the smaller leading byte
	c13Slots = [2]common.Hash{common.HexToHash("0x0100"), common.HexToHash("0x02")}
	c13Codes = [3][]byte{nil, {0x60, 0x00}, {0x60, 0x01, 0x00}}
)

func c13Val(v uint8) common.Hash { return common.BigToHash(big.NewInt(int64(v))) }

func c13TxHash(i int) common.Hash { return common.Hash{0xee, byte(i + 1)} }

// rule sets: what Finalise / IntermediateRoot / Prepare are called with, and the
// caller-side contract that the EVM guarantees under those rules.
type c13Rules struct {
	name      string
	rules     params.Rules
	eip158    bool // touched empty accounts are removed at the end of the transaction
	eip2929   bool // Prepare resets the access list to {sender, coinbase}
	amsterdam bool // self-destructed accounts keep their balance (balance-only account)
	sd6780    bool // caller contract: SelfDestruct only on contracts created in the same tx
}

var c13RuleSets = []c13Rules{
	{name: "pre158", rules: params.Rules{IsHomestead: true, IsEIP150: true, IsEIP155: true}},
	{name: "berlin", eip158: true, eip2929: true, rules: params.Rules{IsHomestead: true, IsEIP150: true, IsEIP155: true, IsEIP158: true,
		IsByzantium: true, IsConstantinople: true, IsPetersburg: true, IsIstanbul: true, IsBerlin: true, IsEIP2929: true, IsLondon: true,
		IsMerge: true, IsShanghai: true}},
	{name: "amsterdam", eip158: true, eip2929: true, amsterdam: true, sd6780: true, rules: params.Rules{IsHomestead: true, IsEIP150: true, IsEIP155: true, IsEIP158: true,
		IsByzantium: true, IsConstantinople: true, IsPetersburg: true, IsIstanbul: true, IsBerlin: true, IsEIP2929: true, IsLondon: true,
		IsMerge: true, IsShanghai: true, IsCancun: true, IsPrague: true, IsOsaka: true, IsAmsterdam: true}},
}

// ---------------------------------------------------------------------------
// Reference model.

type c13Acct struct {
	nonce          uint64
	bal            uint64
	code           int      // index into c13Codes
	stor           [2]uint8 // current value of slot s0, s1
	orig           [2]uint8 // value at the start of the current transaction
	selfDestructed bool
	newContract    bool
}

func (a *c13Acct) empty() bool { return a.nonce == 0 && a.bal == 0 && a.code == 0 }

type c13Log struct{ tx, index int }

// c13Frame is everything a revert restores.
type c13Frame struct {
	accts     map[int]*c13Acct
	touched   map[int]bool
	transient map[[2]int]uint8
	alAddr    map[int]bool
	alSlot    map[[2]int]bool
	refund    uint64
	logs      []c13Log
}

func (f *c13Frame) copy() *c13Frame {
	n := &c13Frame{
		accts:     make(map[int]*c13Acct, len(f.accts)),
		touched:   make(map[int]bool, len(f.touched)),
		transient: make(map[[2]int]uint8, len(f.transient)),
		alAddr:    make(map[int]bool, len(f.alAddr)),
		alSlot:    make(map[[2]int]bool, len(f.alSlot)),
		refund:    f.refund,
		logs:      append([]c13Log(nil), f.logs...),
	}
	for k, v := range f.accts {
		c := *v
		n.accts[k] = &c
	}
	for k, v := range f.touched {
		n.touched[k] = v
	}
	for k, v := range f.transient {
		n.transient[k] = v
	}
	for k, v := range f.alAddr {
		n.alAddr[k] = v
	}
	for k, v := range f.alSlot {
		n.alSlot[k] = v
	}
	return n
}

type c13Snap struct {
	id int
	f  *c13Frame
}

type c13Model struct {
	ru     *c13Rules
	f      *c13Frame
	snaps  []c13Snap
	nextID int
	tx     int
	sticky bool // RIPEMD touched in this transaction (survives reverts)
}

func c13NewModel(ru *c13Rules, base map[int]c13Acct) *c13Model {
	m := &c13Model{ru: ru, f: &c13Frame{accts: map[int]*c13Acct{}, touched: map[int]bool{}, transient: map[[2]int]uint8{},
		alAddr: map[int]bool{}, alSlot: map[[2]int]bool{}}}
	for k, v := range base {
		c := v
		c.orig = c.stor
		m.f.accts[k] = &c
	}
	return m
}

func (m *c13Model) getOrNew(a int) *c13Acct {
	if acc := m.f.accts[a]; acc != nil {
		return acc
	}
	acc := &c13Acct{}
	m.f.accts[a] = acc
	m.f.touched[a] = true
	return acc
}

// prepare = start of a transaction (StateDB.Prepare).
func (m *c13Model) prepare() {
	if m.ru.eip2929 {
		m.f.alAddr = map[int]bool{c13B: true} // sender = coinbase = B
		m.f.alSlot = map[[2]int]bool{}
	}
	m.f.transient = map[[2]int]uint8{}
}

// finalise = end of a transaction.
func (m *c13Model) finalise() (deleted int) {
	dirty := []int{}
	for a := range m.f.touched {
		dirty = append(dirty, a)
	}
	if m.sticky && !m.f.touched[c13R] {
		dirty = append(dirty, c13R)
	}
	for _, a := range dirty {
		acc := m.f.accts[a]
		if acc == nil {
			continue
		}
		switch {
		case acc.selfDestructed && m.ru.amsterdam && acc.bal != 0:
			m.f.accts[a] = &c13Acct{bal: acc.bal}
		case acc.selfDestructed:
			delete(m.f.accts, a)
			deleted++
		case m.ru.eip158 && acc.empty():
			delete(m.f.accts, a)
			deleted++
		}
	}
	for _, acc := range m.f.accts {
		acc.orig = acc.stor
		acc.newContract = false
	}
	m.f.touched = map[int]bool{}
	m.f.refund = 0
	m.sticky = false
	m.snaps = nil
	m.nextID = 0
	return deleted
}

type c13RLPAccount struct {
	Nonce    uint64
	Balance  *big.Int
	Root     []byte
	CodeHash []byte
}

// root computes the state root of the model's accounts with an ordered trie builder.
func (m *c13Model) root() common.Hash {
	type kv struct{ k, v []byte }
	var leaves []kv
	for a, acc := range m.f.accts {
		var sl []kv
		for i, v := range acc.stor {
			if v != 0 {
				enc, _ := rlp.EncodeToBytes([]byte{v})
				sl = append(sl, kv{crypto.Keccak256(c13Slots[i][:]), enc})
			}
		}
		sort.Slice(sl, func(i, j int) bool { return bytes.Compare(sl[i].k, sl[j].k) < 0 })
		st := trie.NewStackTrie(nil)
		for _, e := range sl {
			st.Update(e.k, e.v)
		}
		enc, _ := rlp.EncodeToBytes(&c13RLPAccount{Nonce: acc.nonce, Balance: new(big.Int).SetUint64(acc.bal),
			Root: st.Hash().Bytes(), CodeHash: crypto.Keccak256(c13Codes[acc.code])})
		leaves = append(leaves, kv{crypto.Keccak256(c13Addrs[a][:]), enc})
	}
	sort.Slice(leaves, func(i, j int) bool { return bytes.Compare(leaves[i].k, leaves[j].k) < 0 })
	st := trie.NewStackTrie(nil)
	for _, e := range leaves {
		st.Update(e.k, e.v)
	}
	return st.Hash()
}

func (f *c13Frame) canon(b *strings.Builder) {
	for a := 0; a < 3; a++ {
		if acc := f.accts[a]; acc != nil {
			fmt.Fprintf(b, "%d:%d,%d,%d,%v,%v,%v,%v;", a, acc.nonce, acc.bal, acc.code, acc.stor, acc.orig, acc.selfDestructed, acc.newContract)
		}
		if f.touched[a] {
			fmt.Fprintf(b, "t%d;", a)
		}
		if f.alAddr[a] {
			fmt.Fprintf(b, "al%d;", a)
		}
		for s := 0; s < 2; s++ {
			if v := f.transient[[2]int{a, s}]; v != 0 {
				fmt.Fprintf(b, "ts%d.%d=%d;", a, s, v)
			}
			if f.alSlot[[2]int{a, s}] {
				fmt.Fprintf(b, "as%d.%d;", a, s)
			}
		}
	}
	fmt.Fprintf(b, "r%d;l%v", f.refund, f.logs)
}

func (m *c13Model) canon() string {
	var b strings.Builder
	fmt.Fprintf(&b, "tx%d,n%d,k%v|", m.tx, m.nextID, m.sticky)
	m.f.canon(&b)
	for _, s := range m.snaps {
		fmt.Fprintf(&b, "|S%d:", s.id)
		s.f.canon(&b)
	}
	return b.String()
}

// ---------------------------------------------------------------------------
// Operations.

const (
	c13kAddBal = iota
	c13kSubBal
	c13kSetNonce
	c13kSetCode
	c13kSetState
	c13kCreateAccount
	c13kCreateContract
	c13kSelfDestruct
	c13kTransient
	c13kALAddr
	c13kALSlot
	c13kAddRefund
	c13kSubRefund
	c13kAddLog
	c13kSnapshot
	c13kRevert
	c13kEndTx
	c13kEndTxRoot
	c13kReadAll
	c13kGetState
	c13kTouch
)

type c13Op struct {
	kind int
	a, s int
	v    uint64
}

func (o c13Op) String() string {
	an := c13AddrNames[o.a]
	switch o.kind {
	case c13kAddBal:
		return fmt.Sprintf("AddBalance(%s,%d)", an, o.v)
	case c13kSubBal:
		return fmt.Sprintf("SubBalance(%s,%d)", an, o.v)
	case c13kSetNonce:
		return fmt.Sprintf("SetNonce(%s,%d)", an, o.v)
	case c13kSetCode:
		return fmt.Sprintf("SetCode(%s,c%d)", an, o.v)
	case c13kSetState:
		return fmt.Sprintf("SetState(%s,s%d,%d)", an, o.s, o.v)
	case c13kCreateAccount:
		return fmt.Sprintf("CreateAccount(%s)", an)
	case c13kCreateContract:
		return fmt.Sprintf("CreateContract(%s)", an)
	case c13kSelfDestruct:
		return fmt.Sprintf("SelfDestruct(%s)", an)
	case c13kTransient:
		return fmt.Sprintf("SetTransientState(%s,s%d,%d)", an, o.s, o.v)
	case c13kALAddr:
		return fmt.Sprintf("AddAddressToAccessList(%s)", an)
	case c13kALSlot:
		return fmt.Sprintf("AddSlotToAccessList(%s,s%d)", an, o.s)
	case c13kAddRefund:
		return fmt.Sprintf("AddRefund(%d)", o.v)
	case c13kSubRefund:
		return fmt.Sprintf("SubRefund(%d)", o.v)
	case c13kAddLog:
		return "AddLog"
	case c13kSnapshot:
		return "Snapshot"
	case c13kRevert:
		return fmt.Sprintf("RevertToSnapshot(%d)", o.v)
	case c13kEndTx:
		return "EndTx"
	case c13kEndTxRoot:
		return "EndTxRoot"
	case c13kReadAll:
		return "ReadAll"
	case c13kGetState:
		return fmt.Sprintf("GetState(%s,s%d)", an, o.s)
	case c13kTouch:
		return fmt.Sprintf("Touch(%s)", an)
	}
	return "?"
}

// c13Base is a committed start state shared (read-only) by all instances of a configuration.
type c13Base struct {
	name  string
	accts map[int]c13Acct
	db    Database
	root  common.Hash
}

func c13BuildBase(name string, accts map[int]c13Acct) (*c13Base, error) {
	b := &c13Base{name: name, accts: accts, db: NewDatabaseForTesting(), root: types.EmptyRootHash}
	if len(accts) == 0 {
		return b, nil
	}
	s, err := New(types.EmptyRootHash, b.db)
	if err != nil {
		return nil, err
	}
	for a, acc := range accts {
		addr := c13Addrs[a]
		s.CreateAccount(addr)
		if acc.bal != 0 {
			s.SetBalance(addr, uint256.NewInt(acc.bal), tracing.BalanceChangeUnspecified)
		}
		if acc.nonce != 0 {
			s.SetNonce(addr, acc.nonce, tracing.NonceChangeUnspecified)
		}
		if acc.code != 0 {
			s.SetCode(addr, c13Codes[acc.code], tracing.CodeChangeUnspecified)
		}
		for i, v := range acc.stor {
			if v != 0 {
				s.SetState(addr, c13Slots[i], c13Val(v))
			}
		}
	}
	// committed with pre-EIP-158 rules so that empty accounts stay in the trie
	root, err := s.Commit(params.Rules{}, 0)
	if err != nil {
		return nil, err
	}
	b.root = root
	return b, nil
}

type c13Sys struct {
	r    *mc.R
	ru   *c13Rules
	ops  []c13Op
	s    *StateDB
	m    *c13Model
	last string // outcome class of the last applied op
	// armed: mc.Explore calls Enabled(op) exactly once, immediately before the one new transition of a
	// sequence (and before every op when replaying a counterexample); the prefix that leads to the state is
	// re-applied without it. The prefix was fully observed when it was itself the new transition, so the
	// (expensive) getter sweep is only made for armed applications. c13Observed/c13Applied guard the wiring.
	armed bool
	// lastBAL is the value returned by the last Finalise (used by the C15 harness, which builds on this system).
	lastBAL *bal.ConstructionBlockAccessList
}

var c13Observed, c13Armed atomic.Int64

func c13NewSys(r *mc.R, ru *c13Rules, base *c13Base, ops []c13Op) *c13Sys {
	s, err := New(base.root, base.db)
	if err != nil {
		panic(err)
	}
	x := &c13Sys{r: r, ru: ru, ops: ops, s: s, m: c13NewModel(ru, base.accts), last: "initial"}
	// transaction 0 starts
	x.startTx()
	return x
}

func (x *c13Sys) startTx() {
	x.s.SetTxContext(c13TxHash(x.m.tx), x.m.tx, uint32(x.m.tx+1))
	x.s.Prepare(x.ru.rules, c13Addrs[c13B], c13Addrs[c13B], nil, nil, nil)
	x.m.prepare()
}

func (x *c13Sys) Enabled(i int) bool {
	en := x.enabled(i)
	if en {
		x.armed = true
		c13Armed.Add(1)
	}
	return en
}

func (x *c13Sys) enabled(i int) bool {
	o := x.ops[i]
	acc := x.m.f.accts[o.a]
	switch o.kind {
	case c13kSubBal:
		// the EVM checks CanTransfer before debiting
		return acc != nil && acc.bal >= o.v || o.v == 0
	case c13kCreateAccount:
		// documented contract: only for accounts that do not exist
		return acc == nil
	case c13kCreateContract:
		// the EVM only reaches CreateContract for an existing object that passed the collision check
		// (nonce 0, no code; accounts with storage but neither nonce nor code do not exist, EIP-7610)
		// and the EVM always mutates the account in the same transaction (CreateAccount before, or the nonce
		// bump / value transfer): here the account must already carry a live mutation of this transaction.
		return acc != nil && acc.nonce == 0 && acc.code == 0 && acc.stor == [2]uint8{} && acc.orig == [2]uint8{} && x.m.f.touched[o.a]
	case c13kSelfDestruct:
		if x.ru.sd6780 {
			return acc != nil && acc.newContract
		}
		return true
	case c13kSubRefund:
		return x.m.f.refund >= o.v
	case c13kRevert:
		for _, s := range x.m.snaps {
			if s.id == int(o.v) {
				return true
			}
		}
		return false
	}
	return true
}

func (x *c13Sys) Apply(i int) error {
	err := x.apply(i)
	x.armed = false
	return err
}

func (x *c13Sys) apply(i int) error {
	o := x.ops[i]
	x.last = "op"
	s, m := x.s, x.m
	addr := c13Addrs[o.a]
	switch o.kind {
	case c13kAddBal:
		s.AddBalance(addr, uint256.NewInt(o.v), tracing.BalanceChangeUnspecified)
		acc := m.getOrNew(o.a)
		if o.v == 0 {
			if acc.empty() {
				m.f.touched[o.a] = true
				if o.a == c13R {
					m.sticky = true
				}
			}
		} else {
			acc.bal += o.v
			m.f.touched[o.a] = true
		}
	case c13kSubBal:
		s.SubBalance(addr, uint256.NewInt(o.v), tracing.BalanceChangeUnspecified)
		acc := m.getOrNew(o.a)
		if o.v != 0 {
			acc.bal -= o.v
			m.f.touched[o.a] = true
		}
	case c13kSetNonce:
		s.SetNonce(addr, o.v, tracing.NonceChangeUnspecified)
		m.getOrNew(o.a).nonce = o.v
		m.f.touched[o.a] = true
	case c13kSetCode:
		// no read before the write: SetCode on code that has not been loaded yet is part of the space
		s.SetCode(addr, c13Codes[o.v], tracing.CodeChangeUnspecified)
		m.getOrNew(o.a).code = int(o.v)
		m.f.touched[o.a] = true
	case c13kSetState:
		prev := s.SetState(addr, c13Slots[o.s], c13Val(uint8(o.v)))
		acc := m.getOrNew(o.a)
		if prev != c13Val(acc.stor[o.s]) {
			return fmt.Errorf("SetState returned previous value %x, model %d", prev, acc.stor[o.s])
		}
		if acc.stor[o.s] != uint8(o.v) {
			acc.stor[o.s] = uint8(o.v)
			m.f.touched[o.a] = true
		}
	case c13kCreateAccount:
		s.CreateAccount(addr)
		m.f.accts[o.a] = &c13Acct{}
		m.f.touched[o.a] = true
	case c13kCreateContract:
		s.CreateContract(addr)
		m.f.accts[o.a].newContract = true
	case c13kSelfDestruct:
		s.SelfDestruct(addr)
		if acc := m.f.accts[o.a]; acc != nil && !acc.selfDestructed {
			acc.selfDestructed = true
			m.f.touched[o.a] = true
		}
	case c13kTransient:
		s.SetTransientState(addr, c13Slots[o.s], c13Val(uint8(o.v)))
		if o.v == 0 {
			delete(m.f.transient, [2]int{o.a, o.s})
		} else {
			m.f.transient[[2]int{o.a, o.s}] = uint8(o.v)
		}
	case c13kALAddr:
		s.AddAddressToAccessList(addr)
		m.f.alAddr[o.a] = true
	case c13kALSlot:
		s.AddSlotToAccessList(addr, c13Slots[o.s])
		m.f.alAddr[o.a] = true
		m.f.alSlot[[2]int{o.a, o.s}] = true
	case c13kAddRefund:
		s.AddRefund(o.v)
		m.f.refund += o.v
	case c13kSubRefund:
		s.SubRefund(o.v)
		m.f.refund -= o.v
	case c13kAddLog:
		s.AddLog(&types.Log{Address: c13Addrs[c13A], Data: []byte{byte(len(m.f.logs))}})
		m.f.logs = append(m.f.logs, c13Log{tx: m.tx, index: len(m.f.logs)})
	case c13kSnapshot:
		id := s.Snapshot()
		if id != m.nextID {
			return fmt.Errorf("Snapshot returned id %d, model expects %d", id, m.nextID)
		}
		m.snaps = append(m.snaps, c13Snap{id: id, f: m.f.copy()})
		m.nextID++
		x.last = "snapshot"
	case c13kRevert:
		s.RevertToSnapshot(int(o.v))
		for k, sn := range m.snaps {
			if sn.id == int(o.v) {
				m.f = sn.f
				m.snaps = m.snaps[:k]
				break
			}
		}
		x.last = "revert"
	case c13kEndTx, c13kEndTxRoot:
		var got common.Hash
		if o.kind == c13kEndTx {
			x.lastBAL = s.Finalise(x.ru.rules)
		} else {
			got = s.IntermediateRoot(x.ru.rules)
		}
		del := m.finalise()
		if o.kind == c13kEndTxRoot {
			if want := m.root(); got != want {
				return fmt.Errorf("IntermediateRoot = %x, root of the model accounts = %x (model %s)", got, want, m.canon())
			}
		}
		// observe the finalised-but-not-yet-prepared state as well
		if err := x.observe(false); err != nil {
			return fmt.Errorf("after finalise, before the next Prepare: %v", err)
		}
		m.tx++
		x.startTx()
		x.last = "endtx"
		if del > 0 {
			x.last = "endtx-with-account-deletion"
		}
	case c13kReadAll:
		x.last = "readall"
		return x.observe(true)
	case c13kGetState:
		got := s.GetState(addr, c13Slots[o.s])
		want := uint8(0)
		if acc := m.f.accts[o.a]; acc != nil {
			want = acc.stor[o.s]
		}
		if got != c13Val(want) {
			return fmt.Errorf("GetState(%s,s%d) = %x, model %d", c13AddrNames[o.a], o.s, got, want)
		}
	case c13kTouch:
		s.Touch(addr)
	}
	return x.observe(false)
}

// observe compares every getter with the model. live=false runs the sweep on a
// deep copy so that the caches of the object under test stay as the operations
// left them; the observations that do not populate any cache are made on the
// live object in both modes.
func (x *c13Sys) observe(live bool) error {
	if !x.armed {
		if live {
			// keep the cache-warming effect of ReadAll in replayed prefixes
			return c13Compare(x.s, x.m, true)
		}
		return nil
	}
	c13Observed.Add(1)
	if err := x.s.Error(); err != nil {
		return fmt.Errorf("memoised database error: %v", err)
	}
	if err := c13Compare(x.s, x.m, false); err != nil {
		return err
	}
	t := x.s
	if !live {
		t = x.s.Copy()
	}
	if err := c13Compare(t, x.m, true); err != nil {
		if !live {
			return fmt.Errorf("(on Copy) %v", err)
		}
		return err
	}
	if err := t.Error(); err != nil {
		return fmt.Errorf("memoised database error after reads: %v", err)
	}
	return nil
}

func c13Compare(s *StateDB, m *c13Model, accounts bool) error {
	f := m.f
	if !accounts {
		if got := s.GetRefund(); got != f.refund {
			return fmt.Errorf("GetRefund = %d, model %d", got, f.refund)
		}
		logs := s.Logs()
		if len(logs) != len(f.logs) {
			return fmt.Errorf("len(Logs()) = %d, model %d", len(logs), len(f.logs))
		}
		perTx := map[int]int{}
		for i, l := range logs {
			ml := f.logs[i]
			if int(l.Index) != ml.index || int(l.TxIndex) != ml.tx || l.TxHash != c13TxHash(ml.tx) || len(l.Data) != 1 || int(l.Data[0]) != ml.index {
				return fmt.Errorf("Logs()[%d] = {index %d, tx %d, hash %x, data %x}, model {index %d, tx %d}", i, l.Index, l.TxIndex, l.TxHash, l.Data, ml.index, ml.tx)
			}
			perTx[ml.tx]++
		}
		for tx := 0; tx <= m.tx; tx++ {
			if got := len(s.GetLogs(c13TxHash(tx), 1, common.Hash{}, 0)); got != perTx[tx] {
				return fmt.Errorf("len(GetLogs(tx %d)) = %d, model %d", tx, got, perTx[tx])
			}
		}
		for a := 0; a < 3; a++ {
			if got := s.AddressInAccessList(c13Addrs[a]); got != f.alAddr[a] {
				return fmt.Errorf("AddressInAccessList(%s) = %v, model %v", c13AddrNames[a], got, f.alAddr[a])
			}
			for sl := 0; sl < 2; sl++ {
				ga, gs := s.SlotInAccessList(c13Addrs[a], c13Slots[sl])
				if ga != f.alAddr[a] || gs != f.alSlot[[2]int{a, sl}] {
					return fmt.Errorf("SlotInAccessList(%s,s%d) = %v,%v, model %v,%v", c13AddrNames[a], sl, ga, gs, f.alAddr[a], f.alSlot[[2]int{a, sl}])
				}
				if got, want := s.GetTransientState(c13Addrs[a], c13Slots[sl]), c13Val(f.transient[[2]int{a, sl}]); got != want {
					return fmt.Errorf("GetTransientState(%s,s%d) = %x, model %x", c13AddrNames[a], sl, got, want)
				}
			}
		}
		return nil
	}
	for a := 0; a < 3; a++ {
		addr, an := c13Addrs[a], c13AddrNames[a]
		acc := f.accts[a]
		if got := s.Exist(addr); got != (acc != nil) {
			return fmt.Errorf("Exist(%s) = %v, model %v", an, got, acc != nil)
		}
		if got, want := s.Empty(addr), acc == nil || acc.empty(); got != want {
			return fmt.Errorf("Empty(%s) = %v, model %v", an, got, want)
		}
		var z c13Acct
		wantHash := common.Hash{}
		if acc != nil {
			z = *acc
			wantHash = crypto.Keccak256Hash(c13Codes[acc.code])
		}
		if got := s.GetBalance(addr); !got.IsUint64() || got.Uint64() != z.bal {
			return fmt.Errorf("GetBalance(%s) = %v, model %d", an, got, z.bal)
		}
		if got := s.GetNonce(addr); got != z.nonce {
			return fmt.Errorf("GetNonce(%s) = %d, model %d", an, got, z.nonce)
		}
		if got := s.GetCodeHash(addr); got != wantHash {
			return fmt.Errorf("GetCodeHash(%s) = %x, model %x (code c%d)", an, got, wantHash, z.code)
		}
		if got := s.GetCodeSize(addr); got != len(c13Codes[z.code]) {
			return fmt.Errorf("GetCodeSize(%s) = %d, model %d", an, got, len(c13Codes[z.code]))
		}
		if got := s.GetCode(addr); !bytes.Equal(got, c13Codes[z.code]) {
			return fmt.Errorf("GetCode(%s) = %x, model %x", an, got, c13Codes[z.code])
		}
		if got := s.HasSelfDestructed(addr); got != z.selfDestructed {
			return fmt.Errorf("HasSelfDestructed(%s) = %v, model %v", an, got, z.selfDestructed)
		}
		if got := s.IsNewContract(addr); got != z.newContract {
			return fmt.Errorf("IsNewContract(%s) = %v, model %v", an, got, z.newContract)
		}
		for sl := 0; sl < 2; sl++ {
			// alternate the order of the two storage getters between the slots
			if sl == 0 {
				if got := s.GetState(addr, c13Slots[sl]); got != c13Val(z.stor[sl]) {
					return fmt.Errorf("GetState(%s,s%d) = %x, model %d", an, sl, got, z.stor[sl])
				}
			}
			if got := s.GetCommittedState(addr, c13Slots[sl]); got != c13Val(z.orig[sl]) {
				return fmt.Errorf("GetCommittedState(%s,s%d) = %x, model %d", an, sl, got, z.orig[sl])
			}
			cur, orig := s.GetStateAndCommittedState(addr, c13Slots[sl])
			if cur != c13Val(z.stor[sl]) || orig != c13Val(z.orig[sl]) {
				return fmt.Errorf("GetStateAndCommittedState(%s,s%d) = %x,%x, model %d,%d", an, sl, cur, orig, z.stor[sl], z.orig[sl])
			}
			if sl == 1 {
				if got := s.GetState(addr, c13Slots[sl]); got != c13Val(z.stor[sl]) {
					return fmt.Errorf("GetState(%s,s%d) = %x, model %d", an, sl, got, z.stor[sl])
				}
			}
		}
	}
	return nil
}

// Key = model state + white-box fingerprint of the journal, the mutation
// tracking, the per-object storage layers and the destruct/mutation sets,
// compressed to 128 bits to bound the memory of the visited set.
func (x *c13Sys) Key() string {
	x.r.Outcome(x.last)
	var b strings.Builder
	b.WriteString(x.m.canon())
	b.WriteString("#")
	c13Fingerprint(x.s, &b)
	h := sha256.Sum256([]byte(b.String()))
	return hex.EncodeToString(h[:16])
}

func c13SortedAddrs[V any](m map[common.Address]V) []common.Address {
	out := make([]common.Address, 0, len(m))
	for a := range m {
		out = append(out, a)
	}
	sort.Slice(out, func(i, j int) bool { return bytes.Compare(out[i][:], out[j][:]) < 0 })
	return out
}

func c13Storage(b *strings.Builder, tag string, st Storage) {
	if len(st) == 0 {
		return
	}
	keys := make([]common.Hash, 0, len(st))
	for k := range st {
		keys = append(keys, k)
	}
	sort.Slice(keys, func(i, j int) bool { return bytes.Compare(keys[i][:], keys[j][:]) < 0 })
	b.WriteString(tag)
	for _, k := range keys {
		fmt.Fprintf(b, "%x=%x,", k[31], st[k][31])
	}
}

func c13Fingerprint(s *StateDB, b *strings.Builder) {
	j := s.journal
	b.WriteString("J")
	for _, e := range j.entries {
		switch e.(type) {
		case createObjectChange:
			b.WriteByte('o')
		case createContractChange:
			b.WriteByte('k')
		case selfDestructChange:
			b.WriteByte('x')
		case balanceChange:
			b.WriteByte('b')
		case nonceChange:
			b.WriteByte('n')
		case storageChange:
			b.WriteByte('s')
		case codeChange:
			b.WriteByte('c')
		case refundChange:
			b.WriteByte('r')
		case addLogChange:
			b.WriteByte('l')
		case touchChange:
			b.WriteByte('t')
		case accessListAddAccountChange:
			b.WriteByte('a')
		case accessListAddSlotChange:
			b.WriteByte('q')
		case transientStorageChange:
			b.WriteByte('z')
		default:
			fmt.Fprintf(b, "%T", e)
		}
	}
	fmt.Fprintf(b, ";rev%v/%d;", j.validRevisions, j.nextRevisionId)
	for _, a := range c13SortedAddrs(j.mutations) {
		st := j.mutations[a]
		fmt.Fprintf(b, "m%x:%v,%v,%v,%v/%v,%v/%x;", a[19], st.counts, st.balanceSet, st.balance, st.nonceSet, st.nonce, st.codeSet, st.code)
	}
	for _, a := range c13SortedAddrs(s.stateObjects) {
		o := s.stateObjects[a]
		fmt.Fprintf(b, "O%x:%v,%d,%v,%x,%x,%d,%v,%v,%v,%v;", a[19], o.origin == nil, o.data.Nonce, o.data.Balance, o.data.Root[:4], o.data.CodeHash[:4],
			len(o.code), o.dirtyCode, o.selfDestructed, o.newContract, o.trie != nil)
		c13Storage(b, "og", o.originStorage)
		c13Storage(b, "di", o.dirtyStorage)
		c13Storage(b, "pe", o.pendingStorage)
		c13Storage(b, "un", o.uncommittedStorage)
	}
	for _, a := range c13SortedAddrs(s.stateObjectsDestruct) {
		fmt.Fprintf(b, "D%x;", a[19])
	}
	for _, a := range c13SortedAddrs(s.mutations) {
		fmt.Fprintf(b, "M%x:%d,%v;", a[19], s.mutations[a].typ, s.mutations[a].applied)
	}
	fmt.Fprintf(b, "rf%d,ls%d,tx%d,%x,t%v;", s.refund, s.logSize, s.txIndex, s.thash[:2], s.trie != nil)
	for _, a := range c13SortedAddrs(s.accessList.addresses) {
		fmt.Fprintf(b, "al%x:%d;", a[19], s.accessList.addresses[a])
	}
	fmt.Fprintf(b, "sl%d;ts%d;bal%v", len(s.accessList.slots), len(s.transientStorage), s.stateAccessList != nil)
}

// ---------------------------------------------------------------------------
// Alphabets.

func c13AcctOps(wide bool) []c13Op {
	var ops []c13Op
	for _, a := range []int{c13A, c13B} {
		ops = append(ops,
			c13Op{kind: c13kAddBal, a: a, v: 1},
			c13Op{kind: c13kAddBal, a: a, v: 0},
			c13Op{kind: c13kSubBal, a: a, v: 1},
			c13Op{kind: c13kSetNonce, a: a, v: 1},
			c13Op{kind: c13kSetCode, a: a, v: 2},
			c13Op{kind: c13kSetState, a: a, s: 0, v: 1},
			c13Op{kind: c13kSetState, a: a, s: 0, v: 0},
			c13Op{kind: c13kCreateAccount, a: a},
			c13Op{kind: c13kCreateContract, a: a},
			c13Op{kind: c13kSelfDestruct, a: a},
		)
		if wide {
			ops = append(ops,
				c13Op{kind: c13kSubBal, a: a, v: 0},
				c13Op{kind: c13kSetNonce, a: a, v: 0},
				c13Op{kind: c13kSetCode, a: a, v: 0},
				c13Op{kind: c13kSetCode, a: a, v: 1},
				c13Op{kind: c13kSetState, a: a, s: 0, v: 2},
				c13Op{kind: c13kSetState, a: a, s: 1, v: 2},
				c13Op{kind: c13kSetState, a: a, s: 1, v: 0},
			)
		}
	}
	ops = append(ops, c13Op{kind: c13kAddBal, a: c13R, v: 0})
	if wide {
		ops = append(ops,
			c13Op{kind: c13kAddBal, a: c13R, v: 1},
			c13Op{kind: c13kGetState, a: c13A, s: 0},
			c13Op{kind: c13kTouch, a: c13A},
			c13Op{kind: c13kRevert, v: 2},
		)
	}
	ops = append(ops,
		c13Op{kind: c13kSnapshot},
		c13Op{kind: c13kRevert, v: 0},
		c13Op{kind: c13kRevert, v: 1},
		c13Op{kind: c13kEndTx},
		c13Op{kind: c13kEndTxRoot},
		c13Op{kind: c13kReadAll},
	)
	return ops
}

// c13AcctCoreOps is the two-account alphabet with the full operation set on A but only the balance, touch,
// storage and self-destruct operations on B; used for the deepest breadth run of the quick tier (the full
// alphabet runs one level shallower, the single-account families deeper).
func c13AcctCoreOps() []c13Op {
	var ops []c13Op
	for _, o := range c13AcctOps(false) {
		if o.a == c13B {
			switch {
			case o.kind == c13kAddBal, o.kind == c13kSelfDestruct, o.kind == c13kSetState && o.v == 1:
			default:
				continue
			}
		}
		ops = append(ops, o)
	}
	return ops
}

func c13AuxOps() []c13Op {
	return []c13Op{
		{kind: c13kTransient, a: c13A, s: 0, v: 1},
		{kind: c13kTransient, a: c13A, s: 0, v: 0},
		{kind: c13kALAddr, a: c13A},
		{kind: c13kALSlot, a: c13A, s: 0},
		{kind: c13kALSlot, a: c13B, s: 0},
		{kind: c13kALSlot, a: c13B, s: 1},
		{kind: c13kAddRefund, v: 1},
		{kind: c13kSubRefund, v: 1},
		{kind: c13kAddLog},
		{kind: c13kAddBal, a: c13A, v: 1},
		{kind: c13kSetState, a: c13A, s: 0, v: 2},
		{kind: c13kSnapshot},
		{kind: c13kRevert, v: 0},
		{kind: c13kRevert, v: 1},
		{kind: c13kEndTx},
	}
}

// c13DeepOps: everything that can happen to one account, for longer histories.
func c13DeepOps(a int, wide bool) []c13Op {
	ops := []c13Op{
		{kind: c13kAddBal, a: a, v: 0},
		{kind: c13kAddBal, a: a, v: 1},
		{kind: c13kSubBal, a: a, v: 1},
		{kind: c13kSetNonce, a: a, v: 1},
		{kind: c13kSetState, a: a, s: 0, v: 1},
		{kind: c13kSetState, a: a, s: 0, v: 0},
		{kind: c13kCreateContract, a: a},
		{kind: c13kSelfDestruct, a: a},
	}
	if wide {
		ops = append(ops,
			c13Op{kind: c13kSetCode, a: a, v: 2},
			c13Op{kind: c13kSetNonce, a: a, v: 0},
			c13Op{kind: c13kSetCode, a: a, v: 0},
			c13Op{kind: c13kSetState, a: a, s: 1, v: 0},
			c13Op{kind: c13kSetState, a: a, s: 1, v: 1},
			c13Op{kind: c13kCreateAccount, a: a},
			c13Op{kind: c13kGetState, a: a, s: 0},
			c13Op{kind: c13kRevert, v: 2},
		)
	}
	return append(ops,
		c13Op{kind: c13kSnapshot},
		c13Op{kind: c13kRevert, v: 0},
		c13Op{kind: c13kRevert, v: 1},
		c13Op{kind: c13kEndTx},
		c13Op{kind: c13kEndTxRoot},
		c13Op{kind: c13kReadAll},
	)
}

// c13SlotOps: long multi-transaction histories of storage slots of one account. Every value of {0,1,2} can be
// written to slot s0 in every transaction, and each transaction is closed either by Finalise only (EndTx, the
// post-Byzantium flow) or by IntermediateRoot on the live object (EndTxRoot, the pre-Byzantium flow; flushes
// pending storage into the storage trie and clears the uncommitted markers), freely mixed in one history, so
// that change -> change -> restore-to-an-intermediate-value across three and more transactions with a root
// anywhere in between is covered. wide adds the second slot, snapshots and the cold/warm reads.
func c13SlotOps(a int, wide bool) []c13Op {
	ops := []c13Op{
		{kind: c13kSetState, a: a, s: 0, v: 0},
		{kind: c13kSetState, a: a, s: 0, v: 1},
		{kind: c13kSetState, a: a, s: 0, v: 2},
	}
	if wide {
		ops = append(ops,
			c13Op{kind: c13kSetState, a: a, s: 1, v: 0},
			c13Op{kind: c13kSetState, a: a, s: 1, v: 1},
			c13Op{kind: c13kGetState, a: a, s: 0},
			c13Op{kind: c13kSnapshot},
			c13Op{kind: c13kRevert, v: 0},
			c13Op{kind: c13kReadAll},
		)
	}
	return append(ops,
		c13Op{kind: c13kEndTx},
		c13Op{kind: c13kEndTxRoot},
	)
}

// c13ResurrectOps: destruction and re-creation of a committed contract with two slots inside one block, with
// writes to either slot of the new incarnation and both kinds of transaction end (Finalise only / live
// IntermediateRoot) anywhere in between: the storage of the previous incarnation must never be visible again,
// neither for slots the new incarnation has written nor for slots it has not touched, also after its storage
// trie has been created by an intermediate root. AddBalance keeps the re-created account alive under EIP-158.
func c13ResurrectOps(a int, wide bool) []c13Op {
	ops := []c13Op{
		{kind: c13kSelfDestruct, a: a},
		{kind: c13kAddBal, a: a, v: 1},
		{kind: c13kSetState, a: a, s: 0, v: 2},
		{kind: c13kSetState, a: a, s: 1, v: 1},
	}
	if wide {
		ops = append(ops,
			c13Op{kind: c13kSetState, a: a, s: 0, v: 0},
			c13Op{kind: c13kSetState, a: a, s: 1, v: 0},
			c13Op{kind: c13kSetState, a: a, s: 1, v: 2},
			c13Op{kind: c13kSetNonce, a: a, v: 1},
			c13Op{kind: c13kGetState, a: a, s: 1},
			c13Op{kind: c13kSnapshot},
			c13Op{kind: c13kRevert, v: 0},
			c13Op{kind: c13kReadAll},
		)
	}
	return append(ops,
		c13Op{kind: c13kEndTx},
		c13Op{kind: c13kEndTxRoot},
	)
}

func c13Names(ops []c13Op) []string {
	out := make([]string, len(ops))
	for i, o := range ops {
		out[i] = o.String()
	}
	return out
}

// start states (committed with pre-EIP-158 rules, so empty accounts can exist):
// "contract": A = contract with code, nonce, balance and both slots set, B and R = empty accounts left over from
// before EIP-158; "funded": A = balance-only (pre-funded address), B and R absent; "empty": nothing.
var c13Starts = map[string]map[int]c13Acct{
	"empty":    {},
	"contract": {c13A: {nonce: 1, bal: 1, code: 1, stor: [2]uint8{1, 2}}, c13B: {}, c13R: {}},
	"funded":   {c13A: {bal: 2}},
}

func c13Explore(r *mc.R, family string, ru *c13Rules, start string, ops []c13Op, depth int) {
	base, err := c13BuildBase(start, c13Starts[start])
	if err != nil {
		r.Violation("base:"+start, "cannot build committed start state: "+err.Error(), nil)
		return
	}
	// sanity: the committed root of the start state equals the model root
	r.Case(map[string]any{"start_state_root": start}, func() error {
		if want := c13NewModel(ru, base.accts).root(); want != base.root {
			return fmt.Errorf("Commit root %x of start state %q differs from model root %x", base.root, start, want)
		}
		return nil
	})
	before := c13Observed.Load()
	defer func() {
		r.Bound(fmt.Sprintf("%s/%s/%s.transitions", family, ru.name, start), c13Observed.Load()-before)
	}()
	r.Explore(mc.Config{
		Name:  fmt.Sprintf("%s/%s/%s", family, ru.name, start),
		Ops:   c13Names(ops),
		Depth: depth,
		New:   func() mc.Sys { return c13NewSys(r, ru, base, ops) },
	})
}

func TestVerif_C13(t *testing.T) {
	mc.Run(t, "C13", func(r *mc.R) {
		r.Rule("BFS over all sequences of StateDB operations (balance/nonce/code/storage writes, account and contract creation, self-destruct, " +
			"snapshot, revert to every live id, end of transaction by Finalise or IntermediateRoot followed by SetTxContext+Prepare, cold and warm reads) " +
			"up to the depth bound, per fork rule set and committed start state; a state is distinct when model state + white-box fingerprint " +
			"(journal entries, revisions, journal.mutations counters and stashes, per-object origin/dirty/pending/uncommitted storage, destruct and mutation sets) differ")
		r.Assume("reference model = plain Go maps of accounts {nonce, balance, code, 2 slots, tx-start slot values, selfDestructed, newContract}, " +
			"deep-copied on Snapshot and restored on RevertToSnapshot; empty touched accounts removed at end of tx iff EIP-158; " +
			"self-destructed accounts removed at end of tx (Amsterdam: kept as balance-only account when balance != 0); RIPEMD-160 touch survives reverts")
		r.Assume("caller contract encoded in enabled(): CreateAccount only on non-existent accounts; CreateContract only on existing accounts with nonce 0, " +
			"no code and no storage (EVM collision check, EIP-7610); Amsterdam: SelfDestruct only on contracts created in the same transaction (EIP-6780, " +
			"enforced by the EVM); CreateContract only on accounts that already carry a mutation of the current transaction; SubBalance only with sufficient balance; SubRefund only with sufficient refund; RevertToSnapshot only to live ids")
		r.Assume("the Cancun rule set is the berlin rule set restricted by the EIP-6780 caller contract (StateDB.Finalise does not read IsCancun), " +
			"hence a sub-space of the explored berlin space")
		r.Assume("model state root = StackTrie over keccak(address) -> RLP(nonce, balance, storageRoot, codeHash) with storageRoot = StackTrie over keccak(slot) -> RLP(value)")
		r.Assume("visited-set keys are SHA-256/128 digests of the canonical state string")
		c13Observed.Store(0)
		c13Armed.Store(0)
		defer func() {
			r.Bound("observed_transitions", c13Observed.Load())
			if !r.Replaying() && c13Observed.Load() < c13Armed.Load() {
				r.Violation("harness-wiring", fmt.Sprintf("only %d of %d new transitions were observed", c13Observed.Load(), c13Armed.Load()), nil)
			}
		}()
		pre158, berlin, amsterdam := &c13RuleSets[0], &c13RuleSets[1], &c13RuleSets[2]
		if r.Quick() {
			r.Bound("acct_depth", 4)
			r.Bound("acct_depth_pre158_amsterdam", 3)
			r.Bound("deep_depth", 5)
			r.Bound("aux_depth", 4)
			// refund, logs, transient storage, access list under snapshots
			c13Explore(r, "aux", berlin, "contract", c13AuxOps(), 4)
			// storage layers over many transactions, Finalise-only and live-IntermediateRoot transaction ends mixed
			r.Bound("slot_depth", 10)
			r.Bound("slot_wide_depth", 5)
			c13Explore(r, "slot", pre158, "contract", c13SlotOps(c13A, false), 10)
			c13Explore(r, "slot", berlin, "contract", c13SlotOps(c13A, false), 10)
			c13Explore(r, "slot", amsterdam, "funded", c13SlotOps(c13A, false), 10)
			c13Explore(r, "slotwide", berlin, "contract", c13SlotOps(c13A, true), 5)
			// destruct / resurrect of a contract with two committed slots, roots in between (real self-destruct rules)
			r.Bound("resurrect_depth", 7)
			c13Explore(r, "resurrect", pre158, "contract", c13ResurrectOps(c13A, false), 7)
			c13Explore(r, "resurrect", berlin, "contract", c13ResurrectOps(c13A, false), 7)
			// depth: one account, longer histories (journal counters, snapshot stacks, several transactions)
			c13Explore(r, "deepB", berlin, "contract", c13DeepOps(c13B, false), 5)
			c13Explore(r, "deepA", amsterdam, "funded", c13DeepOps(c13A, false), 5)
			// breadth: two accounts + RIPEMD, all account operations
			c13Explore(r, "acct", pre158, "contract", c13AcctOps(false), 3)
			c13Explore(r, "acct", amsterdam, "funded", c13AcctOps(false), 3)
			c13Explore(r, "acct", berlin, "contract", c13AcctOps(false), 3)
			c13Explore(r, "acctcore", berlin, "contract", c13AcctCoreOps(), 4)
			return
		}
		r.Bound("acct_depth", 5)
		r.Bound("acct_wide_depth", 4)
		r.Bound("deep_depth", 6)
		r.Bound("deep_wide_depth", 5)
		r.Bound("aux_depth", 5)
		all := []*c13Rules{berlin, amsterdam, pre158}
		r.Bound("slot_depth", 12)
		r.Bound("slot_wide_depth", 8)
		r.Bound("resurrect_depth", 9)
		r.Bound("resurrect_wide_depth", 6)
		for _, ru := range []*c13Rules{berlin, pre158} {
			c13Explore(r, "resurrect", ru, "contract", c13ResurrectOps(c13A, false), 9)
			c13Explore(r, "resurrectwide", ru, "contract", c13ResurrectOps(c13A, true), 6)
		}
		for _, ru := range all {
			c13Explore(r, "slot", ru, "contract", c13SlotOps(c13A, false), 12)
			c13Explore(r, "slot", ru, "funded", c13SlotOps(c13A, false), 12)
			c13Explore(r, "slotwide", ru, "contract", c13SlotOps(c13A, true), 8)
		}
		// cheapest and deepest first, so that a run cut short by the budget has covered the long histories
		for _, ru := range all {
			c13Explore(r, "deepB", ru, "contract", c13DeepOps(c13B, false), 6)
			c13Explore(r, "deepA", ru, "contract", c13DeepOps(c13A, false), 6)
			c13Explore(r, "deepA", ru, "funded", c13DeepOps(c13A, false), 6)
			c13Explore(r, "aux", ru, "contract", c13AuxOps(), 5)
		}
		for _, ru := range all {
			c13Explore(r, "deepBwide", ru, "contract", c13DeepOps(c13B, true), 5)
			c13Explore(r, "deepAwide", ru, "funded", c13DeepOps(c13A, true), 5)
			for _, start := range []string{"contract", "funded", "empty"} {
				c13Explore(r, "acctwide", ru, start, c13AcctOps(true), 4)
			}
		}
		for _, ru := range all {
			for _, start := range []string{"contract", "funded"} {
				c13Explore(r, "acct", ru, start, c13AcctOps(false), 5)
			}
		}
	})
}
